"""Ranking / retrieval metrics: HitRate, ReciprocalRank (ordered cache of per-sample results),
ClickThroughRate, WeightedCalibration (additive), RetrievalPrecision, RetrievalRecall (pruned cache),
and the functional-only num_collisions, frequency_at_k, retrieval_precision, retrieval_recall.

ENTRIES    : the metric classes (picked up by every generic stream)
FN_ENTRIES : functional-only entries (no class; used by vlib/parts/C08_ranking.py only)
"""
from fractions import Fraction
import torch
from torcheval import metrics as M
from torcheval.metrics import functional as Fn
from torcheval.metrics.functional.ranking.retrieval_precision import retrieval_precision as fn_rprec
from torcheval.metrics.functional.ranking.retrieval_recall import retrieval_recall as fn_rrecall
from ..catalogue import Entry, tens, F
from ..compare import TOL32, impl_val

WEIGHTS = [F(1, 4), F(1, 2), F(1), F(2), F(3)]


# ------------------------------------------------------------------------------------------
# HitRate / ReciprocalRank
# ------------------------------------------------------------------------------------------
class _Rank(Entry):
    family = "ordered"
    order_free = False
    min_compute = 0
    DEN = 4
    class_spec_model = None      # spec model applied to ALL samples seen (C08 class-vs-definition)

    def configs(self, rng, quick=True):
        return [{"k": k} for k in (None, 1, 2, 3, 5, 8)]

    def kwargs(self, cfg):
        return {"k": cfg["k"]}

    def cfg_val(self, cfg):
        return cfg["k"]

    def gen_batch(self, rng, cfg, n):
        C = rng.choice([1, 2, 3, 3, 4, 6, 9])
        hi = rng.choice([1, 2, 4, 4, 8])          # few distinct values: heavy ties
        rows, tgt = [], []
        for _ in range(n):
            row = [rng.randint(0, hi) for _ in range(C)]
            t = rng.randrange(C)
            if C > 1 and rng.random() < 0.4:      # force a tie with the target's score
                j = rng.choice([x for x in range(C) if x != t])
                row[j] = row[t]
            rows.append(row)
            tgt.append(t)
        return {"rows": rows, "tgt": tgt, "C": C}

    def args(self, cfg, b):
        x = torch.tensor([[z / self.DEN for z in r] for r in b["rows"]], dtype=torch.float32).reshape(len(b["rows"]), b["C"])
        return (x, torch.tensor(b["tgt"], dtype=torch.int64)), {}

    def batch_val(self, cfg, b):
        return [[r, t] for r, t in zip(b["rows"], b["tgt"])]

    def concat(self, cfg, batches):
        if not batches:
            return None
        if len({b["C"] for b in batches}) != 1:
            return None
        return {"rows": sum((b["rows"] for b in batches), []), "tgt": sum((b["tgt"] for b in batches), []), "C": batches[0]["C"]}

    def samples(self, cfg, b):
        return [{"rows": [r], "tgt": [t], "C": b["C"]} for r, t in zip(b["rows"], b["tgt"])]

    def size(self, b):
        return len(b["rows"])

    def all_samples_val(self, cfg, batches):
        return [x for b in batches for x in self.batch_val(cfg, b)]


class HitRateE(_Rank):
    name, cls, model, fn_model, spec_model = "HitRate", M.HitRate, "rk_hitrate", "rk_hitrate_fn", "rk_hitrate_spec"
    class_spec_model = "rk_hitrate_spec"

    def functional(self, cfg, b):
        a, _ = self.args(cfg, b)
        return Fn.hit_rate(*a, k=cfg["k"])


class ReciprocalRankE(_Rank):
    name, cls, model, fn_model, spec_model = "ReciprocalRank", M.ReciprocalRank, "rk_rrank", "rk_rrank_fn", "rk_rrank_spec"
    class_spec_model = "rk_rrank_spec"

    def functional(self, cfg, b):
        a, _ = self.args(cfg, b)
        return Fn.reciprocal_rank(*a, k=cfg["k"])


# ------------------------------------------------------------------------------------------
# ClickThroughRate / WeightedCalibration
# ------------------------------------------------------------------------------------------
class _Tasks(Entry):
    family = "additive"
    min_compute = 0
    FIELDS = ("x",)

    def configs(self, rng, quick=True):
        return [{"num_tasks": t} for t in (1, 2, 3)]

    def cfg_val(self, cfg):
        return cfg["num_tasks"]

    def gen_rows(self, rng, cfg, n, field):
        raise NotImplementedError

    def gen_batch(self, rng, cfg, n):
        nt = cfg["num_tasks"]
        b = {f: self.gen_rows(rng, cfg, n, f) for f in self.FIELDS}
        b["wmode"] = rng.choice(["none", "scalar", "iscalar", "each"])
        if b["wmode"] == "scalar":
            b["w"] = rng.choice(WEIGHTS)
        elif b["wmode"] == "iscalar":
            b["w"] = F(rng.choice([1, 2, 3]))
        elif b["wmode"] == "each":
            b["ws"] = [[rng.choice(WEIGHTS) for _ in range(n)] for _ in range(nt)]
        return b

    def _t(self, cfg, rows):
        t = tens(rows, torch.float32)
        return t[0] if cfg["num_tasks"] == 1 else t

    def _w(self, cfg, b):
        if b["wmode"] == "none":
            return None
        if b["wmode"] == "scalar":
            return float(b["w"])
        if b["wmode"] == "iscalar":
            return int(b["w"])
        return self._t(cfg, b["ws"])

    def _wval(self, b):
        if b["wmode"] == "none":
            return F(1)
        if b["wmode"] in ("scalar", "iscalar"):
            return b["w"]
        return b["ws"]

    def concat(self, cfg, batches):
        nt = cfg["num_tasks"]
        out = {f: [[] for _ in range(nt)] for f in self.FIELDS}
        out["wmode"] = "each"
        out["ws"] = [[] for _ in range(nt)]
        for b in batches:
            n = self.size(b)
            for f in self.FIELDS:
                for i in range(nt):
                    out[f][i] = out[f][i] + b[f][i]
            for i in range(nt):
                out["ws"][i] = out["ws"][i] + (b["ws"][i] if b["wmode"] == "each" else [self._wval(b)] * n)
        return out

    def samples(self, cfg, b):
        c = self.concat(cfg, [b])
        nt = cfg["num_tasks"]
        out = []
        for j in range(self.size(b)):
            s = {f: [[c[f][i][j]] for i in range(nt)] for f in self.FIELDS}
            s["wmode"] = "each"
            s["ws"] = [[c["ws"][i][j]] for i in range(nt)]
            out.append(s)
        return out

    def size(self, b):
        return len(b[self.FIELDS[0]][0])

    # presentation: the class returns shape (num_tasks,), the functional a 0-dim tensor for num_tasks=1
    def out_val(self, r):
        v = impl_val(r)
        return v[0] if isinstance(v, list) and len(v) == 1 and not isinstance(v[0], list) else v

    fn_val = out_val


class ClickThroughRateE(_Tasks):
    name, cls, model, fn_model = "ClickThroughRate", M.ClickThroughRate, "rk_ctr", "rk_ctr_fn"
    class_spec_model = "rk_ctr_fn"     # definition = sum(w*x) / sum(w) on all samples (eps differs: 2^-126 vs 2^-1022)

    def gen_rows(self, rng, cfg, n, field):
        mode = rng.choice(["01", "01", "zeros", "ones", "grid"])
        def v():
            return {"01": F(rng.randint(0, 1)), "zeros": F(0), "ones": F(1), "grid": F(rng.randint(0, 8), 8)}[mode]
        return [[v() for _ in range(n)] for _ in range(cfg["num_tasks"])]

    def args(self, cfg, b):
        w = self._w(cfg, b)
        return (self._t(cfg, b["x"]),) + (() if w is None else (w,)), {}

    def batch_val(self, cfg, b):
        return [b["x"], self._wval(b)]

    def functional(self, cfg, b):
        a, _ = self.args(cfg, b)
        return Fn.click_through_rate(*a, num_tasks=cfg["num_tasks"])

    def all_samples_val(self, cfg, batches):
        return self.batch_val(cfg, self.concat(cfg, batches))


class WeightedCalibrationE(_Tasks):
    name, cls, model, fn_model = "WeightedCalibration", M.WeightedCalibration, "rk_wcal", "rk_wcal_fn"
    class_spec_model = "rk_wcal_fn"
    FIELDS = ("x", "y")

    def gen_rows(self, rng, cfg, n, field):
        if field == "x":
            if rng.random() < 0.15:      # nothing accumulated on the input side either
                return [[F(0)] * n for _ in range(cfg["num_tasks"])]
            return [[F(rng.randint(0, 8), 8) for _ in range(n)] for _ in range(cfg["num_tasks"])]
        mode = rng.choice(["01", "01", "01", "zeros", "ones"])
        def v():
            return {"01": F(rng.randint(0, 1)), "zeros": F(0), "ones": F(1)}[mode]
        return [[v() for _ in range(n)] for _ in range(cfg["num_tasks"])]

    def args(self, cfg, b):
        w = self._w(cfg, b)
        return (self._t(cfg, b["x"]), self._t(cfg, b["y"])) + (() if w is None else (w,)), {}

    def batch_val(self, cfg, b):
        return [b["x"], b["y"], self._wval(b)]

    def functional(self, cfg, b):
        a, _ = self.args(cfg, b)
        return Fn.weighted_calibration(*a, num_tasks=cfg["num_tasks"])

    def defined(self, cfg, batches):
        c = self.concat(cfg, batches)
        return self.size(c) > 0 and all(sum(w * y for w, y in zip(c["ws"][i], c["y"][i])) != 0 for i in range(cfg["num_tasks"]))

    def all_samples_val(self, cfg, batches):
        return self.batch_val(cfg, self.concat(cfg, batches))


# ------------------------------------------------------------------------------------------
# RetrievalPrecision / RetrievalRecall (classes)
# ------------------------------------------------------------------------------------------
ACTIONS = ["neg", "pos", "skip", "err"]
RDEN = 1024
_used_scores: set = set()


def fresh_scores(rng, n):
    """n pairwise distinct grid scores, distinct from every score handed out before in this
    process (tie-free across batches, objects and histories: torch.topk's tie order is unspecified)."""
    out = []
    while len(out) < n:
        z = rng.randint(-(2 ** 21), 2 ** 21)
        if z not in _used_scores:
            _used_scores.add(z)
            out.append(z)
    return out


def gen_labels(rng, n):
    mode = rng.choice(["zeros", "ones", "sparse", "mixed", "mixed", "dense"])
    p = {"zeros": 0.0, "ones": 1.0, "sparse": 0.15, "mixed": 0.5, "dense": 0.85}[mode]
    return [1 if rng.random() < p else 0 for _ in range(n)]


class _Retrieval(Entry):
    family = "pruned"
    # merged != single instance is a genuine defect here (merge_state concatenates without re-pruning
    # while compute() tests "1 not in target" / sums target on the un-pruned state); the generic
    # implementation-only tree stream cannot attribute it precisely, vlib/parts/C01_ranking.py does.
    merge_exact = False
    # class != functional(concatenation) is a genuine defect here too (D3/D4); the generic C03 stream
    # can only attribute by class name, vlib/parts/C03_ranking.py runs the same comparison and
    # attributes precisely (the functionals themselves are tied through FN_ENTRIES in C08).
    has_functional = False
    recall = False

    def configs(self, rng, quick=True):
        out = []
        for k, lim in [(None, False), (1, False), (2, False), (2, True), (3, False), (5, True), (8, False), (40, False), (40, True)]:
            out.append({"empty_target_action": rng.choice(ACTIONS), "k": k, "limit_k_to_size": lim,
                        "num_queries": rng.choice([1, 1, 2, 3, 4]), "avg": rng.choice([None, None, "none", "macro"])})
        for a in ACTIONS:
            out.append({"empty_target_action": a, "k": rng.choice([1, 2, 3]), "limit_k_to_size": rng.random() < 0.5,
                        "num_queries": rng.choice([1, 2, 4]), "avg": rng.choice([None, "macro"])})
        return out

    def cfg_val(self, cfg):
        return [ACTIONS.index(cfg["empty_target_action"]), cfg["k"], cfg["limit_k_to_size"], cfg["num_queries"],
                cfg["avg"] == "macro", RDEN]

    def gen_batch(self, rng, cfg, n):
        nq = cfg["num_queries"]
        b = {"z": fresh_scores(rng, n), "y": gen_labels(rng, n)}
        if nq > 1:
            qs = list(range(nq)) if rng.random() < 0.7 else rng.sample(range(nq), rng.randint(1, nq))
            b["ix"] = [rng.choice(qs) for _ in range(n)]
        elif rng.random() < 0.2:
            b["ix"] = [0] * n
        return b

    def args(self, cfg, b):
        x = torch.tensor([z / RDEN for z in b["z"]], dtype=torch.float32)
        y = torch.tensor(b["y"], dtype=torch.int64)
        if "ix" in b:
            return (x, y, torch.tensor(b["ix"], dtype=torch.int64)), {}
        return (x, y), {}

    def batch_val(self, cfg, b):
        return [b["z"], b["y"], b.get("ix")]

    def concat(self, cfg, batches):
        if not batches:
            return None
        out = {"z": sum((b["z"] for b in batches), []), "y": sum((b["y"] for b in batches), [])}
        if any("ix" in b for b in batches):
            if not all("ix" in b for b in batches):
                return None
            out["ix"] = sum((b["ix"] for b in batches), [])
        return out

    def samples(self, cfg, b):
        out = []
        for j in range(len(b["z"])):
            s = {"z": [b["z"][j]], "y": [b["y"][j]]}
            if "ix" in b:
                s["ix"] = [b["ix"][j]]
            out.append(s)
        return out

    def size(self, b):
        return len(b["z"])

    def functional(self, cfg, b):
        (x, y, *_), _ = self.args(cfg, b)
        f = fn_rrecall if self.recall else fn_rprec
        return f(x, y, cfg["k"], cfg["limit_k_to_size"])

    def fn_val(self, r):
        return [impl_val(r)]

    def defined(self, cfg, batches):
        # the functional has no query / empty-target policy: comparable when there is one query
        # holding at least one relevant item
        return cfg["num_queries"] == 1 and cfg["avg"] != "macro" and any(1 in b["y"] for b in batches)

    # ---- per-query data of a list of batches (as the class routes it)
    def per_query(self, cfg, batches):
        nq = cfg["num_queries"]
        data = [[] for _ in range(nq)]
        for b in batches:
            for j, (z, y) in enumerate(zip(b["z"], b["y"])):
                if nq == 1:
                    data[0].append((z, y))
                elif 0 <= b["ix"][j] < nq:
                    data[b["ix"][j]].append((z, y))
        return data

    def all_samples_val(self, cfg, batches):
        return [self.batch_val(cfg, b) for b in batches]


_variant_cache: dict = {}


def retrieval_variant(name):
    """Which variant of the class the tree under test implements: "asis" (defects D3/D4 present) or
    "fixed" (fixes/retrieval-*.patch applied).  Detected on the real code, once per process; the
    chosen Coq model must then pass the full state-level correspondence like any other."""
    if name not in _variant_cache:
        if name == "RetrievalPrecision":
            m = M.RetrievalPrecision(k=1, empty_target_action="pos")
            m.update(torch.tensor([0.9, 0.1]), torch.tensor([0, 1]))
            _variant_cache[name] = "asis" if float(m.compute()[0]) == 1.0 else "fixed"
        else:
            _variant_cache[name] = "fixed" if "num_relevant" in M.RetrievalRecall()._state_name_to_default else "asis"
    return _variant_cache[name]


class RetrievalPrecisionE(_Retrieval):
    name, cls = "RetrievalPrecision", M.RetrievalPrecision
    class_spec_model = "rk_rprec_class_spec"

    @property
    def model(self):
        return "rk_rprec" if retrieval_variant(self.name) == "asis" else "rk_rprec_fixed"


class RetrievalRecallE(_Retrieval):
    name, cls = "RetrievalRecall", M.RetrievalRecall
    class_spec_model = "rk_rrecall_class_spec"
    recall = True

    @property
    def model(self):
        return "rk_rrecall" if retrieval_variant(self.name) == "asis" else "rk_rrecall_fixed"


ENTRIES = [HitRateE(), ReciprocalRankE(), ClickThroughRateE(), WeightedCalibrationE(),
           RetrievalPrecisionE(), RetrievalRecallE()]


# ------------------------------------------------------------------------------------------
# functional-only entries
# ------------------------------------------------------------------------------------------
class _RetrievalFn(Entry):
    cls = None
    model = None
    family = "functional"
    recall = False
    min_batch = 0

    def configs(self, rng, quick=True):
        out = []
        for nt in (1, 1, 2, 3):
            for k, lim in [(None, False), (1, False), (2, False), (2, True), (3, True), (5, False), (13, False), (13, True), (60, False), (60, True)]:
                out.append({"k": k, "limit_k_to_size": lim, "num_tasks": nt})
        rng.shuffle(out)
        return out

    def cfg_val(self, cfg):
        return [cfg["k"], cfg["limit_k_to_size"], cfg["num_tasks"], RDEN]

    def gen_batch(self, rng, cfg, n):
        nt = cfg["num_tasks"]
        return {"z": [fresh_scores(rng, n) for _ in range(nt)], "y": [gen_labels(rng, n) for _ in range(nt)]}

    def batch_val(self, cfg, b):
        return [b["z"], b["y"]]

    def size(self, b):
        return len(b["z"][0])

    def functional(self, cfg, b):
        x = torch.tensor([[z / RDEN for z in r] for r in b["z"]], dtype=torch.float32).reshape(cfg["num_tasks"], -1)
        y = torch.tensor(b["y"], dtype=torch.int64).reshape(cfg["num_tasks"], -1)
        if cfg["num_tasks"] == 1:
            x, y = x[0], y[0]
        f = fn_rrecall if self.recall else fn_rprec
        return f(x, y, cfg["k"], cfg["limit_k_to_size"], cfg["num_tasks"])


class RetrievalPrecisionFn(_RetrievalFn):
    name, fn_model, spec_model = "retrieval_precision", "rk_rprec_fn", "rk_rprec_spec"


class RetrievalRecallFn(_RetrievalFn):
    name, fn_model, spec_model = "retrieval_recall", "rk_rrecall_fn", "rk_rrecall_spec"
    recall = True


class NumCollisionsFn(Entry):
    name, cls, model, fn_model, spec_model = "num_collisions", None, None, "rk_collisions_fn", "rk_collisions_spec"
    family = "functional"
    min_batch = 0

    def gen_batch(self, rng, cfg, n):
        hi = rng.choice([1, 2, 3, 5, 50, 10 ** 6])
        return {"ids": [rng.randint(-1 if hi > 3 else 0, hi) for _ in range(n)],
                "dtype": rng.choice(["int64", "int32", "int16"])}

    def batch_val(self, cfg, b):  # values as the tensor holds them
        return [max(min(i, 30000), -30000) for i in b["ids"]] if b["dtype"] == "int16" else b["ids"]

    def size(self, b):
        return len(b["ids"])

    def functional(self, cfg, b):
        return Fn.num_collisions(torch.tensor(self.batch_val(cfg, b), dtype=getattr(torch, b["dtype"])))


class FrequencyAtKFn(Entry):
    name, cls, model, fn_model = "frequency_at_k", None, None, "rk_frequency_fn"
    family = "functional"
    min_batch = 0

    def configs(self, rng, quick=True):
        return [{"k": k} for k in (F(0), F(1, 2), F(1), F(3), F(5, 2), F(100))]

    def cfg_val(self, cfg):
        return cfg["k"]

    def gen_batch(self, rng, cfg, n):
        # values on, just below and just above k
        k = cfg["k"]
        return {"x": [rng.choice([k, k - F(1, 8), k + F(1, 8), F(rng.randint(-8, 40), 4)]) for _ in range(n)]}

    def batch_val(self, cfg, b):
        return b["x"]

    def size(self, b):
        return len(b["x"])

    def functional(self, cfg, b):
        k = cfg["k"]
        return Fn.frequency_at_k(tens(b["x"], torch.float32).reshape(-1), float(k) if k.denominator != 1 else int(k))


FN_ENTRIES = [RetrievalPrecisionFn(), RetrievalRecallFn(), NumCollisionsFn(), FrequencyAtKFn()]
