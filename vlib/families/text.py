"""Text metrics: WordErrorRate, WordInformationPreserved, WordInformationLost, BLEUScore.

Tokens are integers in batches and in the Coq model; `render` turns a token list into a string of
words joined by MIXED whitespace (spaces, tabs, newlines, runs, leading/trailing), so the
implementation's `str.split()` glue is exercised on every case.
"""
import random
from fractions import Fraction
import torch
from torcheval import metrics as M
from torcheval.metrics import functional as Fn
from ..catalogue import Entry, F
from ..compare import TOL32, TOL64
from ..model import NONE

SEPS = [" ", " ", "  ", "\t", " \t ", "\n", "   "]
EDGE = ["", "", " ", "\t", "  \n"]
VOCABS = [2, 2, 3, 5, 10, 50]


def word(t: int) -> str:
    return ("w%d" % t) if t % 3 else ("tok%d." % t)


def render(tokens, seed) -> str:
    """Token list -> string; whitespace chosen deterministically from `seed`."""
    r = random.Random(seed * 7919 + len(tokens))
    if not tokens:
        return r.choice(["", "", " ", " \t "])
    out = r.choice(EDGE)
    for k, t in enumerate(tokens):
        if k:
            out += r.choice(SEPS)
        out += word(t)
    return out + r.choice(EDGE)


def gen_sentence(rng, v, lo=0, hi=12, base=0):
    n = rng.choice([lo, rng.randint(lo, hi), rng.randint(lo, hi), rng.randint(lo, hi), rng.randint(lo, min(hi, lo + 3)), rng.randint(lo, min(hi, lo + 3)), hi])
    return [base + rng.randrange(v) for _ in range(n)]


def mutate(rng, s, v, base=0):
    s = list(s)
    for _ in range(rng.choice([0, 1, 1, 2, 3])):
        k = rng.choice(["del", "ins", "sub", "swap"])
        if k == "del" and s:
            del s[rng.randrange(len(s))]
        elif k == "ins" and len(s) < 12:
            s.insert(rng.randint(0, len(s)), base + rng.randrange(v))
        elif k == "sub" and s:
            s[rng.randrange(len(s))] = base + rng.randrange(v)
        elif k == "swap" and len(s) > 1:
            i = rng.randrange(len(s) - 1)
            s[i], s[i + 1] = s[i + 1], s[i]
    return s


def gen_pair(rng, lo=0):
    """(candidate, reference) with identical / near / independent / disjoint-vocabulary / empty cases."""
    v = rng.choice(VOCABS)
    mode = rng.choice(["indep", "indep", "indep", "near", "near", "near", "same", "same", "disjoint", "disjoint", "empty_c", "empty_r", "both_empty"])
    c = gen_sentence(rng, v, lo)
    if mode == "indep":
        r = gen_sentence(rng, v)
    elif mode == "near":
        r = mutate(rng, c, v)
    elif mode == "same":
        r = list(c)
    elif mode == "disjoint":
        r = gen_sentence(rng, v, base=100)
    elif mode == "empty_c":
        c, r = ([] if lo == 0 else c), gen_sentence(rng, v)
    elif mode == "empty_r":
        r = []
    else:
        c, r = ([] if lo == 0 else c), []
    return c, r


# ------------------------------------------------------------------------------------------
class _Pairs(Entry):
    """WER / WIP / WIL: update(input: str | list[str], target: str | list[str])."""
    family = "additive"
    tol = TOL64
    min_batch = 0
    min_compute = 0
    fn = None

    def gen_batch(self, rng, cfg, n):
        c, r = [], []
        for _ in range(n):
            a, b = gen_pair(rng)
            c.append(a)
            r.append(b)
        return {"c": c, "r": r, "seed": rng.randrange(10 ** 6),
                "form": "str" if n == 1 and rng.random() < 0.5 else "list"}

    def args(self, cfg, b):
        sd = b["seed"]
        ins = [render(s, sd + 2 * k) for k, s in enumerate(b["c"])]
        tgs = [render(s, sd + 2 * k + 1) for k, s in enumerate(b["r"])]
        if b.get("form") == "str" and len(ins) == 1:
            return (ins[0], tgs[0]), {}
        return (ins, tgs), {}

    def batch_val(self, cfg, b):
        return [[c, r] for c, r in zip(b["c"], b["r"])]

    def concat(self, cfg, batches):
        return {"c": sum((b["c"] for b in batches), []), "r": sum((b["r"] for b in batches), []),
                "seed": batches[0]["seed"] if batches else 0, "form": "list"}

    def samples(self, cfg, b):
        return [{"c": [c], "r": [r], "seed": b["seed"] + 2 * k, "form": "list"}
                for k, (c, r) in enumerate(zip(b["c"], b["r"]))]

    def size(self, b):
        return len(b["c"])

    def functional(self, cfg, b):
        a, k = self.args(cfg, b)
        return self.fn(*a)

    def defined(self, cfg, batches):
        c = self.concat(cfg, batches)
        return sum(len(x) for x in c["r"]) > 0 and sum(len(x) for x in c["c"]) > 0


class WordErrorRateE(_Pairs):
    name, cls, model, fn_model = "WordErrorRate", M.WordErrorRate, "text_wer", "text_wer_fn"
    tol = TOL32        # float32 states
    fn = staticmethod(Fn.word_error_rate)


class WordInformationPreservedE(_Pairs):
    name, cls, model, fn_model = "WordInformationPreserved", M.WordInformationPreserved, "text_wip", "text_wip_fn"
    fn = staticmethod(Fn.word_information_preserved)


class WordInformationLostE(_Pairs):
    name, cls, model, fn_model = "WordInformationLost", M.WordInformationLost, "text_wil", "text_wil_fn"
    fn = staticmethod(Fn.word_information_lost)


# ------------------------------------------------------------------------------------------
_BLEU_VARIANT = None
BLEU_WITNESS = {"n_gram": 2, "weights": [1.0, 0.0], "input": ["a b"], "target": [["a c"]]}


def bleu_variant():
    """'code' | 'fixed' | 'unknown': what the tree under test does on the witness of
    bleu_value_is_number_refuted (n_gram=2, weights=[1,0], "a b" vs "a c"): nan = the code as it was
    (finding C08-bleu-zero-weight-nan), 0.5 = the product form (repaired).  Anything else is tied to
    the V_code model, so the correspondence reports it."""
    global _BLEU_VARIANT
    if _BLEU_VARIANT is None:
        import math
        w = BLEU_WITNESS
        try:
            m = M.BLEUScore(n_gram=w["n_gram"], weights=torch.tensor(w["weights"]))
            m.update(w["input"], w["target"])
            a = float(m.compute())
            b = float(Fn.bleu_score(w["input"], w["target"], n_gram=w["n_gram"], weights=torch.tensor(w["weights"])))
        except Exception:
            a = b = -1.0
        if math.isnan(a) and math.isnan(b):
            _BLEU_VARIANT = "code"
        elif abs(a - 0.5) < 1e-6 and abs(b - 0.5) < 1e-6:
            _BLEU_VARIANT = "fixed"
        else:
            _BLEU_VARIANT = "unknown"
    return _BLEU_VARIANT


class BLEUScoreE(Entry):
    """update(input: str | Sequence[str], target: Sequence[str | Sequence[str]]).
    Every generated batch is valid PER UPDATE: the functional raises when one call's corpus is too
    short for n_gram and the class applies that test to each update separately."""
    name, cls = "BLEUScore", M.BLEUScore
    family = "additive"

    # The Coq model has both behaviours of _bleu_score_compute: V_code (0 * log 0 = nan with a zero weight)
    # and V_fixed (fixes/bleu-zero-weight.patch: a zero-weighted order is ignored).  The tree under test
    # decides which one it is tied to, by the witness of the refuted theorem.
    @property
    def model(self):
        return "text_bleu_fixed" if bleu_variant() == "fixed" else "text_bleu"

    @property
    def fn_model(self):
        return "text_bleu_fixed_fn" if bleu_variant() == "fixed" else "text_bleu_fn"

    tol = TOL32
    min_batch = 1
    min_compute = 1
    batching_free = False   # the too-short test is per update: re-batching can turn an accepted stream into a raising one

    def configs(self, rng, quick=True):
        return [
            {"n_gram": 1, "weights": None}, {"n_gram": 2, "weights": None},
            {"n_gram": 3, "weights": None}, {"n_gram": 4, "weights": None},
            {"n_gram": 2, "weights": [F(1, 4), F(3, 4)]},
            {"n_gram": 3, "weights": [F(1, 2), F(1, 4), F(1, 4)]},
            {"n_gram": 4, "weights": [F(1, 2), F(1, 4), F(1, 8), F(1, 8)]},
            {"n_gram": 2, "weights": [F(2), F(1, 2)]},          # not normalised
            {"n_gram": 1, "weights": [F(3)]},
            {"n_gram": 2, "weights": [F(1), F(0)]},             # zero weight: 0 * log(0) = nan
            {"n_gram": 2, "weights": [F(0), F(1)]},
            {"n_gram": 3, "weights": [F(1, 2), F(1, 2), F(0)]},
            {"n_gram": 4, "weights": [F(1), F(0), F(0), F(0)]},
            {"n_gram": 3, "weights": [F(1, 4), F(1, 4), F(1, 2)]},
            {"n_gram": 4, "weights": [F(1), F(1), F(1), F(1)]},
        ]

    def kwargs(self, cfg):
        w = cfg.get("weights")
        return {"n_gram": cfg["n_gram"], "weights": None if w is None else torch.tensor([float(x) for x in w])}

    def cfg_val(self, cfg):
        w = cfg.get("weights")
        return [cfg["n_gram"], NONE if w is None else list(w)]

    def gen_batch(self, rng, cfg, n):
        n = max(1, n)
        ng = cfg["n_gram"]
        c, r = [], []
        long_one = rng.randrange(n)
        for k in range(n):
            v = rng.choice(VOCABS)
            cand, ref0 = gen_pair(rng, lo=ng if k == long_one else 0)
            refs = [ref0]
            for _ in range(rng.choice([0, 0, 1, 2])):
                m = rng.choice(["near_c", "near_r", "indep", "same", "empty"])
                refs.append(mutate(rng, cand, v) if m == "near_c" else mutate(rng, ref0, v) if m == "near_r"
                            else gen_sentence(rng, v) if m == "indep" else list(cand) if m == "same" else [])
            if rng.random() < 0.25 and len(cand) >= 1:
                # two references equally close to the candidate length (shorter one must win), either order
                d = rng.randint(1, len(cand))
                lo_ref = [rng.randrange(v) for _ in range(len(cand) - d)]
                hi_ref = mutate(rng, cand, v)[:len(cand)] + [rng.randrange(v) for _ in range(len(cand) + d)]
                hi_ref = hi_ref[:len(cand) + d]
                pair = [lo_ref, hi_ref] if rng.random() < 0.5 else [hi_ref, lo_ref]
                refs = (pair + refs[:1]) if rng.random() < 0.5 else pair
            c.append(cand)
            r.append(refs)
        return {"c": c, "r": r, "seed": rng.randrange(10 ** 6),
                "form": "str" if n == 1 and rng.random() < 0.5 else "list"}

    def args(self, cfg, b):
        sd = b["seed"]
        ins, tgs = [], []
        for k, (c, refs) in enumerate(zip(b["c"], b["r"])):
            ins.append(render(c, sd + 5 * k))
            rr = [render(x, sd + 5 * k + 1 + j) for j, x in enumerate(refs)]
            # a single reference may be passed as a bare string
            tgs.append(rr[0] if len(rr) == 1 and (sd + k) % 2 == 0 else (rr if (sd + k) % 3 else tuple(rr)))
        if b.get("form") == "str" and len(ins) == 1:
            return (ins[0], tgs), {}
        return (ins, tgs), {}

    def batch_val(self, cfg, b):
        return [[c, refs] for c, refs in zip(b["c"], b["r"])]

    def concat(self, cfg, batches):
        return {"c": sum((b["c"] for b in batches), []), "r": sum((b["r"] for b in batches), []),
                "seed": batches[0]["seed"] if batches else 0, "form": "list"}

    def samples(self, cfg, b):
        return [{"c": [c], "r": [r], "seed": b["seed"] + 5 * k, "form": "list"}
                for k, (c, r) in enumerate(zip(b["c"], b["r"]))]

    def size(self, b):
        return len(b["c"])

    def functional(self, cfg, b):
        a, _ = self.args(cfg, b)
        kw = self.kwargs(cfg)
        return Fn.bleu_score(a[0], a[1], n_gram=kw["n_gram"], weights=kw["weights"])

    def defined(self, cfg, batches):
        c = self.concat(cfg, batches)
        return len(c["c"]) > 0


ENTRIES = [WordErrorRateE(), WordInformationPreservedE(), WordInformationLostE(), BLEUScoreE()]
