"""Count-based classification metrics (C04): accuracy, precision, recall, F1, confusion matrix.

Scores are integers `z` (numerators on the grid z/DEN); torch sees z/DEN (float32, exact), the Coq
model sees z; thresholds are k/DEN.  Generators are tie-heavy: scores on a 3-5 point grid around
the threshold (incl. exactly at it), tied rows for argmax / top-k, classes absent from predictions
and / or labels, all-correct / all-wrong batches, label inputs as well as score inputs."""
from fractions import Fraction
import torch
from torcheval import metrics as M
from torcheval.metrics import functional as Fn
from ..catalogue import Entry, F

DEN = 4
THRESHOLDS = [1, 2, 3]            # 0.25, 0.5, 0.75
AVG4 = {"micro": 0, "macro": 1, "weighted": 2, None: 3, "None": 3, "none": 3}
CRIT = {"exact_match": 0, "hamming": 1, "overlap": 2, "contain": 3, "belong": 4}
NORM = {None: 0, "none": 0, "all": 1, "pred": 2, "true": 3}


def ftens(z):
    """integer numerators -> float32 tensor of z/DEN"""
    return torch.tensor(z, dtype=torch.float32) / DEN


def itens(z):
    return torch.tensor(z, dtype=torch.int64)


def pub(cfg):
    return {k: v for k, v in cfg.items() if not k.startswith("_")}


# ------------------------------------------------------------------------------------------
# multiclass inputs
# ------------------------------------------------------------------------------------------
def gen_mc(rng, n, nc, logits_only=False, labels_only=False, nonempty=True):
    """(mode, x, y): tie-heavy multiclass batch over nc classes with absent classes."""
    cls = list(range(nc))
    style = rng.choice(["any", "any", "absent", "absent", "correct", "wrong", "const"])
    ty = cls if style in ("any", "correct", "wrong") else rng.sample(cls, rng.randint(1, max(1, nc - 1)))
    tp_ = cls if style in ("any", "correct", "wrong") else rng.sample(cls, rng.randint(1, max(1, nc - 1)))
    if style == "const":
        ty, tp_ = [rng.choice(cls)], [rng.choice(cls)]
    y = [rng.choice(ty) for _ in range(n)]
    mode = "logits" if logits_only else "labels" if labels_only else rng.choice(["labels", "logits"])
    if mode == "labels":
        if style == "correct":
            x = list(y)
        elif style == "wrong":
            x = [(v + rng.randint(1, nc - 1)) % nc for v in y]
        else:
            x = [rng.choice(tp_) for _ in range(n)]
        return mode, x, y
    rows = []
    hi = rng.choice([1, 2, 2, 3])          # 2-4 point grid: many tied rows
    for v in y:
        r = [rng.randint(0, hi) for _ in range(nc)]
        if style == "correct":
            r[v] = hi + 1
        elif style == "wrong":
            r[v] = -1
        elif style in ("absent", "const"):
            for c in cls:
                if c not in tp_:
                    r[c] = -1           # never the argmax
            if all(r[c] == -1 for c in cls):
                r[tp_[0]] = 0
        rows.append(r)
    return mode, rows, y


class _MC(Entry):
    family = "additive"
    min_compute = 0

    def kwargs(self, cfg):
        return pub(cfg)

    def nc(self, cfg):
        return cfg.get("num_classes") or cfg.get("_w", 3)

    def gen_batch(self, rng, cfg, n):
        mode, x, y = gen_mc(rng, n, self.nc(cfg), logits_only=cfg.get("k", 1) > 1)
        return {"x": x, "y": y, "mode": mode}

    def args(self, cfg, b):
        x = ftens(b["x"]) if b["mode"] == "logits" else itens(b["x"])
        return (x, itens(b["y"])), {}

    def batch_val(self, cfg, b):
        return [b["x"], b["y"]]

    def functional(self, cfg, b):
        a, _ = self.args(cfg, b)
        return self.fn(*a, **pub(cfg))

    def defined(self, cfg, batches):
        return True


class MulticlassAccuracyE(_MC):
    name, cls, model, fn_model, spec_model = "MulticlassAccuracy", M.MulticlassAccuracy, "mcacc", "mcacc_fn", "mcacc_spec"
    fn = staticmethod(Fn.multiclass_accuracy)

    def configs(self, rng, quick=True):
        out = []
        for k in (1, 2, 3):
            out.append({"average": "micro", "num_classes": None, "k": k, "_w": 3})
            out.append({"average": "micro", "num_classes": 4, "k": k})
            for a in ("macro", None, "none"):
                out.append({"average": a, "num_classes": 3 if k < 3 else 4, "k": k})
        return out

    def cfg_val(self, cfg):
        return [AVG4[cfg["average"]], cfg["num_classes"] or -1, cfg["k"]]


class _PRF(_MC):
    averages = ("micro", "macro", "weighted", None)

    def configs(self, rng, quick=True):
        out = [{"average": "micro", "num_classes": None, "_w": 3}]
        for a in self.averages:
            for n in (2, 3, 5):
                out.append({"average": a, "num_classes": n})
        return out

    def cfg_val(self, cfg):
        return [AVG4[cfg["average"]], cfg["num_classes"] or -1]


class MulticlassPrecisionE(_PRF):
    name, cls, model, fn_model, spec_model = "MulticlassPrecision", M.MulticlassPrecision, "mcprec", "mcprec_fn", "mcprec_spec"
    fn = staticmethod(Fn.multiclass_precision)
    averages = ("micro", "macro", "weighted", None, "None")


class MulticlassRecallE(_PRF):
    name, cls, model, fn_model, spec_model = "MulticlassRecall", M.MulticlassRecall, "mcrec", "mcrec_fn", "mcrec_spec"
    fn = staticmethod(Fn.multiclass_recall)


class MulticlassF1ScoreE(_PRF):
    name, cls, model, fn_model, spec_model = "MulticlassF1Score", M.MulticlassF1Score, "mcf1", "mcf1_fn", "mcf1_spec"
    fn = staticmethod(Fn.multiclass_f1_score)


class MulticlassConfusionMatrixE(_MC):
    name, cls, model, fn_model, spec_model = "MulticlassConfusionMatrix", M.MulticlassConfusionMatrix, "mccm", "mccm_fn", "mccm_spec"

    def configs(self, rng, quick=True):
        return [{"num_classes": n, "normalize": nm} for n in (2, 3, 4) for nm in (None, "none", "all", "pred", "true")]

    def cfg_val(self, cfg):
        return [cfg["num_classes"], NORM[cfg["normalize"]]]

    def functional(self, cfg, b):
        a, _ = self.args(cfg, b)
        return Fn.multiclass_confusion_matrix(*a, cfg["num_classes"], normalize=cfg["normalize"])


# ------------------------------------------------------------------------------------------
# binary inputs
# ------------------------------------------------------------------------------------------
def gen_scores(rng, n, t):
    """scores on a 3-5 point grid around the threshold numerator t (incl. exactly t)"""
    style = rng.choice(["near", "near", "near", "wide", "at", "below", "above"])
    pool = {"near": [t - 1, t, t + 1], "wide": [0, t - 1, t, t + 1, DEN], "at": [t], "below": [t - 1, 0], "above": [t, t + 1, DEN]}[style]
    return [rng.choice(pool) for _ in range(n)]


def gen_bits(rng, n):
    p = rng.choice([0, 1, 0.5, 0.5, 0.2, 0.8])
    return [1 if rng.random() < p else 0 for _ in range(n)]


class _Bin(Entry):
    family = "additive"
    min_compute = 0

    def configs(self, rng, quick=True):
        return [{"threshold": F(t, DEN)} for t in THRESHOLDS]

    def kwargs(self, cfg):
        return {k: (float(v) if isinstance(v, Fraction) else v) for k, v in pub(cfg).items()}

    def thr(self, cfg):
        return int(cfg["threshold"] * DEN)

    def cfg_val(self, cfg):
        return [self.thr(cfg)]

    def gen_batch(self, rng, cfg, n):
        y = gen_bits(rng, n)
        style = rng.choice(["scores", "scores", "scores", "labels", "correct", "wrong"])
        if style == "scores":
            return {"x": gen_scores(rng, n, self.thr(cfg)), "y": y, "int": False}
        if style == "labels":          # label inputs (int64 0/1)
            return {"x": [DEN * v for v in gen_bits(rng, n)], "y": y, "int": True}
        t = self.thr(cfg)
        if style == "correct":
            return {"x": [(t if v else t - 1) for v in y], "y": y, "int": False}
        return {"x": [(t - 1 if v else t) for v in y], "y": y, "int": False}

    def args(self, cfg, b):
        x = itens([v // DEN for v in b["x"]]) if b.get("int") else ftens(b["x"])
        return (x, itens(b["y"])), {}

    def batch_val(self, cfg, b):
        return [b["x"], b["y"]]

    def concat(self, cfg, batches):
        return {"x": sum((b["x"] for b in batches), []), "y": sum((b["y"] for b in batches), []),
                "int": all(b.get("int") for b in batches) and len(batches) > 0}

    def functional(self, cfg, b):
        a, _ = self.args(cfg, b)
        return self.fn(*a, **self.kwargs(cfg))

    def defined(self, cfg, batches):
        return True


class BinaryAccuracyE(_Bin):
    name, cls, model, fn_model, spec_model = "BinaryAccuracy", M.BinaryAccuracy, "binacc", "binacc_fn", "binacc_spec"
    fn = staticmethod(Fn.binary_accuracy)


class BinaryPrecisionE(_Bin):
    name, cls, model, fn_model, spec_model = "BinaryPrecision", M.BinaryPrecision, "binprec", "binprec_fn", "binprec_spec"
    fn = staticmethod(Fn.binary_precision)


class BinaryRecallE(_Bin):
    name, cls, model, fn_model, spec_model = "BinaryRecall", M.BinaryRecall, "binrec", "binrec_fn", "binrec_spec"
    fn = staticmethod(Fn.binary_recall)


class BinaryF1ScoreE(_Bin):
    name, cls, model, fn_model, spec_model = "BinaryF1Score", M.BinaryF1Score, "binf1", "binf1_fn", "binf1_spec"
    fn = staticmethod(Fn.binary_f1_score)


class BinaryConfusionMatrixE(_Bin):
    name, cls, model, fn_model, spec_model = "BinaryConfusionMatrix", M.BinaryConfusionMatrix, "bincm", "bincm_fn", "bincm_spec"
    fn = staticmethod(Fn.binary_confusion_matrix)

    def configs(self, rng, quick=True):
        return [{"threshold": F(t, DEN), "normalize": nm} for t in THRESHOLDS for nm in (None, "none", "all", "pred", "true")]

    def cfg_val(self, cfg):
        return [self.thr(cfg), NORM[cfg["normalize"]]]


# ------------------------------------------------------------------------------------------
# multilabel inputs
# ------------------------------------------------------------------------------------------
class MultilabelAccuracyE(_Bin):
    name, cls, model, fn_model, spec_model = "MultilabelAccuracy", M.MultilabelAccuracy, "mlacc", "mlacc_fn", "mlacc_spec"
    fn = staticmethod(Fn.multilabel_accuracy)

    def configs(self, rng, quick=True):
        return [{"threshold": F(t, DEN), "criteria": c, "_w": w} for c in CRIT for t, w in ((2, 3), (1, 2), (3, 4))]

    def cfg_val(self, cfg):
        return [self.thr(cfg), CRIT[cfg["criteria"]]]

    def gen_batch(self, rng, cfg, n):
        w, t = cfg["_w"], self.thr(cfg)
        y = [gen_bits(rng, w) for _ in range(n)]
        style = rng.choice(["scores", "scores", "labels", "correct", "superset", "subset", "empty"])
        if style == "scores":
            x = [gen_scores(rng, w, t) for _ in range(n)]
        elif style == "labels":
            x = [[DEN * v for v in gen_bits(rng, w)] for _ in range(n)]
        elif style == "correct":
            x = [[(t if v else t - 1) for v in r] for r in y]
        elif style == "superset":
            x = [[(t if (v or rng.random() < 0.4) else t - 1) for v in r] for r in y]
        elif style == "subset":
            x = [[(t if (v and rng.random() < 0.6) else t - 1) for v in r] for r in y]
        else:
            x = [[t - 1] * w for _ in y]
        return {"x": x, "y": y, "int": style == "labels"}

    def args(self, cfg, b):
        x = itens([[v // DEN for v in r] for r in b["x"]]) if b.get("int") else ftens(b["x"])
        if not b["x"]:
            x = x.reshape(0, cfg["_w"])
        return (x, itens(b["y"]).reshape(len(b["y"]), cfg["_w"])), {}


class TopKMultilabelAccuracyE(Entry):
    """torch.topk leaves the choice among tied scores unspecified; the indices it returns on the very
    same tensor are handed to the model as part of the batch, and the model's `valid` checks that the
    selection is admissible (k distinct indices, no unselected score above a selected one)."""
    name, cls, model, fn_model, spec_model = "TopKMultilabelAccuracy", M.TopKMultilabelAccuracy, "tkacc", "tkacc_fn", "tkacc_spec"
    family = "additive"
    min_compute = 0

    def configs(self, rng, quick=True):
        out = [{"criteria": c, "k": k, "_w": w} for c in CRIT for k, w in ((2, 3), (2, 4), (3, 4), (2, 2))]
        return out + [{"criteria": c, "k": 2, "_w": 3, "_default_k": True} for c in ("exact_match", "overlap")]

    def kwargs(self, cfg):
        kw = pub(cfg)
        if cfg.get("_default_k"):      # constructor / functional default k (= 2)
            del kw["k"]
        return kw

    def cfg_val(self, cfg):
        return [CRIT[cfg["criteria"]], cfg["k"]]

    def gen_batch(self, rng, cfg, n):
        w = cfg["_w"]
        hi = rng.choice([0, 1, 1, 2, 3])        # 1-4 point grid: tied top-k scores
        x = [[rng.randint(0, hi) for _ in range(w)] for _ in range(n)]
        y = [gen_bits(rng, w) for _ in range(n)]
        if rng.random() < 0.2:                   # targets = some admissible top-k set: exact matches
            for r, yr in zip(x, y):
                top = sorted(range(w), key=lambda j: (-r[j], j))[:cfg["k"]]
                yr[:] = [1 if j in top else 0 for j in range(w)]
        return {"x": x, "y": y}

    def args(self, cfg, b):
        w = cfg["_w"]
        return (ftens(b["x"]).reshape(len(b["x"]), w), itens(b["y"]).reshape(len(b["y"]), w)), {}

    def batch_val(self, cfg, b):
        (x, _), _ = self.args(cfg, b)
        sel = x.topk(k=cfg["k"], dim=-1).indices.tolist()
        return [b["x"], b["y"], sel]

    def functional(self, cfg, b):
        a, _ = self.args(cfg, b)
        return Fn.topk_multilabel_accuracy(*a, **self.kwargs(cfg))

    def defined(self, cfg, batches):
        return True


ENTRIES = [MulticlassAccuracyE(), BinaryAccuracyE(), MultilabelAccuracyE(), TopKMultilabelAccuracyE(),
           MulticlassPrecisionE(), BinaryPrecisionE(), MulticlassRecallE(), BinaryRecallE(),
           MulticlassF1ScoreE(), BinaryF1ScoreE(), MulticlassConfusionMatrixE(), BinaryConfusionMatrixE()]
