"""The five windowed (ring-buffer) classes: torcheval/metrics/window/*.py.

They have no functional form; the reference of C13 is the corresponding NON-windowed class
(`ref_cls`) evaluated on exactly the last N updates (samples for the AUROC window).

Batch layout (JSON-able, shared by the five entries):
  {"x": T rows, "y": T rows or [], "w": weight rows (always expanded to Fractions),
   "wmode": "none" | "scalar" | "each"}
Window sizes 1-6, num_tasks 1-3, lifetime on/off (and both multioutput modes for the MSE window).
"""
from fractions import Fraction
import torch
from torcheval import metrics as M
from ..catalogue import Entry, tens, grid, F
from ..compare import TOL32, state_val, impl_val

WEIGHTS = [F(1, 4), F(1, 2), F(1), F(2), F(3)]
SIZES = [1, 2, 3, 4, 5, 6]
TASKS = [1, 2, 3]


class _Win(Entry):
    family = "window"
    tol = TOL32
    has_functional = False
    merge_exact = False          # documented deviation: merge pools the windows (DESIGN 4 C01 item 5)
    order_free = False
    batching_free = False
    min_compute = 1
    granularity = "update"
    ref_cls = None
    has_y = True
    scalar_weight = True         # update() accepts a python scalar weight
    none_weight = False          # update() accepts weight=None
    wdtype = torch.float64
    xdtype = torch.float64
    shared_w = False             # one weight row shared by the tasks (MSE sample_weight)
    zero_weights = True          # weight tensors that are all zero / partly zero are generated
    huge_weights = True          # one update in ~12 carries weights 2^40 / 2^60 times larger (not for NE / AUROC: 1 - p cancels in float64)
    extra_opts = [{}]
    base_model = None            # Coq model of the class as it is; "<base_model>_cap" = repaired merge_state
    _model = None

    @property
    def model(self):
        """the Coq model mirroring the tree under test: merge_state keeps max_num_updates (current code) or sets it
        to the pooled capacity (fixes/window-merge-capacity.patch), decided by the witness merge_capacity_variant"""
        if self._model is None:
            self.merge_variant = merge_capacity_variant(self)
            self._model = self.base_model + ("_cap" if self.merge_variant == "cap" else "")
        return self._model

    @model.setter
    def model(self, v):
        self._model = v

    # ---- configuration
    def grid_cfgs(self):
        out = []
        for n in SIZES:
            for t in TASKS:
                for life in (True, False):
                    for ex in self.extra_opts:
                        out.append({"num_tasks": t, "max_num_updates": n, "enable_lifetime": life, **ex})
        return out

    def configs(self, rng, quick=True):
        g = self.grid_cfgs()
        rng.shuffle(g)
        # always lead with the corner cases: window 1, window 2 multi-task, window 3 single task
        lead = [c for c in g if c["max_num_updates"] == 1][:2] + [c for c in g if c["max_num_updates"] == 3 and c["num_tasks"] == 1][:2]
        rest = [c for c in g if c not in lead]
        return lead + rest

    def window(self, cfg):
        return cfg["max_num_updates"]

    def cfg_val(self, cfg):
        return [cfg["num_tasks"], cfg["max_num_updates"], bool(cfg["enable_lifetime"]),
                cfg.get("multioutput", "uniform_average") == "raw_values"]

    def ref_kwargs(self, cfg):
        return {"num_tasks": cfg["num_tasks"]}

    def make_ref(self, cfg):
        return self.ref_cls(**self.ref_kwargs(cfg))

    # ---- batches
    def gen_x(self, rng, n):
        return [F(rng.randint(0, 1)) for _ in range(n)]

    def gen_y(self, rng, n):
        return [F(rng.choice([0, 0, 1, 1, rng.randint(0, 1)])) for _ in range(n)]

    def gen_w(self, rng, cfg, n, T):
        modes = (["none"] if (self.none_weight or self.scalar_weight) else []) + (["scalar"] if self.scalar_weight else []) + ["each"]
        mode = rng.choice(modes)
        rows = 1 if self.shared_w else T
        if mode == "none":
            return mode, [[F(1)] * n for _ in range(rows)]
        if mode == "scalar":
            w = rng.choice(WEIGHTS)
            return mode, [[w] * n for _ in range(rows)]
        w = [[rng.choice(WEIGHTS) for _ in range(n)] for _ in range(rows)]
        if self.huge_weights and rng.random() < 0.08:
            # one update whose weights dwarf its neighbours' (2^40 / 2^60 times): it passes through the window and is evicted
            sc = F(2) ** rng.choice([40, 60])
            w = [[x * sc for x in r] for r in w]
        if self.zero_weights:
            u = rng.random()
            if u < 0.15:                                  # an explicit ALL-ZERO weight tensor
                w = [[F(0)] * n for _ in range(rows)]
            elif u < 0.35:                                # partly zero (possibly a whole task)
                w = [[F(0) if rng.random() < 0.4 else x for x in r] for r in w]
                if rows > 1 and rng.random() < 0.3:
                    w[rng.randrange(rows)] = [F(0)] * n
        return mode, w

    def gen_batch(self, rng, cfg, n):
        T = cfg["num_tasks"]
        n = max(1, n)
        mode, w = self.gen_w(rng, cfg, n, T)
        return {"x": [self.gen_x(rng, n) for _ in range(T)],
                "y": [self.gen_y(rng, n) for _ in range(T)] if self.has_y else [],
                "w": w, "wmode": mode}

    def filter_ops(self, ops):
        """load_state_dict INTO an object whose buffers a merge has enlarged leaves the un-registered cursor beyond the
        (smaller) loaded buffers: the next update() raises IndexError.  That is the recorded finding
        C09-window-cursor-not-in-state-dict (the cursor is not part of state_dict()) in a situation outside every
        property (C09 is about loading into a FRESH instance); the value models do not follow it, so such loads are
        not generated.  reset() / re-construction / clone / pickle into the object clear the condition."""
        merged, out = set(), []
        for o in ops:
            k = o[0]
            if k == "merge":
                merged.add(o[1])
            elif k in ("reset", "new"):
                merged.discard(o[1])
            elif k in ("clone", "pickle"):
                (merged.add if o[1] in merged else merged.discard)(o[2])
            elif k == "load" and o[1] in merged:
                continue
            out.append(o)
        return out

    def update(self, metric, cfg, batch):
        """The harness is a caller that REUSES its batch tensors: after update() returns, every
        tensor it passed is overwritten.  A metric that adopted one of them by reference instead
        of copying shows a different state / result from then on (the model has value semantics)."""
        a, k = self.args(cfg, batch)
        try:
            return metric.update(*a, **k)
        finally:
            for t in list(a) + list(k.values()):
                if isinstance(t, torch.Tensor):
                    t.fill_(0.5)

    def _t(self, cfg, rows, dtype):
        t = tens(rows, dtype)
        return t[0] if cfg["num_tasks"] == 1 else t

    def _w(self, cfg, b):
        if b["wmode"] == "none":
            return None
        if b["wmode"] == "scalar":
            w = b["w"][0][0]
            return int(w) if w.denominator == 1 and w > 1 else float(w)
        return self._t(cfg, b["w"], self.wdtype)

    def batch_val(self, cfg, b):
        return [b["x"], b["y"], b["w"]]

    def size(self, b):
        return len(b["x"][0])

    def concat(self, cfg, batches):
        if not batches:
            return None
        out = {"x": [[] for _ in batches[0]["x"]], "y": [[] for _ in batches[0]["y"]],
               "w": [[] for _ in batches[0]["w"]], "wmode": "each"}
        for b in batches:
            for k in ("x", "y", "w"):
                for r, row in enumerate(b[k]):
                    out[k][r] = out[k][r] + row
        if all(b["wmode"] == "none" for b in batches):
            out["wmode"] = "none"
        return out

    def samples(self, cfg, b):
        n = self.size(b)
        mode = b["wmode"] if b["wmode"] != "scalar" or self.scalar_weight else "each"
        return [{"x": [r[i:i + 1] for r in b["x"]], "y": [r[i:i + 1] for r in b["y"]],
                 "w": [r[i:i + 1] for r in b["w"]], "wmode": mode} for i in range(n)]

    # ---- state: registered states in sorted-name order + the unregistered cursor
    def state_of(self, metric):
        return state_val(metric) + [int(metric.next_inserted)]

    def functional(self, cfg, batch):
        raise NotImplementedError("windowed classes have no functional form")


def merge_capacity_variant(e):
    """Which merge_state the tree under test has for the update-granular class of entry `e`, decided by the replay
    of the known finding C01-window-merged-object-merged-again (window 1; three shards with two updates each;
    SEQUENTIAL merge A.merge([B]); A.merge([C])):
      'code'  -- max_num_updates stays 1 and the pooled buffer holds the windows of A and C only
                 (WindowedMeanSquaredError, shards [1,2],[3,4],[5,6] vs target 0: squared errors [4, 36]),
      'cap'   -- max_num_updates is the pooled capacity 3 and the buffer holds all three windows ([4, 16, 36])
                 (fixes/window-merge-capacity.patch),
      'mixed' -- anything else (no model variant: the model of the current code is used and the check reports)."""
    import random
    rng = random.Random(20260101)
    cfg = {"num_tasks": 1, "max_num_updates": 1, "enable_lifetime": True, **e.extra_opts[0]}
    try:
        if e.name == "WindowedMeanSquaredError":
            shards = []
            for vals in ([1, 2], [3, 4], [5, 6]):
                m = e.cls(max_num_updates=1, enable_lifetime=True)
                for v in vals:
                    m.update(torch.tensor([float(v)]), torch.tensor([0.0]))
                shards.append(m)
        else:
            shards = []
            for _ in range(3):
                m = e.make(cfg)
                for _ in range(2):
                    e.update(m, cfg, e.gen_batch(rng, cfg, 2))
                shards.append(m)
        a = shards[0]
        a.merge_state([shards[1]])
        a.merge_state([shards[2]])
        cap, tot = int(a.max_num_updates), int(a.total_updates)
        width = [int(getattr(a, n).shape[-1]) for n in a.state_dict() if n.startswith("windowed")]
        if e.name == "WindowedMeanSquaredError":
            sse = [float(x) for x in a.windowed_sum_squared_error.reshape(-1)]
            if cap == 1 and sse[:2] == [4.0, 36.0] and not any(sse[2:]):
                return "code"
            if cap == 3 and sse == [4.0, 16.0, 36.0]:
                return "cap"
            return "mixed"
        if tot == 6 and cap == 1 and all(w == 2 for w in width):
            return "code"
        if tot == 6 and cap == 3 and all(w == 3 for w in width):
            return "cap"
    except Exception:
        pass
    return "mixed"


class WCTR(_Win):
    name, cls, base_model, ref_cls = "WindowedClickThroughRate", M.WindowedClickThroughRate, "wctr", M.ClickThroughRate
    has_y = False
    xdtype = torch.float32

    def args(self, cfg, b):
        x = self._t(cfg, b["x"], torch.float32)
        w = self._w(cfg, b)
        return (x,), ({} if w is None else {"weights": w})


class WWC(_Win):
    name, cls, base_model, ref_cls = "WindowedWeightedCalibration", M.WindowedWeightedCalibration, "wcal", M.WeightedCalibration

    def gen_x(self, rng, n):
        return grid(rng, n, 8)

    def args(self, cfg, b):
        x, y = self._t(cfg, b["x"], torch.float64), self._t(cfg, b["y"], torch.float64)
        w = self._w(cfg, b)
        return (x, y), ({} if w is None else {"weight": w})


class WMSE(_Win):
    name, cls, base_model, ref_cls = "WindowedMeanSquaredError", M.WindowedMeanSquaredError, "wmse", M.MeanSquaredError
    scalar_weight = False
    none_weight = True
    shared_w = True
    extra_opts = [{"multioutput": "uniform_average"}, {"multioutput": "raw_values"}]

    def ref_kwargs(self, cfg):
        return {"multioutput": cfg["multioutput"]}

    def gen_x(self, rng, n):
        return grid(rng, n, 4, -8, 8)

    gen_y = gen_x

    def _cols(self, cfg, rows):
        t = tens(rows, torch.float32)
        return t[0] if cfg["num_tasks"] == 1 else t.T.contiguous()

    def args(self, cfg, b):
        x, y = self._cols(cfg, b["x"]), self._cols(cfg, b["y"])
        if b["wmode"] == "none":
            return (x, y), {}
        return (x, y), {"sample_weight": tens(b["w"][0], torch.float32)}


class WNE(_Win):
    huge_weights = False
    name, cls, base_model, ref_cls = ("WindowedBinaryNormalizedEntropy", M.WindowedBinaryNormalizedEntropy, "wne",
                                 M.BinaryNormalizedEntropy)
    scalar_weight = False
    none_weight = True

    def gen_x(self, rng, n):
        return grid(rng, n, 16, 1, 15)       # probabilities strictly inside (0, 1)

    def args(self, cfg, b):
        x, y = self._t(cfg, b["x"], torch.float64), self._t(cfg, b["y"], torch.float64)
        w = self._w(cfg, b)
        return (x, y), ({} if w is None else {"weight": w})


def auroc_compute_variant():
    """Which compute() the tree under test has, decided by the two D6 witnesses:
    'code'  -- zero scores in the tail read as unfilled AND squeeze() of a one-sample window (V_code),
    'cfix'  -- both repaired (fixes/window-auroc-compute.patch: whole buffer, weights 0 in unfilled slots),
    'mixed' -- only one of them (no model variant: the V_code model is used and the check reports)."""
    def run(n, batches, T=1):
        m = M.WindowedBinaryAUROC(max_num_samples=n, num_tasks=T)
        for x, y in batches:
            m.update(torch.tensor(x), torch.tensor(y))
        try:
            return m.compute()
        except Exception:
            return None
    z = run(4, [([0.9, 0.8, 0.7, 0.0], [0.0, 1.0, 1.0, 1.0]), ([0.5, 0.4, 0.3], [0.0, 1.0, 0.0])])
    one = run(4, [([0.9], [0.0])])
    two = run(1, [([[0.9], [0.3]], [[0.0], [1.0]])], T=2)
    zero_fixed = z is not None and abs(float(z) - 0.25) < 1e-6
    sq_fixed = (one is not None and one.ndim == 0 and abs(float(one) - 0.5) < 1e-6
                and two is not None and tuple(two.shape) == (2,))
    zero_code = z is not None and abs(float(z) - 0.5) < 1e-6
    sq_code = one is None and two is not None and two.ndim == 0
    if zero_fixed and sq_fixed:
        return "cfix"
    if zero_code and sq_code:
        return "code"
    return "mixed"


class WAUROC(_Win):
    huge_weights = False
    name, cls, ref_cls = "WindowedBinaryAUROC", M.WindowedBinaryAUROC, M.BinaryAUROC
    _model = None

    @property
    def model(self):
        """the Coq model mirroring the tree under test: current compute() or the repaired one"""
        if self._model is None:
            self.variant = auroc_compute_variant()
            self._model = "wauroc_cfix" if self.variant == "cfix" else "wauroc"
        return self._model

    @model.setter
    def model(self, v):
        self._model = v
    granularity = "sample"
    zero_weights = True           # compute() evaluates the whole buffer since 41268ab: explicit zero weights are ordinary samples of weight 0
    scalar_weight = False
    none_weight = True
    wdtype = torch.float32

    def grid_cfgs(self):
        # "zeros": scores exactly 0 may be generated (D6 territory); not a constructor argument
        return [{"num_tasks": t, "max_num_samples": n, "zeros": z} for n in SIZES for t in TASKS for z in (False, True)]

    def configs(self, rng, quick=True):
        g = self.grid_cfgs()
        rng.shuffle(g)
        lead = [c for c in g if c["max_num_samples"] == 1][:2] + [c for c in g if c["max_num_samples"] == 4 and c["num_tasks"] == 1][:2]
        return lead + [c for c in g if c not in lead]

    def kwargs(self, cfg):
        return {"num_tasks": cfg["num_tasks"], "max_num_samples": cfg["max_num_samples"]}

    def window(self, cfg):
        return cfg["max_num_samples"]

    DEN = 8                                            # scores live on the grid k/8 (Curves kernel: integer scores)

    def cfg_val(self, cfg):
        return [cfg["num_tasks"], cfg["max_num_samples"], self.DEN]

    def batch_val(self, cfg, b):
        xs = [[int(x * self.DEN) for x in r] for r in b["x"]]
        assert all(F(z, self.DEN) == x for r, rz in zip(b["x"], xs) for x, z in zip(r, rz))
        return [xs, [[int(y) for y in r] for r in b["y"]], b["w"]]

    def gen_batch(self, rng, cfg, n):
        T, N = cfg["num_tasks"], cfg["max_num_samples"]
        n = rng.randint(1, 2 * N + 1)                  # batches of one ... larger than the window
        if rng.random() < 0.3:
            n = N                                      # exactly the window (the copy_ / adoption branch)
        lo = 0 if cfg.get("zeros") else 1
        mode, w = self.gen_w(rng, cfg, n, T)
        xs = [grid(rng, n, 8, lo, 8) for _ in range(T)]
        if cfg.get("zeros"):                            # zero-heavy: whole columns of zero scores
            for i in range(n):
                if rng.random() < 0.3:
                    for r in xs:
                        r[i] = F(0)
        return {"x": xs,
                "y": [self.gen_y(rng, n) for _ in range(T)], "w": w, "wmode": mode}

    def args(self, cfg, b):
        x, y = self._t(cfg, b["x"], torch.float32), self._t(cfg, b["y"], torch.float32)
        w = self._w(cfg, b)
        return (x, y), ({} if w is None else {"weight": w})

    def update(self, metric, cfg, batch):
        # A stale cursor beyond the buffer (only reachable through D5-load: merge-enlarged object,
        # then load_state_dict of a smaller dict; reset() rewinds the cursor since c5ceb09) makes the slice assignment raise before any state is
        # touched; the model maps exactly this situation to "state unchanged".
        stale = metric.next_inserted > metric.max_num_samples and self.size(batch) < metric.max_num_samples
        try:
            return super().update(metric, cfg, batch)
        except RuntimeError:
            if stale:
                return metric
            raise


ENTRIES = [WCTR(), WMSE(), WNE(), WWC(), WAUROC()]
UPDATE_GRANULAR = ENTRIES[:4]

