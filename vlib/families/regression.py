"""MeanSquaredError, R2Score, Wasserstein1D, PeakSignalNoiseRatio, BinaryNormalizedEntropy, Perplexity.

Inputs are float64 wherever the API allows.  Tolerances: TOL64, except where the implementation
itself leaves float64 (documented per entry): the `tol` of such an entry depends on the
configuration last constructed / evaluated."""
from fractions import Fraction
import torch
from torcheval import metrics as M
from torcheval.metrics import functional as Fn
from torcheval.metrics.statistical import Wasserstein1D
from torcheval.metrics.functional.statistical.wasserstein import wasserstein_1d
from ..catalogue import Entry, tens, grid, F
from ..compare import TOL32, TOL64, impl_val
from .aggregation2 import DynTol

WEIGHTS = [F(1, 4), F(1, 2), F(1), F(2), F(3)]


class _Reg(DynTol):
    """input/target of width _d (0: 1-D tensors), optional sample weights."""
    family = "additive-adopting"
    alias_on_merge = True        # adopts the first shard's shape: probed for tensor sharing (was D2)
    weighted = False

    def class_tol(self, cfg):
        # 1-D inputs: the 0-dim float32 default states are updated in place (`+=`), so the class
        # accumulates and computes in float32; 2-D float64 inputs are adopted as float64.
        return TOL32 if cfg["_d"] == 0 else TOL64

    def gen_batch(self, rng, cfg, n):
        n = max(1, n)
        d = max(1, cfg["_d"])
        t = [grid(rng, d, 8, -16, 16) for _ in range(n)]
        x = [[v + Fraction(rng.randint(-8, 8), 8) for v in r] for r in t]
        r = rng.random()
        if r < 0.25:                                   # constant target column(s): TSS = 0
            for row in t:
                row[0] = t[0][0]
            if r < 0.1:
                t = [list(t[0]) for _ in range(n)]
        if rng.random() < 0.15:                        # perfect prediction
            x = [list(r_) for r_ in t]
        if rng.random() < 0.15:                        # all-zero targets with non-zero predictions
            t = [[Fraction(0)] * d for _ in range(n)]
            x = [[Fraction(rng.choice([-9, -4, -1, 1, 3, 8]), 8) for _ in range(d)] for _ in range(n)]
        b = {"x": x, "t": t, "w": None}
        if self.weighted and rng.random() < 0.6:
            b["w"] = [rng.choice(WEIGHTS) for _ in range(n)]
        return b

    def _xt(self, cfg, b):
        n = len(b["x"])
        x, t = tens(b["x"], torch.float64), tens(b["t"], torch.float64)
        if cfg["_d"] == 0:
            return x.reshape(n), t.reshape(n)
        return x.reshape(n, cfg["_d"]), t.reshape(n, cfg["_d"])

    def batch_val(self, cfg, b):
        return [cfg["_d"] == 0, b["x"], b["t"], b["w"]]

    def concat(self, cfg, batches):
        ws = None
        if any(b["w"] is not None for b in batches):
            ws = sum(((b["w"] if b["w"] is not None else [F(1)] * len(b["x"])) for b in batches), [])
        return {"x": sum((b["x"] for b in batches), []), "t": sum((b["t"] for b in batches), []), "w": ws}

    def samples(self, cfg, b):
        return [{"x": [b["x"][i]], "t": [b["t"][i]], "w": None if b["w"] is None else [b["w"][i]]}
                for i in range(len(b["x"]))]

    def size(self, b):
        return len(b["x"])

    def width(self, cfg):
        return None if cfg["_d"] == 0 else cfg["_d"]

    def directed_batches(self, rng, cfg):
        """histories that START with all-zero-target batches (non-zero predictions), then a constant and a normal one"""
        d = max(1, cfg["_d"])
        z = lambda n, k: {"x": [[Fraction(k + i + j, 8) for j in range(d)] for i in range(n)],
                          "t": [[Fraction(0)] * d for _ in range(n)], "w": None}
        c = {"x": [[Fraction(1, 2)] * d, [Fraction(-3, 8)] * d], "t": [[Fraction(5, 8)] * d] * 2, "w": None}
        return [z(2, 1), z(1, 3), z(3, -7), c, self.gen_batch(rng, cfg, 3)]


class MSEE(_Reg):
    name, cls, model, fn_model = "MeanSquaredError", M.MeanSquaredError, "reg_mse", "reg_mse_fn"
    weighted = True
    min_compute = 1

    def configs(self, rng, quick=True):
        return [{"multioutput": m, "_d": d} for d in (2, 0, 1, 3) for m in ("uniform_average", "raw_values")]

    def kwargs(self, cfg):
        return {"multioutput": cfg["multioutput"]}

    def cfg_val(self, cfg):
        return [cfg["multioutput"] == "raw_values", self.width(cfg)]

    def args(self, cfg, b):
        x, t = self._xt(cfg, b)
        return (x, t), ({} if b["w"] is None else {"sample_weight": tens(b["w"], torch.float64)})

    def functional(self, cfg, b):
        self._tol = TOL64
        a, k = self.args(cfg, b)
        return Fn.mean_squared_error(*a, multioutput=cfg["multioutput"], **k)


class R2E(_Reg):
    name, cls, model, fn_model = "R2Score", M.R2Score, "reg_r2", "reg_r2_fn"
    min_compute = 2
    MODES = ["raw_values", "uniform_average", "variance_weighted"]

    def configs(self, rng, quick=True):
        cs = [{"multioutput": m, "num_regressors": p, "_d": d} for d in (2, 0, 1, 3) for m in self.MODES for p in (0, 1, 2)]
        rng.shuffle(cs)
        return cs

    def kwargs(self, cfg):
        return {"multioutput": cfg["multioutput"], "num_regressors": cfg["num_regressors"]}

    def cfg_val(self, cfg):
        return [self.MODES.index(cfg["multioutput"]), cfg["num_regressors"], self.width(cfg)]

    def args(self, cfg, b):
        return self._xt(cfg, b), {}

    def functional(self, cfg, b):
        self._tol = TOL64
        a, _ = self.args(cfg, b)
        return Fn.r2_score(*a, multioutput=cfg["multioutput"], num_regressors=cfg["num_regressors"])

    def defined(self, cfg, batches):
        n = sum(len(b["x"]) for b in batches)
        return n >= 2 and cfg["num_regressors"] < n - 1


class WassersteinE(DynTol):
    name, cls, model, fn_model = "Wasserstein1D", Wasserstein1D, "stat_wasserstein", "stat_wasserstein_fn"
    family = "cache"
    min_compute = 1

    def class_tol(self, cfg):
        # without explicit weights the CDFs are built in float32 (ones_like(dtype=float) in the class,
        # int64 / int -> default dtype in the functional): float32 accuracy even for float64 samples
        return TOL64 if cfg["_w"] == "both" else TOL32

    def configs(self, rng, quick=True):
        return [{"_w": "both"}, {"_w": "none"}, {"_w": "mixed"}]

    def kwargs(self, cfg):
        return {}

    def gen_batch(self, rng, cfg, n):
        n = max(1, n)
        m = max(1, rng.choice([n, n, 1, n + 2, max(1, n - 1), 2 * n]))       # unequal sample counts
        tie = rng.random() < 0.6
        hi = 6 if tie else 64
        x, y = grid(rng, n, 4, -hi, hi), grid(rng, m, 4, -hi, hi)
        if rng.random() < 0.1:
            y = list(x)                                 # identical distributions -> 0
            m = n

        def w(k):
            mode = cfg["_w"]
            if mode == "none" or (mode == "mixed" and rng.random() < 0.5):
                return None
            return [rng.choice(WEIGHTS) for _ in range(k)]
        return {"x": x, "xw": w(n), "y": y, "yw": w(len(y))}

    def args(self, cfg, b):
        f = lambda v: None if v is None else tens(v, torch.float64)
        return (f(b["x"]), f(b["y"]), f(b["xw"]), f(b["yw"])), {}

    def batch_val(self, cfg, b):
        return [b["x"], b["xw"], b["y"], b["yw"]]

    def concat(self, cfg, batches):
        one = lambda v, w: w if w is not None else [F(1)] * len(v)
        return {"x": sum((b["x"] for b in batches), []), "y": sum((b["y"] for b in batches), []),
                "xw": sum((one(b["x"], b["xw"]) for b in batches), []),
                "yw": sum((one(b["y"], b["yw"]) for b in batches), [])}

    def samples(self, cfg, b):
        return None

    def size(self, b):
        return len(b["x"])

    def functional(self, cfg, b):
        self._tol = TOL64 if (b["xw"] is not None and b["yw"] is not None) else TOL32
        a, _ = self.args(cfg, b)
        return wasserstein_1d(*a)


class PSNRE(Entry):
    name, cls, model, fn_model = "PeakSignalNoiseRatio", M.PeakSignalNoiseRatio, "stat_psnr", "stat_psnr_fn"
    tol = TOL64
    family = "additive+range"
    min_compute = 1

    def configs(self, rng, quick=True):
        return [{"data_range": None}, {"data_range": F(1)}, {"data_range": F(5, 2)}]

    def kwargs(self, cfg):
        return {"data_range": None if cfg["data_range"] is None else float(cfg["data_range"])}

    def cfg_val(self, cfg):
        return cfg["data_range"]

    def gen_batch(self, rng, cfg, n):
        n = max(1, n)
        t = grid(rng, n, 8, 0, 8)
        if rng.random() < 0.15:
            t = [t[0]] * n                              # constant target: data_range 0 in auto mode
        x = list(t) if rng.random() < 0.15 else grid(rng, n, 8, 0, 8)
        if rng.random() < 0.35:                         # squared errors whose sums need > 24 bits (float64 exact,
            x = [v + 512 + Fraction(rng.randint(1, 7), 8) for v in t]      # a float32 accumulator would round)
        return {"x": x, "t": t, "rows": 2 if (n % 2 == 0 and rng.random() < 0.3) else 0}

    def directed_batches(self, rng, cfg):
        t = grid(rng, 3, 8, 0, 8)
        return [{"x": [v + 512 + Fraction(k, 8) for v, k in zip(t, (1, 3, 5))], "t": t, "rows": 0}]

    def args(self, cfg, b):
        x, t = tens(b["x"], torch.float64), tens(b["t"], torch.float64)
        if b.get("rows"):
            x, t = x.reshape(2, -1), t.reshape(2, -1)
        return (x, t), {}

    def batch_val(self, cfg, b):
        return [b["x"], b["t"]]

    def concat(self, cfg, batches):
        return {"x": sum((b["x"] for b in batches), []), "t": sum((b["t"] for b in batches), []), "rows": 0}

    def samples(self, cfg, b):
        return [{"x": [x], "t": [t], "rows": 0} for x, t in zip(b["x"], b["t"])]

    def size(self, b):
        return len(b["x"])

    def functional(self, cfg, b):
        a, _ = self.args(cfg, b)
        return Fn.peak_signal_noise_ratio(*a, **self.kwargs(cfg))


class NEE(Entry):
    name, cls, model, fn_model = ("BinaryNormalizedEntropy", M.BinaryNormalizedEntropy, "stat_ne", "stat_ne_fn")
    tol = TOL64
    family = "additive-symbolic"
    min_compute = 1

    def configs(self, rng, quick=True):
        return [{"from_logits": l, "num_tasks": t} for t in (1, 2, 3) for l in (False, True)]

    def cfg_val(self, cfg):
        return [bool(cfg["from_logits"]), cfg["num_tasks"]]

    def gen_batch(self, rng, cfg, n):
        n = max(1, n)
        t = cfg["num_tasks"]
        r = rng.random()
        y = [[rng.choice([0, 1]) if r > 0.25 else (0 if r < 0.12 else 1) for _ in range(n)] for _ in range(t)]
        if cfg["from_logits"]:
            x = [grid(rng, n, 4, -12, 12) for _ in range(t)]
            if rng.random() < 0.4:
                # logits of large magnitude on both sides of the label.  Every such row gets at least one confidently
                # WRONG entry, so its cross entropy is O(|x|): an all-confidently-right row has a true loss ~1e-17 that
                # float64 cannot hold next to 1.0 and that a degenerate (clamped) baseline would amplify beyond any tolerance.
                big = [25, 40, 60, 100]
                x = [[Fraction(rng.choice(big) * rng.choice([-1, 1])) if rng.random() < 0.5 else v for v in r_] for r_ in x]
                for r_, yr in zip(x, y):
                    r_[0] = Fraction(rng.choice(big) * (-1 if yr[0] == 1 else 1))
        else:
            x = [grid(rng, n, 8, 0, 8) for _ in range(t)]          # includes the probabilities 0 and 1
        w = [[rng.choice(WEIGHTS) for _ in range(n)] for _ in range(t)] if rng.random() < 0.5 else None
        return {"x": x, "y": y, "w": w}

    def args(self, cfg, b):
        sq = (lambda m: m[0]) if cfg["num_tasks"] == 1 else (lambda m: m)
        a = (tens(sq(b["x"]), torch.float64), tens(sq(b["y"]), torch.float64))
        return a, ({} if b["w"] is None else {"weight": tens(sq(b["w"]), torch.float64)})

    def batch_val(self, cfg, b):
        return [b["x"], b["y"], b["w"]]

    def concat(self, cfg, batches):
        t = cfg["num_tasks"]
        cat = lambda key: [sum((b[key][i] for b in batches), []) for i in range(t)]
        w = None
        if any(b["w"] is not None for b in batches):
            w = [sum(((b["w"][i] if b["w"] is not None else [F(1)] * len(b["x"][i])) for b in batches), []) for i in range(t)]
        return {"x": cat("x"), "y": cat("y"), "w": w}

    def samples(self, cfg, b):
        t = cfg["num_tasks"]
        return [{"x": [[b["x"][i][j]] for i in range(t)], "y": [[b["y"][i][j]] for i in range(t)],
                 "w": None if b["w"] is None else [[b["w"][i][j]] for i in range(t)]} for j in range(len(b["x"][0]))]

    def size(self, b):
        return len(b["x"][0])

    def functional(self, cfg, b):
        a, k = self.args(cfg, b)
        return Fn.binary_normalized_entropy(*a, num_tasks=cfg["num_tasks"], from_logits=cfg["from_logits"], **k)

    def fn_val(self, r):
        return impl_val(r.reshape(-1))

    def directed_batches(self, rng, cfg):
        t = cfg["num_tasks"]
        big = [-100, -40, 40, 100, -60, 25] if cfg["from_logits"] else [0, 0, 1, 1, 0, 1]
        return [{"x": [[Fraction(v) for v in big] for _ in range(t)], "y": [[0, 0, 0, 1, 1, 1] for _ in range(t)], "w": None},
                {"x": [[Fraction(v) for v in big[::-1]] for _ in range(t)], "y": [[0, 1, 0, 1, 1, 0] for _ in range(t)],
                 "w": [[F(1, 2), F(2), F(1), F(3), F(1, 4), F(1)] for _ in range(t)]}]


class PerplexityE(Entry):
    name, cls, model, fn_model = "Perplexity", M.Perplexity, "stat_perplexity", "stat_perplexity_fn"
    tol = TOL64
    family = "additive-symbolic"
    min_compute = 1

    def configs(self, rng, quick=True):
        return [{"ignore_index": i, "_v": v} for (i, v) in ((None, 3), (0, 3), (2, 2), (-100, 5), (2, 5), (None, 2))]

    def kwargs(self, cfg):
        return {"ignore_index": cfg["ignore_index"]}

    def cfg_val(self, cfg):
        return cfg["ignore_index"]

    MAX_TOKENS = 1500     # _perplexity_update materialises probs[:, target] (N x N) before .diagonal(): quadratic memory

    def gen_batch(self, rng, cfg, n):
        n = min(max(1, n), self.MAX_TOKENS)
        v, ig = cfg["_v"], cfg["ignore_index"]
        rows = [grid(rng, v, 4, -8, 8) for _ in range(n)]
        p = rng.choice([0, 0.3, 0.8])
        t = [ig if (ig is not None and rng.random() < p) else rng.choice([k for k in range(v)]) for _ in range(n)]
        s = rng.choice([k for k in range(1, n + 1) if n % k == 0])
        return {"rows": rows, "t": t, "S": s}

    def args(self, cfg, b):
        n, s, v = len(b["rows"]), b["S"], cfg["_v"]
        return (tens(b["rows"], torch.float64).reshape(n // s, s, v), torch.tensor(b["t"], dtype=torch.int64).reshape(n // s, s)), {}

    def batch_val(self, cfg, b):
        return [b["rows"], b["t"]]

    def concat(self, cfg, batches):
        return {"rows": sum((b["rows"] for b in batches), []), "t": sum((b["t"] for b in batches), []), "S": 1}

    def samples(self, cfg, b):
        return [{"rows": [r], "t": [t], "S": 1} for r, t in zip(b["rows"], b["t"])]

    def size(self, b):
        return len(b["rows"])

    def functional(self, cfg, b):
        a, _ = self.args(cfg, b)
        return Fn.perplexity(*a, ignore_index=cfg["ignore_index"])

    def defined(self, cfg, batches):
        ig = cfg["ignore_index"]
        return any(t != ig for b in batches for t in b["t"])


ENTRIES = [MSEE(), R2E(), WassersteinE(), PSNRE(), NEE(), PerplexityE()]
