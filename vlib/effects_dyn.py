"""Property-directed searches on the REAL classes for the effect-layer properties (C09/C10 registry,
C11 aliasing / compute purity / argument immutability, C14 update atomicity).

Used (a) to produce a failing input when a table obligation over the translated skeletons breaks,
(b) as a light dynamic validation of the translator's verdicts on every class on every run
(a statically clean class must also be dynamically clean on the probes).  Testing only: it finds
witnesses, it never replaces the Coq table theorems.
"""
from __future__ import annotations

import copy
import inspect
import warnings

import torch

warnings.filterwarnings("ignore")


class _Emb(torch.nn.Module):
    def __init__(self):
        super().__init__()
        torch.manual_seed(0)
        self.lin = torch.nn.Linear(4, 3)

    def forward(self, x):
        return self.lin(x.reshape(-1, 4))


NATIVE_CRASH_ON_EMPTY = {"FrechetAudioDistance"}


def _ident(x):
    return x


def ctor_table() -> dict:
    """constructor configurations per class (classes not listed: default constructor)"""
    T = {
        "BinaryRecallAtFixedPrecision": [dict(min_precision=0.5)],
        "MultilabelRecallAtFixedPrecision": [dict(num_labels=3, min_precision=0.5)],
        "BLEUScore": [dict(n_gram=2)],
        "FrechetAudioDistance": [dict(preproc=_ident, model=_Emb(), embedding_dim=3)],
        "MulticlassAUPRC": [dict(num_classes=3)], "MulticlassAUROC": [dict(num_classes=3)],
        "MulticlassBinnedAUPRC": [dict(num_classes=3)], "MulticlassBinnedAUROC": [dict(num_classes=3)],
        "MulticlassBinnedPrecisionRecallCurve": [dict(num_classes=3)],
        "MulticlassConfusionMatrix": [dict(num_classes=3)],
        "MultilabelAUPRC": [dict(num_labels=3)], "MultilabelBinnedAUPRC": [dict(num_labels=3)],
        "MultilabelBinnedPrecisionRecallCurve": [dict(num_labels=3)],
        "MultilabelPrecisionRecallCurve": [dict(num_labels=3)],
        "TopKMultilabelAccuracy": [dict(k=2)],
        "RetrievalPrecision": [dict(), dict(num_queries=2)], "RetrievalRecall": [dict(), dict(num_queries=2)],
        "WindowedBinaryAUROC": [dict(max_num_samples=3), dict(max_num_samples=5, num_tasks=2)],
        "MeanSquaredError": [dict(), dict(multioutput="raw_values")],
        "R2Score": [dict(), dict(multioutput="raw_values")],
    }
    for w in ("WindowedBinaryNormalizedEntropy", "WindowedClickThroughRate", "WindowedMeanSquaredError",
              "WindowedWeightedCalibration"):
        T[w] = [dict(max_num_updates=3, enable_lifetime=True), dict(max_num_updates=3, enable_lifetime=False),
                dict(max_num_updates=3, enable_lifetime=True, num_tasks=2)]
    T["WindowedMeanSquaredError"].append(dict(max_num_updates=3, enable_lifetime=True, num_tasks=2, multioutput="raw_values"))
    return T


def classes() -> dict:
    import torcheval.metrics as M
    from torcheval.metrics.metric import Metric
    out = {n: getattr(M, n) for n in M.__all__ if inspect.isclass(getattr(M, n, None)) and issubclass(getattr(M, n), Metric)
           and n not in ("Metric", "FrechetInceptionDistance", "StructuralSimilarity")}
    from torcheval.metrics.statistical import Wasserstein1D
    out["Wasserstein1D"] = Wasserstein1D
    return dict(sorted(out.items()))


def candidates():
    """candidate (args, kwargs) for update(); the first ones that a class accepts are used.
    Multi-output / multi-task shapes first (they trigger the shape-adoption branches)."""
    t = torch.tensor
    p4 = [0.9, 0.2, 0.6, 0.4]
    C = [
        ("2d-float-pair", lambda: ((t([[0.9, 0.5], [0.3, 0.5], [0.2, 0.1], [0.7, 0.4]]), t([[0.5, 0.8], [0.2, 0.8], [0.1, 0.3], [0.6, 0.6]])), {})),
        ("3col-float-pair", lambda: ((t([[0.9, 0.5, 0.1], [0.3, 0.5, 0.2]]), t([[0.5, 0.8, 0.3], [0.2, 0.8, 0.6]])), {})),
        ("2task-prob-binary", lambda: ((t([p4, [0.3, 0.8, 0.1, 0.5]]), t([[1.0, 0.0, 1.0, 0.0], [0.0, 1.0, 0.0, 1.0]])), {})),
        ("prob-binary", lambda: ((t(p4), t([1.0, 0.0, 1.0, 0.0])), {})),
        ("prob-zero-target", lambda: ((t(p4), t([0.0, 0.0, 0.0, 0.0])), {})),
        ("prob-int-binary", lambda: ((t(p4), t([1, 0, 1, 0])), {})),
        ("scores-3class-labels", lambda: ((t([[0.7, 0.2, 0.1], [0.1, 0.8, 0.1], [0.2, 0.2, 0.6], [0.5, 0.3, 0.2]]), t([0, 1, 2, 1])), {})),
        ("scores-3label-multilabel", lambda: ((t([[0.7, 0.2, 0.1], [0.1, 0.8, 0.9], [0.2, 0.6, 0.6], [0.5, 0.3, 0.2]]), t([[1, 0, 0], [0, 1, 1], [0, 1, 1], [1, 0, 0]])), {})),
        ("labels-labels", lambda: ((t([0, 1, 2, 1]), t([0, 1, 1, 1])), {})),
        ("retrieval-indexed", lambda: ((t(p4), t([1, 0, 1, 0])), {"indexes": t([0, 0, 1, 1])})),
        ("logits-tokens", lambda: ((torch.arange(30.0).reshape(2, 3, 5) / 7.0, t([[1, 2, 3], [0, 4, 2]])), {})),
        ("images", lambda: ((torch.arange(96.0).reshape(2, 3, 4, 4) / 96.0, (torch.arange(96.0).reshape(2, 3, 4, 4) / 96.0).flip(0)), {})),
        ("waveforms", lambda: ((torch.arange(16.0).reshape(2, 8) / 16.0, torch.arange(16.0).reshape(2, 8).flip(1) / 8.0), {})),
        ("obs-2d", lambda: ((t([[0.9, 0.5], [0.3, 0.5], [0.2, 0.1], [0.7, 0.4]]),), {})),
        ("values-weighted", lambda: ((t(p4),), {"weight": t([1.0, 2.0, 0.5, 1.0])})),
        ("values-1d", lambda: ((t(p4),), {})),
        ("values-2d", lambda: ((t([p4, p4]),), {})),
        ("strings", lambda: ((["hello world foo", "the cat"], ["hello there foo", "the cat sat"]), {})),
        ("bleu", lambda: ((["the cat sat on the mat"], [["the cat sat on a mat", "a cat sat"]]), {})),
        ("throughput", lambda: ((4, 1.5), {})),
    ]
    return C


def snapshot(m) -> dict:
    """registered states + every other plain attribute (numbers, tensors, lists of tensors)"""
    out = {}
    for k, v in vars(m).items():
        if k in ("_state_name_to_default",):
            continue
        if isinstance(v, torch.Tensor):
            out[k] = v.detach().clone()
        elif isinstance(v, (list, tuple)) and all(isinstance(x, torch.Tensor) for x in v):
            out[k] = [x.detach().clone() for x in v]
        elif isinstance(v, dict) and all(isinstance(x, torch.Tensor) for x in v.values()):
            out[k] = {a: x.detach().clone() for a, x in v.items()}
        elif isinstance(v, (int, float, bool, str, type(None))):
            out[k] = v
    return out


def same(a, b) -> bool:
    if isinstance(a, torch.Tensor) and isinstance(b, torch.Tensor):
        return a.shape == b.shape and a.dtype == b.dtype and bool(torch.equal(a, b) or (torch.isnan(a) == torch.isnan(b)).all() and torch.equal(torch.nan_to_num(a), torch.nan_to_num(b)))
    if isinstance(a, (list, tuple)) and isinstance(b, (list, tuple)):
        return len(a) == len(b) and all(same(x, y) for x, y in zip(a, b))
    if isinstance(a, dict) and isinstance(b, dict):
        return a.keys() == b.keys() and all(same(a[k], b[k]) for k in a)
    if isinstance(a, float) and isinstance(b, float):
        return a == b or (a != a and b != b)
    return type(a) == type(b) and a == b


def diff(s1: dict, s2: dict) -> list:
    return sorted(k for k in set(s1) | set(s2) if k not in s1 or k not in s2 or not same(s1[k], s2[k]))


def outcome(f):
    try:
        return ("ok", f())
    except Exception as e:  # noqa: BLE001
        return ("err", type(e).__name__)


def lit(x):
    if isinstance(x, torch.Tensor):
        return {"tensor": x.tolist(), "dtype": str(x.dtype).replace("torch.", "")}
    if isinstance(x, (list, tuple)):
        return [lit(y) for y in x]
    if isinstance(x, dict):
        return {str(k): lit(v) for k, v in x.items()}
    if isinstance(x, (int, float, str, bool)) or x is None:
        return x
    return repr(x)[:80]


def cfg_lit(kw):
    return {k: (v if isinstance(v, (int, float, str, bool, type(None))) else type(v).__name__) for k, v in kw.items()}


def working_inputs(cls, kw, limit=3):
    """the first candidates update() accepts for this configuration"""
    out = []
    for name, mk in candidates():
        try:
            m = cls(**kw)
            a, k = mk()
            m.update(*a, **k)
        except Exception:  # noqa: BLE001
            continue
        out.append((name, mk))
        if len(out) >= limit:
            break
    return out


def configs(name):
    return ctor_table().get(name, [dict()])


# ---- C11: merge sources / compute / arguments -------------------------------------------------
def probe_alias(name, cls):
    """merge an updated source into a fresh target, then update / merge the target again; the
    source's attributes and compute() must not change.  Returns (evaluations, witness|None)."""
    n = 0
    for kw in configs(name):
        for cname, mk in working_inputs(cls, kw):
            src = cls(**kw)
            a, k = mk()
            src.update(*a, **k)
            cb = outcome(src.compute)
            before = snapshot(src)        # after compute(): impurity of compute() is a separate check
            tgt = cls(**kw)
            try:
                tgt.merge_state([src])
                a2, k2 = mk()
                tgt.update(*a2, **k2)
                tgt.merge_state([src])
                a3, k3 = mk()
                tgt.update(*a3, **k3)
            except Exception:  # noqa: BLE001
                pass
            n += 1
            after = snapshot(src)
            d = diff(before, after)
            ca = outcome(src.compute)
            if d or not same_out(cb, ca):
                return n, {"check": "merge_state leaves sources unchanged", "class": name, "cfg": cfg_lit(kw), "input": cname,
                           "history": ["src.update(x)", "tgt = fresh; tgt.merge_state([src])", "tgt.update(x)", "tgt.merge_state([src])", "tgt.update(x)"],
                           "x": lit(mk()), "source_attributes_changed": d,
                           "source_before": lit({f: before[f] for f in d if f in before}),
                           "source_after": lit({f: after[f] for f in d if f in after}),
                           "source_compute_before": lit(cb), "source_compute_after": lit(ca)}
    return n, None


def same_out(a, b):
    return a[0] == b[0] and (same(a[1], b[1]) if a[0] == "ok" else a[1] == b[1])


def probe_pure(name, cls):
    """compute() must leave every attribute unchanged (on fresh, updated and merged objects)"""
    n = 0
    for kw in configs(name):
        inputs = working_inputs(cls, kw, limit=6)
        # compute() of an un-updated FrechetAudioDistance segfaults the interpreter (NaN -> MKL eigvals)
        first = [] if name in NATIVE_CRASH_ON_EMPTY else [("<no update>", None)]
        for cname, mk in first + inputs:
            m = cls(**kw)
            if mk is not None:
                a, k = mk()
                m.update(*a, **k)
            before = snapshot(m)
            r1 = outcome(m.compute)
            after = snapshot(m)
            r2 = outcome(m.compute)
            n += 1
            d = diff(before, after)
            if d or not same_out(r1, r2):
                return n, {"check": "compute() is pure and idempotent", "class": name, "cfg": cfg_lit(kw), "input": cname,
                           "history": ([] if mk is None else ["update(x)"]) + ["compute()"], "x": lit(mk()) if mk else None,
                           "attributes_changed": d, "before": lit({f: before.get(f) for f in d}), "after": lit({f: after.get(f) for f in d}),
                           "compute_first": lit(r1), "compute_second": lit(r2)}
    return n, None


def probe_args(name, cls):
    """update() must not modify the tensors / sequences passed in"""
    n = 0
    for kw in configs(name):
        for cname, mk in working_inputs(cls, kw):
            m = cls(**kw)
            a, k = mk()
            a0, k0 = copy.deepcopy(a), copy.deepcopy(k)
            m.update(*a, **k)
            m.update(*a, **k)
            outcome(m.compute)
            n += 1
            if not same(list(a), list(a0)) or not same(k, k0):
                return n, {"check": "update() leaves its arguments unchanged", "class": name, "cfg": cfg_lit(kw), "input": cname,
                           "args_before": lit([a0, k0]), "args_after": lit([a, k])}
    return n, None


# ---- C09 / C10: attributes outside the registry ---------------------------------------------------
def probe_registry(name, cls, mode):
    """mode 'reset': updates; reset(); every attribute and every continuation equal a fresh object.
       mode 'load' : updates; load state_dict into a fresh object; equal to the original likewise."""
    n = 0
    for kw in configs(name):
        for cname, mk in working_inputs(cls, kw, limit=2):
            for pre in (1, 2, 4):
                m = cls(**kw)
                for _ in range(pre):
                    a, k = mk()
                    m.update(*a, **k)
                if mode == "reset":
                    m.reset()
                    left, right, what = m, cls(**kw), "reset() vs fresh"
                else:
                    r = cls(**kw)
                    r.load_state_dict(m.state_dict())
                    left, right, what = r, m, "load_state_dict(state_dict()) into fresh vs original"
                n += 1
                d = diff(snapshot(left), snapshot(right))
                hist = [f"{pre} x update(x)", "reset()" if mode == "reset" else "state_dict() -> load_state_dict() into a fresh instance"]
                res = []
                for step in range(4):
                    a, k = mk()
                    o1 = outcome(lambda: left.update(*a, **k).compute())
                    a, k = mk()
                    o2 = outcome(lambda: right.update(*a, **k).compute())
                    res.append((o1, o2))
                    if not same_out(o1, o2):
                        break
                bad = [i for i, (o1, o2) in enumerate(res) if not same_out(o1, o2)]
                if d or bad:
                    return n, {"check": what, "class": name, "cfg": cfg_lit(kw), "input": cname, "history": hist + ["then update(x); compute() repeatedly on both"],
                               "x": lit(mk()), "attributes_differ": d,
                               "left": lit({f: snapshot(left).get(f) for f in d}), "right": lit({f: snapshot(right).get(f) for f in d}),
                               "continuation_results": lit([[o1, o2] for o1, o2 in res])}
    return n, None


# ---- C14: a raising update leaves every attribute unchanged -------------------------------------
def perturbations(a, k):
    """malformed variants of a valid call"""
    out = []
    items = [("arg", i, v) for i, v in enumerate(a)] + [("kw", n_, v) for n_, v in k.items()]
    for where, key, v in items:
        if not isinstance(v, torch.Tensor):
            continue
        vs = []
        if v.ndim >= 1 and v.shape[-1] > 1:
            vs.append(("drop-last", v[..., :-1]))
        vs.append(("unsqueeze0", v.unsqueeze(0)))
        vs.append(("empty", v[:0] if v.ndim else v.reshape(0)))
        vs.append(("string", "bad"))
        if v.ndim >= 2:
            vs.append(("flatten", v.reshape(-1)))
        for tag, nv in vs:
            a2, k2 = list(a), dict(k)
            if where == "arg":
                a2[key] = nv
            else:
                k2[key] = nv
            out.append((f"{where}{key}:{tag}", tuple(a2), k2))
    return out


def probe_atomic(name, cls):
    n = 0
    # (a) a VALID call of another width after a first update: if it raises, nothing may have changed
    for kw in configs(name):
        wi = working_inputs(cls, kw, limit=4)
        for c1, mk1 in wi:
            for c2, mk2 in wi:
                if c1 == c2:
                    continue
                m = cls(**kw)
                a, k = mk1()
                m.update(*a, **k)
                before = snapshot(m)
                a2, k2 = mk2()
                try:
                    m.update(*a2, **k2)
                    raised = None
                except Exception as e:  # noqa: BLE001
                    raised = type(e).__name__
                n += 1
                d = diff(before, snapshot(m)) if raised else []
                if d:
                    after = snapshot(m)
                    return n, {"check": "a raising update() leaves the state unchanged", "class": name, "cfg": cfg_lit(kw),
                               "history": [f"update({c1})", f"update({c2}) raises {raised}"], "first": lit([a, k]), "second": lit([a2, k2]),
                               "attributes_changed": d, "before": lit({f: before.get(f) for f in d}), "after": lit({f: after.get(f) for f in d})}
    # (b) malformed variants of a valid call
    for kw in configs(name):
        for cname, mk in working_inputs(cls, kw, limit=2):
            a, k = mk()
            for tag, a2, k2 in perturbations(a, k):
                for pre in (0, 1):
                    m = cls(**kw)
                    for _ in range(pre):
                        aa, kk = mk()
                        m.update(*aa, **kk)
                    before = snapshot(m)
                    try:
                        m.update(*a2, **k2)
                        raised = None
                    except Exception as e:  # noqa: BLE001
                        raised = type(e).__name__
                    n += 1
                    if raised is None:
                        continue
                    after = snapshot(m)
                    d = diff(before, after)
                    if d:
                        return n, {"check": "a raising update() leaves the state unchanged", "class": name, "cfg": cfg_lit(kw), "input": cname,
                                   "history": [f"{pre} x update(valid)", f"update(malformed: {tag}) raises {raised}"],
                                   "valid": lit([a, k]), "malformed": lit([a2, k2]), "attributes_changed": d,
                                   "before": lit({f: before.get(f) for f in d}), "after": lit({f: after.get(f) for f in d})}
    return n, None


# ---- C09 / C10: copy discipline of the base class (storage identity) ----------------------------
def storages(v) -> set:
    ts = [v] if isinstance(v, torch.Tensor) else (list(v.values()) if isinstance(v, dict) else (list(v) if isinstance(v, (list, tuple)) else []))
    return {t.untyped_storage().data_ptr() for t in ts if isinstance(t, torch.Tensor) and t.numel() > 0}


def probe_copies(name, cls, mode):
    """mode in state_dict | load | reset | add_state: the tensors on the two sides never share storage"""
    n = 0
    for kw in configs(name):
        m = cls(**kw)
        wi = working_inputs(cls, kw, limit=1)
        if wi and mode != "add_state":
            a, k = wi[0][1]()
            m.update(*a, **k)
        if mode == "reset":
            m.reset()
        sd = m.state_dict() if mode in ("state_dict", "load") else None
        r = None
        if mode == "load":
            r = cls(**kw)
            r.load_state_dict(sd)
        for f in m._state_name_to_default:
            n += 1
            if mode == "state_dict":
                left, right = sd[f], getattr(m, f)
            elif mode == "load":
                left, right = getattr(r, f), sd[f]
            else:
                left, right = getattr(m, f), m._state_name_to_default[f]
            if storages(left) & storages(right):
                return n, {"check": {"state_dict": "state_dict() output is not aliased to live state", "load": "load_state_dict() stores copies",
                                     "reset": "reset() clones the defaults", "add_state": "_add_state() copies the default"}[mode],
                           "class": name, "cfg": cfg_lit(kw), "field": f, "history": ([wi[0][0]] if wi else []) + [mode],
                           "observed": "the two tensors share storage"}
    return n, None
