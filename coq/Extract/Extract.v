From TE Require Import Base.Val Extract.Dispatch.
Require Extraction.
Require Import ExtrOcamlBasic.
Extraction "../ocaml/model.ml" dispatch.
