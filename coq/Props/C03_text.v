(* C03 for the text metrics: the class form (update() on ANY sequence of batches of sentence pairs, then
   compute()) equals the functional form -- [fn_of S c] = gamma (beta _), the very definition that the
   `@model text_*_fn` entry points of the functional correspondence run -- applied ONCE to the
   concatenated corpus.  Statements only; proofs in Proofs/TextCatP.v. *)
From Coq Require Import ZArith List Bool QArith Qcanon Permutation.
From TE Require Import Base.Val Base.Nd Base.Xq Algebra.Metric Algebra.Additive Models.Text Proofs.TextP Proofs.TextCatP.
Import ListNotations.
Open Scope nat_scope.

(* WER / WIP / WIL: every batch is accepted (the empty one included), so ANY list of batches. *)
Theorem word_error_rate_class_eq_functional : forall bs : list pbatch,
  class_run wer_spec_add tt bs = fn_of wer_spec_add tt (concat bs).
Proof. exact wer_class_eq_fn. Qed.
Theorem word_information_preserved_class_eq_functional : forall bs : list pbatch,
  class_run wip_spec_add tt bs = fn_of wip_spec_add tt (concat bs).
Proof. exact wip_class_eq_fn. Qed.
Theorem word_information_lost_class_eq_functional : forall bs : list pbatch,
  class_run wil_spec_add tt bs = fn_of wil_spec_add tt (concat bs).
Proof. exact wil_class_eq_fn. Qed.

(* the functional-correspondence entry points run exactly fn_of behind decoding *)
Theorem text_wer_fn_runs_fn_of : forall cv bv b, dec_pbatch bv = Some b ->
  run_text_wer_fn (VL [cv; bv]) = xq_val (fn_of wer_spec_add tt b).
Proof. exact run_wer_fn_is_fn_of. Qed.
Theorem text_wip_fn_runs_fn_of : forall cv bv b, dec_pbatch bv = Some b ->
  run_text_wip_fn (VL [cv; bv]) = xq_val (fn_of wip_spec_add tt b).
Proof. exact run_wip_fn_is_fn_of. Qed.
Theorem text_wil_fn_runs_fn_of : forall cv bv b, dec_pbatch bv = Some b ->
  run_text_wil_fn (VL [cv; bv]) = xq_val (fn_of wil_spec_add tt b).
Proof. exact run_wil_fn_is_fn_of. Qed.

(* BLEU.  Proviso (documented exception, DESIGN C03 Limits): validity is PER UPDATE -- the functional
   raises when one call's corpus is too short for n_gram and the class applies that test to each update.
   [bleu_valid c b] = update() accepts b.  The concatenation of accepted batches is accepted. *)
Theorem bleu_concatenation_accepted : forall (c : bcfg) b bs,
  bleu_valid c b -> Forall (bleu_valid c) bs -> bleu_valid c (concat (b :: bs)).
Proof. exact bleu_ok_concat. Qed.
(* class = gamma (beta (concatenation)); gamma is the functional value behind the class's guard
   "return 0.0 when no n-gram matched at all" *)
Theorem bleu_class_eq_guarded_functional : forall (c : bcfg) bs, Forall (bleu_valid c) bs ->
  class_run bleu_spec_add c bs =
  (if bleu_no_match c (concat bs) then vq 0%Qc else bleu_fn c (concat bs)).
Proof. intros c bs H. rewrite (bleu_class_eq_fn c bs H). apply bleu_gamma_guard. Qed.
(* with positive weights (the default uniform weights included) the guard changes nothing:
   class = functional on the concatenated corpus, which the functional accepts *)
Theorem bleu_class_eq_functional : forall (c : bcfg) b bs,
  1 <= fst c -> List.length (bleu_weights c) = fst c ->
  Forall (fun w => qlt 0 w = true) (bleu_weights c) ->
  bleu_valid c b -> Forall (bleu_valid c) bs ->
  class_run bleu_spec_add c (b :: bs) = bleu_fn c (concat (b :: bs)) /\ bleu_valid c (concat (b :: bs)).
Proof. exact bleu_class_eq_functional_pos. Qed.
Theorem bleu_default_weights_positive : forall n, 1 <= n <= 4 ->
  Forall (fun w => qlt 0 w = true) (bleu_weights (n, None)).
Proof. exact default_weights_pos. Qed.
Theorem text_bleu_fn_runs_bleu_fn : forall cv bv c b,
  dec_bcfg cv = Some c -> dec_bbatch bv = Some b -> bleu_valid c b ->
  run_text_bleu_fn (VL [cv; bv]) = bleu_fn c b.
Proof. exact run_bleu_fn_is_bleu_fn. Qed.

(* REFUTED without the positivity hypothesis (part of known finding C08-bleu-zero-weight-nan): weights
   (1, 0), nothing matched: the class returns 0.0, the functional nan. *)
Theorem bleu_class_eq_functional_zero_weight_refuted : exists (c : bcfg) (b : bbatch),
  bleu_valid c b /\ class_run bleu_spec_add c [b] = vq 0%Qc /\ bleu_fn c b = xq_val NaN.
Proof. exact (ex_intro _ _ (ex_intro _ _ bleu_guard_witness)). Qed.
(* REFUTED "any split of an accepted batch is accepted": the documented per-update exception *)
Theorem bleu_split_stays_valid_refuted : exists (n : nat) (b1 b2 : bbatch),
  bleu_ok n (b1 ++ b2) = true /\ bleu_ok n b1 = false /\ bleu_ok n b2 = true.
Proof. exact (ex_intro _ 3 (ex_intro _ _ (ex_intro _ _ bleu_split_witness))). Qed.

(* ---- V_fixed (repaired _bleu_score_compute) ---- *)
Theorem bleu_class_eq_guarded_functional_fixed : forall (c : bcfg) bs, Forall (bleu_valid c) bs ->
  class_run (bleu_spec_add_v V_fixed) c bs =
  (if bleu_no_match c (concat bs) then vq 0%Qc else bleu_fn_v V_fixed c (concat bs)).
Proof. intros c bs H. rewrite (bleu_class_eq_fn_v V_fixed c bs H). apply bleu_gamma_guard_v. Qed.
(* class = functional WITHOUT the positive-weights proviso: weights may be zero (all >= 0, one > 0) *)
Theorem bleu_class_eq_functional_fixed : forall (c : bcfg) b bs,
  1 <= fst c -> List.length (bleu_weights c) = fst c ->
  Forall (fun w => w = 0%Qc \/ qlt 0 w = true) (bleu_weights c) ->
  Exists (fun w => qlt 0 w = true) (bleu_weights c) ->
  bleu_valid c b -> Forall (bleu_valid c) bs ->
  class_run (bleu_spec_add_v V_fixed) c (b :: bs) = bleu_fn_v V_fixed c (concat (b :: bs)) /\ bleu_valid c (concat (b :: bs)).
Proof. exact bleu_class_eq_functional_fixed_gen. Qed.
Theorem text_bleu_fixed_fn_runs_bleu_fn : forall cv bv c b,
  dec_bcfg cv = Some c -> dec_bbatch bv = Some b -> bleu_valid c b ->
  run_text_bleu_fixed_fn (VL [cv; bv]) = bleu_fn_v V_fixed c b.
Proof. exact (run_bleu_fn_v_is_bleu_fn_v V_fixed). Qed.
(* REFUTED even after the repair when ALL weights are zero and nothing matched: the class's guard returns
   0.0, the functional the bare brevity penalty exp(1 - 3/2) (the guard was left as it is) *)
Theorem bleu_class_eq_functional_all_zero_weights_refuted : exists (c : bcfg) (b : bbatch),
  bleu_valid c b /\ class_run (bleu_spec_add_v V_fixed) c [b] = VQ 0 1 /\
  bleu_fn_v V_fixed c b = rmul (rexp (VQ (-1) 2)) (rexp (radd (radd (VQ 0 1) (VQ 0 1)) (VQ 0 1))).
Proof. exact (ex_intro _ _ (ex_intro _ _ bleu_fixed_all_zero_witness)). Qed.

(* non-vacuity *)
Open Scope Z_scope.
Example wer_three_batches_example :
  let bs : list pbatch := [[([1; 2], [1; 3])]; []; [([4; 5; 6; 7], [4; 5; 8]); ([], [])]] in
  xq_val (class_run wer_spec_add tt bs) = VQ 3 5 /\ xq_val (fn_of wer_spec_add tt (concat bs)) = VQ 3 5.
Proof. vm_compute. split; reflexivity. Qed.
Example bleu_two_batches_example :
  let c : bcfg := (2%nat, None) in
  let bs : list bbatch := [[([1; 2; 3; 1; 2], [[1; 2; 4; 5]; [2; 3; 1]])]; [([7; 8], [[7; 9]]); ([9], [[]])]] in
  Forall (bleu_valid c) bs /\ bleu_no_match c (concat bs) = false /\
  class_run bleu_spec_add c bs = bleu_fn c (concat bs).
Proof. vm_compute. split; [repeat constructor|split; reflexivity]. Qed.

Print Assumptions word_error_rate_class_eq_functional.
Print Assumptions word_information_preserved_class_eq_functional.
Print Assumptions word_information_lost_class_eq_functional.
Print Assumptions text_wer_fn_runs_fn_of.
Print Assumptions text_wip_fn_runs_fn_of.
Print Assumptions text_wil_fn_runs_fn_of.
Print Assumptions bleu_concatenation_accepted.
Print Assumptions bleu_class_eq_guarded_functional.
Print Assumptions bleu_class_eq_functional.
Print Assumptions bleu_default_weights_positive.
Print Assumptions text_bleu_fn_runs_bleu_fn.
Print Assumptions bleu_class_eq_functional_zero_weight_refuted.
Print Assumptions bleu_split_stays_valid_refuted.
Print Assumptions bleu_class_eq_guarded_functional_fixed.
Print Assumptions bleu_class_eq_functional_fixed.
Print Assumptions text_bleu_fixed_fn_runs_bleu_fn.
Print Assumptions bleu_class_eq_functional_all_zero_weights_refuted.
