(* C02 item 4 -- per-class reachability of schema agreement: for the shape-deterministic classes all
   ranks hold states of the same kinds / ndim / dtype whatever their update histories (so the ndim /
   dtype hypotheses of sync_equals_local_merge hold on every reachable configuration of a group that
   uses one configuration); MeanSquaredError, R2Score and Covariance are NOT (witness: one rank never
   updated, one updated with a 2-D batch) -- this is D10.  The class table is tied to the real classes
   by the schema correspondence stream of vlib/parts/C02_sync.py. *)
From Coq Require Import ZArith List Bool String Arith Lia.
From TE Require Import Base.Val Models.SyncSchema.
Import ListNotations.
Open Scope string_scope.

Lemma det_run (c : sclass) : shape_deterministic c -> forall h, s_run c h = s_init c.
Proof.
  intros H h. unfold s_run. generalize (s_init c). induction h as [|x h IH]; intros s; [reflexivity|].
  cbn [fold_left]. rewrite H. apply IH.
Qed.

Theorem reach_schema_agree :
  forall k c, In k deterministic_keys -> class_of k class_table = Some c ->
    shape_deterministic c /\ forall h1 h2 : list (list nat), s_run c h1 = s_run c h2.
Proof.
  intros k c Hk Hc.
  assert (Hd : shape_deterministic c).
  { cbn in Hk. repeat (destruct Hk as [<-|Hk]; [cbn in Hc; inversion Hc; intros s x; reflexivity|]). destruct Hk. }
  split; [exact Hd|]. intros h1 h2. rewrite !det_run by exact Hd. reflexivity.
Qed.

(* every deterministic key is in the table (non-vacuity) *)
Example deterministic_keys_in_table :
  forallb (fun k => match class_of k class_table with Some _ => true | None => false end) deterministic_keys = true.
Proof. reflexivity. Qed.

(* agreement of schemas gives the per-state ndim / dtype agreement the protocol theorems assume *)
Theorem schema_agree_gives_ndim :
  forall (s1 s2 : schema) n, s1 = s2 -> nd_of n s1 = nd_of n s2.
Proof. intros s1 s2 n ->. reflexivity. Qed.

(* D10: the first update fixes the ndim *)
Theorem reach_schema_refuted_mse :
  exists h1 h2, s_run mse_class h1 <> s_run mse_class h2 /\
                nd_of "sum_squared_error" (s_run mse_class h1) = 0 /\ nd_of "sum_squared_error" (s_run mse_class h2) = 1.
Proof. exists [], [[2; 2]]. split; [discriminate|split; reflexivity]. Qed.
Theorem reach_schema_refuted_r2 :
  exists h1 h2, s_run r2_class h1 <> s_run r2_class h2 /\
                nd_of "sum_obs" (s_run r2_class h1) = 0 /\ nd_of "sum_obs" (s_run r2_class h2) = 1.
Proof. exists [], [[2; 2]]. split; [discriminate|split; reflexivity]. Qed.
Theorem reach_schema_refuted_cov :
  exists h1 h2, s_run cov_class h1 <> s_run cov_class h2 /\
                nd_of "ss_sum" (s_run cov_class h1) = 0 /\ nd_of "ss_sum" (s_run cov_class h2) = 2.
Proof. exists [], [[2; 2]]. split; [discriminate|split; reflexivity]. Qed.
(* ... while ranks that have all seen at least one (non-empty, 2-D) batch do agree *)
Theorem reach_schema_agree_after_first_update :
  forall x1 x2 h1 h2, List.length x1 = 2 -> List.length x2 = 2 ->
    nd_of "sum_squared_error" (s_run mse_class (x1 :: h1)) = nd_of "sum_squared_error" (s_run mse_class (x2 :: h2)).
Proof.
  intros x1 x2 h1 h2 H1 H2.
  assert (K : forall h s, nd_of "sum_squared_error" s = 1 -> nd_of "sum_squared_error" (fold_left (s_upd mse_class) h s) = 1).
  { induction h as [|x h IH]; intros s Hs; [exact Hs|]. cbn [fold_left]. apply IH. cbn [s_upd mse_class].
    rewrite Hs. rewrite andb_false_r. exact Hs. }
  unfold s_run. cbn [fold_left]. rewrite !K; [reflexivity| |].
  - cbn [s_upd mse_class s_init]. rewrite H2. reflexivity.
  - cbn [s_upd mse_class s_init]. rewrite H1. reflexivity.
Qed.

Print Assumptions reach_schema_agree.
Print Assumptions schema_agree_gives_ndim.
Print Assumptions reach_schema_refuted_mse.
Print Assumptions reach_schema_refuted_r2.
Print Assumptions reach_schema_refuted_cov.
Print Assumptions reach_schema_agree_after_first_update.
