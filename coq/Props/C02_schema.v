(* C02 item 4 -- per-class reachability of schema agreement.  A rank's history is a list of updates, each
   carrying the SHAPE and the DTYPE code of its data (Models/SyncSchema.v; 0 float32, 1 float64, 2 int32,
   3 int64, 4 bool, 5 uint8).
   * For the input-deterministic classes all ranks hold states of the same kinds / ndim / dtype whatever
     their update histories (so the ndim / dtype hypotheses of the protocol theorems of Props/C02.v hold on
     every reachable configuration of a group that uses one configuration).
     NOTE: up to round 3 the model knew shapes only and listed Max / Min as deterministic: that was only
     true of float32 data (the tie fed nothing else).  [reach_schema_agree] keeps its name for the honest
     statement: histories carry dtypes, Max / Min are no longer in [deterministic_keys].
   * Max, Min, MeanSquaredError, R2Score, Covariance are NOT deterministic:
     - ndim: one rank never updated, one updated with a 2-D batch (D10, repaired in synclib by the ndim
       negotiation: fx_d10);
     - dtype: one rank never updated (float32 default), one updated with float64 data -- known finding
       C02-state-dtype-follows-data; the protocol consequence is Props/C02.v [sync_refuted_dtype].
   * They DO agree when every rank has been updated at least once, all data has one dtype and the shapes
     meet the first-update provisos: [reach_schema_agree_same_dtype].
   The class table is tied to the real classes by the schema correspondence stream of
   vlib/parts/C02_sync.py (float32 / float64 / integer / bool data, raising updates included).
   Statements only; proofs in Proofs/SyncSchemaP.v. *)
From Coq Require Import ZArith List Bool String Arith Lia.
From TE Require Import Base.Val Models.SyncSchema Proofs.SyncSchemaP.
Import ListNotations.
Open Scope string_scope.

(* ---- deterministic w.r.t. shapes AND dtypes ---- *)
Theorem reach_schema_agree :
  forall k c, In k deterministic_keys -> class_of k class_table = Some c ->
    input_deterministic c /\ forall h1 h2 : list upd_in, s_run c h1 = s_run c h2.
Proof. exact SyncSchemaP.reach_schema_agree. Qed.

(* every deterministic / dtype-following key is in the table (non-vacuity); together they cover the table *)
Example deterministic_keys_in_table :
  forallb (fun k => match class_of k class_table with Some _ => true | None => false end)
          (deterministic_keys ++ dtype_following_keys) = true /\
  List.length (deterministic_keys ++ dtype_following_keys) = List.length class_table.
Proof. split; reflexivity. Qed.

(* agreement of schemas gives the per-state ndim / dtype agreement the protocol theorems assume *)
Theorem schema_agree_gives_ndim :
  forall (s1 s2 : schema) n, s1 = s2 -> nd_of n s1 = nd_of n s2.
Proof. intros s1 s2 n ->. reflexivity. Qed.
Theorem schema_agree_gives_dtype :
  forall (s1 s2 : schema) n, s1 = s2 -> dt_of n s1 = dt_of n s2.
Proof. intros s1 s2 n ->. reflexivity. Qed.

(* ---- dtype-following classes: agreement when every rank was updated and all data has one dtype ---- *)
(* [uniform_hist k d h]: h is not empty, every update has dtype d and a shape meeting the class's proviso
   (MSE / R2: 2-D; Covariance: 2-D and non-empty; Max / Min: none) *)
Theorem reach_schema_agree_same_dtype :
  forall k c d h1 h2, In k dtype_following_keys -> class_of k class_table = Some c ->
    uniform_hist k d h1 -> uniform_hist k d h2 -> s_run c h1 = s_run c h2.
Proof. exact SyncSchemaP.reach_schema_agree_same_dtype. Qed.

Example uniform_hist_example :
  uniform_hist "Covariance" 1 [([3; 2], 1%Z); ([1; 2], 1%Z)] /\ uniform_hist "Max" 3 [([2], 3%Z)] /\
  s_run cov_class [([3; 2], 1%Z); ([1; 2], 1%Z)] = [("n", KInt); ("ss_sum", KT 2 1); ("sum", KT 1 1)].
Proof. repeat split; try discriminate; repeat constructor. Qed.

(* Max / Min exactly: the state is float64 iff some update carried float64 data (so ranks fed float32 and
   integer data only agree with an un-updated rank; one float64 batch anywhere breaks the agreement) *)
Theorem reach_schema_max_min_exact :
  forall n h, s_run (ext_class n) h = [(n, KT 0 (if has_f64 (map snd h) then 1%Z else 0%Z))].
Proof. exact SyncSchemaP.ext_run. Qed.
Theorem reach_schema_agree_max_min_iff :
  forall n h1 h2, s_run (ext_class n) h1 = s_run (ext_class n) h2 <-> has_f64 (map snd h1) = has_f64 (map snd h2).
Proof. exact SyncSchemaP.ext_agree_iff. Qed.

(* MSE / R2 / Covariance: the first accepted 2-D update alone fixes ndim and dtype (later updates accumulate
   in place: a float64 batch added to a float32 state leaves it float32) *)
Theorem reach_schema_first_update_decides_mse :
  forall x1 x2 h1 h2, List.length (fst x1) = 2 -> List.length (fst x2) = 2 -> snd x1 <> 4%Z -> snd x2 <> 4%Z ->
    sum_dt (snd x1) = sum_dt (snd x2) -> s_run mse_class (x1 :: h1) = s_run mse_class (x2 :: h2).
Proof. exact SyncSchemaP.mse_first_update_decides. Qed.
Theorem reach_schema_first_update_decides_r2 :
  forall x1 x2 h1 h2, List.length (fst x1) = 2 -> List.length (fst x2) = 2 -> snd x1 <> 4%Z -> snd x2 <> 4%Z ->
    sum_dt (snd x1) = sum_dt (snd x2) -> s_run r2_class (x1 :: h1) = s_run r2_class (x2 :: h2).
Proof. exact SyncSchemaP.r2_first_update_decides. Qed.
Theorem reach_schema_first_update_decides_cov :
  forall x1 x2 h1 h2, List.length (fst x1) = 2 -> List.length (fst x2) = 2 -> hd 0 (fst x1) <> 0 -> hd 0 (fst x2) <> 0 ->
    is_float (snd x1) = true -> snd x1 = snd x2 -> s_run cov_class (x1 :: h1) = s_run cov_class (x2 :: h2).
Proof. exact SyncSchemaP.cov_first_update_decides. Qed.

(* ---- D10: the first update fixes the ndim ---- *)
Theorem reach_schema_refuted_mse :
  exists h1 h2, s_run mse_class h1 <> s_run mse_class h2 /\
                nd_of "sum_squared_error" (s_run mse_class h1) = 0 /\ nd_of "sum_squared_error" (s_run mse_class h2) = 1.
Proof. exists [], [([2; 2], 0%Z)]. split; [discriminate|split; reflexivity]. Qed.
Theorem reach_schema_refuted_r2 :
  exists h1 h2, s_run r2_class h1 <> s_run r2_class h2 /\
                nd_of "sum_obs" (s_run r2_class h1) = 0 /\ nd_of "sum_obs" (s_run r2_class h2) = 1.
Proof. exists [], [([2; 2], 0%Z)]. split; [discriminate|split; reflexivity]. Qed.
Theorem reach_schema_refuted_cov :
  exists h1 h2, s_run cov_class h1 <> s_run cov_class h2 /\
                nd_of "ss_sum" (s_run cov_class h1) = 0 /\ nd_of "ss_sum" (s_run cov_class h2) = 2.
Proof. exists [], [([2; 2], 0%Z)]. split; [discriminate|split; reflexivity]. Qed.
(* ... while ranks that have all seen at least one (non-empty, 2-D) batch do agree on the ndim.
   (The old statement had no dtype proviso; bool data is rejected by update() -- ``-`` on bool tensors
   raises -- and leaves the 0-dim default, hence [snd x <> 4].) *)
Theorem reach_schema_agree_after_first_update :
  forall x1 x2 h1 h2, List.length (fst x1) = 2 -> List.length (fst x2) = 2 -> snd x1 <> 4%Z -> snd x2 <> 4%Z ->
    nd_of "sum_squared_error" (s_run mse_class (x1 :: h1)) = nd_of "sum_squared_error" (s_run mse_class (x2 :: h2)).
Proof. exact SyncSchemaP.agree_after_first_update_nd. Qed.

(* ---- C02-state-dtype-follows-data: the data fixes the dtype ---- *)
(* an un-updated rank (float32 default) and a rank updated with one float64 batch *)
Theorem reach_schema_refuted_dtype_max :
  exists h1 h2, s_run (ext_class "max") h1 <> s_run (ext_class "max") h2 /\
                nd_of "max" (s_run (ext_class "max") h1) = nd_of "max" (s_run (ext_class "max") h2) /\
                dt_of "max" (s_run (ext_class "max") h1) = 0%Z /\ dt_of "max" (s_run (ext_class "max") h2) = 1%Z.
Proof. exists [], [([1], 1%Z)]. split; [discriminate|repeat split; reflexivity]. Qed.
Theorem reach_schema_refuted_dtype_min :
  exists h1 h2, s_run (ext_class "min") h1 <> s_run (ext_class "min") h2 /\
                nd_of "min" (s_run (ext_class "min") h1) = nd_of "min" (s_run (ext_class "min") h2) /\
                dt_of "min" (s_run (ext_class "min") h1) = 0%Z /\ dt_of "min" (s_run (ext_class "min") h2) = 1%Z.
Proof. exists [], [([1], 1%Z)]. split; [discriminate|repeat split; reflexivity]. Qed.
(* both ranks updated, same shapes (same ndim), float32 vs float64 first batch; a later float64 batch on the
   float32 rank does not help (in-place accumulation) *)
Theorem reach_schema_refuted_dtype_mse :
  exists h1 h2, s_run mse_class h1 <> s_run mse_class h2 /\
                nd_of "sum_squared_error" (s_run mse_class h1) = nd_of "sum_squared_error" (s_run mse_class h2) /\
                dt_of "sum_squared_error" (s_run mse_class h1) = 0%Z /\ dt_of "sum_squared_error" (s_run mse_class h2) = 1%Z.
Proof. exists [([2; 2], 0%Z); ([2; 2], 1%Z)], [([2; 2], 1%Z)]. split; [discriminate|repeat split; reflexivity]. Qed.
Theorem reach_schema_refuted_dtype_r2 :
  exists h1 h2, s_run r2_class h1 <> s_run r2_class h2 /\
                nd_of "sum_obs" (s_run r2_class h1) = nd_of "sum_obs" (s_run r2_class h2) /\
                dt_of "sum_obs" (s_run r2_class h1) = 0%Z /\ dt_of "sum_obs" (s_run r2_class h2) = 1%Z.
Proof. exists [([2; 2], 0%Z); ([2; 2], 1%Z)], [([2; 2], 1%Z)]. split; [discriminate|repeat split; reflexivity]. Qed.
Theorem reach_schema_refuted_dtype_cov :
  exists h1 h2, s_run cov_class h1 <> s_run cov_class h2 /\
                nd_of "sum" (s_run cov_class h1) = nd_of "sum" (s_run cov_class h2) /\
                dt_of "sum" (s_run cov_class h1) = 0%Z /\ dt_of "sum" (s_run cov_class h2) = 1%Z.
Proof. exists [([2; 2], 0%Z); ([2; 2], 1%Z)], [([2; 2], 1%Z)]. split; [discriminate|repeat split; reflexivity]. Qed.
(* integer data: a 2-D int64 first batch makes the MSE state int64 *)
Example mse_int64_state :
  s_run mse_class [([2; 2], 3%Z)] = [("sum_squared_error", KT 1 3); ("sum_weight", KT 0 0)] /\
  s_run mse_class [([2; 2], 2%Z); ([2; 2], 1%Z)] = [("sum_squared_error", KT 1 3); ("sum_weight", KT 0 0)].
Proof. split; reflexivity. Qed.

Print Assumptions reach_schema_agree.
Print Assumptions schema_agree_gives_ndim.
Print Assumptions schema_agree_gives_dtype.
Print Assumptions reach_schema_agree_same_dtype.
Print Assumptions reach_schema_max_min_exact.
Print Assumptions reach_schema_agree_max_min_iff.
Print Assumptions reach_schema_first_update_decides_mse.
Print Assumptions reach_schema_first_update_decides_r2.
Print Assumptions reach_schema_first_update_decides_cov.
Print Assumptions reach_schema_refuted_mse.
Print Assumptions reach_schema_refuted_r2.
Print Assumptions reach_schema_refuted_cov.
Print Assumptions reach_schema_agree_after_first_update.
Print Assumptions reach_schema_refuted_dtype_max.
Print Assumptions reach_schema_refuted_dtype_min.
Print Assumptions reach_schema_refuted_dtype_mse.
Print Assumptions reach_schema_refuted_dtype_r2.
Print Assumptions reach_schema_refuted_dtype_cov.
