(* C04 -- count-based classification metrics equal their textbook definitions.
   Statements only; proofs are in Proofs/CountingP.v, models in Models/Counting.v. *)
From Coq Require Import ZArith List Bool QArith Qcanon.
From TE Require Import Base.Val Base.Nd Base.Xq Algebra.Metric Algebra.Additive Models.Counting Proofs.CountingP.
Import ListNotations.
Open Scope Z_scope.

(* ---- kernels ---- *)
(* torch.where(input < t, 0, 1): positive iff score >= threshold; a score exactly at the threshold is positive *)
Theorem threshold_is_geq : forall t s, thresh t s = b2z (t <=? s).
Proof. exact thresh_spec. Qed.
Theorem score_at_threshold_is_positive : forall t, thresh t t = 1.
Proof. exact thresh_at. Qed.
(* argmax on a row of scores = the first maximal index (ties resolved towards the lower index) *)
Theorem argmax_is_first_maximal_index : forall row, argmax row = first_max row.
Proof. exact argmax_eq_first_max. Qed.
Theorem argmax_characterisation : forall row, row <> [] -> exists i, argmax row = Z.of_nat i /\
  (i < List.length row)%nat /\ (forall x, In x row -> x <= nth i row 0) /\ (forall j, (j < i)%nat -> nth j row 0 < nth i row 0).
Proof. exact argmax_is_first_max. Qed.
(* zeros(n).scatter_(0, idx, src, reduce="add") = per-class sums; with ones = per-class counts *)
Theorem scatter_add_is_per_class_sum : forall n idx src,
  scatter_add n idx src = map (fun c => sum_where c (combine idx src)) (classes n).
Proof. exact scatter_add_spec. Qed.
Theorem scatter_ones_is_per_class_count : forall n idx,
  scatter_ones n idx = map (fun c => cnt (fun i => i =? c) idx) (classes n).
Proof. exact scatter_ones_spec. Qed.
(* boolean-mask indexing + scatter = tp / fp / support / predicted-count vectors *)
Theorem tp_vector : forall n ps, scatter_ones n (map snd (sel_eq ps)) = map (fun c => tp c ps) (classes n).
Proof. exact vec_tp. Qed.
Theorem fp_vector : forall n ps, scatter_ones n (map fst (sel_ne ps)) = map (fun c => fp c ps) (classes n).
Proof. exact vec_fp. Qed.
Theorem support_vector : forall n ps, scatter_ones n (map snd ps) = map (fun c => tp c ps + fn c ps) (classes n).
Proof. exact vec_support. Qed.
Theorem predicted_vector : forall n ps, scatter_ones n (map fst ps) = map (fun c => tp c ps + fp c ps) (classes n).
Proof. exact vec_npred. Qed.
(* sparse-COO accumulation of (target, prediction) pairs = matrix of pair counts *)
Theorem coo_accumulation_is_pair_count : forall n ps,
  coo_dense n ps = map (fun i => map (fun j => cm_cell ps i j) (classes n)) (classes n).
Proof. exact coo_dense_spec. Qed.
(* scatter of topk indices = indicator vector of the selected set *)
Theorem topk_label_is_indicator : forall row sel,
  tk_label row sel = map (fun c => b2z (memZ c sel)) (classes (List.length row)).
Proof. exact tk_label_spec. Qed.

(* ---- conventions for undefined ratios ---- *)
(* 0/0 -> NaN -> nan_to_num -> 0, for counts *)
Theorem precision_undefined_is_zero : forall t f, 0 <= t -> 0 <= f -> prec1 (z2q t) (z2q f) = ratio0 t (t + f).
Proof. exact prec1_z. Qed.
Theorem recall_undefined_is_zero : forall t l, (l = 0 -> t = 0) -> rec1 (z2q t) (z2q l) = ratio0 t l.
Proof. exact rec1_z. Qed.
Theorem f1_is_2tp_over_label_plus_prediction_or_zero : forall t l p, 0 <= t -> t <= l -> t <= p ->
  f1c (z2q t) (z2q l) (z2q p) = ratio0 (2 * t) (l + p).
Proof. exact f1c_z. Qed.
(* macro / weighted averages exclude exactly the classes absent from both predictions and labels *)
Theorem precision_mask_is_presence : forall ps c,
  nz (z2q (support ps c)) || nz (z2q (tp c ps) + z2q (fp c ps))%Qc = present ps c.
Proof. exact present_mask_prec. Qed.
Theorem recall_f1_mask_is_presence : forall ps c,
  nz (z2q (support ps c)) || nz (z2q (tp c ps + fp c ps)) = present ps c.
Proof. exact present_mask_rec. Qed.

(* ---- algo = spec, end to end on a batch (functional form = compute(update(batch))) ---- *)
Theorem multiclass_precision_eq_textbook : forall a nc b,
  (a = Weighted -> targets_in (ncls nc) b) ->
  fn_of mcprec_spec (a, nc) b = mcprec_textbook (a, nc) b.
Proof. exact mcprec_algo_eq_spec. Qed.
Theorem multiclass_f1_eq_textbook : forall a nc b,
  aligned b -> (a = Weighted -> targets_in (ncls nc) b) ->
  fn_of mcf1_spec (a, nc) b = mcf1_textbook (a, nc) b.
Proof. exact mcf1_algo_eq_spec. Qed.
(* recall, every average (weighted: absent classes are ignored, as for precision / F1 -- repo fix df6abea) *)
Theorem multiclass_recall_eq_textbook : forall a nc b,
  aligned b -> (a = Weighted -> targets_in (ncls nc) b) ->
  fn_of mcrec_spec (a, nc) b = mcrec_textbook (a, nc) b.
Proof. exact mcrec_algo_eq_spec. Qed.

Theorem multiclass_accuracy_eq_textbook : forall c b,
  map snd (acc_samples c b) = snd b -> fn_of mcacc_spec c b = mcacc_textbook c b.
Proof. exact mcacc_algo_eq_spec. Qed.
Theorem multiclass_accuracy_valid_hypothesis : forall c b, acc_valid c b = true -> map snd (acc_samples c b) = snd b.
Proof. exact acc_valid_targets. Qed.
(* top-k correctness is "fewer than k scores strictly greater than the target's score" (ties favour the target) *)
Theorem topk_mask_is_rank_rule : forall c b, acc_mask c b = map (fun s => (b2z (fst s), snd s)) (acc_samples c b).
Proof. exact acc_mask_eq. Qed.
Theorem binary_accuracy_eq_textbook : forall t b, bin_valid b = true -> fn_of binacc_spec t b = binacc_textbook t b.
Proof. exact binacc_algo_eq_spec. Qed.
Theorem binary_precision_eq_textbook : forall t b, bin_valid b = true -> fn_of binprec_spec t b = binprec_textbook t b.
Proof. exact binprec_algo_eq_spec. Qed.
Theorem binary_recall_eq_textbook : forall t b, bin_valid b = true -> fn_of binrec_spec t b = binrec_textbook t b.
Proof. exact binrec_algo_eq_spec. Qed.
Theorem binary_f1_eq_textbook : forall t b, bin_valid b = true -> fn_of binf1_spec t b = binf1_textbook t b.
Proof. exact binf1_algo_eq_spec. Qed.
(* confusion matrices, every normalisation (None / all / pred / true, incl. F.normalize's max(norm, eps)) *)
Theorem confusion_matrix_normalisations_eq_textbook : forall n nm ps, labels_in n ps ->
  cm_compute nm (map (map z2q) (coo_dense n ps)) = cm_textbook_ps n nm ps.
Proof. exact cm_compute_spec. Qed.
Theorem multiclass_confusion_matrix_eq_textbook : forall c b, cm_valid c b = true -> fn_of mccm_spec c b = mccm_textbook c b.
Proof. exact mccm_algo_eq_spec. Qed.
Theorem binary_confusion_matrix_eq_textbook : forall c b, bin_valid b = true -> fn_of bincm_spec c b = bincm_textbook c b.
Proof. exact bincm_algo_eq_spec. Qed.
(* multilabel / top-k multilabel: per sample, the tensor expressions of _multilabel_update are the documented
   set relations (exact match P = T, overlap, contain T <= P, belong P <= T, hamming = number of agreeing labels) *)
Theorem multilabel_criteria_are_set_relations : forall r, ok01 r ->
  forallb (fun py => fst py =? snd py) r = ml_sample_ok ExactMatch (map to_bits r) /\
  existsb (fun py => (fst py =? snd py) && (fst py =? 1)) r || forallb (fun py => (fst py =? 0) && (snd py =? 0)) r
    = ml_sample_ok Overlap (map to_bits r) /\
  forallb (fun py => 0 <=? fst py - snd py) r = ml_sample_ok Contain (map to_bits r) /\
  forallb (fun py => fst py - snd py <=? 0) r = ml_sample_ok Belong (map to_bits r) /\
  sumZ (map (fun py => b2z (fst py =? snd py)) r) = cnt (fun pt => Bool.eqb (fst pt) (snd pt)) (map to_bits r).
Proof. exact ml_row_criteria. Qed.
(* ... and on a batch: every criterion, every threshold *)
Theorem multilabel_accuracy_eq_textbook : forall c b, ml_shape_ok b = true -> fn_of mlacc_spec c b = mlacc_textbook c b.
Proof. exact mlacc_algo_eq_spec. Qed.
(* top-k multilabel: for EVERY admissible top-k index selection (ties at the k-th score included) *)
Theorem topk_multilabel_accuracy_eq_textbook : forall c b, tk_valid c b = true -> fn_of tkacc_spec c b = tkacc_textbook c b.
Proof. exact tkacc_algo_eq_spec. Qed.
Theorem multilabel_overlap_summands_exclusive : forall r,
  existsb (fun py : Z * Z => (fst py =? snd py) && (fst py =? 1)) r && forallb (fun py => (fst py =? 0) && (snd py =? 0)) r = false.
Proof. exact ml_overlap_exclusive. Qed.
(* validity implies the hypotheses used above *)
Theorem valid_implies_aligned : forall nc b, mc_shape_ok nc b = true -> aligned b.
Proof. exact shape_aligned. Qed.

(* ---- total_on_valid: compute() never raises, whatever the state ---- *)
Theorem accuracy_total : forall a s, is_err (acc_gamma_avg a s) = false.
Proof. exact acc_gamma_total. Qed.
Theorem precision_total : forall c s, is_err (prec_gamma c s) = false.
Proof. exact prec_gamma_total. Qed.
Theorem f1_total : forall c s, is_err (f1_gamma c s) = false.
Proof. exact f1_gamma_total. Qed.
Theorem confusion_matrix_total : forall nm m, is_err (cm_compute nm m) = false.
Proof. exact cm_compute_total. Qed.
Theorem recall_total : forall c s, is_err (rec_gamma c s) = false.
Proof. exact rec_gamma_total. Qed.

(* ---- non-vacuity ---- *)
(* a tie between two maximal logits, a class absent from both sides, macro precision *)
Example precision_macro_example :
  let b : mcbatch := (Logits [[2; 2; 0; 0]; [0; 1; 1; 0]; [1; 0; 0; 0]], [1; 1; 0]) in
  avalid mcprec_spec (Macro, Some 4%nat) b = true /\
  res_val (fn_of mcprec_spec (Macro, Some 4%nat) b) = VQ 3 4 /\
  res_val (fn_of mcprec_spec (NoAvg, Some 4%nat) b) = VL [VQ 1 2; VQ 1 1; VQ 0 1; VQ 0 1] /\
  map (present (pairs b)) (classes 4) = [true; true; false; false].
Proof. vm_compute. auto. Qed.
Example f1_weighted_example :
  let b : mcbatch := (Labels [0; 0; 2; 2], [0; 1; 2; 2]) in
  avalid mcf1_spec (Weighted, Some 4%nat) b = true /\ targets_in 4 b /\ aligned b /\
  res_val (fn_of mcf1_spec (Weighted, Some 4%nat) b) = VQ 2 3.
Proof. vm_compute. auto. Qed.
(* the former IndexError witness (two absent classes) and the state before any update *)
Example recall_weighted_absent_class_example :
  res_val (fn_of mcrec_spec (Weighted, Some 3%nat) (Labels [0], [0])) = VQ 1 1 /\
  res_val (fn_of mcrec_spec (Weighted, Some 2%nat) (Labels [0; 0; 1], [0; 1; 1])) = VQ 2 3 /\
  res_val (rec_gamma (Weighted, Some 3%nat) (prf_zero (Weighted, Some 3%nat))) = VQ 0 1.
Proof. vm_compute. auto. Qed.
Example f1_undefined_example : f1c (z2q 0) (z2q 0) (z2q 3) = Fin 0%Qc /\ prec1 (z2q 0) (z2q 0) = Fin 0%Qc.
Proof. vm_compute. auto. Qed.
Example accuracy_none_absent_class_is_nan :
  res_val (fn_of mcacc_spec (NoAvg, Some 3%nat, 1%nat) (Labels [0; 1], [0; 0])) = VL [VQ 1 2; xq_val NaN; xq_val NaN].
Proof. vm_compute. reflexivity. Qed.

(* tied top-2: the target's score is tied with the maximum -> rank 0 < 2 -> correct *)
Example topk_tie_example :
  res_val (fn_of mcacc_spec (Micro, None, 2%nat) (Logits [[1; 1; 1]; [2; 1; 0]], [2; 2])) = VQ 1 2 /\
  acc_valid (Micro, None, 2%nat) (Logits [[1; 1; 1]; [2; 1; 0]], [2; 2]) = true.
Proof. vm_compute. auto. Qed.
(* confusion matrix with an empty predicted column: normalize="pred" gives 0 there, not NaN *)
Example confusion_pred_empty_column_example :
  res_val (fn_of mccm_spec (2%nat, NPred) (Labels [0; 0; 0], [0; 1; 1])) = VL [VL [VQ 1 3; VQ 0 1]; VL [VQ 2 3; VQ 0 1]] /\
  cm_valid (2%nat, NPred) (Labels [0; 0; 0], [0; 1; 1]) = true.
Proof. vm_compute. auto. Qed.
(* scores exactly at the threshold are positive *)
Example binary_at_threshold_example :
  res_val (fn_of binprec_spec 2 ([2; 2; 1], [1; 0; 1])) = VQ 1 2 /\ res_val (fn_of binrec_spec 2 ([2; 2; 1], [1; 0; 1])) = VQ 1 2.
Proof. vm_compute. auto. Qed.
(* an admissible and an inadmissible top-k selection on a tied row *)
Example topk_selection_admissible_example :
  admissible 2 [1; 1; 1; 0] [2; 0] = true /\ admissible 2 [1; 1; 1; 0] [3; 0] = false /\
  res_val (fn_of tkacc_spec (Contain, 2%nat) ([[1; 1; 1; 0]], [[1; 0; 1; 0]], [[2; 0]])) = VQ 1 1.
Proof. vm_compute. auto. Qed.

Print Assumptions threshold_is_geq.
Print Assumptions score_at_threshold_is_positive.
Print Assumptions argmax_is_first_maximal_index.
Print Assumptions argmax_characterisation.
Print Assumptions scatter_add_is_per_class_sum.
Print Assumptions scatter_ones_is_per_class_count.
Print Assumptions tp_vector.
Print Assumptions fp_vector.
Print Assumptions support_vector.
Print Assumptions predicted_vector.
Print Assumptions coo_accumulation_is_pair_count.
Print Assumptions topk_label_is_indicator.
Print Assumptions precision_undefined_is_zero.
Print Assumptions recall_undefined_is_zero.
Print Assumptions f1_is_2tp_over_label_plus_prediction_or_zero.
Print Assumptions precision_mask_is_presence.
Print Assumptions recall_f1_mask_is_presence.
Print Assumptions multiclass_precision_eq_textbook.
Print Assumptions multiclass_f1_eq_textbook.
Print Assumptions multiclass_recall_eq_textbook.
Print Assumptions valid_implies_aligned.
Print Assumptions accuracy_total.
Print Assumptions precision_total.
Print Assumptions f1_total.
Print Assumptions confusion_matrix_total.
Print Assumptions recall_total.
Print Assumptions multiclass_accuracy_eq_textbook.
Print Assumptions multiclass_accuracy_valid_hypothesis.
Print Assumptions topk_mask_is_rank_rule.
Print Assumptions binary_accuracy_eq_textbook.
Print Assumptions binary_precision_eq_textbook.
Print Assumptions binary_recall_eq_textbook.
Print Assumptions binary_f1_eq_textbook.
Print Assumptions confusion_matrix_normalisations_eq_textbook.
Print Assumptions multiclass_confusion_matrix_eq_textbook.
Print Assumptions binary_confusion_matrix_eq_textbook.
Print Assumptions multilabel_criteria_are_set_relations.
Print Assumptions multilabel_accuracy_eq_textbook.
Print Assumptions topk_multilabel_accuracy_eq_textbook.
Print Assumptions multilabel_overlap_summands_exclusive.
