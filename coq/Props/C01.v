(* C01 -- Sharded accumulation: merging shards equals one metric that saw everything.
   Statements only; proofs live in Algebra/ and Proofs/. *)
From Coq Require Import ZArith List Permutation.
From TE Require Import Base.Val Algebra.Metric Algebra.MergeTree Algebra.Additive Models.Aggregation.
Import ListNotations.

(* Generic: for ANY metric with a monoid abstraction, ANY merge tree (any number of shards, empty
   shards, nested merges, fresh or updated targets, updates after merges) computes what a single
   instance computes on the tree's in-order stream of batches. *)
Theorem merge_tree_eq_single_instance :
  forall (M : Metric) (L : Alg M) (c : cfg M) (t : mtree M),
    Forall (fun b => valid M c b = true) (stream M t) ->
    cmp M c (run M c t) = cmp M c (run M c (Shard M (stream M t))).
Proof. exact merge_tree_eq_single. Qed.

(* Commutative abstraction: the result depends only on the multiset of batches -- any partition
   into shards, any merge order or grouping. *)
Theorem merge_tree_any_sharding_any_order :
  forall (M : Metric) (L : Alg M) (c : cfg M),
    (forall x y, op L x y = op L y x) ->
    forall t t' : mtree M,
    Forall (fun b => valid M c b = true) (stream M t) ->
    Forall (fun b => valid M c b = true) (stream M t') ->
    Permutation (stream M t) (stream M t') ->
    cmp M c (run M c t) = cmp M c (run M c t').
Proof. exact merge_tree_any_sharding. Qed.

(* Every additive-family class (state = sums, update adds, merge adds) is such a metric. *)
Theorem additive_family_sharding :
  forall (S : AddSpec) (c : acfg S) (t t' : mtree (add_metric S)),
    Forall (fun b => avalid S c b = true) (stream _ t) ->
    Forall (fun b => avalid S c b = true) (stream _ t') ->
    Permutation (stream _ t) (stream _ t') ->
    agamma S c (run (add_metric S) c t) = agamma S c (run (add_metric S) c t').
Proof.
  intros S c t t' H1 H2 HP.
  exact (merge_tree_any_sharding (add_metric S) (add_alg S) c (add_alg_comm S) t t' H1 H2 HP).
Qed.

(* non-vacuity: a merge tree with an empty shard, a nested merge and a post-merge update *)
Example mean_tree_example :
  let b1 : wbatch := ([mkq 1%Z 1%positive; mkq 3%Z 1%positive], WScalar (mkq 1%Z 1%positive)) in
  let b2 : wbatch := ([mkq 5%Z 1%positive], WEach [mkq 2%Z 1%positive]) in
  let t := Merge mean_metric (Shard mean_metric []) [Merge mean_metric (Shard mean_metric [b1]) [Shard mean_metric []] []; Shard mean_metric []] [b2] in
  cmp mean_metric tt (run mean_metric tt t) = mkq 14%Z 4%positive.
Proof. vm_compute. reflexivity. Qed.

Print Assumptions merge_tree_eq_single_instance.
Print Assumptions merge_tree_any_sharding_any_order.
Print Assumptions additive_family_sharding.
