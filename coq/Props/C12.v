(* C12 -- results depend only on the multiset of samples, not on batching or order (generic). *)
From Coq Require Import List Bool Permutation.
From TE Require Import Base.Val Algebra.Metric Algebra.MergeTree Algebra.Additive Proofs.GenericP.
Import ListNotations.

Theorem order_of_updates_irrelevant :
  forall (M : Metric) (L : Alg M) (c : cfg M),
    (forall x y, op L x y = op L y x) ->
    forall bs bs', Forall (fun b => valid M c b = true) bs -> Permutation bs bs' ->
    cmp M c (fold_left (upd M c) bs (init M c)) = cmp M c (fold_left (upd M c) bs' (init M c)).
Proof. exact order_invariant_gen. Qed.

Theorem batching_irrelevant :
  forall (M : Metric) (L : Alg M) (c : cfg M)
         (bcat : batch M -> batch M -> batch M) (bnil : batch M),
    (forall b1 b2, valid M c b1 = true -> valid M c b2 = true ->
        beta L c (bcat b1 b2) = op L (beta L c b1) (beta L c b2)) ->
    (forall b1 b2, valid M c b1 = true -> valid M c b2 = true -> valid M c (bcat b1 b2) = true) ->
    beta L c bnil = e L c -> valid M c bnil = true ->
    forall bs bs', Forall (fun b => valid M c b = true) bs -> Forall (fun b => valid M c b = true) bs' ->
    beta L c (bconcat M bcat bnil bs) = beta L c (bconcat M bcat bnil bs') ->
    cmp M c (fold_left (upd M c) bs (init M c)) = cmp M c (fold_left (upd M c) bs' (init M c)).
Proof. exact batching_invariant_gen. Qed.

(* every additive-family class: any permutation of the update stream *)
Theorem additive_family_order_irrelevant :
  forall (S : AddSpec) (c : acfg S) bs bs',
    Forall (fun b => avalid S c b = true) bs -> Permutation bs bs' ->
    agamma S c (fold_left (fun s b => Nd.nadd s (abeta S c b)) bs (azero S c)) =
    agamma S c (fold_left (fun s b => Nd.nadd s (abeta S c b)) bs' (azero S c)).
Proof.
  intros S c bs bs' Hv Hp.
  exact (order_invariant_gen (add_metric S) (add_alg S) c (add_alg_comm S) bs bs' Hv Hp).
Qed.

Print Assumptions order_of_updates_irrelevant.
Print Assumptions batching_irrelevant.
Print Assumptions additive_family_order_irrelevant.
