(* C09 item 3 -- metric.py skeletons (regenerated): state_dict() returns fresh storage for every
   state kind, load_state_dict() stores copies, _add_state() copies the default. *)
From Coq Require Import List String Bool.
From TE Require Import Models.Effects Generated.Skeletons.
Import ListNotations.
Open Scope string_scope.

Theorem state_dict_fresh : base_binds_fresh base_methods "state_dict" "$out" = true.
Proof. vm_compute. reflexivity. Qed.

Theorem load_copies : base_binds_fresh base_methods "load_state_dict" "$f" = true.
Proof. vm_compute. reflexivity. Qed.

Theorem add_state_copies : base_binds_fresh base_methods "_add_state" "$f" = true
                        /\ base_binds_fresh base_methods "_add_state" "$default" = true.
Proof. vm_compute. split; reflexivity. Qed.

Print Assumptions state_dict_fresh.
Print Assumptions load_copies.
Print Assumptions add_state_copies.
