(* C19 -- the accumulator-kind table regenerated from /repo on every run. *)
From Coq Require Import ZArith List Bool String.
From TE Require Import Models.FloatAcc Generated.AccKinds Generated.KnownAcc.
Import ListNotations.

(* The table regenerated from /repo on this run: every additive accumulator of every metric
   class is stored in a wide kind, except those recorded as known findings. *)
Definition kind_eqb (a b : kind) : bool :=
  match a, b with
  | F16, F16 | BF16, BF16 | F32, F32 | F64, F64 | I8, I8 | U8, U8 | I16, I16 | I32, I32 | I64, I64
  | PyInt, PyInt | PyFloat, PyFloat => true
  | _, _ => false
  end.
Definition is_known (c s : string) (k : kind) : bool :=
  existsb (fun r => String.eqb (fst (fst r)) c && String.eqb (snd (fst r)) s && kind_eqb (snd r) k) known_narrow.
Definition row_ok (r : string * string * kind * bool) : bool :=
  let '(c, s, k, _) := r in wide k || is_known c s k.

Theorem all_accumulators_wide_or_known : forallb row_ok acc_kinds = true.
Proof. vm_compute. reflexivity. Qed.

(* the recorded findings are genuinely narrow kinds (an excuse can never cover a wide accumulator) *)
Theorem known_findings_are_narrow : forallb (fun r => negb (wide (snd r))) known_narrow = true.
Proof. vm_compute. reflexivity. Qed.

Print Assumptions all_accumulators_wide_or_known.
Print Assumptions known_findings_are_narrow.
