(* C17 for the regression family: invariance under multiplying all weights by c > 0 and under duplicating the data.
   Statements only; proofs in Proofs/RegC17P.v. *)
From Coq Require Import ZArith List Bool QArith Qcanon String.
From TE Require Import Base.Val Base.Nd Base.Xq Algebra.Metric Models.Aggregation Models.Aggregation2
  Models.Regression Models.Stat Proofs.RegressionP Proofs.RegC17P.
Import ListNotations.
Open Scope list_scope.
Open Scope Qc_scope.

(* weighted MSE: unchanged when every sample weight is multiplied by c -- EXACT PROVISO: both total weights must be at
   least eps = 2^-52; below it the denominator sign(w) * clamp(|w|, eps) is eps rather than the weight, and the value
   does change (mse_small_weight_not_invariant) *)
Theorem mse_invariant_under_weight_scaling : forall cfg c xs ts ws,
  mse_w cfg = None -> eps64 <= sumQ ws -> eps64 <= sumQ (map (Qcmult c) ws) ->
  mse_cmp cfg (mse_stat cfg (b1d xs ts (Some (map (Qcmult c) ws)))) = mse_cmp cfg (mse_stat cfg (b1d xs ts (Some ws))).
Proof. exact mse_weight_scale. Qed.
Example mse_small_weight_not_invariant :   (* weights 1 vs 2^-60: squared error 4 gives 4 vs 4 * 2^-60 / 2^-52 = 1/64 *)
  let cfg := {| mse_raw := false; mse_w := None |} in
  xnd_val (mse_cmp cfg (mse_stat cfg (b1d [mkq 2 1] [mkq 0 1] (Some [mkq 1 1])))) = VQ 4 1
  /\ xnd_val (mse_cmp cfg (mse_stat cfg (b1d [mkq 2 1] [mkq 0 1] (Some [mkq 1 1152921504606846976])))) = VQ 1 64.
Proof. vm_compute. split; reflexivity. Qed.
Theorem mse_invariant_under_duplication : forall cfg xs ts,
  mse_w cfg = None -> ts <> [] -> List.length xs = List.length ts ->
  mse_cmp cfg (mse_stat cfg (b1d (xs ++ xs) (ts ++ ts) None)) = mse_cmp cfg (mse_stat cfg (b1d xs ts None)).
Proof. exact mse_duplicate. Qed.
Theorem weighted_mse_invariant_under_duplication : forall cfg xs ts ws,
  mse_w cfg = None -> eps64 <= sumQ ws -> List.length xs = List.length ts -> List.length ws = List.length ts ->
  mse_cmp cfg (mse_stat cfg (b1d (xs ++ xs) (ts ++ ts) (Some (ws ++ ws)))) = mse_cmp cfg (mse_stat cfg (b1d xs ts (Some ws))).
Proof. exact mse_duplicate_weighted. Qed.

(* weighted Mean under duplication (weight scaling: Props/C17.v) *)
Theorem mean_invariant_under_duplication : forall xs ws, List.length ws = List.length xs ->
  mean_fn (xs ++ xs, WEach (ws ++ ws)) = mean_fn (xs, WEach ws).
Proof. exact mean_duplicate. Qed.

(* R2Score under duplication: num_regressors = 0 (the adjusted form depends on n by design), every multioutput mode,
   non-constant targets *)
Theorem r2_invariant_under_duplication : forall c xs ts,
  r2_w c = None -> r2_p c = 0%Z -> ts <> [] -> List.length xs = List.length ts -> mkq 2 1 <= lenQ ts ->
  sumQ (map (fun t => sq (t - sumQ ts / lenQ ts)) ts) <> 0 ->
  r2_cmp c (r2_stat c (b1d (xs ++ xs) (ts ++ ts) None)) = r2_cmp c (r2_stat c (b1d xs ts None)).
Proof. exact r2_duplicate. Qed.

(* BinaryNormalizedEntropy (both from_logits modes), per task row, for EVERY interpretation L of the symbolic
   logarithm nodes: the cross entropy total_entropy / num_examples and the baseline (a function of the base rate
   num_positive / num_examples) are unchanged -- hence their quotient, the metric *)
Theorem ne_invariant_under_weight_scaling : forall (L : val -> Qc) logits c xs ts ws, c <> 0 -> sumQ ws <> 0 ->
  let r := ne_row logits xs ts ws in let r' := ne_row logits xs ts (map (Qcmult c) ws) in
  feval L (fst (fst r')) / snd (fst r') = feval L (fst (fst r)) / snd (fst r)
  /\ ne_baseline (snd r') (snd (fst r')) = ne_baseline (snd r) (snd (fst r)).
Proof. exact ne_weight_scale_invariant. Qed.
Theorem ne_invariant_under_duplication : forall (L : val -> Qc) logits xs ts ws,
  List.length xs = List.length ts -> List.length xs = List.length ws -> sumQ ws <> 0 ->
  let r := ne_row logits xs ts ws in let r' := ne_row logits (xs ++ xs) (ts ++ ts) (ws ++ ws) in
  feval L (fst (fst r')) / snd (fst r') = feval L (fst (fst r)) / snd (fst r)
  /\ ne_baseline (snd r') (snd (fst r')) = ne_baseline (snd r) (snd (fst r)).
Proof. exact ne_duplicate_invariant. Qed.

Print Assumptions mse_invariant_under_weight_scaling.
Print Assumptions mse_invariant_under_duplication.
Print Assumptions weighted_mse_invariant_under_duplication.
Print Assumptions mean_invariant_under_duplication.
Print Assumptions r2_invariant_under_duplication.
Print Assumptions ne_invariant_under_weight_scaling.
Print Assumptions ne_invariant_under_duplication.
