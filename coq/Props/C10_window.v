(* C10 (windowed classes) -- reset() and the ring-buffer cursor (D5).
   reset() restores the registered states to their defaults; next_inserted is not registered and
   keeps its value.  Refuted on the faithful models of WindowedClickThroughRate,
   WindowedWeightedCalibration, WindowedBinaryNormalizedEntropy, WindowedBinaryAUROC.
   (WindowedMeanSquaredError.compute() always sums the whole zero-padded buffer, so the stale
   cursor is a mere rotation there: no refutation exists for it in merge-free histories.)
   On the V_fixed variant reset() is the constructor state. *)
From Coq Require Import ZArith List Bool.
From TE Require Import Base.Val Algebra.Metric Algebra.Pool Models.Window Models.WindowAUROC Proofs.WindowP.
Import ListNotations.

(* reset_breaks M K: after some history on object 0, obj0.reset() and a fresh obj1 fed the same
   batches (compute() after every update) give different compute() results. *)
Theorem window_reset_refuted : reset_breaks (wctr false) (wctr_codec false).
Proof. exact wctr_reset_breaks. Qed.
(* window 3, two updates, reset, one update [1]: 0 after reset, 1 on a fresh instance *)
Theorem window_reset_refuted_values :
  behaviour (wctr false) (wctr_codec false) wcfg3 2 (ctr_pre ++ [o_reset 0; o_new 1] ++ cont_on [ctr_b 1] 0) = [VL [vq (q 0 1)]] /\
  behaviour (wctr false) (wctr_codec false) wcfg3 2 (ctr_pre ++ [o_reset 0; o_new 1] ++ cont_on [ctr_b 1] 1) = [VL [vq (q 1 1)]].
Proof. exact wctr_reset_witness_values. Qed.
Theorem window_reset_refuted_wcal : reset_breaks (wcal false) (wcal_codec false).
Proof. exact wcal_reset_breaks. Qed.
Theorem window_reset_refuted_wne : reset_breaks (wne false) (wne_codec false).
Proof. exact wne_reset_breaks. Qed.
Theorem window_reset_refuted_wauroc : reset_breaks (wauroc false) (wauroc_codec false).
Proof. exact wauroc_reset_breaks. Qed.

Theorem window_reset_fixed :
  forall (W : WinSpec) (c : wcfg) (s : wst (wS W)), rst (win_metric W true) c s = init (win_metric W true) c.
Proof. exact win_fixed_reset. Qed.
Theorem window_reset_fixed_wauroc :
  forall (c : acfg) (s : ast), rst (wauroc true) c s = init (wauroc true) c.
Proof. exact wauroc_fixed_reset. Qed.
(* in any pool, reset() leaves the objects exactly as constructing a new instance does *)
Theorem window_reset_fixed_bisim :
  forall (W : WinSpec) (K : Codec (win_metric W true)) (c : wcfg) (p : pool (win_metric W true)) (i : nat),
    objs _ (after _ K c p [o_reset i]) = objs _ (after _ K c p [o_new i]).
Proof. intros W K c. apply reset_bisim_of_eq. intros s. reflexivity. Qed.
Theorem window_reset_fixed_bisim_wauroc :
  forall (K : Codec (wauroc true)) (c : acfg) (p : pool (wauroc true)) (i : nat),
    objs _ (after _ K c p [o_reset i]) = objs _ (after _ K c p [o_new i]).
Proof. intros K c. apply reset_bisim_of_eq. intros s. reflexivity. Qed.

Print Assumptions window_reset_refuted.
Print Assumptions window_reset_refuted_values.
Print Assumptions window_reset_refuted_wcal.
Print Assumptions window_reset_refuted_wne.
Print Assumptions window_reset_refuted_wauroc.
Print Assumptions window_reset_fixed.
Print Assumptions window_reset_fixed_wauroc.
Print Assumptions window_reset_fixed_bisim.
Print Assumptions window_reset_fixed_bisim_wauroc.
