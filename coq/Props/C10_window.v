(* C10 (windowed classes) -- reset() and the ring-buffer cursor.
   Since the fix c5ceb09 every windowed class overrides reset():  super().reset(); next_inserted = 0.
   The faithful model of the CURRENT code is V_code (reset rewinds the cursor; state_dict/load do
   not carry it).  For V_code -- and for V_fixed -- reset() yields exactly the constructor state,
   hence the behaviour of a fresh instance under every continuation.
   The last section keeps, clearly labelled, the refutation for the PRE-FIX variant V_pre (the tree
   before c5ceb09, where the cursor survived reset()); it says nothing about the current code. *)
From Coq Require Import ZArith List Bool.
From TE Require Import Base.Val Algebra.Metric Algebra.Pool Models.Window Models.WindowAUROC Proofs.WindowP.
Import ListNotations.

(* reset() = the state of a freshly constructed instance (all registered states AND the cursor) *)
Theorem window_reset_is_init :
  forall (W : WinSpec) (c : wcfg) (s : wst (wS W)), rst (win_metric W V_code) c s = init (win_metric W V_code) c.
Proof. intros W c s. apply win_reset_init. reflexivity. Qed.
Theorem window_reset_is_init_wauroc :
  forall (c : acfg) (s : ast), rst (wauroc V_code) c s = init (wauroc V_code) c.
Proof. intros c s. apply wauroc_reset_init. reflexivity. Qed.
(* in any pool, after any history, reset() leaves the objects exactly as constructing a new
   instance does: identical states, identical observations under every continuation
   (Pool.exec is a function of the pool) *)
Theorem window_reset_bisim_fresh :
  forall (W : WinSpec) (K : Codec (win_metric W V_code)) (c : wcfg) (p : pool (win_metric W V_code)) (i : nat),
    objs _ (after _ K c p [o_reset i]) = objs _ (after _ K c p [o_new i]).
Proof. intros W K c. apply reset_bisim_of_eq. intros s. reflexivity. Qed.
Theorem window_reset_bisim_fresh_wauroc :
  forall (K : Codec (wauroc V_code)) (c : acfg) (p : pool (wauroc V_code)) (i : nat),
    objs _ (after _ K c p [o_reset i]) = objs _ (after _ K c p [o_new i]).
Proof. intros K c. apply reset_bisim_of_eq. intros s. reflexivity. Qed.
(* the same for the V_fixed variant *)
Theorem window_reset_fixed :
  forall (W : WinSpec) (c : wcfg) (s : wst (wS W)), rst (win_metric W V_fixed) c s = init (win_metric W V_fixed) c.
Proof. intros W c s. apply win_reset_init. reflexivity. Qed.
Theorem window_reset_fixed_wauroc :
  forall (c : acfg) (s : ast), rst (wauroc V_fixed) c s = init (wauroc V_fixed) c.
Proof. intros c s. apply wauroc_reset_init. reflexivity. Qed.
(* non-vacuity: the former witness (window 3, two updates, reset, one update [1]) on the current
   model: 1 after reset, 1 on a fresh instance *)
Example window_reset_former_witness_now_agrees :
  behaviour (wctr V_code) (wctr_codec V_code) wcfg3 2 (ctr_pre ++ [o_reset 0; o_new 1] ++ cont_on [ctr_b 1] 0) = [VL [vq (q 1 1)]] /\
  behaviour (wctr V_code) (wctr_codec V_code) wcfg3 2 (ctr_pre ++ [o_reset 0; o_new 1] ++ cont_on [ctr_b 1] 1) = [VL [vq (q 1 1)]].
Proof. split; vm_compute; reflexivity. Qed.

(* ---- PRE-FIX variant only (V_pre = tree before c5ceb09): stale cursor after reset() ---- *)
Theorem prefix_variant_reset_refuted : reset_breaks (wctr V_pre) (wctr_codec V_pre).
Proof. exact wctr_reset_breaks. Qed.
Theorem prefix_variant_reset_refuted_values :
  behaviour (wctr V_pre) (wctr_codec V_pre) wcfg3 2 (ctr_pre ++ [o_reset 0; o_new 1] ++ cont_on [ctr_b 1] 0) = [VL [vq (q 0 1)]] /\
  behaviour (wctr V_pre) (wctr_codec V_pre) wcfg3 2 (ctr_pre ++ [o_reset 0; o_new 1] ++ cont_on [ctr_b 1] 1) = [VL [vq (q 1 1)]].
Proof. exact wctr_reset_witness_values. Qed.

Print Assumptions window_reset_is_init.
Print Assumptions window_reset_is_init_wauroc.
Print Assumptions window_reset_bisim_fresh.
Print Assumptions window_reset_bisim_fresh_wauroc.
Print Assumptions window_reset_fixed.
Print Assumptions window_reset_fixed_wauroc.
Print Assumptions window_reset_former_witness_now_agrees.
Print Assumptions prefix_variant_reset_refuted.
Print Assumptions prefix_variant_reset_refuted_values.
