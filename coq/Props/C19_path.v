(* C19 -- accumulated counts stay exact over long histories: storage kind AND the path an addend takes inside update(). *)
From Coq Require Import ZArith List Bool String.
From TE Require Import Models.FloatAcc Models.AccPath Proofs.FloatAccP Proofs.AccPathP.
Import ListNotations.
Open Scope Z_scope.

(* One update.  If every kind the addend passes through and the accumulator's kind are wide (float64, int64, Python
   int / float) and state, addend and new total are inside (-2^53, 2^53), the total changes by exactly the addend. *)
Theorem further_addends_always_counted_on_wide_paths :
  forall path acc state v, forallb wide path = true -> wide acc = true ->
    Z.abs state < 2 ^ 53 -> Z.abs v < 2 ^ 53 -> Z.abs (state + v) < 2 ^ 53 ->
    acc_add_via path acc state v = state + v.
Proof. exact via_exact_wide. Qed.

(* Any history of (signed) addends whose running totals stay inside (-2^53, 2^53) is accumulated exactly. *)
Theorem totals_exact_for_wide_paths :
  forall path acc, forallb wide path = true -> wide acc = true ->
    forall vs a, Z.abs a < 2 ^ 53 -> within a vs -> acc_run_via path acc a vs = a + sumZ vs.
Proof. exact history_exact_wide_path. Qed.

(* ... in the shape of totals_exact_for_wide_kinds: non-negative addends, true total below 2^53 *)
Theorem totals_exact_for_wide_paths_nonneg :
  forall path acc, forallb wide path = true -> wide acc = true ->
    forall vs a, 0 <= a -> Forall (fun d => 0 <= d) vs -> a + sumZ vs < 2 ^ 53 ->
    acc_run_via path acc a vs = a + sumZ vs.
Proof. exact history_exact_wide_path_nonneg. Qed.

(* the same when torch adds in the promoted kind and rounds once (0-dim state += 0-dim tensor of a wider kind) *)
Theorem totals_exact_for_wide_paths_fused :
  forall path acc, forallb wide path = true -> wide acc = true ->
    forall vs a, Z.abs a < 2 ^ 53 -> within a vs -> acc_run_fused path acc a vs = a + sumZ vs.
Proof. exact history_exact_wide_fused. Qed.

(* A narrow kind on the PATH loses an addend even though the accumulator is wide and starts at 0. *)
Theorem narrow_path_refuted :
  forall k acc, wide k = false -> wide acc = true ->
    exists v, 0 < v < 2 ^ 53 /\ acc_add_via [k] acc 0 v <> 0 + v.
Proof. exact narrow_path_loses. Qed.

(* Monotonicity, single addends: a path holds every non-negative addend below the edge of its narrowest element ... *)
Theorem path_exact_below_narrowest_edge :
  forall path v, 0 <= v < path_edge path -> round_path path v = v.
Proof. exact path_exact_below_edge. Qed.

(* ... and one narrow element anywhere on an otherwise wide path makes the path exactly as good as that element:
   its edge is the path's edge, every addend below it is counted, an addend within a factor 2 above it is lost. *)
Theorem single_narrow_element_caps_path :
  forall pre k post acc,
    forallb wide pre = true -> wide k = false -> forallb wide post = true -> wide acc = true ->
    path_edge (pre ++ k :: post) = edge k
    /\ (forall v, 0 <= v < edge k -> acc_add_via (pre ++ k :: post) acc 0 v = 0 + v)
    /\ (exists v, edge k <= v <= 2 * edge k /\ acc_add_via (pre ++ k :: post) acc 0 v <> 0 + v).
Proof. exact narrow_element_caps. Qed.

(* the path model extends the accumulator model of FloatAcc: an empty path is acc_add *)
Theorem empty_path_is_storage_model :
  forall k a d, 0 <= a -> 0 <= d -> acc_add_via [] k a d = acc_add k a d.
Proof. exact via_nil_is_acc_add. Qed.

Theorem converted_add_is_fused_add_behind_own_kind :
  forall path acc state v, acc_add_via path acc state v = acc_add_fused (path ++ [acc]) acc state v.
Proof. exact via_is_fused. Qed.

(* non-vacuity / the defects seen on real code *)
Example float32_path_loses_2_24_plus_1 : acc_add_via [F32] F64 0 (2 ^ 24 + 1) = 2 ^ 24.
Proof. reflexivity. Qed.
Example ctr_float32_batch_sum : acc_add_via [F32] F64 3 16777217 = 16777219.   (* 3 + 16777217 = 16777220 *)
Proof. reflexivity. Qed.
Example sum_int_data_float32 : acc_add_via [F32] F64 0 40000001 = 40000000.
Proof. reflexivity. Qed.
Example wide_path_hypotheses_satisfiable :
  forallb wide [I64; F64] = true /\ acc_run_via [I64; F64] F64 (2 ^ 53 - 4 - 2 ^ 24) [2 ^ 24 + 1; -5; 7] = 2 ^ 53 - 1.
Proof. split; reflexivity. Qed.
Example negative_addends_round_symmetrically : acc_add_via [F32] F64 0 (- (2 ^ 24 + 3)) = - (2 ^ 24 + 4).
Proof. reflexivity. Qed.
Example fused_and_converted_differ_on_narrow_storage :
  acc_add_fused [] F32 1 (2 ^ 24 + 1) = 2 ^ 24 + 2 /\ acc_add_via [] F32 1 (2 ^ 24 + 1) = 2 ^ 24.
Proof. split; reflexivity. Qed.
(* with several narrow elements the narrowest edge is only a lower bound: int8 then uint8 is the identity on 0..255 *)
Example several_narrow_elements_can_cancel : path_edge [I8; U8] = 2 ^ 7 /\ round_path [I8; U8] 200 = 200.
Proof. split; reflexivity. Qed.

Print Assumptions further_addends_always_counted_on_wide_paths.
Print Assumptions totals_exact_for_wide_paths.
Print Assumptions totals_exact_for_wide_paths_nonneg.
Print Assumptions totals_exact_for_wide_paths_fused.
Print Assumptions narrow_path_refuted.
Print Assumptions path_exact_below_narrowest_edge.
Print Assumptions single_narrow_element_caps_path.
Print Assumptions empty_path_is_storage_model.
Print Assumptions converted_add_is_fused_add_behind_own_kind.
