(* C12 for the eight binned classes: results depend only on the multiset of samples -- any permutation of the
   update stream, any two batchings with the same concatenation statistic, any permutation of the samples
   inside the concatenation.  Exception (known finding C06-multiclass-binned-auroc-per-sample):
   MulticlassBinnedAUROC is indexed by sample, so sample order shows in its result (refuted below). *)
From Coq Require Import ZArith List Bool Lia Sorted QArith Qcanon Permutation.
From TE Require Import Base.Val Base.Nd Base.Xq Algebra.Metric Algebra.MergeTree Algebra.Pool Algebra.Additive Algebra.Cache
  Models.Binned Proofs.BinnedP Proofs.BinnedFloorP Proofs.BinnedC03P.
From TE Require Models.Counting Proofs.CountingCatP.
Import ListNotations.
Open Scope Z_scope.

Corollary binary_binned_prc_order_irrelevant (c : bcfg) : forall bs bs',
  Forall (fun b => avalid bprc_spec c b = true) bs -> Permutation bs bs' -> class_run bprc_spec c bs = class_run bprc_spec c bs'.
Proof. exact (CountingCatP.order_invariant bprc_spec c). Qed.
Corollary binary_binned_prc_batching_irrelevant (c : bcfg) : forall b rest b' rest',
  bprc_okb c b -> Forall (bprc_okb c) rest -> bprc_okb c b' -> Forall (bprc_okb c) rest' ->
  abeta bprc_spec c (cat_all bprc_spec (@app sample) b rest) = abeta bprc_spec c (cat_all bprc_spec (@app sample) b' rest') ->
  class_run bprc_spec c (b :: rest) = class_run bprc_spec c (b' :: rest').
Proof. exact (CountingCatP.batching_of_laws bprc_spec c _ _ (bprc_laws c)). Qed.
Corollary multiclass_binned_prc_order_irrelevant (c : bcfg) : forall bs bs',
  Forall (fun b => avalid mcprc_spec c b = true) bs -> Permutation bs bs' -> class_run mcprc_spec c bs = class_run mcprc_spec c bs'.
Proof. exact (CountingCatP.order_invariant mcprc_spec c). Qed.
Corollary multiclass_binned_prc_batching_irrelevant (c : bcfg) : forall b rest b' rest',
  mc_okb c b -> Forall (mc_okb c) rest -> mc_okb c b' -> Forall (mc_okb c) rest' ->
  abeta mcprc_spec c (cat_all mcprc_spec (@app mcsample) b rest) = abeta mcprc_spec c (cat_all mcprc_spec (@app mcsample) b' rest') ->
  class_run mcprc_spec c (b :: rest) = class_run mcprc_spec c (b' :: rest').
Proof. exact (CountingCatP.batching_of_laws mcprc_spec c _ _ (mcprc_laws c)). Qed.
Corollary multilabel_binned_prc_order_irrelevant (c : bcfg) : forall bs bs',
  Forall (fun b => avalid mlprc_spec c b = true) bs -> Permutation bs bs' -> class_run mlprc_spec c bs = class_run mlprc_spec c bs'.
Proof. exact (CountingCatP.order_invariant mlprc_spec c). Qed.
Corollary multilabel_binned_prc_batching_irrelevant (c : bcfg) : forall b rest b' rest',
  ml_okb c b -> Forall (ml_okb c) rest -> ml_okb c b' -> Forall (ml_okb c) rest' ->
  abeta mlprc_spec c (cat_all mlprc_spec (@app mlsample) b rest) = abeta mlprc_spec c (cat_all mlprc_spec (@app mlsample) b' rest') ->
  class_run mlprc_spec c (b :: rest) = class_run mlprc_spec c (b' :: rest').
Proof. exact (CountingCatP.batching_of_laws mlprc_spec c _ _ (mlprc_laws c)). Qed.
Corollary binary_binned_auprc_order_irrelevant (c : bcfg) : forall bs bs',
  Forall (fun b => avalid bauprc_spec c b = true) bs -> Permutation bs bs' -> class_run bauprc_spec c bs = class_run bauprc_spec c bs'.
Proof. exact (CountingCatP.order_invariant bauprc_spec c). Qed.
Corollary binary_binned_auprc_batching_irrelevant (c : bcfg) : forall b rest b' rest',
  bauprc_okb c b -> Forall (bauprc_okb c) rest -> bauprc_okb c b' -> Forall (bauprc_okb c) rest' ->
  abeta bauprc_spec c (cat_all bauprc_spec (rows_cat) b rest) = abeta bauprc_spec c (cat_all bauprc_spec (rows_cat) b' rest') ->
  class_run bauprc_spec c (b :: rest) = class_run bauprc_spec c (b' :: rest').
Proof. exact (CountingCatP.batching_of_laws bauprc_spec c _ _ (bauprc_laws c)). Qed.
Corollary multiclass_binned_auprc_order_irrelevant (c : bcfg) : forall bs bs',
  Forall (fun b => avalid mcauprc_spec c b = true) bs -> Permutation bs bs' -> class_run mcauprc_spec c bs = class_run mcauprc_spec c bs'.
Proof. exact (CountingCatP.order_invariant mcauprc_spec c). Qed.
Corollary multiclass_binned_auprc_batching_irrelevant (c : bcfg) : forall b rest b' rest',
  mc_okb c b -> Forall (mc_okb c) rest -> mc_okb c b' -> Forall (mc_okb c) rest' ->
  abeta mcauprc_spec c (cat_all mcauprc_spec (@app mcsample) b rest) = abeta mcauprc_spec c (cat_all mcauprc_spec (@app mcsample) b' rest') ->
  class_run mcauprc_spec c (b :: rest) = class_run mcauprc_spec c (b' :: rest').
Proof. exact (CountingCatP.batching_of_laws mcauprc_spec c _ _ (mcauprc_laws c)). Qed.
Corollary multilabel_binned_auprc_order_irrelevant (c : bcfg) : forall bs bs',
  Forall (fun b => avalid mlauprc_spec c b = true) bs -> Permutation bs bs' -> class_run mlauprc_spec c bs = class_run mlauprc_spec c bs'.
Proof. exact (CountingCatP.order_invariant mlauprc_spec c). Qed.
Corollary multilabel_binned_auprc_batching_irrelevant (c : bcfg) : forall b rest b' rest',
  ml_okb c b -> Forall (ml_okb c) rest -> ml_okb c b' -> Forall (ml_okb c) rest' ->
  abeta mlauprc_spec c (cat_all mlauprc_spec (@app mlsample) b rest) = abeta mlauprc_spec c (cat_all mlauprc_spec (@app mlsample) b' rest') ->
  class_run mlauprc_spec c (b :: rest) = class_run mlauprc_spec c (b' :: rest').
Proof. exact (CountingCatP.batching_of_laws mlauprc_spec c _ _ (mlauprc_laws c)). Qed.

(* order of the samples inside the (concatenated) batch *)
Theorem binary_binned_prc_sample_order_irrelevant : forall c xs ys, asc (thresholds c) -> Permutation xs ys ->
  fn_of bprc_spec c xs = fn_of bprc_spec c ys.
Proof. exact bprc_fn_perm. Qed.
Theorem multiclass_binned_prc_sample_order_irrelevant : forall c xs ys, mc_okb c xs -> Permutation xs ys ->
  fn_of mcprc_spec c xs = fn_of mcprc_spec c ys.
Proof. exact mcprc_fn_perm. Qed.
Theorem multilabel_binned_prc_sample_order_irrelevant : forall c xs ys, ml_okb c xs -> Permutation xs ys ->
  fn_of mlprc_spec c xs = fn_of mlprc_spec c ys.
Proof. exact mlprc_fn_perm. Qed.
Theorem multiclass_binned_auprc_sample_order_irrelevant : forall c xs ys, mc_okb c xs -> Permutation xs ys ->
  fn_of mcauprc_spec c xs = fn_of mcauprc_spec c ys.
Proof. exact mcauprc_fn_perm. Qed.
Theorem multilabel_binned_auprc_sample_order_irrelevant : forall c xs ys, ml_okb c xs -> Permutation xs ys ->
  fn_of mlauprc_spec c xs = fn_of mlauprc_spec c ys.
Proof. exact mlauprc_fn_perm. Qed.
Theorem binary_binned_auprc_sample_order_irrelevant : forall c rows rows', asc (thresholds c) ->
  Forall2 (@Permutation sample) rows rows' -> fn_of bauprc_spec c rows = fn_of bauprc_spec c rows'.
Proof. exact bauprc_fn_perm. Qed.
(* the two cache classes *)
Theorem binary_binned_auroc_batching_irrelevant : forall c bs bs', List.concat bs = List.concat bs' ->
  cache_run broc_cache c bs = cache_run broc_cache c bs'.
Proof. exact broc_batching. Qed.
Theorem binary_binned_auroc_sample_order_irrelevant : forall c bs bs', Permutation (List.concat bs) (List.concat bs') ->
  cache_run broc_cache c bs = cache_run broc_cache c bs'.
Proof. exact broc_sample_order. Qed.
Theorem multiclass_binned_auroc_batching_irrelevant : forall c bs bs', List.concat bs = List.concat bs' ->
  cache_run mroc_cache c bs = cache_run mroc_cache c bs'.
Proof. exact mroc_batching. Qed.
Theorem multiclass_binned_auroc_sample_order_refuted : exists c xs ys,
  Permutation xs ys /\ mc_ok (bC c) xs = true /\ asc (thresholds c) /\ enc_mroc (mroc_fun c xs) <> enc_mroc (mroc_fun c ys).
Proof. exact mroc_sample_order_refuted_lem. Qed.

(* non-vacuity: a permuted, re-batched stream *)
Example binned_c12_example :
  let c := {| bD := 8; bthr := TInt 5; bmem := false; bC := 2; bmacro := true |} in
  let x1 : mlsample := ([4; 1], [true; false]) in let x2 : mlsample := ([3; 8], [false; true]) in
  let x3 : mlsample := ([9; 0], [true; true]) in
  ml_okb c [x1; x2; x3] /\
  enc_auprc (class_run mlauprc_spec c [[x1; x2]; [x3]]) = enc_auprc (class_run mlauprc_spec c [[x3]; [x2]; [x1]]).
Proof. split; [split; [repeat constructor; cbn; lia|reflexivity]|vm_compute; reflexivity]. Qed.

Print Assumptions binary_binned_prc_order_irrelevant.
Print Assumptions binary_binned_prc_batching_irrelevant.
Print Assumptions multiclass_binned_prc_order_irrelevant.
Print Assumptions multiclass_binned_prc_batching_irrelevant.
Print Assumptions multilabel_binned_prc_order_irrelevant.
Print Assumptions multilabel_binned_prc_batching_irrelevant.
Print Assumptions binary_binned_auprc_order_irrelevant.
Print Assumptions binary_binned_auprc_batching_irrelevant.
Print Assumptions multiclass_binned_auprc_order_irrelevant.
Print Assumptions multiclass_binned_auprc_batching_irrelevant.
Print Assumptions multilabel_binned_auprc_order_irrelevant.
Print Assumptions multilabel_binned_auprc_batching_irrelevant.
Print Assumptions binary_binned_prc_sample_order_irrelevant.
Print Assumptions multiclass_binned_prc_sample_order_irrelevant.
Print Assumptions multilabel_binned_prc_sample_order_irrelevant.
Print Assumptions multiclass_binned_auprc_sample_order_irrelevant.
Print Assumptions multilabel_binned_auprc_sample_order_irrelevant.
Print Assumptions binary_binned_auprc_sample_order_irrelevant.
Print Assumptions binary_binned_auroc_batching_irrelevant.
Print Assumptions binary_binned_auroc_sample_order_irrelevant.
Print Assumptions multiclass_binned_auroc_batching_irrelevant.
Print Assumptions multiclass_binned_auroc_sample_order_refuted.
