(* C19 -- the table of addend paths regenerated from /repo on every run (tools/introspect_path.py). *)
From Coq Require Import ZArith List Bool String.
From TE Require Import Models.FloatAcc Models.AccPath Proofs.FloatAccP Proofs.AccPathP.
From TE Require Import Generated.AccPaths Generated.KnownPaths Generated.KnownAcc.
Import ListNotations.

(* excused: a known finding names exactly this (class, state, layout, path kind), or the path is no narrower than a
   storage kind that is itself recorded (class, state, storage kind) in C19-float32-accumulators *)
Definition known (r : path_row) : bool := known_row known_paths known_narrow r.

(* On the tree probed on this run: whatever a caller adds through any probed update-call layout reaches the
   registered accumulator through wide kinds only, except for the recorded findings. *)
Theorem all_paths_wide_or_known : forallb (fun r => wide (path_kind r) || known r) acc_paths = true.
Proof. vm_compute. reflexivity. Qed.

(* every recorded path exception is live: that very row is narrow on this tree (a repaired tree makes the entry
   stale, and this fails until the finding is marked fixed) *)
Theorem path_excuses_are_live :
  forallb (fun e => let '(c, s, l, k) := e in
     existsb (fun r => String.eqb c (row_class r) && String.eqb s (row_state r) && String.eqb l (row_layout r)
                       && kind_beq k (path_kind r) && negb (wide (path_kind r))) acc_paths) known_paths = true.
Proof. vm_compute. reflexivity. Qed.

(* sanity of the generated table: the effective path is never wider than the storage it ends in *)
Theorem path_never_wider_than_storage :
  forallb (fun r => Z.leb (edge (path_kind r)) (edge (storage_kind r))) acc_paths = true.
Proof. vm_compute. reflexivity. Qed.

Theorem wide_path_ends_in_wide_storage :
  forallb (fun r => implb (wide (path_kind r)) (wide (storage_kind r))) acc_paths = true.
Proof. vm_compute. reflexivity. Qed.

(* hence: every row that is not a recorded finding accumulates every history inside (-2^53, 2^53) exactly *)
Theorem unexcused_rows_count_exactly :
  forall r, In r acc_paths -> known r = false ->
  forall vs a, (Z.abs a < 2 ^ 53)%Z -> within a vs ->
    acc_run_via [path_kind r] (storage_kind r) a vs = (a + sumZ vs)%Z.
Proof. exact (rows_exact_unless_known acc_paths known all_paths_wide_or_known wide_path_ends_in_wide_storage). Qed.

Print Assumptions all_paths_wide_or_known.
Print Assumptions path_excuses_are_live.
Print Assumptions path_never_wider_than_storage.
Print Assumptions wide_path_ends_in_wide_storage.
Print Assumptions unexcused_rows_count_exactly.
