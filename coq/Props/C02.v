(* C02 -- Distributed equivalence: toolkit.get_synced_metric(_collection) / sync_and_compute /
   get_synced_state_dict on every rank = the rank's own metric merged with what the other ranks
   hold; nobody hangs.  With a world of one the toolkit is the identity.  Refuted configurations
   (the model is faithful to the code as it is): D10 (ndim mismatch -> collective mismatch), D9
   (sub-group with an empty list state -> TypeError), C02-state-dtype-follows-data (a state that is
   float32 on one rank and float64 on another -> collective mismatch in every variant without the dtype negotiation fx_dt: the per-name
   equal-dtype hypothesis of the positive theorems is necessary, and Props/C02_schema.v shows that Max /
   Min / MSE / R2Score / Covariance reach such configurations).
   Statements only; proofs live in Proofs/ToolkitP.v (generic over the metric objects: M, sd =
   state_dict after _prepare_for_merge_state, mrg = clone + merge_state, cmp = compute).
   [schema_agree fx g Wg mds order iv tl]: all ranks traverse the same keys and the sync of every
   key is ideal (SynclibP.ideal_family, established in C15 for tensor / object / list / dict states
   under the hypotheses stated there: ideal_family_instances). *)
From Coq Require Import ZArith List Bool String Arith Lia.
From TE Require Import Base.Val Models.Proto Models.Synclib Models.Toolkit Models.SyncSchema
     Proofs.ProtoP Proofs.SynclibP Proofs.ToolkitP.
Import ListNotations.
Open Scope string_scope.
Open Scope list_scope.

(* ---- 1. world of one ---- *)
Theorem world1_identity :
  forall (M : Type) (sd : M -> sdict) (mrg : M -> list pseudo_t -> M) (fx : fixes) (g : list nat) (i Wg r : nat) (m : M)
         (mc : list (string * M)),
    get_synced_metric M sd mrg fx g 1 i Wg m = Ret (Ok m) /\
    get_synced_metric_collection M sd mrg fx g 1 i Wg mc = Ret (Ok mc) /\
    run_all (respond [r]) [get_synced_metric M sd mrg fx [r] 1 0 Wg m] = Some [Ok m] /\
    run_all (respond [r]) [get_synced_metric_collection M sd mrg fx [r] 1 0 Wg mc] = Some [Ok mc].
Proof. intros. repeat split. Qed.

(* ---- 2. nobody hangs ---- *)
Theorem sync_no_mismatch :
  forall (M : Type) (sd : M -> sdict) (mrg : M -> list pseudo_t -> M)
         (fx : fixes) (g : list nat) (Wg : nat) (ms : nat -> M) order iv tl,
    let n := List.length g in
    n <> 1 -> n <= Wg -> schema_agree fx g Wg (fun i => [(TMP, sd (ms i))]) order iv tl ->
    run_all (respond g) (map (fun i => get_synced_metric M sd mrg fx g n i Wg (ms i)) (seq 0 n)) <> None.
Proof. exact ToolkitP.sync_no_mismatch. Qed.

(* ---- 3. every rank obtains its own metric merged with the others' states ---- *)
Theorem sync_equals_local_merge :
  forall (M : Type) (sd : M -> sdict) (mrg : M -> list pseudo_t -> M)
         (fx : fixes) (g : list nat) (Wg : nat) (ms : nat -> M) order iv tl,
    let n := List.length g in
    n <> 1 -> n <= Wg -> schema_agree fx g Wg (fun i => [(TMP, sd (ms i))]) order iv tl ->
    exists gath, gathered_ok n Wg order iv tl gath /\
      run_all (respond g) (map (fun i => get_synced_metric M sd mrg fx g n i Wg (ms i)) (seq 0 n))
      = Some (map (fun i => Ok (mrg (ms i) (others i n (map (pseudo TMP) gath) []))) (seq 0 n)).
Proof. exact ToolkitP.sync_equals_local_merge. Qed.

Theorem sync_collection_equals_local_merge :
  forall (M : Type) (sd : M -> sdict) (mrg : M -> list pseudo_t -> M)
         (fx : fixes) (g : list nat) (Wg : nat) (mcs : nat -> list (string * M)) order iv tl,
    let n := List.length g in
    n <> 1 -> n <= Wg ->
    schema_agree fx g Wg (fun i => map (fun km => (fst km, sd (snd km))) (mcs i)) order iv tl ->
    exists gath, gathered_ok n Wg order iv tl gath /\
      run_all (respond g) (map (fun i => get_synced_metric_collection M sd mrg fx g n i Wg (mcs i)) (seq 0 n))
      = Some (map (fun i => Ok (map (fun km => (fst km, mrg (snd km) (others i n (map (pseudo (fst km)) gath) [])))
                                    (mcs i))) (seq 0 n)).
Proof. exact ToolkitP.sync_collection_equals_local_merge. Qed.

(* explicit forms (distinct traversal keys): the merged-in pseudo-metrics are exactly the ideal
   values of the OTHER ranks, in rank order, each in traversal order *)
Theorem sync_equals_local_merge_exact :
  forall (M : Type) (sd : M -> sdict) (mrg : M -> list pseudo_t -> M)
         (fx : fixes) (g : list nat) (Wg : nat) (ms : nat -> M) order iv tl,
    let n := List.length g in
    n <> 1 -> n <= Wg -> NoDup order -> schema_agree fx g Wg (fun i => [(TMP, sd (ms i))]) order iv tl ->
    run_all (respond g) (map (fun i => get_synced_metric M sd mrg fx g n i Wg (ms i)) (seq 0 n))
    = Some (map (fun i => Ok (mrg (ms i) (map (ideal_pseudo order iv)
                                              (filter (fun r => negb (Nat.eqb r i)) (seq 0 n))))) (seq 0 n)).
Proof. exact ToolkitP.sync_equals_local_merge_exact. Qed.

Theorem sync_collection_equals_local_merge_exact :
  forall (M : Type) (sd : M -> sdict) (mrg : M -> list pseudo_t -> M)
         (fx : fixes) (g : list nat) (Wg : nat) (mcs : nat -> list (string * M)) order iv tl,
    let n := List.length g in
    n <> 1 -> n <= Wg -> NoDup order ->
    schema_agree fx g Wg (fun i => map (fun km => (fst km, sd (snd km))) (mcs i)) order iv tl ->
    run_all (respond g) (map (fun i => get_synced_metric_collection M sd mrg fx g n i Wg (mcs i)) (seq 0 n))
    = Some (map (fun i => Ok (map (fun km => (fst km, mrg (snd km)
                   (others i n (map (pseudo (fst km)) (ideal_gath n Wg order iv tl)) []))) (mcs i))) (seq 0 n)).
Proof. exact ToolkitP.sync_collection_equals_local_merge_exact. Qed.

(* structural form for a single metric: the ranks hold the same sorted state names (distinct) and
   under every name states of the same kind satisfying the hypotheses of C15 ([kind_ok]: tensors of
   equal ndim/dtype, well formed; objects; lists of such tensors, not all empty, empty ones only on
   the world group; dicts with equal non-empty key sets).  [state_iv sds (TMP,s) j] = the ideal
   gathered value of rank j's state s (tensor / list / sorted dict / object as it is). *)
Theorem sync_equals_local_merge_structural :
  forall (M : Type) (sd : M -> sdict) (mrg : M -> list pseudo_t -> M)
         (fx : fixes) (g : list nat) (Wg : nat) (ms : nat -> M) (names : list string),
    let n := List.length g in
    n > 1 -> n <= Wg -> NoDup names ->
    (forall i, i < n -> map fst (sort_keys (sd (ms i))) = names) ->
    (forall s, In s names -> exists ss, (forall i, i < n -> assoc s (sd (ms i)) = Some (ss i)) /\ kind_ok fx g ss) ->
    run_all (respond g) (map (fun i => get_synced_metric M sd mrg fx g n i Wg (ms i)) (seq 0 n))
    = Some (map (fun i => Ok (mrg (ms i)
               (map (fun j => map (fun s => (s, state_iv (fun i => sd (ms i)) (TMP, s) j)) names)
                    (filter (fun r => negb (Nat.eqb r i)) (seq 0 n))))) (seq 0 n)).
Proof. exact ToolkitP.sync_equals_local_merge_structural. Qed.

(* fx_d10 (ndim negotiation): tensor states of ANY per-rank ndims (a 0-dim default next to k-dim
   data), same sorted distinct state names, per-name equal dtype: nobody hangs and every rank merges
   the others' tensors, delivered with their own shapes *)
Theorem sync_equals_local_merge_fixed_ndim :
  forall (M : Type) (sd : M -> sdict) (mrg : M -> list pseudo_t -> M)
         (fx : fixes) (g : list nat) (Wg : nat) (ms : nat -> M) (names : list string)
         (ts : string -> nat -> tensor),
    let n := List.length g in
    fx_d10 fx = true -> n > 1 -> n <= Wg -> NoDup names ->
    (forall i, i < n -> map fst (sort_keys (sd (ms i))) = names) ->
    (forall s, In s names -> exists z, forall i, i < n ->
       assoc s (sd (ms i)) = Some (STensor (ts s i)) /\ wf (shp (ts s i)) (dat (ts s i)) /\ dt (ts s i) = z) ->
    run_all (respond g) (map (fun i => get_synced_metric M sd mrg fx g n i Wg (ms i)) (seq 0 n))
    = Some (map (fun i => Ok (mrg (ms i)
               (map (fun j => map (fun s => (s, GT (ts s j))) names)
                    (filter (fun r => negb (Nat.eqb r i)) (seq 0 n))))) (seq 0 n)).
Proof. exact ToolkitP.sync_equals_local_merge_fixed_ndim. Qed.

Theorem sync_no_mismatch_fixed_ndim :
  forall (M : Type) (sd : M -> sdict) (mrg : M -> list pseudo_t -> M)
         (fx : fixes) (g : list nat) (Wg : nat) (ms : nat -> M) (names : list string)
         (ts : string -> nat -> tensor),
    let n := List.length g in
    fx_d10 fx = true -> n > 1 -> n <= Wg -> NoDup names ->
    (forall i, i < n -> map fst (sort_keys (sd (ms i))) = names) ->
    (forall s, In s names -> exists z, forall i, i < n ->
       assoc s (sd (ms i)) = Some (STensor (ts s i)) /\ wf (shp (ts s i)) (dat (ts s i)) /\ dt (ts s i) = z) ->
    run_all (respond g) (map (fun i => get_synced_metric M sd mrg fx g n i Wg (ms i)) (seq 0 n)) <> None.
Proof. exact ToolkitP.sync_no_mismatch_fixed_ndim. Qed.

(* fx_d10 + fx_dt (ndim and dtype negotiation, fixes/sync-dtype.patch): tensor states of ANY per-rank ndims AND
   ANY per-rank dtypes (the model's cast is exact: float32 / float64 / bool / integers below 2^53), same sorted
   distinct state names: nobody hangs and every rank merges the others' tensors, delivered with their own
   shapes and IN THEIR OWN dtypes *)
Theorem sync_equals_local_merge_any_dtype :
  forall (M : Type) (sd : M -> sdict) (mrg : M -> list pseudo_t -> M)
         (fx : fixes) (g : list nat) (Wg : nat) (ms : nat -> M) (names : list string)
         (ts : string -> nat -> tensor),
    let n := List.length g in
    fx_d10 fx = true -> fx_dt fx = true -> n > 1 -> n <= Wg -> NoDup names ->
    (forall i, i < n -> map fst (sort_keys (sd (ms i))) = names) ->
    (forall s, In s names -> forall i, i < n ->
       assoc s (sd (ms i)) = Some (STensor (ts s i)) /\ wf (shp (ts s i)) (dat (ts s i))) ->
    run_all (respond g) (map (fun i => get_synced_metric M sd mrg fx g n i Wg (ms i)) (seq 0 n))
    = Some (map (fun i => Ok (mrg (ms i)
               (map (fun j => map (fun s => (s, GT (ts s j))) names)
                    (filter (fun r => negb (Nat.eqb r i)) (seq 0 n))))) (seq 0 n)).
Proof. exact ToolkitP.sync_equals_local_merge_any_dtype. Qed.

Theorem sync_no_mismatch_any_dtype :
  forall (M : Type) (sd : M -> sdict) (mrg : M -> list pseudo_t -> M)
         (fx : fixes) (g : list nat) (Wg : nat) (ms : nat -> M) (names : list string)
         (ts : string -> nat -> tensor),
    let n := List.length g in
    fx_d10 fx = true -> fx_dt fx = true -> n > 1 -> n <= Wg -> NoDup names ->
    (forall i, i < n -> map fst (sort_keys (sd (ms i))) = names) ->
    (forall s, In s names -> forall i, i < n ->
       assoc s (sd (ms i)) = Some (STensor (ts s i)) /\ wf (shp (ts s i)) (dat (ts s i))) ->
    run_all (respond g) (map (fun i => get_synced_metric M sd mrg fx g n i Wg (ms i)) (seq 0 n)) <> None.
Proof. exact ToolkitP.sync_no_mismatch_any_dtype. Qed.

Theorem sync_and_compute_equals_local_merge :
  forall (M Out : Type) (sd : M -> sdict) (mrg : M -> list pseudo_t -> M) (cmp : M -> Out)
         (fx : fixes) (g : list nat) (Wg : nat) (ms : nat -> M) order iv tl,
    let n := List.length g in
    n <> 1 -> n <= Wg -> schema_agree fx g Wg (fun i => [(TMP, sd (ms i))]) order iv tl ->
    exists gath, gathered_ok n Wg order iv tl gath /\
      run_all (respond g) (map (fun i => sync_and_compute M Out sd mrg cmp fx g n i Wg (ms i)) (seq 0 n))
      = Some (map (fun i => Ok (cmp (mrg (ms i) (others i n (map (pseudo TMP) gath) [])))) (seq 0 n)) /\
      run_all (respond g) (map (fun i => get_synced_state_dict M sd mrg fx g n i Wg (ms i)) (seq 0 n))
      = Some (map (fun i => Ok (sd (mrg (ms i) (others i n (map (pseudo TMP) gath) [])))) (seq 0 n)).
Proof. exact ToolkitP.sync_and_compute_spec. Qed.

(* ---- non-vacuity: three ranks, uneven 2-D tensor state incl. a zero extent, an object state ---- *)
Definition f2 (rows : list (list Z)) (c : nat) : tensor :=
  mkT 0 [List.length rows; c] (TArr (map (fun r => TArr (map (fun z => TSc (VZ z)) r)) rows)).
Definition ex_ts (i : nat) : tensor :=
  nth i [f2 [[1;2;3]]%Z 3; f2 [] 2; f2 [[4];[5]]%Z 1] (f2 [] 0).
Definition ex_m (i : nat) : mobj := mkM [("t", STensor (ex_ts i)); ("o", SObj (VZ (Z.of_nat i)))] None.
Definition ex_iv (k : key) (j : nat) : gs :=
  if String.eqb (snd k) "o" then GO (VZ (Z.of_nat j)) else GT (ex_ts j).

Example schema_agree_example :
  schema_agree V_code [0;1;2] 3 (fun i => [(TMP, base (ex_m i))]) [(TMP,"o"); (TMP,"t")] ex_iv (fun _ => GEmpty).
Proof.
  assert (Hok : dst_ok V_code [0;1;2] None) by exact I.
  split.
  - intros i Hi. destruct i as [|[|[|i]]]; try reflexivity; cbn in Hi; lia.
  - intros k [<-|[<-|[]]].
    + exists (fun i => SObj (VZ (Z.of_nat i))). split.
      * intros i Hi. destruct i as [|[|[|i]]]; try reflexivity; cbn in Hi; lia.
      * apply (ideal_obj V_code [0;1;2] None 3 (fun i => VZ (Z.of_nat i))); [cbn; lia|exact Hok].
    + exists (fun i => STensor (ex_ts i)). split.
      * intros i Hi. destruct i as [|[|[|i]]]; try reflexivity; cbn in Hi; lia.
      * apply (ideal_tensor V_code [0;1;2] None 3 ex_ts 2 0%Z); [cbn; lia|exact Hok|].
        intros i Hi. destruct i as [|[|[|i]]]; try (cbn in Hi; lia); repeat split; cbn; auto.
Qed.

Example structural_hypotheses_example :
  (forall i, i < 3 -> map fst (sort_keys (base (ex_m i))) = ["o"; "t"]) /\
  (forall s, In s ["o"; "t"] -> exists ss, (forall i, i < 3 -> assoc s (base (ex_m i)) = Some (ss i)) /\
                                          kind_ok V_code [0;1;2] ss).
Proof.
  split; [intros i _; reflexivity|].
  intros s [<-|[<-|[]]].
  - exists (fun i => SObj (VZ (Z.of_nat i))). split; [intros i _; reflexivity|].
    right; left. exists (fun i => VZ (Z.of_nat i)). intros; reflexivity.
  - exists (fun i => STensor (ex_ts i)). split; [intros i _; reflexivity|].
    left. exists ex_ts, 2, 0%Z. intros i Hi. split; [reflexivity|].
    destruct i as [|[|[|i]]]; try (cbn in Hi; lia); repeat split; cbn; auto.
Qed.

Example sync_three_ranks_example :
  let ps (j : nat) : pseudo_t := [("o", GO (VZ (Z.of_nat j))); ("t", GT (ex_ts j))] in
  run_all (respond [0;1;2]) (map (fun i => get_synced_metric mobj base mobj_mrg V_code [0;1;2] 3 i 3 (ex_m i)) (seq 0 3))
  = Some [Ok (mkM (base (ex_m 0)) (Some [ps 1; ps 2]));
          Ok (mkM (base (ex_m 1)) (Some [ps 0; ps 2]));
          Ok (mkM (base (ex_m 2)) (Some [ps 0; ps 1]))].
Proof. vm_compute. reflexivity. Qed.

(* ---- 4. refuted configurations ---- *)
Definition sc (z : Z) : tensor := mkT 0 [] (TSc (VZ z)).
Definition v1 (l : list Z) : tensor := mkT 0 [List.length l] (TArr (map (fun z => TSc (VZ z)) l)).

(* D10: a state that is a scalar on one rank and 1-D on the other: the ranks issue different
   collectives (all_gather of the tensor vs all_gather of its shape) -> mismatch / hang *)
Theorem sync_refuted_ndim :
  forall fx : fixes, fx_d10 fx = false ->
  run_all (respond [0;1])
    (map (fun i => get_synced_metric mobj base mobj_mrg fx [0;1] 2 i 2
                     (mkM [("s", STensor (nth i [sc 1; v1 [1;2]%Z] (sc 0)))] None)) (seq 0 2))
  = None.
Proof. intros [a b c d []] E; cbn in E; subst d; vm_compute; reflexivity. Qed.

(* C02-state-dtype-follows-data: Max.max is the float32 default (-inf) on a rank that was never updated and
   float64 on a rank updated with float64 data (Props/C02_schema.v reach_schema_refuted_dtype_max): the two
   ranks issue all_gather with tensors of different dtype -> mismatch, in every variant WITHOUT the dtype
   negotiation (the ndim negotiation of fx_d10 alone does not look at dtypes).  The checking transport reports
   CollectiveMismatch on exactly this scenario (witness replay of vlib/parts/C02_sync.py) on a tree without
   fixes/sync-dtype.patch.
   (Before the fx_dt variant existed this was stated for all fx; the hypothesis excludes exactly the repaired
   variants, for which [sync_dtype_fixed] / [sync_equals_local_merge_any_dtype] hold.) *)
Definition scd (d : Z) (v : val) : tensor := mkT d [] (TSc v).
Definition dtype_witness (i : nat) : tensor := nth i [scd 0 (VT "ninf" []); scd 1 (VZ 1)] (scd 0 (VZ 0)).
Theorem sync_refuted_dtype :
  forall fx : fixes, fx_d10 fx && fx_dt fx = false ->
  run_all (respond [0;1])
    (map (fun i => get_synced_metric mobj base mobj_mrg fx [0;1] 2 i 2
                     (mkM [("max", STensor (dtype_witness i))] None)) (seq 0 2))
  = None.
Proof. intros [[] [] [] [] []] E; try discriminate E; vm_compute; reflexivity. Qed.
(* repaired (fx_d10 + fx_dt suffice): each rank merges the other's tensor in the OTHER's dtype *)
Theorem sync_dtype_fixed :
  let st i := [("max", STensor (dtype_witness i))] in
  let expected := Some [Ok (mkM (st 0) (Some [[("max", GT (dtype_witness 1))]]));
                        Ok (mkM (st 1) (Some [[("max", GT (dtype_witness 0))]]))] in
  run_all (respond [0;1])
    (map (fun i => get_synced_metric mobj base mobj_mrg (mkFx false false false true true) [0;1] 2 i 2 (mkM (st i) None)) (seq 0 2))
  = expected /\
  run_all (respond [0;1])
    (map (fun i => get_synced_metric mobj base mobj_mrg V_fixed [0;1] 2 i 2 (mkM (st i) None)) (seq 0 2))
  = expected.
Proof. split; vm_compute; reflexivity. Qed.
(* the witness is a reachable configuration of the class model: rank 0 = Max() never updated, rank 1 = Max()
   after one update with float64 data *)
Example sync_refuted_dtype_reachable :
  dt (dtype_witness 0) = dt_of "max" (s_run (ext_class "max") []) /\
  dt (dtype_witness 1) = dt_of "max" (s_run (ext_class "max") [([1], 1%Z)]) /\
  ndim (dtype_witness 0) = nd_of "max" (s_run (ext_class "max") []) /\
  ndim (dtype_witness 1) = nd_of "max" (s_run (ext_class "max") [([1], 1%Z)]).
Proof. repeat split. Qed.
(* ... while two ranks that were both updated with float64 data sync (reach_schema_agree_same_dtype) *)
Example sync_same_dtype_ok :
  let st i := [("max", STensor (scd 1 (VZ (Z.of_nat i))))] in
  run_all (respond [0;1])
    (map (fun i => get_synced_metric mobj base mobj_mrg V_fixed [0;1] 2 i 2 (mkM (st i) None)) (seq 0 2))
  = Some [Ok (mkM (st 0) (Some [[("max", GT (scd 1 (VZ 1)))]]));
          Ok (mkM (st 1) (Some [[("max", GT (scd 1 (VZ 0)))]]))].
Proof. vm_compute. reflexivity. Qed.

(* D9: sub-group [1;2] of a world of 3, list state empty on the first member only: TypeError *)
Theorem sync_refuted_subgroup_root :
  run_all (respond [1;2])
    (map (fun i => get_synced_metric mobj base mobj_mrg V_code [1;2] 2 i 3
                     (mkM [("inputs", SList (nth i [[]; [v1 [1;2]%Z]] []))] None)) (seq 0 2))
  = Some [Exc "TypeError"; Exc "TypeError"].
Proof. vm_compute. reflexivity. Qed.

(* D9 repaired: on the sub-group [1;2] both members obtain their metric merged with the other's *)
Theorem sync_subgroup_root_fixed :
  let st i := [("inputs", SList (nth i [[]; [v1 [1;2]%Z]] []))] in
  run_all (respond [1;2])
    (map (fun i => get_synced_metric mobj base mobj_mrg V_fixed [1;2] 2 i 3 (mkM (st i) None)) (seq 0 2))
  = Some [Ok (mkM (st 0) (Some [[("inputs", GL [v1 [1;2]%Z])]]));
          Ok (mkM (st 1) (Some [[("inputs", GL [])]]))].
Proof. vm_compute. reflexivity. Qed.

(* D10 repaired (fx_d10 alone suffices): each rank merges the other's tensor in its own shape *)
Theorem sync_ndim_fixed :
  let st i := [("s", STensor (nth i [sc 1; v1 [1;2]%Z] (sc 0)))] in
  let expected := Some [Ok (mkM (st 0) (Some [[("s", GT (v1 [1;2]%Z))]]));
                        Ok (mkM (st 1) (Some [[("s", GT (sc 1))]]))] in
  run_all (respond [0;1])
    (map (fun i => get_synced_metric mobj base mobj_mrg (mkFx false false false true false) [0;1] 2 i 2 (mkM (st i) None)) (seq 0 2))
  = expected /\
  run_all (respond [0;1])
    (map (fun i => get_synced_metric mobj base mobj_mrg V_fixed [0;1] 2 i 2 (mkM (st i) None)) (seq 0 2))
  = expected.
Proof. split; vm_compute; reflexivity. Qed.

Print Assumptions world1_identity.
Print Assumptions sync_no_mismatch.
Print Assumptions sync_equals_local_merge.
Print Assumptions sync_collection_equals_local_merge.
Print Assumptions sync_equals_local_merge_exact.
Print Assumptions sync_collection_equals_local_merge_exact.
Print Assumptions sync_equals_local_merge_structural.
Print Assumptions sync_equals_local_merge_fixed_ndim.
Print Assumptions sync_no_mismatch_fixed_ndim.
Print Assumptions sync_and_compute_equals_local_merge.
Print Assumptions sync_refuted_ndim.
Print Assumptions sync_refuted_dtype.
Print Assumptions sync_dtype_fixed.
Print Assumptions sync_equals_local_merge_any_dtype.
Print Assumptions sync_no_mismatch_any_dtype.
Print Assumptions sync_refuted_subgroup_root.
Print Assumptions sync_subgroup_root_fixed.
Print Assumptions sync_ndim_fixed.
