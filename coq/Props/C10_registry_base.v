(* C10 -- metric.py skeletons (regenerated): reset() binds every state to a clone of its default
   (fresh storage) and no base-class method ever mutates or re-binds a default. *)
From Coq Require Import List String Bool.
From TE Require Import Models.Effects Generated.Skeletons.
Import ListNotations.
Open Scope string_scope.

Theorem reset_clones_defaults : base_binds_fresh base_methods "reset" "$f" = true.
Proof. vm_compute. reflexivity. Qed.

Theorem defaults_never_mutated : defaults_immutable base_methods = true.
Proof. vm_compute. reflexivity. Qed.

Print Assumptions reset_clones_defaults.
Print Assumptions defaults_never_mutated.
