(* C01 (windowed classes) -- merge TREES of the four update-granular windowed classes
   (WindowedClickThroughRate, WindowedWeightedCalibration, WindowedMeanSquaredError,
   WindowedBinaryNormalizedEntropy); faithful V_code model of Models/Window.v (merge_state enlarges the
   pooled buffers and keeps max_num_updates); proofs in Proofs/WindowTreeP.v.
   Trees are the [mtree] of Algebra/MergeTree.v:  Shard updates | Merge target sources post-updates;
   [run] interprets a tree with update() / merge_state(), [stream] lists every update of every leaf and
   every post-merge update.  Leaves may have received any number of updates (wrapped windows included).

   A. LIFETIME component and total_updates: C01 with NO deviation -- every tree (flat, nested,
      sequential, merged objects as targets or sources, updates after merges) reports the non-windowed
      statistic of all updates, in any grouping and order.  No hypothesis on the window size is needed.
   B. WINDOWED component: the exact law behind window_merge_nested_refuted
      (Props/C01_window.v): an object that already absorbed other shards contributes only the first
      N = max_num_updates slots of its pool when it is merged again, while compute() right after a merge
      reads the whole pool.  Closed form for every post-free tree ([contrib]) and for sequential merging.
      Updates AFTER a merge keep the lifetime component exact (A) but not the windowed one:
      window_update_after_merge_refuted (Props/C01_window.v).
   WindowedBinaryAUROC has no lifetime value (no enable_lifetime, compute() returns the windowed AUROC
   only): nothing to state here; its merge is window_merge_pools_auroc in Props/C01_window.v. *)
From Coq Require Import ZArith List Bool QArith Qcanon Permutation.
From TE Require Import Base.Val Base.Xq Algebra.Metric Algebra.Pool Algebra.MergeTree Models.Window
  Proofs.WindowP Proofs.WindowMergeP Proofs.WindowTreeP.
Import ListNotations.
Open Scope list_scope.

Definition wtree (W : WinSpec) : Type := mtree (win_metric W V_code).
Definition wshard (W : WinSpec) (c : wcfg) (us : list wbatch) : wst (wS W) :=
  fold_left (upd (win_metric W V_code) c) us (init (win_metric W V_code) c).

(* ===================================== A. lifetime ===================================== *)
(* total_updates of any tree = number of update() calls in it (no law of the statistic needed) *)
Theorem window_total_updates_any_merge_tree :
  forall (W : WinSpec) (c : wcfg) (t : wtree W),
    let M := win_metric W V_code in
    w_tot (run M c t) = List.length (stream M t).
Proof. intros W c t. exact (ring_total_updates_any_tree W V_code c t). Qed.

(* the lifetime component of compute() of ANY merge tree is the non-windowed compute of per-task sums
   that are Req-equal to the sums over ALL updates of the tree (None only if there was no update) *)
Theorem window_lifetime_any_merge_tree :
  forall (W : WinSpec) (L : WinLaws W) (LM : WinLawsM W L) (c : wcfg) (t : wtree W),
    cLife c = true ->
    let M := win_metric W V_code in
    exists ll,
      lifetime_of (cmp M c (run M c t))
        = (if Nat.eqb (List.length (stream M t)) 0 then None else Some (wgam W c ll)) /\
      Forall2 (Req L) ll (tsum W c (map (wstat W c) (stream M t))).
Proof. intros W L LM c t. exact (ring_lifetime_any_tree W L LM V_code c t). Qed.

(* any grouping, any order: two trees over the same multiset of updates (e.g. the second one a single
   shard that saw everything, in any order) have Req-equal lifetime sums *)
Theorem window_lifetime_any_two_merge_trees :
  forall (W : WinSpec) (L : WinLaws W) (LM : WinLawsM W L) (c : wcfg) (t t' : wtree W),
    cLife c = true ->
    let M := win_metric W V_code in
    stream M t <> [] -> Permutation (stream M t) (stream M t') ->
    exists ll ll',
      lifetime_of (cmp M c (run M c t)) = Some (wgam W c ll) /\
      lifetime_of (cmp M c (run M c t')) = Some (wgam W c ll') /\ Forall2 (Req L) ll ll'.
Proof. intros W L LM c t t'. exact (ring_lifetime_any_two_trees W L LM V_code c t t'). Qed.

(* further update() calls on the result of any merge tree: lifetime still exact, total_updates too
   (the windowed component is NOT: window_update_after_merge_refuted) *)
Theorem window_lifetime_after_merge_then_updates :
  forall (W : WinSpec) (L : WinLaws W) (LM : WinLawsM W L) (c : wcfg) (t : wtree W) (post : list wbatch),
    cLife c = true ->
    let M := win_metric W V_code in
    let s := fold_left (upd M c) post (run M c t) in
    exists ll,
      w_tot s = List.length (stream M t ++ post) /\
      lifetime_of (cmp M c s)
        = (if Nat.eqb (List.length (stream M t ++ post)) 0 then None else Some (wgam W c ll)) /\
      Forall2 (Req L) ll (tsum W c (map (wstat W c) (stream M t ++ post))).
Proof. intros W L LM c t post. exact (ring_lifetime_after_tree_then_updates W L LM V_code c t post). Qed.

(* ---- the three rational statistics: clean equalities with the non-windowed reference ---- *)
Definition lifetime_tree_eq (W : WinSpec) : Prop :=
  forall (c : wcfg) (t : wtree W), cLife c = true ->
    let M := win_metric W V_code in
    lifetime_of (cmp M c (run M c t))
    = (if Nat.eqb (List.length (stream M t)) 0 then None else Some (win_ref W c (stream M t))).
Definition lifetime_trees_agree (W : WinSpec) : Prop :=
  forall (c : wcfg) (t t' : wtree W), cLife c = true ->
    let M := win_metric W V_code in
    Permutation (stream M t) (stream M t') ->
    lifetime_of (cmp M c (run M c t)) = lifetime_of (cmp M c (run M c t')).
Definition lifetime_tree_then_updates_eq (W : WinSpec) : Prop :=
  forall (c : wcfg) (t : wtree W) (post : list wbatch), cLife c = true ->
    let M := win_metric W V_code in
    lifetime_of (cmp M c (fold_left (upd M c) post (run M c t)))
    = (if Nat.eqb (List.length (stream M t ++ post)) 0 then None else Some (win_ref W c (stream M t ++ post))).

Theorem window_lifetime_any_merge_tree_ctr : lifetime_tree_eq ctr_spec.
Proof. intros c t. exact (ring_lifetime_any_tree_eq ctr_spec ctr_laws ctr_lawsM V_code c (fun x y H => H) t). Qed.
Theorem window_lifetime_any_merge_tree_wcal : lifetime_tree_eq wcal_spec.
Proof. intros c t. exact (ring_lifetime_any_tree_eq wcal_spec wcal_laws wcal_lawsM V_code c (fun x y H => H) t). Qed.
Theorem window_lifetime_any_merge_tree_mse : lifetime_tree_eq mse_spec.
Proof. intros c t. exact (ring_lifetime_any_tree_eq mse_spec mse_laws mse_lawsM V_code c (fun x y H => H) t). Qed.

Theorem window_lifetime_any_two_merge_trees_ctr : lifetime_trees_agree ctr_spec.
Proof. intros c t t'. exact (ring_lifetime_any_two_trees_eq ctr_spec ctr_laws ctr_lawsM V_code c (fun x y H => H) t t'). Qed.
Theorem window_lifetime_any_two_merge_trees_wcal : lifetime_trees_agree wcal_spec.
Proof. intros c t t'. exact (ring_lifetime_any_two_trees_eq wcal_spec wcal_laws wcal_lawsM V_code c (fun x y H => H) t t'). Qed.
Theorem window_lifetime_any_two_merge_trees_mse : lifetime_trees_agree mse_spec.
Proof. intros c t t'. exact (ring_lifetime_any_two_trees_eq mse_spec mse_laws mse_lawsM V_code c (fun x y H => H) t t'). Qed.

Theorem window_lifetime_after_merge_then_updates_ctr : lifetime_tree_then_updates_eq ctr_spec.
Proof. intros c t post. exact (ring_lifetime_after_tree_then_updates_eq ctr_spec ctr_laws ctr_lawsM V_code c (fun x y H => H) t post). Qed.
Theorem window_lifetime_after_merge_then_updates_wcal : lifetime_tree_then_updates_eq wcal_spec.
Proof. intros c t post. exact (ring_lifetime_after_tree_then_updates_eq wcal_spec wcal_laws wcal_lawsM V_code c (fun x y H => H) t post). Qed.
Theorem window_lifetime_after_merge_then_updates_mse : lifetime_tree_then_updates_eq mse_spec.
Proof. intros c t post. exact (ring_lifetime_after_tree_then_updates_eq mse_spec mse_laws mse_lawsM V_code c (fun x y H => H) t post). Qed.

(* normalized entropy: per-task triples up to the order of the formal log terms (C13.ne_equiv_same_value) *)
Theorem window_lifetime_any_merge_tree_ne :
  forall (c : wcfg) (t : wtree ne_spec), cLife c = true ->
    let M := wne V_code in
    exists ll,
      lifetime_of (cmp M c (run M c t)) = (if Nat.eqb (List.length (stream M t)) 0 then None else Some ll) /\
      Forall2 ne_equiv ll (win_ref ne_spec c (stream M t)).
Proof. intros c t. exact (ring_lifetime_any_tree ne_spec ne_laws ne_lawsM V_code c t). Qed.
Theorem window_lifetime_any_two_merge_trees_ne :
  forall (c : wcfg) (t t' : wtree ne_spec), cLife c = true ->
    let M := wne V_code in
    stream M t <> [] -> Permutation (stream M t) (stream M t') ->
    exists ll ll',
      lifetime_of (cmp M c (run M c t)) = Some ll /\
      lifetime_of (cmp M c (run M c t')) = Some ll' /\ Forall2 ne_equiv ll ll'.
Proof. intros c t t'. exact (ring_lifetime_any_two_trees ne_spec ne_laws ne_lawsM V_code c t t'). Qed.
Theorem window_lifetime_after_merge_then_updates_ne :
  forall (c : wcfg) (t : wtree ne_spec) (post : list wbatch), cLife c = true ->
    let M := wne V_code in
    let s := fold_left (upd M c) post (run M c t) in
    exists ll,
      w_tot s = List.length (stream M t ++ post) /\
      lifetime_of (cmp M c s) = (if Nat.eqb (List.length (stream M t ++ post)) 0 then None else Some ll) /\
      Forall2 ne_equiv ll (win_ref ne_spec c (stream M t ++ post)).
Proof. intros c t post. exact (ring_lifetime_after_tree_then_updates ne_spec ne_laws ne_lawsM V_code c t post). Qed.

(* ===================================== B. windows ====================================== *)
(* the slots an object hands over when it is the target or a source of merge_state:
   buffer[:, :min(total_updates, max_num_updates)]  = Models.Window.wfilled *)

(* (1) an object that is the result of ANY tree, merged with the results of ANY trees, is afterwards
   worth only the first N slots of the pool if it takes part in a further merge ... *)
Theorem window_merged_again_contributes_firstN :
  forall (W : WinSpec) (c : wcfg) (t : wtree W) (os : list (wtree W)),
    let M := win_metric W V_code in
    wfilled W (mrg M c (run M c t) (map (run M c) os))
    = firstn (cN c) (wfilled W (run M c t) ++ flat_map (wfilled W) (map (run M c) os)).
Proof. intros W c t os. exact (wfilled_mrg W c _ _ (tree_wf W V_code c t) (trees_wf W V_code c os)). Qed.

(* (2) ... while compute() right after that merge sums (per task) the WHOLE pool *)
Theorem window_merge_reads_whole_pool :
  forall (W : WinSpec) (L : WinLaws W) (c : wcfg) (t : wtree W) (os : list (wtree W)) (k : nat),
    let M := win_metric W V_code in
    Req L (colsum W k (wread W (mrg M c (run M c t) (map (run M c) os))))
          (colsum W k (wfilled W (run M c t) ++ flat_map (wfilled W) (map (run M c) os))).
Proof. intros W L c t os k. exact (wread_mrg W L c _ _ k (tree_wf W V_code c t) (trees_wf W V_code c os)). Qed.

(* (3) closed form for every merge tree without post-merge updates:
     contrib (Shard us)       = the shard's filled slots (a rotation of its last N updates: (4))
     contrib (Merge t os [])  = firstn N (contrib t ++ flat_map contrib os)
   and the windowed value at the root  Merge t os []  is the non-windowed compute over
     contrib t ++ flat_map contrib os      (root untruncated, every merged sub-tree truncated) *)
Theorem window_value_any_merge_tree :
  forall (W : WinSpec) (L : WinLaws W) (c : wcfg) (t : wtree W) (os : list (wtree W)),
    nopost W V_code t = true -> forallb (nopost W V_code) os = true ->
    let M := win_metric W V_code in
    let s := run M c (Merge M t os []) in
    exists lw,
      windowed_of (cmp M c s) = (if Nat.eqb (w_tot s) 0 then None else Some (wgam W c lw)) /\
      Forall2 (Req L) lw (tsum W c (contrib W V_code c t ++ flat_map (contrib W V_code c) os)).
Proof. intros W L c t os. exact (ring_window_any_tree W L V_code c t os). Qed.

(* (4) the leaves: a rotation of the last N updates' statistics; exactly the updates if at most N *)
Theorem window_leaf_contributes_lastN :
  forall (W : WinSpec) (c : wcfg) (us : list wbatch), (0 < cN c)%nat ->
    let M := win_metric W V_code in
    Permutation (contrib W V_code c (Shard M us)) (lastn (cN c) (map (wstat W c) us)) /\
    List.length (contrib W V_code c (Shard M us)) = Nat.min (List.length us) (cN c).
Proof. intros W c us. exact (contrib_shard_perm W V_code c us). Qed.
Theorem window_leaf_contributes_all_if_not_wrapped :
  forall (W : WinSpec) (c : wcfg) (us : list wbatch), (0 < cN c)%nat -> (List.length us <= cN c)%nat ->
    contrib W V_code c (Shard (win_metric W V_code) us) = map (wstat W c) us.
Proof. intros W c us. exact (contrib_shard_nowrap W V_code c us). Qed.

(* (5) THE known finding C01-window-merged-object-merged-again as a theorem of the model:
   A.merge([B1]); ...; A.merge([Bk]); A.merge([C])  with A having seen at least N updates (any inputs,
   any number and sizes of B's) reports the non-windowed value of  lastN(A) ++ lastN(C):
   the windows of B1..Bk are lost entirely (a flat A.merge([B1..Bk, C]) pools all: window_merge_pools) *)
Theorem window_sequential_merge_window :
  forall (W : WinSpec) (L : WinLaws W) (c : wcfg) (uA : list wbatch) (uBs : list (list wbatch)) (uC : list wbatch),
    (0 < cN c)%nat -> (cN c <= List.length uA)%nat ->
    let M := win_metric W V_code in
    let s := fold_left (fun s us => mrg M c s [wshard W c us]) (uBs ++ [uC]) (wshard W c uA) in
    exists lw,
      windowed_of (cmp M c s) = Some (wgam W c lw) /\
      Forall2 (Req L) lw (tsum W c (lastn (cN c) (map (wstat W c) uA) ++ lastn (cN c) (map (wstat W c) uC))).
Proof. intros W L c uA uBs uC. exact (ring_sequential_merge_window W L V_code c uA uBs uC). Qed.

(* (6) a target that saw a <= N updates keeps the OLDEST N - a updates of a first source that saw <= N *)
Theorem window_sequential_merge_small_target :
  forall (W : WinSpec) (L : WinLaws W) (c : wcfg) (uA uB uC : list wbatch),
    (0 < cN c)%nat -> (List.length uA <= cN c)%nat -> (List.length uB <= cN c)%nat ->
    let M := win_metric W V_code in
    let s := mrg M c (mrg M c (wshard W c uA) [wshard W c uB]) [wshard W c uC] in
    exists lw,
      windowed_of (cmp M c s) = (if Nat.eqb (w_tot s) 0 then None else Some (wgam W c lw)) /\
      Forall2 (Req L) lw
        (tsum W c (map (wstat W c) uA ++ firstn (cN c - List.length uA) (map (wstat W c) uB)
                   ++ lastn (cN c) (map (wstat W c) uC))).
Proof. intros W L c uA uB uC. exact (ring_sequential_merge_small W L V_code c uA uB uC). Qed.

(* instances of (5): the value is that of the non-windowed class on lastN(A) ++ lastN(C) *)
Definition sequential_window_eq (W : WinSpec) : Prop :=
  forall (c : wcfg) (uA : list wbatch) (uBs : list (list wbatch)) (uC : list wbatch),
    (0 < cN c)%nat -> (cN c <= List.length uA)%nat ->
    let M := win_metric W V_code in
    windowed_of (cmp M c (fold_left (fun s us => mrg M c s [wshard W c us]) (uBs ++ [uC]) (wshard W c uA)))
    = Some (win_ref W c (lastn (cN c) uA ++ lastn (cN c) uC)).
Theorem window_sequential_merge_window_ctr : sequential_window_eq ctr_spec.
Proof. intros c uA uBs uC. exact (ring_sequential_merge_window_eq ctr_spec ctr_laws V_code c (fun x y H => H) uA uBs uC). Qed.
Theorem window_sequential_merge_window_wcal : sequential_window_eq wcal_spec.
Proof. intros c uA uBs uC. exact (ring_sequential_merge_window_eq wcal_spec wcal_laws V_code c (fun x y H => H) uA uBs uC). Qed.
Theorem window_sequential_merge_window_mse : sequential_window_eq mse_spec.
Proof. intros c uA uBs uC. exact (ring_sequential_merge_window_eq mse_spec mse_laws V_code c (fun x y H => H) uA uBs uC). Qed.
Theorem window_sequential_merge_window_ne :
  forall (c : wcfg) (uA : list wbatch) (uBs : list (list wbatch)) (uC : list wbatch),
    (0 < cN c)%nat -> (cN c <= List.length uA)%nat ->
    let M := wne V_code in
    let s := fold_left (fun s us => mrg M c s [wshard ne_spec c us]) (uBs ++ [uC]) (wshard ne_spec c uA) in
    exists lw,
      windowed_of (cmp M c s) = Some lw /\
      Forall2 ne_equiv lw (tsum ne_spec c (lastn (cN c) (map (wstat ne_spec c) uA) ++ lastn (cN c) (map (wstat ne_spec c) uC))).
Proof. intros c uA uBs uC. exact (ring_sequential_merge_window ne_spec ne_laws V_code c uA uBs uC). Qed.

(* ===================================== Examples ======================================== *)
(* window N = 2, lifetime enabled, one task; every shard received 2N+1 = 5 updates (wrapped twice).
   One-event updates: click / input x, target y, weight 1. *)
Definition tcfg : wcfg := {| cT := 1; cN := 2; cLife := true; cOpt := false |}.
Definition sh {W : WinSpec} (mk : Z -> wbatch) (l : list Z) : wtree W := Shard (win_metric W V_code) (map mk l).
Definition flat3 {W : WinSpec} (a b d : wtree W) (post : list wbatch) : wtree W := Merge (win_metric W V_code) a [b; d] post.
Definition seq3 {W : WinSpec} (a b d : wtree W) (post : list wbatch) : wtree W :=
  Merge (win_metric W V_code) (Merge (win_metric W V_code) a [b] []) [d] post.
(* a fresh object absorbing a merged object and a shard *)
Definition nest3 {W : WinSpec} (a b d : wtree W) (post : list wbatch) : wtree W :=
  Merge (win_metric W V_code) (Shard _ []) [Merge (win_metric W V_code) a [b] []; d] post.

(* --- WindowedClickThroughRate: A clicks 1,1,1,1,1; B 0,0,0,0,0; C 1,1,1,0,0 (8 clicks in 15 events) --- *)
Definition cA : wtree ctr_spec := sh ctr1 [1;1;1;1;1]%Z.
Definition cB : wtree ctr_spec := sh ctr1 [0;0;0;0;0]%Z.
Definition cC : wtree ctr_spec := sh ctr1 [1;1;1;0;0]%Z.
Definition cshow (t : wtree ctr_spec) : val := enc_wout vlistQ tcfg (cmp (wctr V_code) tcfg (run (wctr V_code) tcfg t)).
(* lifetime 8/15 in every grouping; window: flat pools A,B,C = 2/6; sequential keeps A and C = 2/4;
   the nested form keeps only the first 2 slots of A+B, i.e. A, and C = 2/4 *)
Example wctr_wrapped_shards_trees :
  cshow (flat3 cA cB cC []) = VL [VL [VQ 8 15]; VL [VQ 1 3]] /\
  cshow (seq3 cA cB cC [])  = VL [VL [VQ 8 15]; VL [VQ 1 2]] /\
  cshow (nest3 cA cB cC []) = VL [VL [VQ 8 15]; VL [VQ 1 2]] /\
  vlistQ (win_ref ctr_spec tcfg (stream (wctr V_code) (seq3 cA cB cC []))) = VL [VQ 8 15] /\
  w_tot (run (wctr V_code) tcfg (seq3 cA cB cC [])) = 15%nat.
Proof. repeat split; vm_compute; reflexivity. Qed.
(* two more updates (click 1) after the merges: lifetime 10/17 in every grouping, total_updates 17 *)
Example wctr_wrapped_shards_then_updates :
  cshow (flat3 cA cB cC [ctr1 1; ctr1 1]) = VL [VL [VQ 10 17]; VL [VQ 1 3]] /\
  cshow (seq3 cA cB cC [ctr1 1; ctr1 1])  = VL [VL [VQ 10 17]; VL [VQ 1 2]] /\
  cshow (nest3 cA cB cC [ctr1 1; ctr1 1]) = VL [VL [VQ 10 17]; VL [VQ 1 2]] /\
  w_tot (run (wctr V_code) tcfg (nest3 cA cB cC [ctr1 1; ctr1 1])) = 17%nat.
Proof. repeat split; vm_compute; reflexivity. Qed.
(* (5) on these shards: sequential = ClickThroughRate of lastN(A) ++ lastN(C) *)
Example wctr_sequential_window_value :
  vlistQ (win_ref ctr_spec tcfg (lastn 2 (map ctr1 [1;1;1;1;1]%Z) ++ lastn 2 (map ctr1 [1;1;1;0;0]%Z))) = VL [VQ 1 2].
Proof. vm_compute. reflexivity. Qed.

(* --- WindowedWeightedCalibration: input x, target 1, weight 1: value = sum x / count --- *)
Definition cal1 (x : Z) : wbatch := {| b_x := [[mkq x 1]]; b_y := [[mkq 1 1]]; b_w := [[mkq 1 1]] |}.
Definition calshow (t : wtree wcal_spec) : val := enc_wout vlistQ tcfg (cmp (wcal V_code) tcfg (run (wcal V_code) tcfg t)).
Example wcal_wrapped_shards_trees :
  let A := sh cal1 [1;1;1;1;1]%Z in let B := sh cal1 [0;0;0;0;0]%Z in let C := sh cal1 [1;1;1;0;0]%Z in
  calshow (flat3 A B C []) = VL [VL [VQ 8 15]; VL [VQ 1 3]] /\
  calshow (seq3 A B C [cal1 1; cal1 1]) = VL [VL [VQ 10 17]; VL [VQ 1 2]] /\
  vlistQ (win_ref wcal_spec tcfg (stream (wcal V_code) (seq3 A B C [cal1 1; cal1 1]))) = VL [VQ 10 17].
Proof. repeat split; vm_compute; reflexivity. Qed.

(* --- WindowedMeanSquaredError: input x, target 0, weight 1: value = sum x^2 / count --- *)
Definition mse1 (x : Z) : wbatch := {| b_x := [[mkq x 1]]; b_y := [[mkq 0 1]]; b_w := [[mkq 1 1]] |}.
Definition mseshow (t : wtree mse_spec) : val := enc_wout mse_out_val tcfg (cmp (wmse V_code) tcfg (run (wmse V_code) tcfg t)).
Example wmse_wrapped_shards_trees :
  let A := sh mse1 [1;1;1;1;1]%Z in let B := sh mse1 [0;0;0;0;0]%Z in let C := sh mse1 [1;1;1;0;0]%Z in
  mseshow (flat3 A B C []) = VL [VQ 8 15; VQ 1 3] /\
  mseshow (seq3 A B C [mse1 1; mse1 1]) = VL [VQ 10 17; VQ 1 2] /\
  mse_out_val (win_ref mse_spec tcfg (stream (wmse V_code) (seq3 A B C [mse1 1; mse1 1]))) = VQ 10 17.
Proof. repeat split; vm_compute; reflexivity. Qed.

(* --- WindowedBinaryNormalizedEntropy: prediction num/4, target y, weight 1; shown: per task
       (num_examples, num_positive, number of formal log terms) of the lifetime / windowed triples --- *)
Definition ne1 (p : Z * Z) : wbatch := {| b_x := [[mkq (fst p) 4]]; b_y := [[mkq (snd p) 1]]; b_w := [[mkq 1 1]] |}.
Definition neshard (l : list (Z * Z)) : wtree ne_spec := Shard (wne V_code) (map ne1 l).
Definition ne_sizes (l : list ne3) : list (Qc * Qc * nat) := map (fun s => (ne_n s, ne_pos s, List.length (ne_ent s))) l.
Definition neshow (t : wtree ne_spec) : option (list (Qc * Qc * nat)) * option (list (Qc * Qc * nat)) :=
  let o := cmp (wne V_code) tcfg (run (wne V_code) tcfg t) in
  (option_map ne_sizes (lifetime_of o), option_map ne_sizes (windowed_of o)).
Example wne_wrapped_shards_trees :
  let A := neshard [(1,1);(1,1);(1,1);(3,1);(3,1)]%Z in
  let B := neshard [(1,0);(1,0);(1,0);(1,0);(1,0)]%Z in
  let C := neshard [(3,1);(3,1);(3,1);(3,0);(3,0)]%Z in
  neshow (flat3 A B C []) = (Some [(mkq 15 1, mkq 8 1, 30%nat)], Some [(mkq 6 1, mkq 2 1, 12%nat)]) /\
  neshow (seq3 A B C [ne1 (1,1); ne1 (1,1)]%Z) = (Some [(mkq 17 1, mkq 10 1, 34%nat)], Some [(mkq 4 1, mkq 2 1, 8%nat)]) /\
  ne_sizes (win_ref ne_spec tcfg (stream (wne V_code) (seq3 A B C [ne1 (1,1); ne1 (1,1)]%Z))) = [(mkq 17 1, mkq 10 1, 34%nat)].
Proof. repeat split; vm_compute; reflexivity. Qed.

Print Assumptions window_total_updates_any_merge_tree.
Print Assumptions window_lifetime_any_merge_tree.
Print Assumptions window_lifetime_any_two_merge_trees.
Print Assumptions window_lifetime_after_merge_then_updates.
Print Assumptions window_lifetime_any_merge_tree_ctr.
Print Assumptions window_lifetime_any_merge_tree_wcal.
Print Assumptions window_lifetime_any_merge_tree_mse.
Print Assumptions window_lifetime_any_merge_tree_ne.
Print Assumptions window_lifetime_any_two_merge_trees_ctr.
Print Assumptions window_lifetime_any_two_merge_trees_wcal.
Print Assumptions window_lifetime_any_two_merge_trees_mse.
Print Assumptions window_lifetime_any_two_merge_trees_ne.
Print Assumptions window_lifetime_after_merge_then_updates_ctr.
Print Assumptions window_lifetime_after_merge_then_updates_wcal.
Print Assumptions window_lifetime_after_merge_then_updates_mse.
Print Assumptions window_lifetime_after_merge_then_updates_ne.
Print Assumptions window_merged_again_contributes_firstN.
Print Assumptions window_merge_reads_whole_pool.
Print Assumptions window_value_any_merge_tree.
Print Assumptions window_leaf_contributes_lastN.
Print Assumptions window_leaf_contributes_all_if_not_wrapped.
Print Assumptions window_sequential_merge_window.
Print Assumptions window_sequential_merge_small_target.
Print Assumptions window_sequential_merge_window_ctr.
Print Assumptions window_sequential_merge_window_wcal.
Print Assumptions window_sequential_merge_window_mse.
Print Assumptions window_sequential_merge_window_ne.
Print Assumptions wctr_wrapped_shards_trees.
Print Assumptions wctr_wrapped_shards_then_updates.
Print Assumptions wctr_sequential_window_value.
Print Assumptions wcal_wrapped_shards_trees.
Print Assumptions wmse_wrapped_shards_trees.
Print Assumptions wne_wrapped_shards_trees.
