(* C12 (curve classes) -- results do not depend on the batching (all ten classes), nor on the order of the
   samples (any permutation of the concatenated samples, hence per task row / class / label) where
   algo = spec gives it: AUROC, AUPRC, PR curve, recall@precision. *)
From Coq Require Import ZArith List Bool QArith Qcanon Permutation.
From TE Require Import Base.Val Base.Xq Algebra.Metric Algebra.MergeTree Algebra.Pool Algebra.Cache Models.Curves
  Proofs.CurvesP Proofs.CurvesPR Proofs.CurvesC03P.
Import ListNotations.
Open Scope Qc_scope.

Theorem bauroc_batching_irrelevant : forall c bs bs',
  Forall (fun b => bvalid c b = true) bs -> Forall (fun b => bvalid c b = true) bs' -> List.concat bs = List.concat bs' ->
  cmp bauroc_metric c (fold_left (upd bauroc_metric c) bs (init bauroc_metric c)) = cmp bauroc_metric c (fold_left (upd bauroc_metric c) bs' (init bauroc_metric c)).
Proof. exact bauroc_batching. Qed.
Theorem bauprc_batching_irrelevant : forall c bs bs',
  Forall (fun b => bvalid c b = true) bs -> Forall (fun b => bvalid c b = true) bs' -> List.concat bs = List.concat bs' ->
  cmp bauprc_metric c (fold_left (upd bauprc_metric c) bs (init bauprc_metric c)) = cmp bauprc_metric c (fold_left (upd bauprc_metric c) bs' (init bauprc_metric c)).
Proof. exact bauprc_batching. Qed.
Theorem bprc_batching_irrelevant : forall c bs bs',
  Forall (fun b => vtrue1 c b = true) bs -> Forall (fun b => vtrue1 c b = true) bs' -> List.concat bs = List.concat bs' ->
  cmp bprc_metric c (fold_left (upd bprc_metric c) bs (init bprc_metric c)) = cmp bprc_metric c (fold_left (upd bprc_metric c) bs' (init bprc_metric c)).
Proof. exact bprc_batching. Qed.
Theorem brap_batching_irrelevant : forall c bs bs',
  Forall (fun b => vtrue1 c b = true) bs -> Forall (fun b => vtrue1 c b = true) bs' -> List.concat bs = List.concat bs' ->
  cmp brap_metric c (fold_left (upd brap_metric c) bs (init brap_metric c)) = cmp brap_metric c (fold_left (upd brap_metric c) bs' (init brap_metric c)).
Proof. exact brap_batching. Qed.
Theorem mcauroc_batching_irrelevant : forall c bs bs',
  Forall (fun b => mcvalid c b = true) bs -> Forall (fun b => mcvalid c b = true) bs' -> List.concat bs = List.concat bs' ->
  cmp mcauroc_metric c (fold_left (upd mcauroc_metric c) bs (init mcauroc_metric c)) = cmp mcauroc_metric c (fold_left (upd mcauroc_metric c) bs' (init mcauroc_metric c)).
Proof. exact mcauroc_batching. Qed.
Theorem mcauprc_batching_irrelevant : forall c bs bs',
  Forall (fun b => mcvalid c b = true) bs -> Forall (fun b => mcvalid c b = true) bs' -> List.concat bs = List.concat bs' ->
  cmp mcauprc_metric c (fold_left (upd mcauprc_metric c) bs (init mcauprc_metric c)) = cmp mcauprc_metric c (fold_left (upd mcauprc_metric c) bs' (init mcauprc_metric c)).
Proof. exact mcauprc_batching. Qed.
Theorem mlauprc_batching_irrelevant : forall c bs bs',
  Forall (fun b => mlvalid c b = true) bs -> Forall (fun b => mlvalid c b = true) bs' -> List.concat bs = List.concat bs' ->
  cmp mlauprc_metric c (fold_left (upd mlauprc_metric c) bs (init mlauprc_metric c)) = cmp mlauprc_metric c (fold_left (upd mlauprc_metric c) bs' (init mlauprc_metric c)).
Proof. exact mlauprc_batching. Qed.
Theorem mcprc_batching_irrelevant : forall c bs bs',
  Forall (fun b => mcvalid c b = true) bs -> Forall (fun b => mcvalid c b = true) bs' -> List.concat bs = List.concat bs' ->
  cmp mcprc_metric c (fold_left (upd mcprc_metric c) bs (init mcprc_metric c)) = cmp mcprc_metric c (fold_left (upd mcprc_metric c) bs' (init mcprc_metric c)).
Proof. exact mcprc_batching. Qed.
Theorem mlprc_batching_irrelevant : forall c bs bs',
  Forall (fun b => mlvalid c b = true) bs -> Forall (fun b => mlvalid c b = true) bs' -> List.concat bs = List.concat bs' ->
  cmp mlprc_metric c (fold_left (upd mlprc_metric c) bs (init mlprc_metric c)) = cmp mlprc_metric c (fold_left (upd mlprc_metric c) bs' (init mlprc_metric c)).
Proof. exact mlprc_batching. Qed.
Theorem mlrap_batching_irrelevant : forall c bs bs',
  Forall (fun b => mlvalid c b = true) bs -> Forall (fun b => mlvalid c b = true) bs' -> List.concat bs = List.concat bs' ->
  cmp mlrap_metric c (fold_left (upd mlrap_metric c) bs (init mlrap_metric c)) = cmp mlrap_metric c (fold_left (upd mlrap_metric c) bs' (init mlrap_metric c)).
Proof. exact mlrap_batching. Qed.
Theorem bauroc_sample_order_irrelevant : forall c bs bs',
  Forall (fun b => bvalid c b = true) bs -> Forall (fun b => bvalid c b = true) bs' -> Permutation (List.concat bs) (List.concat bs') ->
  cmp bauroc_metric c (fold_left (upd bauroc_metric c) bs (init bauroc_metric c)) = cmp bauroc_metric c (fold_left (upd bauroc_metric c) bs' (init bauroc_metric c)).
Proof. exact bauroc_order. Qed.
Theorem mcauroc_sample_order_irrelevant : forall c bs bs',
  Forall (fun b => mcvalid c b = true) bs -> Forall (fun b => mcvalid c b = true) bs' -> Permutation (List.concat bs) (List.concat bs') ->
  cmp mcauroc_metric c (fold_left (upd mcauroc_metric c) bs (init mcauroc_metric c)) = cmp mcauroc_metric c (fold_left (upd mcauroc_metric c) bs' (init mcauroc_metric c)).
Proof. exact mcauroc_order. Qed.
Theorem mcauprc_sample_order_irrelevant : forall c bs bs',
  Forall (fun b => mcvalid c b = true) bs -> Forall (fun b => mcvalid c b = true) bs' -> Permutation (List.concat bs) (List.concat bs') ->
  cmp mcauprc_metric c (fold_left (upd mcauprc_metric c) bs (init mcauprc_metric c)) = cmp mcauprc_metric c (fold_left (upd mcauprc_metric c) bs' (init mcauprc_metric c)).
Proof. exact mcauprc_order. Qed.
Theorem mlauprc_sample_order_irrelevant : forall c bs bs',
  Forall (fun b => mlvalid c b = true) bs -> Forall (fun b => mlvalid c b = true) bs' -> Permutation (List.concat bs) (List.concat bs') ->
  cmp mlauprc_metric c (fold_left (upd mlauprc_metric c) bs (init mlauprc_metric c)) = cmp mlauprc_metric c (fold_left (upd mlauprc_metric c) bs' (init mlauprc_metric c)).
Proof. exact mlauprc_order. Qed.
Theorem mcprc_sample_order_irrelevant : forall c bs bs',
  Forall (fun b => mcvalid c b = true) bs -> Forall (fun b => mcvalid c b = true) bs' -> Permutation (List.concat bs) (List.concat bs') ->
  cmp mcprc_metric c (fold_left (upd mcprc_metric c) bs (init mcprc_metric c)) = cmp mcprc_metric c (fold_left (upd mcprc_metric c) bs' (init mcprc_metric c)).
Proof. exact mcprc_order. Qed.
Theorem mlprc_sample_order_irrelevant : forall c bs bs',
  Forall (fun b => mlvalid c b = true) bs -> Forall (fun b => mlvalid c b = true) bs' -> Permutation (List.concat bs) (List.concat bs') ->
  cmp mlprc_metric c (fold_left (upd mlprc_metric c) bs (init mlprc_metric c)) = cmp mlprc_metric c (fold_left (upd mlprc_metric c) bs' (init mlprc_metric c)).
Proof. exact mlprc_order. Qed.
(* weights of these metrics are 1 (the decoders supply 1); stated for all positive weights *)
Theorem bauprc_sample_order_irrelevant : forall c bs bs',
  Forall (fun b => bvalid c b = true) bs -> Forall (fun b => bvalid c b = true) bs' ->
  Forall (Forall (fun x => 0 < wt x)) (task_rows (snd c) (List.concat bs)) -> Permutation (List.concat bs) (List.concat bs') ->
  cmp bauprc_metric c (fold_left (upd bauprc_metric c) bs (init bauprc_metric c)) = cmp bauprc_metric c (fold_left (upd bauprc_metric c) bs' (init bauprc_metric c)).
Proof. exact bauprc_order. Qed.
Theorem bprc_sample_order_irrelevant : forall c bs bs',
  Forall (fun x => 0 < wt x) (List.concat bs) -> Permutation (List.concat bs) (List.concat bs') ->
  cmp bprc_metric c (fold_left (upd bprc_metric c) bs (init bprc_metric c)) = cmp bprc_metric c (fold_left (upd bprc_metric c) bs' (init bprc_metric c)).
Proof. exact bprc_order. Qed.
Theorem brap_sample_order_irrelevant : forall c bs bs',
  Forall (fun x => 0 < wt x) (List.concat bs) -> snd c <= 1 -> Permutation (List.concat bs) (List.concat bs') ->
  cmp brap_metric c (fold_left (upd brap_metric c) bs (init brap_metric c)) = cmp brap_metric c (fold_left (upd brap_metric c) bs' (init brap_metric c)).
Proof. exact brap_order. Qed.
Theorem mlrap_sample_order_irrelevant : forall c bs bs',
  Forall (fun b => mlvalid c b = true) bs -> Forall (fun b => mlvalid c b = true) bs' -> mminp c <= 1 -> Permutation (List.concat bs) (List.concat bs') ->
  cmp mlrap_metric c (fold_left (upd mlrap_metric c) bs (init mlrap_metric c)) = cmp mlrap_metric c (fold_left (upd mlrap_metric c) bs' (init mlrap_metric c)).
Proof. exact mlrap_order. Qed.

Print Assumptions bauroc_batching_irrelevant.
Print Assumptions bauprc_batching_irrelevant.
Print Assumptions bprc_batching_irrelevant.
Print Assumptions brap_batching_irrelevant.
Print Assumptions mcauroc_batching_irrelevant.
Print Assumptions mcauprc_batching_irrelevant.
Print Assumptions mlauprc_batching_irrelevant.
Print Assumptions mcprc_batching_irrelevant.
Print Assumptions mlprc_batching_irrelevant.
Print Assumptions mlrap_batching_irrelevant.
Print Assumptions bauroc_sample_order_irrelevant.
Print Assumptions mcauroc_sample_order_irrelevant.
Print Assumptions mcauprc_sample_order_irrelevant.
Print Assumptions mlauprc_sample_order_irrelevant.
Print Assumptions mcprc_sample_order_irrelevant.
Print Assumptions mlprc_sample_order_irrelevant.
Print Assumptions bauprc_sample_order_irrelevant.
Print Assumptions bprc_sample_order_irrelevant.
Print Assumptions brap_sample_order_irrelevant.
Print Assumptions mlrap_sample_order_irrelevant.
