(* C09 item 2 -- generated-table obligation: attributes written outside __init__ are registered states. *)
From Coq Require Import List String Bool.
From TE Require Import Models.Effects Models.EffectsTables Generated.Skeletons Generated.Registry Generated.KnownEffects.
Import ListNotations.
Open Scope string_scope.

Theorem registry_covers_all_classes :
  registry_table_ok class_skeletons registry derived_attrs registry_excused_load = true.
Proof. vm_compute. reflexivity. Qed.

Theorem registry_excuses_are_live : registry_excuses_live registry derived_attrs registry_excused_load = true.
Proof. vm_compute. reflexivity. Qed.

Print Assumptions registry_covers_all_classes.
Print Assumptions registry_excuses_are_live.
