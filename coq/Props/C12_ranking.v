(* C12 for the ranking family.  ClickThroughRate / WeightedCalibration: the result depends only on the
   multiset of samples -- any permutation of the update stream, and any two batchings whose
   concatenations carry the same sufficient statistics.  HitRate / ReciprocalRank are order-CARRYING
   (documented): re-batching keeps the per-sample values, in order.  Statements only. *)
From Coq Require Import ZArith List Bool QArith Qcanon Permutation.
From TE Require Import Base.Val Base.Nd Algebra.Metric Algebra.MergeTree Models.Ranking
  Proofs.RankingP Proofs.RegAlgP Proofs.RankingAlgP.
Import ListNotations.
Open Scope list_scope.

Theorem click_through_rate_order_irrelevant : forall nt bs bs',
  Forall (fun b => ctr_valid nt b = true) bs -> Permutation bs bs' ->
  cmp ctr_metric nt (fold_left (upd ctr_metric nt) bs (init ctr_metric nt)) =
  cmp ctr_metric nt (fold_left (upd ctr_metric nt) bs' (init ctr_metric nt)).
Proof. exact ctr_order. Qed.
Theorem click_through_rate_batching_irrelevant : forall nt b bs b' bs',
  Forall (fun b => ctr_valid nt b = true) (b :: bs) -> Forall (fun b => ctr_valid nt b = true) (b' :: bs') ->
  ctr_beta nt (bconcat1 ctr_metric ctr_cat b bs) = ctr_beta nt (bconcat1 ctr_metric ctr_cat b' bs') ->
  cmp ctr_metric nt (fold_left (upd ctr_metric nt) (b :: bs) (init ctr_metric nt)) =
  cmp ctr_metric nt (fold_left (upd ctr_metric nt) (b' :: bs') (init ctr_metric nt)).
Proof. exact ctr_rebatch. Qed.
Theorem weighted_calibration_order_irrelevant : forall nt bs bs',
  Forall (fun b => wc_valid nt b = true) bs -> Permutation bs bs' ->
  cmp wc_metric nt (fold_left (upd wc_metric nt) bs (init wc_metric nt)) =
  cmp wc_metric nt (fold_left (upd wc_metric nt) bs' (init wc_metric nt)).
Proof. exact wc_order. Qed.
Theorem weighted_calibration_batching_irrelevant : forall nt b bs b' bs',
  Forall (fun b => wc_valid nt b = true) (b :: bs) -> Forall (fun b => wc_valid nt b = true) (b' :: bs') ->
  wc_beta nt (bconcat1 wc_metric wc_cat b bs) = wc_beta nt (bconcat1 wc_metric wc_cat b' bs') ->
  cmp wc_metric nt (fold_left (upd wc_metric nt) (b :: bs) (init wc_metric nt)) =
  cmp wc_metric nt (fold_left (upd wc_metric nt) (b' :: bs') (init wc_metric nt)).
Proof. exact wc_rebatch. Qed.
(* the sufficient statistic of a concatenation is the sum of the parts' statistics: in particular two
   batchings of the same samples satisfy the hypothesis above *)
Theorem click_through_rate_statistic_additive : forall nt a b, ctr_valid nt a = true -> ctr_valid nt b = true ->
  ctr_beta nt (ctr_cat a b) = nadd (ctr_beta nt a) (ctr_beta nt b).
Proof. exact ctr_beta_cat. Qed.
Theorem weighted_calibration_statistic_additive : forall nt a b, wc_valid nt a = true -> wc_valid nt b = true ->
  wc_beta nt (wc_cat a b) = nadd (wc_beta nt a) (wc_beta nt b).
Proof. exact wc_beta_cat. Qed.

Theorem hit_rate_rebatching_keeps_values_in_order : forall k bs bs',
  Forall (fun b => hit_valid k b = true) bs -> Forall (fun b => hit_valid k b = true) bs' ->
  List.concat bs = List.concat bs' ->
  cmp hitrate_metric k (fold_left (upd hitrate_metric k) bs (init hitrate_metric k)) =
  cmp hitrate_metric k (fold_left (upd hitrate_metric k) bs' (init hitrate_metric k)).
Proof. exact hit_rebatch. Qed.
Theorem reciprocal_rank_rebatching_keeps_values_in_order : forall k bs bs',
  Forall (fun b => rr_valid k b = true) bs -> Forall (fun b => rr_valid k b = true) bs' ->
  List.concat bs = List.concat bs' ->
  cmp rrank_metric k (fold_left (upd rrank_metric k) bs (init rrank_metric k)) =
  cmp rrank_metric k (fold_left (upd rrank_metric k) bs' (init rrank_metric k)).
Proof. exact rr_rebatch. Qed.
(* ... and a permutation of the samples permutes the per-sample results accordingly *)
Theorem hit_rate_values_follow_the_samples : forall k b b', Permutation b b' -> Permutation (hit_fn k b) (hit_fn k b').
Proof. intros k b b' H. apply Permutation_map. exact H. Qed.
Theorem reciprocal_rank_values_follow_the_samples : forall k b b', Permutation b b' -> Permutation (rr_fn k b) (rr_fn k b').
Proof. intros k b b' H. apply Permutation_map. exact H. Qed.

Print Assumptions click_through_rate_order_irrelevant.
Print Assumptions click_through_rate_batching_irrelevant.
Print Assumptions weighted_calibration_order_irrelevant.
Print Assumptions weighted_calibration_batching_irrelevant.
Print Assumptions click_through_rate_statistic_additive.
Print Assumptions weighted_calibration_statistic_additive.
Print Assumptions hit_rate_rebatching_keeps_values_in_order.
Print Assumptions reciprocal_rank_rebatching_keeps_values_in_order.
Print Assumptions hit_rate_values_follow_the_samples.
Print Assumptions reciprocal_rank_values_follow_the_samples.
