(* C03 for the eight binned classes: update() on ANY non-empty sequence of valid batches followed by compute()
   equals what the `@model binned_*_fn` entry point -- the object of the functional correspondence with the
   real functional -- returns on the concatenation of the batches (samples appended; task rows concatenated
   row by row for the num_tasks classes).  [class_run S c bs] / [cache_run S c bs] is compute() after the
   updates bs on a fresh instance.  Thresholds accepted by the parameter check ([prc_ok] ...). *)
From Coq Require Import ZArith List Bool Lia Sorted QArith Qcanon Permutation.
From TE Require Import Base.Val Base.Nd Base.Xq Algebra.Metric Algebra.MergeTree Algebra.Pool Algebra.Additive Algebra.Cache
  Models.Binned Proofs.BinnedP Proofs.BinnedFloorP Proofs.BinnedC03P.
From TE Require Models.Counting Proofs.CountingCatP.
Import ListNotations.
Open Scope Z_scope.

Theorem binary_binned_prc_class_eq_functional : forall cv bv c b rest, dec_bcfg cv = Some c -> prc_ok c = true ->
  dec_row bv = Some (cat_all bprc_spec (@app sample) b rest) ->
  run_binned_bprc_fn (VL [cv; bv]) = enc_prc1 (class_run bprc_spec c (b :: rest)).
Proof. exact bprc_class_fn. Qed.
Theorem multiclass_binned_prc_class_eq_functional : forall cv bv c b rest, dec_bcfg cv = Some c -> prc_ok c = true ->
  mc_ok (bC c) b = true -> Forall (fun x => mc_ok (bC c) x = true) rest ->
  dec_mc bv = Some (cat_all mcprc_spec (@app mcsample) b rest) ->
  run_binned_mcprc_fn (VL [cv; bv]) = enc_mprc (class_run mcprc_spec c (b :: rest)).
Proof. exact mcprc_class_fn. Qed.
Theorem multilabel_binned_prc_class_eq_functional : forall cv bv c b rest, dec_bcfg cv = Some c -> prc_ok c = true ->
  ml_ok (bC c) b = true -> Forall (fun x => ml_ok (bC c) x = true) rest ->
  dec_ml bv = Some (cat_all mlprc_spec (@app mlsample) b rest) ->
  run_binned_mlprc_fn (VL [cv; bv]) = enc_mprc (class_run mlprc_spec c (b :: rest)).
Proof. exact mlprc_class_fn. Qed.
Theorem binary_binned_auprc_class_eq_functional : forall cv bv c b rest, dec_bcfg cv = Some c -> auprc_ok1 c = true ->
  rows_okb c b -> Forall (rows_okb c) rest ->
  dec_rows bv = Some (cat_all bauprc_spec rows_cat b rest) ->
  run_binned_bauprc_fn (VL [cv; bv]) = enc_auprc (class_run bauprc_spec c (b :: rest)).
Proof. exact bauprc_class_fn. Qed.
Theorem multiclass_binned_auprc_class_eq_functional : forall cv bv c b rest, dec_bcfg cv = Some c -> auprc_ok2 c = true ->
  mc_ok (bC c) b = true -> Forall (fun x => mc_ok (bC c) x = true) rest ->
  dec_mc bv = Some (cat_all mcauprc_spec (@app mcsample) b rest) ->
  run_binned_mcauprc_fn (VL [cv; bv]) = enc_auprc (class_run mcauprc_spec c (b :: rest)).
Proof. exact mcauprc_class_fn. Qed.
Theorem multilabel_binned_auprc_class_eq_functional : forall cv bv c b rest, dec_bcfg cv = Some c -> auprc_ok2 c = true ->
  ml_ok (bC c) b = true -> Forall (fun x => ml_ok (bC c) x = true) rest ->
  dec_ml bv = Some (cat_all mlauprc_spec (@app mlsample) b rest) ->
  run_binned_mlauprc_fn (VL [cv; bv]) = enc_auprc (class_run mlauprc_spec c (b :: rest)).
Proof. exact mlauprc_class_fn. Qed.
(* cache classes: any sequence of chunks (the empty one included: both sides are the "empty" error) *)
Theorem binary_binned_auroc_class_eq_functional : forall cv bv c bs, dec_bcfg cv = Some c -> broc_ok c = true ->
  dec_cols c bv = Some (List.concat bs) ->
  run_binned_broc_fn (VL [cv; bv]) = enc_broc (cache_run broc_cache c bs).
Proof. exact broc_class_fn. Qed.
Theorem multiclass_binned_auroc_class_eq_functional : forall cv bv c bs, dec_bcfg cv = Some c -> mroc_ok c = true ->
  dec_mc bv = Some (List.concat bs) -> Forall (fun b => mc_ok (bC c) b = true) bs ->
  run_binned_mroc_fn (VL [cv; bv]) = enc_mroc (cache_run mroc_cache c bs).
Proof. exact mroc_class_fn. Qed.
(* the concatenation is itself a valid batch for the class *)
Theorem binned_concatenation_valid_multiclass : forall c b rest, mc_okb c b -> Forall (mc_okb c) rest ->
  class_run mcauprc_spec c (b :: rest) = fn_of mcauprc_spec c (cat_all mcauprc_spec (@app mcsample) b rest) /\
  avalid mcauprc_spec c (cat_all mcauprc_spec (@app mcsample) b rest) = true.
Proof. exact (fun c => CountingCatP.class_eq_fn_of_laws mcauprc_spec c _ _ (mcauprc_laws c)). Qed.

(* non-vacuity: three batches (memory mode, duplicated thresholds) vs the entry point on their concatenation *)
Example binned_c03_example :
  let c := {| bD := 8; bthr := TList [0; 4; 4; 8]; bmem := true; bC := 2; bmacro := false |} in
  let b1 : list mcsample := [([4; 1], 0%nat); ([3; 8], 1%nat)] in
  let b2 : list mcsample := [([9; 0], 1%nat)] in
  let b3 : list mcsample := [([0; 4], 0%nat); ([7; 7], 0%nat)] in
  enc_auprc (class_run mcauprc_spec c [b1; b2; b3])
  = run_binned_mcauprc_fn (VL [VL [VZ 8; VL [VZ 0; VZ 4; VZ 4; VZ 8]; VB true; VZ 2; VB false];
                               VL [VL [VL [VZ 4; VZ 1]; VL [VZ 3; VZ 8]; VL [VZ 9; VZ 0]; VL [VZ 0; VZ 4]; VL [VZ 7; VZ 7]];
                                   VL [VZ 0; VZ 1; VZ 1; VZ 0; VZ 0]]]).
Proof. vm_compute. reflexivity. Qed.

Print Assumptions binary_binned_prc_class_eq_functional.
Print Assumptions multiclass_binned_prc_class_eq_functional.
Print Assumptions multilabel_binned_prc_class_eq_functional.
Print Assumptions binary_binned_auprc_class_eq_functional.
Print Assumptions multiclass_binned_auprc_class_eq_functional.
Print Assumptions multilabel_binned_auprc_class_eq_functional.
Print Assumptions binary_binned_auroc_class_eq_functional.
Print Assumptions multiclass_binned_auroc_class_eq_functional.
Print Assumptions binned_concatenation_valid_multiclass.
