(* C17 for the count-based classification metrics: relabelling of the classes by a permutation,
   duplication of the batch, strictly increasing maps of scores and threshold.  Statements are about
   [fn_of S], the definition run by the `@model ..._fn` entry points.
   [perm_on n pi]: pi is injective and maps {0..n-1} into itself (hence permutes it: [classes_permuted]).
   [relabelled pi b b']: the per-sample (prediction, target) pairs of b' are those of b mapped through pi;
   instance for label inputs: [mc_relabel].  [res_at r c] / [mat_at r i j]: entry of a vector / matrix result. *)
From Coq Require Import ZArith List Bool Permutation Lia.
From TE Require Import Base.Val Base.Xq Algebra.Additive Models.Counting Proofs.CountingP Proofs.CountingCatP Proofs.CountingMetaP.
Import ListNotations.
Open Scope Z_scope.

Theorem classes_permuted : forall n pi, perm_on n pi -> Permutation (map pi (classes n)) (classes n).
Proof. exact classes_perm. Qed.
Theorem label_input_is_relabelled : forall pi l t, relabelled pi (Labels l, t) (mc_relabel pi (Labels l, t)).
Proof. exact relabelled_labels. Qed.

(* ---- relabelling: micro / macro / weighted unchanged; per-class results permuted ---- *)
Theorem precision_relabelling : forall n pi a b b', perm_on n pi -> relabelled pi b b' ->
  (a = Weighted -> targets_in n b /\ targets_in n b') ->
  (a <> NoAvg -> fn_of mcprec_spec (a, Some n) b' = fn_of mcprec_spec (a, Some n) b) /\
  (a = NoAvg -> forall c, inrange n c = true ->
     res_at (fn_of mcprec_spec (a, Some n) b') (pi c) = res_at (fn_of mcprec_spec (a, Some n) b) c).
Proof. exact mcprec_relabel. Qed.
Theorem recall_relabelling : forall n pi a b b', perm_on n pi -> relabelled pi b b' -> aligned b -> aligned b' ->
  (a = Weighted -> targets_in n b /\ targets_in n b') ->
  (a <> NoAvg -> fn_of mcrec_spec (a, Some n) b' = fn_of mcrec_spec (a, Some n) b) /\
  (a = NoAvg -> forall c, inrange n c = true ->
     res_at (fn_of mcrec_spec (a, Some n) b') (pi c) = res_at (fn_of mcrec_spec (a, Some n) b) c).
Proof. exact mcrec_relabel. Qed.
Theorem f1_relabelling : forall n pi a b b', perm_on n pi -> relabelled pi b b' -> aligned b -> aligned b' ->
  (a = Weighted -> targets_in n b /\ targets_in n b') ->
  (a <> NoAvg -> fn_of mcf1_spec (a, Some n) b' = fn_of mcf1_spec (a, Some n) b) /\
  (a = NoAvg -> forall c, inrange n c = true ->
     res_at (fn_of mcf1_spec (a, Some n) b') (pi c) = res_at (fn_of mcf1_spec (a, Some n) b) c).
Proof. exact mcf1_relabel. Qed.
(* accuracy (incl. top-k): [acc_relabelled]: same correctness bits, targets mapped through pi *)
Theorem accuracy_relabelling : forall n pi a k b b', perm_on n pi -> acc_relabelled pi (a, Some n, k) b b' ->
  acc_valid (a, Some n, k) b = true -> acc_valid (a, Some n, k) b' = true ->
  (a = Micro \/ a = Macro -> fn_of mcacc_spec (a, Some n, k) b' = fn_of mcacc_spec (a, Some n, k) b) /\
  (a = NoAvg -> forall c, inrange n c = true ->
     res_at (fn_of mcacc_spec (a, Some n, k) b') (pi c) = res_at (fn_of mcacc_spec (a, Some n, k) b) c).
Proof. exact mcacc_relabel. Qed.
Theorem accuracy_label_input_is_relabelled : forall n pi a l t, perm_on n pi ->
  acc_relabelled pi (a, Some n, 1%nat) (Labels l, t) (mc_relabel pi (Labels l, t)).
Proof. exact acc_relabelled_labels. Qed.
(* confusion matrix, every normalisation: rows and columns are permuted *)
Theorem confusion_matrix_relabelling : forall n pi nm b b' i j, perm_on n pi -> relabelled pi b b' ->
  cm_ok (n, nm) b -> cm_ok (n, nm) b' -> inrange n i = true -> inrange n j = true ->
  mat_at (fn_of mccm_spec (n, nm) b') (pi i) (pi j) = mat_at (fn_of mccm_spec (n, nm) b) i j.
Proof. exact mccm_relabel. Qed.

(* ---- score inputs: permute the score columns (column pi j of the new row = column j of the old row; sg is
        the inverse of pi on the range) and relabel the targets ---- *)
(* top-k rank rule: symmetric without any proviso *)
Theorem topk_rank_rule_symmetric : forall n pi sg k r y, perm_on n pi -> perm_on n sg -> inverse_on n pi sg ->
  List.length r = n -> inrange n y = true -> correct_topk k (permute_cols sg r) (pi y) = correct_topk k r y.
Proof. exact topk_symmetric. Qed.
Theorem topk_accuracy_score_input_is_relabelled : forall n pi sg a k rows t, perm_on n pi -> perm_on n sg -> inverse_on n pi sg ->
  Nat.eqb k 1 = false -> Forall (fun r => List.length r = n) rows -> forallb (inrange n) t = true ->
  acc_relabelled pi (a, Some n, k) (Logits rows, t) (logits_relabel pi sg rows t).
Proof. exact acc_relabelled_logits_topk. Qed.
(* argmax: exact PROVISO = every row has a strict maximum ([strict_max]: one index whose score is strictly
   above every other score); then argmax commutes with the permutation and the batch is [relabelled] *)
Theorem argmax_commutes_with_column_permutation : forall n pi sg r i, perm_on n pi -> perm_on n sg -> inverse_on n pi sg ->
  List.length r = n -> strict_max r i -> argmax (permute_cols sg r) = pi (argmax r).
Proof. exact argmax_relabel. Qed.
Theorem score_input_is_relabelled : forall n pi sg rows t, perm_on n pi -> perm_on n sg -> inverse_on n pi sg ->
  Forall (fun r => List.length r = n /\ exists i, strict_max r i) rows ->
  relabelled pi (Logits rows, t) (logits_relabel pi sg rows t).
Proof. exact relabelled_logits. Qed.
(* without the proviso the first-index rule breaks the symmetry: a tie at the maximum *)
Theorem argmax_symmetry_without_proviso_refuted :
  exists pi sg r, perm_on 2 pi /\ perm_on 2 sg /\ inverse_on 2 pi sg /\ List.length r = 2%nat /\
                  argmax (permute_cols sg r) <> pi (argmax r).
Proof.
  exists (fun c => if c =? 0 then 1 else if c =? 1 then 0 else c), (fun c => if c =? 0 then 1 else if c =? 1 then 0 else c), [1; 1].
  assert (Hp : perm_on 2 (fun c => if c =? 0 then 1 else if c =? 1 then 0 else c)).
  { split.
    - intros a b. destruct (Z.eqb_spec a 0), (Z.eqb_spec a 1), (Z.eqb_spec b 0), (Z.eqb_spec b 1); lia.
    - intros c H. unfold inrange in *. apply andb_prop in H as [H1 H2]. apply Z.leb_le in H1. apply Z.ltb_lt in H2.
      destruct (Z.eqb_spec c 0), (Z.eqb_spec c 1); try reflexivity; lia. }
  repeat split; try exact (proj1 Hp); try exact (proj2 Hp); try reflexivity.
  - unfold inrange in H. apply andb_prop in H as [H1 H2]. apply Z.leb_le in H1. apply Z.ltb_lt in H2.
    destruct (Z.eqb_spec c 0), (Z.eqb_spec c 1); cbn; lia.
  - unfold inrange in H. apply andb_prop in H as [H1 H2]. apply Z.leb_le in H1. apply Z.ltb_lt in H2.
    destruct (Z.eqb_spec c 0), (Z.eqb_spec c 1); cbn; lia.
  - vm_compute. discriminate.
Qed.

(* ---- duplication of the batch ---- *)
Theorem precision_duplication : forall a nc b, aligned b -> (a = Weighted -> targets_in (ncls nc) b) ->
  fn_of mcprec_spec (a, nc) (mc_cat b b) = fn_of mcprec_spec (a, nc) b.
Proof. exact mcprec_duplication. Qed.
Theorem recall_duplication : forall a nc b, aligned b -> (a = Weighted -> targets_in (ncls nc) b) ->
  fn_of mcrec_spec (a, nc) (mc_cat b b) = fn_of mcrec_spec (a, nc) b.
Proof. exact mcrec_duplication. Qed.
Theorem f1_duplication : forall a nc b, aligned b -> (a = Weighted -> targets_in (ncls nc) b) ->
  fn_of mcf1_spec (a, nc) (mc_cat b b) = fn_of mcf1_spec (a, nc) b.
Proof. exact mcf1_duplication. Qed.
Theorem binary_accuracy_duplication : forall t b, bin_ok b -> fn_of binacc_spec t (bin_cat b b) = fn_of binacc_spec t b.
Proof. exact binacc_duplication. Qed.
Theorem binary_precision_duplication : forall t b, bin_ok b -> fn_of binprec_spec t (bin_cat b b) = fn_of binprec_spec t b.
Proof. exact binprec_duplication. Qed.
Theorem binary_recall_duplication : forall t b, bin_ok b -> fn_of binrec_spec t (bin_cat b b) = fn_of binrec_spec t b.
Proof. exact binrec_duplication. Qed.
Theorem binary_f1_duplication : forall t b, bin_ok b -> fn_of binf1_spec t (bin_cat b b) = fn_of binf1_spec t b.
Proof. exact binf1_duplication. Qed.
(* confusion matrices: every normalisation except None (raw counts double) *)
Theorem confusion_matrix_duplication : forall n nm b, nm <> NNone -> cm_ok (n, nm) b ->
  fn_of mccm_spec (n, nm) (mc_cat b b) = fn_of mccm_spec (n, nm) b.
Proof. exact mccm_duplication. Qed.
Theorem binary_confusion_matrix_duplication : forall t nm b, nm <> NNone -> bin_ok b ->
  fn_of bincm_spec (t, nm) (bin_cat b b) = fn_of bincm_spec (t, nm) b.
Proof. exact bincm_duplication. Qed.

(* ---- strictly increasing map applied to the scores AND the threshold (no validity needed) ---- *)
Theorem binary_accuracy_monotone : forall f t b, strictly_increasing f -> fn_of binacc_spec (f t) (bin_remap f b) = fn_of binacc_spec t b.
Proof. exact binacc_monotone. Qed.
Theorem binary_precision_monotone : forall f t b, strictly_increasing f -> fn_of binprec_spec (f t) (bin_remap f b) = fn_of binprec_spec t b.
Proof. exact binprec_monotone. Qed.
Theorem binary_recall_monotone : forall f t b, strictly_increasing f -> fn_of binrec_spec (f t) (bin_remap f b) = fn_of binrec_spec t b.
Proof. exact binrec_monotone. Qed.
Theorem binary_f1_monotone : forall f t b, strictly_increasing f -> fn_of binf1_spec (f t) (bin_remap f b) = fn_of binf1_spec t b.
Proof. exact binf1_monotone. Qed.
Theorem binary_confusion_matrix_monotone : forall f t nm b, strictly_increasing f ->
  fn_of bincm_spec (f t, nm) (bin_remap f b) = fn_of bincm_spec (t, nm) b.
Proof. exact bincm_monotone. Qed.
Theorem multilabel_accuracy_monotone : forall f t cr b, strictly_increasing f ->
  fn_of mlacc_spec (f t, cr) (ml_remap f b) = fn_of mlacc_spec (t, cr) b.
Proof. exact mlacc_monotone. Qed.

(* ---- non-vacuity ---- *)
Example relabelling_example :
  let pi := fun c => if c =? 0 then 2 else if c =? 1 then 0 else if c =? 2 then 1 else c in
  let b : mcbatch := (Labels [0; 0; 1], [0; 1; 1]) in
  relabelled pi b (mc_relabel pi b) /\
  res_val (fn_of mcprec_spec (NoAvg, Some 3%nat) b) = VL [VQ 1 2; VQ 1 1; VQ 0 1] /\
  res_val (fn_of mcprec_spec (NoAvg, Some 3%nat) (mc_relabel pi b)) = VL [VQ 1 1; VQ 0 1; VQ 1 2] /\
  res_val (fn_of mcprec_spec (Macro, Some 3%nat) (mc_relabel pi b)) = res_val (fn_of mcprec_spec (Macro, Some 3%nat) b).
Proof. vm_compute. auto. Qed.
Example relabelling_perm_example :
  perm_on 3 (fun c => if c =? 0 then 2 else if c =? 1 then 0 else if c =? 2 then 1 else c).
Proof.
  split.
  - intros a b. destruct (Z.eqb_spec a 0), (Z.eqb_spec a 1), (Z.eqb_spec a 2), (Z.eqb_spec b 0), (Z.eqb_spec b 1), (Z.eqb_spec b 2); lia.
  - intros c H. unfold inrange in *. apply andb_prop in H as [H1 H2]. apply Z.leb_le in H1. apply Z.ltb_lt in H2.
    destruct (Z.eqb_spec c 0), (Z.eqb_spec c 1), (Z.eqb_spec c 2); try reflexivity; lia.
Qed.
Example monotone_example : strictly_increasing (fun z => 3 * z + 1) /\
  res_val (fn_of binf1_spec 7 (bin_remap (fun z => 3 * z + 1) ([2; 1; 3], [1; 1; 0]))) = res_val (fn_of binf1_spec 2 ([2; 1; 3], [1; 1; 0])).
Proof. split; [intros a b; destruct (Z.ltb_spec a b), (Z.ltb_spec (3 * a + 1) (3 * b + 1)); try reflexivity; lia|vm_compute; reflexivity]. Qed.

Print Assumptions classes_permuted.
Print Assumptions label_input_is_relabelled.
Print Assumptions precision_relabelling.
Print Assumptions recall_relabelling.
Print Assumptions f1_relabelling.
Print Assumptions accuracy_relabelling.
Print Assumptions accuracy_label_input_is_relabelled.
Print Assumptions confusion_matrix_relabelling.
Print Assumptions precision_duplication.
Print Assumptions recall_duplication.
Print Assumptions f1_duplication.
Print Assumptions binary_accuracy_duplication.
Print Assumptions binary_precision_duplication.
Print Assumptions binary_recall_duplication.
Print Assumptions binary_f1_duplication.
Print Assumptions confusion_matrix_duplication.
Print Assumptions binary_confusion_matrix_duplication.
Print Assumptions binary_accuracy_monotone.
Print Assumptions binary_precision_monotone.
Print Assumptions binary_recall_monotone.
Print Assumptions binary_f1_monotone.
Print Assumptions binary_confusion_matrix_monotone.
Print Assumptions multilabel_accuracy_monotone.
Print Assumptions topk_rank_rule_symmetric.
Print Assumptions topk_accuracy_score_input_is_relabelled.
Print Assumptions argmax_commutes_with_column_permutation.
Print Assumptions score_input_is_relabelled.
Print Assumptions argmax_symmetry_without_proviso_refuted.
