(* C12 for the count-based classification metrics: results depend only on the multiset of samples --
   any permutation of the update stream, and any two batchings whose concatenations carry the same counts. *)
From Coq Require Import ZArith List Bool Permutation.
From TE Require Import Base.Val Base.Nd Algebra.Metric Algebra.MergeTree Algebra.Additive Models.Counting Proofs.CountingP Proofs.CountingCatP.
Import ListNotations.
Open Scope Z_scope.


Corollary multiclass_accuracy_order_irrelevant (c : acc_cfg) : forall bs bs',
  Forall (fun b => avalid mcacc_spec c b = true) bs -> Permutation bs bs' -> class_run mcacc_spec c bs = class_run mcacc_spec c bs'.
Proof. exact (order_invariant mcacc_spec c). Qed.
Corollary multiclass_accuracy_batching_irrelevant (c : acc_cfg) (w : nat) : forall b rest b' rest',
  acc_ok c w b -> Forall (acc_ok c w) rest -> acc_ok c w b' -> Forall (acc_ok c w) rest' ->
  abeta mcacc_spec c (cat_all mcacc_spec mc_cat b rest) = abeta mcacc_spec c (cat_all mcacc_spec mc_cat b' rest') ->
  class_run mcacc_spec c (b :: rest) = class_run mcacc_spec c (b' :: rest').
Proof. exact (batching_of_laws mcacc_spec c _ _ (mcacc_laws c w)). Qed.

Corollary binary_accuracy_order_irrelevant (c : Z) : forall bs bs',
  Forall (fun b => avalid binacc_spec c b = true) bs -> Permutation bs bs' -> class_run binacc_spec c bs = class_run binacc_spec c bs'.
Proof. exact (order_invariant binacc_spec c). Qed.
Corollary binary_accuracy_batching_irrelevant (c : Z) : forall b rest b' rest',
  bin_ok b -> Forall (bin_ok) rest -> bin_ok b' -> Forall (bin_ok) rest' ->
  abeta binacc_spec c (cat_all binacc_spec bin_cat b rest) = abeta binacc_spec c (cat_all binacc_spec bin_cat b' rest') ->
  class_run binacc_spec c (b :: rest) = class_run binacc_spec c (b' :: rest').
Proof. exact (batching_of_laws binacc_spec c _ _ (binacc_laws c)). Qed.

Corollary multilabel_accuracy_order_irrelevant (c : ml_cfg) : forall bs bs',
  Forall (fun b => avalid mlacc_spec c b = true) bs -> Permutation bs bs' -> class_run mlacc_spec c bs = class_run mlacc_spec c bs'.
Proof. exact (order_invariant mlacc_spec c). Qed.
Corollary multilabel_accuracy_batching_irrelevant (c : ml_cfg) (w : nat) : forall b rest b' rest',
  ml_ok w b -> Forall (ml_ok w) rest -> ml_ok w b' -> Forall (ml_ok w) rest' ->
  abeta mlacc_spec c (cat_all mlacc_spec ml_cat b rest) = abeta mlacc_spec c (cat_all mlacc_spec ml_cat b' rest') ->
  class_run mlacc_spec c (b :: rest) = class_run mlacc_spec c (b' :: rest').
Proof. exact (batching_of_laws mlacc_spec c _ _ (mlacc_laws c w)). Qed.

Corollary topk_multilabel_accuracy_order_irrelevant (c : tk_cfg) : forall bs bs',
  Forall (fun b => avalid tkacc_spec c b = true) bs -> Permutation bs bs' -> class_run tkacc_spec c bs = class_run tkacc_spec c bs'.
Proof. exact (order_invariant tkacc_spec c). Qed.
Corollary topk_multilabel_accuracy_batching_irrelevant (c : tk_cfg) (w : nat) : forall b rest b' rest',
  tk_ok c w b -> Forall (tk_ok c w) rest -> tk_ok c w b' -> Forall (tk_ok c w) rest' ->
  abeta tkacc_spec c (cat_all tkacc_spec tk_cat b rest) = abeta tkacc_spec c (cat_all tkacc_spec tk_cat b' rest') ->
  class_run tkacc_spec c (b :: rest) = class_run tkacc_spec c (b' :: rest').
Proof. exact (batching_of_laws tkacc_spec c _ _ (tkacc_laws c w)). Qed.

Corollary multiclass_precision_order_irrelevant (c : prf_cfg) : forall bs bs',
  Forall (fun b => avalid mcprec_spec c b = true) bs -> Permutation bs bs' -> class_run mcprec_spec c bs = class_run mcprec_spec c bs'.
Proof. exact (order_invariant mcprec_spec c). Qed.
Corollary multiclass_precision_batching_irrelevant (c : prf_cfg) (w : nat) : forall b rest b' rest',
  prf_ok c w b -> Forall (prf_ok c w) rest -> prf_ok c w b' -> Forall (prf_ok c w) rest' ->
  abeta mcprec_spec c (cat_all mcprec_spec mc_cat b rest) = abeta mcprec_spec c (cat_all mcprec_spec mc_cat b' rest') ->
  class_run mcprec_spec c (b :: rest) = class_run mcprec_spec c (b' :: rest').
Proof. exact (batching_of_laws mcprec_spec c _ _ (mcprec_laws c w)). Qed.

Corollary binary_precision_order_irrelevant (c : Z) : forall bs bs',
  Forall (fun b => avalid binprec_spec c b = true) bs -> Permutation bs bs' -> class_run binprec_spec c bs = class_run binprec_spec c bs'.
Proof. exact (order_invariant binprec_spec c). Qed.
Corollary binary_precision_batching_irrelevant (c : Z) : forall b rest b' rest',
  bin_ok b -> Forall (bin_ok) rest -> bin_ok b' -> Forall (bin_ok) rest' ->
  abeta binprec_spec c (cat_all binprec_spec bin_cat b rest) = abeta binprec_spec c (cat_all binprec_spec bin_cat b' rest') ->
  class_run binprec_spec c (b :: rest) = class_run binprec_spec c (b' :: rest').
Proof. exact (batching_of_laws binprec_spec c _ _ (binprec_laws c)). Qed.

Corollary multiclass_recall_order_irrelevant (c : prf_cfg) : forall bs bs',
  Forall (fun b => avalid mcrec_spec c b = true) bs -> Permutation bs bs' -> class_run mcrec_spec c bs = class_run mcrec_spec c bs'.
Proof. exact (order_invariant mcrec_spec c). Qed.
Corollary multiclass_recall_batching_irrelevant (c : prf_cfg) (w : nat) : forall b rest b' rest',
  prf_ok c w b -> Forall (prf_ok c w) rest -> prf_ok c w b' -> Forall (prf_ok c w) rest' ->
  abeta mcrec_spec c (cat_all mcrec_spec mc_cat b rest) = abeta mcrec_spec c (cat_all mcrec_spec mc_cat b' rest') ->
  class_run mcrec_spec c (b :: rest) = class_run mcrec_spec c (b' :: rest').
Proof. exact (batching_of_laws mcrec_spec c _ _ (mcrec_laws c w)). Qed.

Corollary binary_recall_order_irrelevant (c : Z) : forall bs bs',
  Forall (fun b => avalid binrec_spec c b = true) bs -> Permutation bs bs' -> class_run binrec_spec c bs = class_run binrec_spec c bs'.
Proof. exact (order_invariant binrec_spec c). Qed.
Corollary binary_recall_batching_irrelevant (c : Z) : forall b rest b' rest',
  bin_ok b -> Forall (bin_ok) rest -> bin_ok b' -> Forall (bin_ok) rest' ->
  abeta binrec_spec c (cat_all binrec_spec bin_cat b rest) = abeta binrec_spec c (cat_all binrec_spec bin_cat b' rest') ->
  class_run binrec_spec c (b :: rest) = class_run binrec_spec c (b' :: rest').
Proof. exact (batching_of_laws binrec_spec c _ _ (binrec_laws c)). Qed.

Corollary multiclass_f1_order_irrelevant (c : prf_cfg) : forall bs bs',
  Forall (fun b => avalid mcf1_spec c b = true) bs -> Permutation bs bs' -> class_run mcf1_spec c bs = class_run mcf1_spec c bs'.
Proof. exact (order_invariant mcf1_spec c). Qed.
Corollary multiclass_f1_batching_irrelevant (c : prf_cfg) (w : nat) : forall b rest b' rest',
  prf_ok c w b -> Forall (prf_ok c w) rest -> prf_ok c w b' -> Forall (prf_ok c w) rest' ->
  abeta mcf1_spec c (cat_all mcf1_spec mc_cat b rest) = abeta mcf1_spec c (cat_all mcf1_spec mc_cat b' rest') ->
  class_run mcf1_spec c (b :: rest) = class_run mcf1_spec c (b' :: rest').
Proof. exact (batching_of_laws mcf1_spec c _ _ (mcf1_laws c w)). Qed.

Corollary binary_f1_order_irrelevant (c : Z) : forall bs bs',
  Forall (fun b => avalid binf1_spec c b = true) bs -> Permutation bs bs' -> class_run binf1_spec c bs = class_run binf1_spec c bs'.
Proof. exact (order_invariant binf1_spec c). Qed.
Corollary binary_f1_batching_irrelevant (c : Z) : forall b rest b' rest',
  bin_ok b -> Forall (bin_ok) rest -> bin_ok b' -> Forall (bin_ok) rest' ->
  abeta binf1_spec c (cat_all binf1_spec bin_cat b rest) = abeta binf1_spec c (cat_all binf1_spec bin_cat b' rest') ->
  class_run binf1_spec c (b :: rest) = class_run binf1_spec c (b' :: rest').
Proof. exact (batching_of_laws binf1_spec c _ _ (binf1_laws c)). Qed.

Corollary multiclass_confusion_matrix_order_irrelevant (c : cm_cfg) : forall bs bs',
  Forall (fun b => avalid mccm_spec c b = true) bs -> Permutation bs bs' -> class_run mccm_spec c bs = class_run mccm_spec c bs'.
Proof. exact (order_invariant mccm_spec c). Qed.
Corollary multiclass_confusion_matrix_batching_irrelevant (c : cm_cfg) : forall b rest b' rest',
  cm_ok c b -> Forall (cm_ok c) rest -> cm_ok c b' -> Forall (cm_ok c) rest' ->
  abeta mccm_spec c (cat_all mccm_spec mc_cat b rest) = abeta mccm_spec c (cat_all mccm_spec mc_cat b' rest') ->
  class_run mccm_spec c (b :: rest) = class_run mccm_spec c (b' :: rest').
Proof. exact (batching_of_laws mccm_spec c _ _ (mccm_laws c)). Qed.

Corollary binary_confusion_matrix_order_irrelevant (c : bincm_cfg) : forall bs bs',
  Forall (fun b => avalid bincm_spec c b = true) bs -> Permutation bs bs' -> class_run bincm_spec c bs = class_run bincm_spec c bs'.
Proof. exact (order_invariant bincm_spec c). Qed.
Corollary binary_confusion_matrix_batching_irrelevant (c : bincm_cfg) : forall b rest b' rest',
  bin_ok b -> Forall (bin_ok) rest -> bin_ok b' -> Forall (bin_ok) rest' ->
  abeta bincm_spec c (cat_all bincm_spec bin_cat b rest) = abeta bincm_spec c (cat_all bincm_spec bin_cat b' rest') ->
  class_run bincm_spec c (b :: rest) = class_run bincm_spec c (b' :: rest').
Proof. exact (batching_of_laws bincm_spec c _ _ (bincm_laws c)). Qed.

Example confusion_matrix_rebatching_example :
  let c : cm_cfg := (2%nat, NTrue) in
  let b1 : mcbatch := (Labels [0; 1], [0; 0]) in
  let b2 : mcbatch := (Labels [1], [1]) in
  cm_ok c b1 /\ cm_ok c b2 /\
  abeta mccm_spec c (cat_all mccm_spec mc_cat b1 [b2]) = abeta mccm_spec c (cat_all mccm_spec mc_cat b2 [b1]) /\
  res_val (class_run mccm_spec c [b1; b2]) = VL [VL [VQ 1 2; VQ 1 2]; VL [VQ 0 1; VQ 1 1]].
Proof. vm_compute. auto. Qed.

Print Assumptions multiclass_accuracy_order_irrelevant.
Print Assumptions multiclass_accuracy_batching_irrelevant.
Print Assumptions binary_accuracy_order_irrelevant.
Print Assumptions binary_accuracy_batching_irrelevant.
Print Assumptions multilabel_accuracy_order_irrelevant.
Print Assumptions multilabel_accuracy_batching_irrelevant.
Print Assumptions topk_multilabel_accuracy_order_irrelevant.
Print Assumptions topk_multilabel_accuracy_batching_irrelevant.
Print Assumptions multiclass_precision_order_irrelevant.
Print Assumptions multiclass_precision_batching_irrelevant.
Print Assumptions binary_precision_order_irrelevant.
Print Assumptions binary_precision_batching_irrelevant.
Print Assumptions multiclass_recall_order_irrelevant.
Print Assumptions multiclass_recall_batching_irrelevant.
Print Assumptions binary_recall_order_irrelevant.
Print Assumptions binary_recall_batching_irrelevant.
Print Assumptions multiclass_f1_order_irrelevant.
Print Assumptions multiclass_f1_batching_irrelevant.
Print Assumptions binary_f1_order_irrelevant.
Print Assumptions binary_f1_batching_irrelevant.
Print Assumptions multiclass_confusion_matrix_order_irrelevant.
Print Assumptions multiclass_confusion_matrix_batching_irrelevant.
Print Assumptions binary_confusion_matrix_order_irrelevant.
Print Assumptions binary_confusion_matrix_batching_irrelevant.
