(* C16 for the count-based classification metrics: multiclass precision / recall / F1 decompose into BINARY
   problems.  [ovr_batch c b]: the one-vs-rest problem of class c (prediction [p = c], label [y = c]) as a
   batch of the binary functional forms with threshold 1; [pooled n b]: all n one-vs-rest problems in one
   binary batch.  Both sides are [fn_of S], the definitions run by the `@model ..._fn` entry points. *)
From Coq Require Import ZArith List Bool Lia.
From TE Require Import Base.Val Base.Xq Algebra.Additive Models.Counting Proofs.CountingP Proofs.CountingCatP Proofs.CountingMetaP.
Import ListNotations.
Open Scope Z_scope.

(* average=None: the value at class c is the binary metric of "c against the rest" *)
Theorem precision_per_class_is_one_vs_rest : forall n b c, inrange n c = true -> aligned b ->
  RS (res_at (fn_of mcprec_spec (NoAvg, Some n) b) c) = fn_of binprec_spec 1 (ovr_batch c b).
Proof. exact precision_per_class_is_binary. Qed.
Theorem recall_per_class_is_one_vs_rest : forall n b c, inrange n c = true -> aligned b ->
  RS (res_at (fn_of mcrec_spec (NoAvg, Some n) b) c) = fn_of binrec_spec 1 (ovr_batch c b).
Proof. exact recall_per_class_is_binary. Qed.
Theorem f1_per_class_is_one_vs_rest : forall n b c, inrange n c = true -> aligned b ->
  RS (res_at (fn_of mcf1_spec (NoAvg, Some n) b) c) = fn_of binf1_spec 1 (ovr_batch c b).
Proof. exact f1_per_class_is_binary. Qed.

(* macro: unweighted mean of the one-vs-rest binary values over the classes present in predictions or labels *)
Theorem precision_macro_is_mean_of_one_vs_rest : forall n b, aligned b ->
  fn_of mcprec_spec (Macro, Some n) b
  = RS (xmean (map (fun c => scalar (fn_of binprec_spec 1 (ovr_batch c b))) (filter (present (pairs_spec b)) (classes n)))).
Proof. exact precision_macro_is_mean_of_binary. Qed.
Theorem recall_macro_is_mean_of_one_vs_rest : forall n b, aligned b ->
  fn_of mcrec_spec (Macro, Some n) b
  = RS (xmean (map (fun c => scalar (fn_of binrec_spec 1 (ovr_batch c b))) (filter (present (pairs_spec b)) (classes n)))).
Proof. exact recall_macro_is_mean_of_binary. Qed.
Theorem f1_macro_is_mean_of_one_vs_rest : forall n b, aligned b ->
  fn_of mcf1_spec (Macro, Some n) b
  = RS (xmean (map (fun c => scalar (fn_of binf1_spec 1 (ovr_batch c b))) (filter (present (pairs_spec b)) (classes n)))).
Proof. exact f1_macro_is_mean_of_binary. Qed.

(* micro: the binary metric of the pooled one-vs-rest counts (predictions and labels are class indices) *)
Theorem precision_micro_is_pooled_one_vs_rest : forall n b, labels_ok n b ->
  fn_of mcprec_spec (Micro, Some n) b = fn_of binprec_spec 1 (pooled n b).
Proof. exact precision_micro_is_pooled_binary. Qed.
Theorem recall_micro_is_pooled_one_vs_rest : forall n b, labels_ok n b ->
  fn_of mcrec_spec (Micro, Some n) b = fn_of binrec_spec 1 (pooled n b).
Proof. exact recall_micro_is_pooled_binary. Qed.
Theorem f1_micro_is_pooled_one_vs_rest : forall n b, labels_ok n b ->
  fn_of mcf1_spec (Micro, Some n) b = fn_of binf1_spec 1 (pooled n b).
Proof. exact f1_micro_is_pooled_binary. Qed.
(* the pooled counts themselves *)
Theorem pooled_one_vs_rest_counts : forall n b, labels_ok n b ->
  let P := bin_pairs_spec 1 (pooled n b) in let ps := pairs_spec b in
  tp 1 P = n_correct ps /\ fp 1 P = lenZ ps - n_correct ps /\ fn 1 P = lenZ ps - n_correct ps.
Proof. exact pooled_counts. Qed.

Example one_vs_rest_example :
  let b : mcbatch := (Logits [[1; 1; 0]; [0; 2; 2]; [0; 0; 1]], [0; 2; 2]) in
  labels_ok 3 b /\ ovr_batch 2 b = ([0; 0; 1], [0; 1; 1]) /\
  res_val (fn_of binrec_spec 1 (ovr_batch 2 b)) = VQ 1 2 /\
  res_val (fn_of mcrec_spec (NoAvg, Some 3%nat) b) = VL [VQ 1 1; VQ 0 1; VQ 1 2] /\
  res_val (fn_of mcf1_spec (Micro, Some 3%nat) b) = res_val (fn_of binf1_spec 1 (pooled 3 b)).
Proof. vm_compute. auto. Qed.

Print Assumptions precision_per_class_is_one_vs_rest.
Print Assumptions recall_per_class_is_one_vs_rest.
Print Assumptions f1_per_class_is_one_vs_rest.
Print Assumptions precision_macro_is_mean_of_one_vs_rest.
Print Assumptions recall_macro_is_mean_of_one_vs_rest.
Print Assumptions f1_macro_is_mean_of_one_vs_rest.
Print Assumptions precision_micro_is_pooled_one_vs_rest.
Print Assumptions recall_micro_is_pooled_one_vs_rest.
Print Assumptions f1_micro_is_pooled_one_vs_rest.
Print Assumptions pooled_one_vs_rest_counts.
