(* C16 for the ranking family.  RetrievalPrecision / RetrievalRecall(num_queries): the value of query q
   = the single-query metric on the items whose index is q (the `indexes == q` partition), for ANY
   interleaving of the indexes inside and across batches; avg none = vector of the per-query values,
   "macro" = nan-ignoring mean, "err" raises iff some query raises.  ClickThroughRate /
   WeightedCalibration(num_tasks): task i = the single-task metric on row i (WeightedCalibration: except
   for a row that accumulated nothing -- refuted, known finding C16-weighted-calibration-all-zero-slice).
   hit rate / reciprocal rank: sample i's value depends only on row i.  Statements only. *)
From Coq Require Import ZArith List Bool QArith Qcanon Permutation String.
From TE Require Import Base.Val Base.Nd Base.Xq Algebra.Metric Models.Ranking Proofs.RankingP Proofs.RankingAlgP Proofs.RankingC16P.
Import ListNotations.
Open Scope list_scope.

(* rvals = the per-query values compute() assembles (None = that query raises) *)
Theorem retrieval_query_decomposes :
  forall recall c bs q, (q < r_nq c)%nat ->
    nth q (rvals recall c (rrun recall c bs)) None =
    nth 0 (rvals recall (with_nq c 1) (rrun recall (with_nq c 1) (map (restrict c q) bs))) None.
Proof. exact retrieval_query_decomposes_lem. Qed.
(* no other query's items, and no interleaving with them, matters *)
Theorem retrieval_query_depends_only_on_own_items :
  forall recall c bs bs' q, (q < r_nq c)%nat -> Permutation (rdata c q bs) (rdata c q bs') ->
    nth q (rvals recall c (rrun recall c bs)) None = nth q (rvals recall c (rrun recall c bs')) None.
Proof. exact retrieval_query_only_own_items. Qed.
Theorem retrieval_compute_assembles_queries :
  forall recall c s, rcmp recall c s = rfinish c (rvals recall c s).
Proof. exact rcmp_assembles. Qed.
Theorem retrieval_avg_none_is_the_vector :
  forall c qs l, r_macro c = false -> omap (fun x => x) qs = Some l -> rfinish c qs = RVec l.
Proof. exact rfinish_none. Qed.
Theorem retrieval_avg_macro_is_nanmean :
  forall c qs l, r_macro c = true -> omap (fun x => x) qs = Some l ->
    rfinish c qs = RAvg (xmean (filter (fun x => negb (is_nan x)) l)).
Proof. exact rfinish_macro. Qed.

Theorem click_through_rate_task_slice :
  forall nt bs i, (i < nt)%nat -> Forall (fun b => ctr_valid nt b = true) bs ->
    nth i (cmp ctr_metric nt (fold_left (upd ctr_metric nt) bs (init ctr_metric nt))) 0%Qc =
    nth 0 (cmp ctr_metric 1%nat (fold_left (upd ctr_metric 1%nat) (map (ctr_row i) bs) (init ctr_metric 1%nat))) 0%Qc.
Proof. exact ctr_task_slice. Qed.
Theorem weighted_calibration_task_slice :
  forall nt bs i, (i < nt)%nat -> Forall (fun b => wc_valid nt b = true) bs ->
    (wc_Ci i bs <> 0%Qc \/ wc_Ti i bs <> 0%Qc) ->
    nth i (cmp wc_metric nt (fold_left (upd wc_metric nt) bs (init wc_metric nt))) NaN =
    nth 0 (cmp wc_metric 1%nat (fold_left (upd wc_metric 1%nat) (map (wc_row i) bs) (init wc_metric 1%nat))) NaN.
Proof. exact wc_task_slice. Qed.
Theorem weighted_calibration_all_zero_slice_refuted :
  let b : wc_batch := ([[1%Qc]; [0%Qc]], [[1%Qc]; [0%Qc]], WSc 1%Qc) in
  wc_valid 2 b = true /\
  map xq_val (cmp wc_metric 2%nat (fold_left (upd wc_metric 2%nat) [b] (init wc_metric 2%nat))) = [VQ 1 1; VT "nan"%string []] /\
  cmp wc_metric 1%nat (fold_left (upd wc_metric 1%nat) [wc_row 1 b] (init wc_metric 1%nat)) = [].
Proof. exact wc_all_zero_slice_refuted. Qed.

Theorem hit_rate_sample_depends_only_on_its_row :
  forall k b b' i, (i < List.length b)%nat -> (i < List.length b')%nat -> nth i b ([], 0%Z) = nth i b' ([], 0%Z) ->
    nth i (hit_fn k b) 0%Qc = nth i (hit_fn k b') 0%Qc.
Proof. exact hit_rowlocal. Qed.
Theorem hit_rate_sample_is_single_sample_metric :
  forall k b i, (i < List.length b)%nat -> nth i (hit_fn k b) 0%Qc = nth 0 (hit_fn k [nth i b ([], 0%Z)]) 0%Qc.
Proof. exact hit_is_single. Qed.
Theorem reciprocal_rank_sample_depends_only_on_its_row :
  forall k b b' i, (i < List.length b)%nat -> (i < List.length b')%nat -> nth i b ([], 0%Z) = nth i b' ([], 0%Z) ->
    nth i (rr_fn k b) 0%Qc = nth i (rr_fn k b') 0%Qc.
Proof. exact rr_rowlocal. Qed.
Theorem reciprocal_rank_sample_is_single_sample_metric :
  forall k b i, (i < List.length b)%nat -> nth i (rr_fn k b) 0%Qc = nth 0 (rr_fn k [nth i b ([], 0%Z)]) 0%Qc.
Proof. exact rr_is_single. Qed.

(* non-vacuity: indexes interleaved inside and across batches (0,1,0 | 1,0), query 0 vs its partition *)
Example query_partition_example :
  let c := Build_rcfg ANeg (Some 2%nat) false 2 false 1024 in
  let bs : list rbatch := [([5; 9; 7]%Z, [1; 0; 1]%Z, Some [0; 1; 0]%Z); ([8; 6]%Z, [0; 1]%Z, Some [1; 0]%Z)] in
  map (restrict c 0) bs = [([5; 7]%Z, [1; 1]%Z, None); ([6]%Z, [1]%Z, None)] /\
  enc_rout c (rcmp false c (rrun false c bs)) = VL [VQ 1 1; VQ 0 1].
Proof. split; vm_compute; reflexivity. Qed.

Print Assumptions retrieval_query_decomposes.
Print Assumptions retrieval_query_depends_only_on_own_items.
Print Assumptions retrieval_compute_assembles_queries.
Print Assumptions retrieval_avg_none_is_the_vector.
Print Assumptions retrieval_avg_macro_is_nanmean.
Print Assumptions click_through_rate_task_slice.
Print Assumptions weighted_calibration_task_slice.
Print Assumptions weighted_calibration_all_zero_slice_refuted.
Print Assumptions hit_rate_sample_depends_only_on_its_row.
Print Assumptions hit_rate_sample_is_single_sample_metric.
Print Assumptions reciprocal_rank_sample_depends_only_on_its_row.
Print Assumptions reciprocal_rank_sample_is_single_sample_metric.
