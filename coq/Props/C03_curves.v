(* C03 (curve classes) -- update() on ANY sequence of valid batches followed by compute(), rendered by the
   class codec, equals the SAME `*_fn` model entry point that the harness runs against the functional,
   applied to the encoded concatenation of the batches. *)
From Coq Require Import ZArith List Bool QArith Qcanon Permutation.
From TE Require Import Base.Val Base.Xq Algebra.Metric Algebra.MergeTree Algebra.Pool Algebra.Cache Models.Curves
  Proofs.CurvesP Proofs.CurvesPR Proofs.CurvesC03P.
Import ListNotations.
Open Scope Qc_scope.

Theorem bauroc_class_eq_functional : forall cv bv c bs,
  dec_bcfg cv = Some c -> dec_bcols c bv = Some (List.concat bs) -> Forall (fun b => bvalid c b = true) bs ->
  run_bauroc_fn (VL [cv; bv]) = enc_out bauroc_codec c (cmp bauroc_metric c (fold_left (upd bauroc_metric c) bs (init bauroc_metric c))).
Proof. exact bauroc_class_fn. Qed.
Theorem bauprc_class_eq_functional : forall cv bv c bs,
  dec_bcfg cv = Some c -> dec_bcols c bv = Some (List.concat bs) -> Forall (fun b => bvalid c b = true) bs ->
  run_bauprc_fn (VL [cv; bv]) = enc_out bauprc_codec c (cmp bauprc_metric c (fold_left (upd bauprc_metric c) bs (init bauprc_metric c))).
Proof. exact bauprc_class_fn. Qed.
Theorem bprc_class_eq_functional : forall cv bv c bs,
  dec_b1cfg cv = Some c -> dec_b1 c bv = Some (List.concat bs) -> Forall (fun b => vtrue1 c b = true) bs ->
  run_bprc_fn (VL [cv; bv]) = enc_out bprc_codec c (cmp bprc_metric c (fold_left (upd bprc_metric c) bs (init bprc_metric c))).
Proof. exact bprc_class_fn. Qed.
Theorem brap_class_eq_functional : forall cv bv c bs,
  dec_b1cfg cv = Some c -> dec_b1 c bv = Some (List.concat bs) -> Forall (fun b => vtrue1 c b = true) bs ->
  run_brap_fn (VL [cv; bv]) = enc_out brap_codec c (cmp brap_metric c (fold_left (upd brap_metric c) bs (init brap_metric c))).
Proof. exact brap_class_fn. Qed.
Theorem mcauroc_class_eq_functional : forall cv bv c bs,
  dec_mcfg cv = Some c -> dec_mc c bv = Some (List.concat bs) -> Forall (fun b => mcvalid c b = true) bs ->
  run_mcauroc_fn (VL [cv; bv]) = enc_out mcauroc_codec c (cmp mcauroc_metric c (fold_left (upd mcauroc_metric c) bs (init mcauroc_metric c))).
Proof. exact mcauroc_class_fn. Qed.
Theorem mcauprc_class_eq_functional : forall cv bv c bs,
  dec_mcfg cv = Some c -> dec_mc c bv = Some (List.concat bs) -> Forall (fun b => mcvalid c b = true) bs ->
  run_mcauprc_fn (VL [cv; bv]) = enc_out mcauprc_codec c (cmp mcauprc_metric c (fold_left (upd mcauprc_metric c) bs (init mcauprc_metric c))).
Proof. exact mcauprc_class_fn. Qed.
Theorem mlauprc_class_eq_functional : forall cv bv c bs,
  dec_mcfg cv = Some c -> dec_ml c bv = Some (List.concat bs) -> Forall (fun b => mlvalid c b = true) bs ->
  run_mlauprc_fn (VL [cv; bv]) = enc_out mlauprc_codec c (cmp mlauprc_metric c (fold_left (upd mlauprc_metric c) bs (init mlauprc_metric c))).
Proof. exact mlauprc_class_fn. Qed.
Theorem mcprc_class_eq_functional : forall cv bv c bs,
  dec_mcfg cv = Some c -> dec_mc c bv = Some (List.concat bs) -> Forall (fun b => mcvalid c b = true) bs ->
  run_mcprc_fn (VL [cv; bv]) = enc_out mcprc_codec c (cmp mcprc_metric c (fold_left (upd mcprc_metric c) bs (init mcprc_metric c))).
Proof. exact mcprc_class_fn. Qed.
Theorem mlprc_class_eq_functional : forall cv bv c bs,
  dec_mcfg cv = Some c -> dec_ml c bv = Some (List.concat bs) -> Forall (fun b => mlvalid c b = true) bs ->
  run_mlprc_fn (VL [cv; bv]) = enc_out mlprc_codec c (cmp mlprc_metric c (fold_left (upd mlprc_metric c) bs (init mlprc_metric c))).
Proof. exact mlprc_class_fn. Qed.
Theorem mlrap_class_eq_functional : forall cv bv c bs,
  dec_mcfg cv = Some c -> dec_ml c bv = Some (List.concat bs) -> Forall (fun b => mlvalid c b = true) bs ->
  run_mlrap_fn (VL [cv; bv]) = enc_out mlrap_codec c (cmp mlrap_metric c (fold_left (upd mlrap_metric c) bs (init mlrap_metric c))).
Proof. exact mlrap_class_fn. Qed.

(* non-vacuity: two batches (a tie across the batch boundary) vs the fn entry point on their concatenation *)
Example bauroc_class_fn_example :
  let s z y := VL [VZ z; VZ y; VZ 1] in
  let cv := VL [VZ 64; VZ 1] in
  let bv := VL [VL [s 3 1]; VL [s 3 0]; VL [s 1 1]]%Z in
  let w := mkq 1%Z 1%positive in
  let bs : list (list bcol) := [[[(3%Z, (true, w))]; [(3%Z, (false, w))]]; [[(1%Z, (true, w))]]] in
  run_bauroc_fn (VL [cv; bv]) = enc_out bauroc_codec (64%positive, 1%nat) (cmp bauroc_metric (64%positive, 1%nat) (fold_left (upd bauroc_metric (64%positive, 1%nat)) bs (init bauroc_metric (64%positive, 1%nat))))
  /\ run_bauroc_fn (VL [cv; bv]) = VQ 1 4.
Proof. vm_compute. split; reflexivity. Qed.

Print Assumptions bauroc_class_eq_functional.
Print Assumptions bauprc_class_eq_functional.
Print Assumptions bprc_class_eq_functional.
Print Assumptions brap_class_eq_functional.
Print Assumptions mcauroc_class_eq_functional.
Print Assumptions mcauprc_class_eq_functional.
Print Assumptions mlauprc_class_eq_functional.
Print Assumptions mcprc_class_eq_functional.
Print Assumptions mlprc_class_eq_functional.
Print Assumptions mlrap_class_eq_functional.
