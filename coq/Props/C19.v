(* C19 -- accumulated counts stay exact over long histories (no silent saturation). *)
From Coq Require Import ZArith List Bool String.
From TE Require Import Models.FloatAcc Proofs.FloatAccP.
Import ListNotations.
Open Scope Z_scope.

(* An accumulator of a wide kind (float64, int64, Python int/float) counts every history of
   non-negative integer increments exactly while the true total stays within 2^53. *)
Theorem totals_exact_for_wide_kinds :
  forall k, wide k = true -> forall ds a,
    0 <= a -> Forall (fun d => 0 <= d) ds -> a + sumZ ds <= 2 ^ 53 ->
    acc_run k a ds = a + sumZ ds.
Proof. exact history_exact_wide. Qed.

(* ... in particular further samples are never ignored *)
Theorem further_samples_always_counted :
  forall k a d, wide k = true -> 0 <= a -> 0 < d -> a + d <= 2 ^ 53 -> acc_add k a d - a = d.
Proof. exact never_stops_counting_wide. Qed.

(* every narrow kind DOES lose increments somewhere below 2^53 (float32: at 2^24) *)
Theorem narrow_kinds_refuted :
  forall k, wide k = false -> exists a d, 0 <= a /\ 0 < d /\ a + d <= 2 ^ 53 /\ acc_add k a d <> a + d.
Proof. exact narrow_refuted. Qed.

Example float32_stops_at_2_24 : acc_add F32 (2 ^ 24) 1 = 2 ^ 24.
Proof. exact acc_f32_saturates. Qed.
Example wide_hypotheses_satisfiable : wide F64 = true /\ acc_run F64 (2 ^ 53 - 3) [1; 2] = 2 ^ 53.
Proof. split; reflexivity. Qed.

Print Assumptions totals_exact_for_wide_kinds.
Print Assumptions further_samples_always_counted.
Print Assumptions narrow_kinds_refuted.
