(* C13 -- windowed metrics report exactly the last N updates / samples; lifetime, all.
   Statements only; proofs live in Proofs/WindowP.v, models in Models/Window.v, WindowAUROC.v.
   [wctr V_code] etc. are the faithful models of the current code tied to the code by the history
   correspondence of vlib/parts/C13_window.py. *)
From Coq Require Import ZArith List Bool QArith Qcanon Permutation.
From TE Require Import Base.Val Base.Xq Algebra.Metric Algebra.Pool Models.Curves Models.Window Models.WindowAUROC Proofs.WindowP Proofs.WindowAurocFixP.
Import ListNotations.
Open Scope list_scope.

(* the object after a list of update() calls on a fresh instance *)
Definition after_updates (M : Metric) (c : cfg M) (us : list (batch M)) : st M :=
  fold_left (upd M c) us (init M c).

(* Generic: any ring buffer whose per-update statistic adds commutatively (up to Req). *)
Theorem window_refines_queue :
  forall (W : WinSpec) (L : WinLaws W) (fixed : variant) (c : wcfg) (us : list wbatch),
    (0 < cN c)%nat -> us <> [] ->
    exists lw ll,
      cmp (win_metric W fixed) c (after_updates (win_metric W fixed) c us)
        = WOut (if cLife c then Some (wgam W c ll) else None) (wgam W c lw) /\
      Forall2 (Req L) lw (tsum W c (lastn (cN c) (map (wstat W c) us))) /\
      (cLife c = true -> Forall2 (Req L) ll (tsum W c (map (wstat W c) us))).
Proof. intros W L fixed c us. exact (ring_refines_queue W L c us). Qed.

(* WindowedClickThroughRate: windowed value = ClickThroughRate over the last N updates,
   lifetime value = ClickThroughRate over all updates; never the empty result. *)
Theorem window_refines_queue_ctr :
  forall (c : wcfg) (us : list wbatch), (0 < cN c)%nat -> us <> [] ->
    cmp (wctr V_code) c (after_updates (wctr V_code) c us)
    = WOut (if cLife c then Some (win_ref ctr_spec c us) else None) (win_ref ctr_spec c (lastn (cN c) us)).
Proof. intros c us. exact (ring_refines_queue_eq ctr_spec ctr_laws c (fun x y H => H) us). Qed.

Theorem window_refines_queue_wcal :
  forall (c : wcfg) (us : list wbatch), (0 < cN c)%nat -> us <> [] ->
    cmp (wcal V_code) c (after_updates (wcal V_code) c us)
    = WOut (if cLife c then Some (win_ref wcal_spec c us) else None) (win_ref wcal_spec c (lastn (cN c) us)).
Proof. intros c us. exact (ring_refines_queue_eq wcal_spec wcal_laws c (fun x y H => H) us). Qed.

Theorem window_refines_queue_mse :
  forall (c : wcfg) (us : list wbatch), (0 < cN c)%nat -> us <> [] ->
    cmp (wmse V_code) c (after_updates (wmse V_code) c us)
    = WOut (if cLife c then Some (win_ref mse_spec c us) else None) (win_ref mse_spec c (lastn (cN c) us)).
Proof. intros c us. exact (ring_refines_queue_eq mse_spec mse_laws c (fun x y H => H) us). Qed.

(* WindowedBinaryNormalizedEntropy: the per-task triples (cross entropy as a formal sum of
   c * ln a terms, num_examples, num_positive) from which the value is computed agree with those of
   the last N updates up to the order of the log terms -- hence in every interpretation of ln. *)
Theorem window_refines_queue_ne :
  forall (c : wcfg) (us : list wbatch), (0 < cN c)%nat -> us <> [] ->
    exists lw ll,
      cmp (wne V_code) c (after_updates (wne V_code) c us) = WOut (if cLife c then Some ll else None) lw /\
      Forall2 ne_equiv lw (win_ref ne_spec c (lastn (cN c) us)) /\
      (cLife c = true -> Forall2 ne_equiv ll (win_ref ne_spec c us)).
Proof.
  intros c us HN Hne. destruct (ring_refines_queue ne_spec ne_laws c us HN Hne) as (lw & ll & H1 & H2 & H3).
  exists lw, ll. unfold win_ref. rewrite <- lastn_map. auto.
Qed.
Theorem ne_equiv_same_value :
  forall (ln : Qc -> Qc) (a b : ne3), ne_equiv a b ->
    sym_eval ln (ne_ent a) = sym_eval ln (ne_ent b) /\ ne_n a = ne_n b /\ ne_pos a = ne_pos b.
Proof. intros ln a b (H1 & H2 & H3). repeat split; [apply sym_eval_perm; exact H1|exact H2|exact H3]. Qed.

(* WindowedBinaryAUROC, buffer level: read circularly from the cursor, the buffers hold exactly
   the last min(total, N) samples -- all three insertion cases of update(). *)
Theorem window_auroc_buffer_holds_lastN :
  forall (c : acfg) (bs : list (list col)), (0 < aN c)%nat ->
    acontents (after_updates (wauroc V_code) c bs) = lastn (aN c) (List.concat bs).
Proof. exact auroc_window_holds_lastN. Qed.

(* compute() level: if no sample has the score 0 (for all tasks at once), compute() reads a
   permutation of the last N samples ... *)
Theorem window_auroc_reads_lastN :
  forall (c : acfg) (bs : list (list col)), (0 < aN c)%nat ->
    Forall (fun cl => nonzero_col cl = true) (List.concat bs) ->
    Permutation (aread (after_updates (wauroc V_code) c bs)) (lastn (aN c) (List.concat bs)).
Proof. exact auroc_reads_lastN_partial. Qed.
(* ... and, with the C05 theorems (the AUROC kernel equals the pairwise definition auroc_spec, which
   depends only on the multiset of samples): when no retained sample has score 0 and the window
   holds at least two samples, compute() IS the AUROC definition of the last N samples, per task
   (a scalar for num_tasks = 1).  The two excluded situations are exactly the D6 refutations below. *)
Theorem window_auroc_compute_is_spec :
  forall (c : acfg) (bs : list (list col)), (0 < aN c)%nat ->
    Forall (fun cl => nonzero_col cl = true) (List.concat bs) ->
    (2 <= List.length (lastn (aN c) (List.concat bs)))%nat ->
    cmp (wauroc V_code) c (after_updates (wauroc V_code) c bs) = auroc_ref c (lastn (aN c) (List.concat bs)).
Proof. exact auroc_compute_is_spec. Qed.

(* The faithful model of the CURRENT compute() (wauroc V_code) falsifies the full statement (D6). *)
Definition auroc_window_correct : Prop :=
  forall (c : acfg) (bs : list (list col)), (0 < aN c)%nat -> bs <> [] ->
    Forall (fun b => avalid c b = true) bs ->
    cmp (wauroc V_code) c (after_updates (wauroc V_code) c bs) = auroc_ref c (lastn (aN c) (List.concat bs)).

Theorem window_auroc_zero_score_refuted : ~ auroc_window_correct.
Proof.
  intros H.
  assert (Hx : cmp (wauroc V_code) d6_cfg (after_updates (wauroc V_code) d6_cfg d6_batches)
               = auroc_ref d6_cfg (lastn (aN d6_cfg) (List.concat d6_batches))).
  { apply H; [cbn; auto with arith|discriminate|repeat constructor]. }
  vm_compute in Hx. discriminate Hx.
Qed.
(* the values: the code answers 1/2, the AUROC of the last four samples is 1/4 *)
Theorem window_auroc_zero_score_witness :
  cmp (wauroc V_code) d6_cfg (after_updates (wauroc V_code) d6_cfg d6_batches) = AScalar (q 1 2) /\
  auroc_ref d6_cfg (lastn 4 (List.concat d6_batches)) = AScalar (q 1 4).
Proof. exact d6_zero_score. Qed.

Theorem window_auroc_single_sample_refuted :
  exists (c : acfg) (bs : list (list col)), (0 < aN c)%nat /\ Forall (fun b => avalid c b = true) bs /\
    cmp (wauroc V_code) c (after_updates (wauroc V_code) c bs) = AErr /\
    auroc_ref c (lastn (aN c) (List.concat bs)) = AScalar (q 1 2).
Proof.
  exists d6_cfg, d6b_batches. destruct d6_single_sample as [E1 E2].
  split; [cbn; auto with arith|split; [repeat constructor|split; [exact E1|exact E2]]].
Qed.

Theorem window_auroc_one_slot_two_tasks_refuted :
  exists (c : acfg) (bs : list (list col)), (0 < aN c)%nat /\ Forall (fun b => avalid c b = true) bs /\
    cmp (wauroc V_code) c (after_updates (wauroc V_code) c bs) = AScalar (q 0 1) /\
    auroc_ref c (lastn (aN c) (List.concat bs)) = AVec [q 1 2; q 1 2].
Proof.
  exists d6c_cfg, d6c_batches. destruct d6_one_slot_two_tasks as [E1 E2].
  split; [cbn; auto with arith|split; [repeat constructor|split; [exact E1|exact E2]]].
Qed.

(* ---- the REPAIRED compute() (fixes/window-auroc-compute.patch; model wauroc_cfix): the whole
   buffer is evaluated (unfilled slots have weight 0), [0] instead of squeeze().  Sound because
   samples of weight 0 never change the AUROC: *)
Theorem auroc_zero_weight_samples_ignored :
  forall l Z : list sample, Forall (fun x => wt x = 0%Qc) Z -> auroc_spec (l ++ Z) = auroc_spec l.
Proof. exact auroc_spec_zero_weights. Qed.
(* C13 for the repaired class, NO proviso: every window size >= 1, every score (0 included), every
   batch size, one sample or many, num_tasks >= 1: compute() is the AUROC definition of exactly the
   last N samples, per task. *)
Theorem window_auroc_refines_lastN :
  forall (c : acfg) (bs : list (list col)), (0 < aN c)%nat -> List.concat bs <> [] ->
    cmp (wauroc_cfix V_code) c (after_updates (wauroc_cfix V_code) c bs) = auroc_ref c (lastn (aN c) (List.concat bs)).
Proof. exact auroc_fix_refines_lastN. Qed.
(* non-vacuity: the three D6 witnesses on the repaired model: 1/4, 1/2, [1/2; 1/2] *)
Example window_auroc_fixed_on_witnesses :
  cmp (wauroc_cfix V_code) d6_cfg (after_updates (wauroc_cfix V_code) d6_cfg d6_batches) = AScalar (q 1 4) /\
  cmp (wauroc_cfix V_code) d6_cfg (after_updates (wauroc_cfix V_code) d6_cfg d6b_batches) = AScalar (q 1 2) /\
  cmp (wauroc_cfix V_code) d6c_cfg (after_updates (wauroc_cfix V_code) d6c_cfg d6c_batches) = AVec [q 1 2; q 1 2].
Proof. repeat split; vm_compute; reflexivity. Qed.

(* non-vacuity: the docstring example of WindowedClickThroughRate (window 2, three updates) *)
Example wctr_docstring_example :
  let b (l : list Z) : wbatch := {| b_x := [map (fun z => mkq z 1) l]; b_y := []; b_w := [map (fun _ => mkq 1 1) l] |} in
  let c := {| cT := 1; cN := 2; cLife := true; cOpt := false |} in
  cmp (wctr V_code) c (after_updates (wctr V_code) c
        [b [0;1;0;1;1;0;0;1]%Z; b [0;1;0;1;1;1;1;1]%Z; b [0;1;0;1;0;0;0;1]%Z])
  = WOut (Some [mkq 13 24]) [mkq 9 16].
Proof. vm_compute. reflexivity. Qed.

Print Assumptions window_refines_queue.
Print Assumptions window_refines_queue_ctr.
Print Assumptions window_refines_queue_wcal.
Print Assumptions window_refines_queue_mse.
Print Assumptions window_refines_queue_ne.
Print Assumptions ne_equiv_same_value.
Print Assumptions window_auroc_buffer_holds_lastN.
Print Assumptions window_auroc_reads_lastN.
Print Assumptions window_auroc_compute_is_spec.
Print Assumptions window_auroc_zero_score_refuted.
Print Assumptions window_auroc_zero_score_witness.
Print Assumptions window_auroc_single_sample_refuted.
Print Assumptions window_auroc_one_slot_two_tasks_refuted.
Print Assumptions auroc_zero_weight_samples_ignored.
Print Assumptions window_auroc_refines_lastN.
Print Assumptions window_auroc_fixed_on_witnesses.
Print Assumptions wctr_docstring_example.
