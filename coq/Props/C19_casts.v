(* C19 -- every narrowing cast site of the tree under test is a reviewed one (table theorem over the AST-regenerated
   Generated/CastSites.v).  Together with totals_exact_for_wide_kinds / totals_exact_for_wide_paths this closes the gap
   between "the accumulator is wide" and "everything an addend passes through is wide": a narrowing introduced anywhere in
   torcheval/metrics breaks [all_cast_sites_reviewed] until it is reviewed (and either classified or recorded as a finding). *)
From Coq Require Import List String Bool.
From TE Require Import Models.CastAudit Generated.CastSites.
Import ListNotations.

Theorem cast_translation_total : cast_translation_problems = [].
Proof. vm_compute. reflexivity. Qed.

Theorem all_cast_sites_reviewed : unreviewed cast_sites = [].
Proof. vm_compute. reflexivity. Qed.

Theorem all_cast_sites_reviewed_forall : forall s, In s cast_sites -> reviewed s = true.
Proof.
  intros s H. assert (E : forallb reviewed cast_sites = true) by (vm_compute; reflexivity).
  rewrite forallb_forall in E. exact (E s H).
Qed.

(* non-vacuity: the table is not empty, and an un-reviewed site IS detected *)
Example cast_sites_nonempty : cast_sites <> [].
Proof. vm_compute. discriminate. Qed.
Example inserted_float_cast_detected :
  unreviewed (("functional/aggregation/sum.py", "_sum_update", ".float()", 1) :: cast_sites)
  = [("functional/aggregation/sum.py", "_sum_update", ".float()", 1)].
Proof. vm_compute. reflexivity. Qed.

Print Assumptions cast_translation_total.
Print Assumptions all_cast_sites_reviewed.
Print Assumptions all_cast_sites_reviewed_forall.
