(* C01 for the additive binned classes: any sharding / merge order of the same batches computes the
   same result.  Instances of the generic theorem (Props/C01.v); the state abstraction is the triple of
   count tensors (num_fn, num_fp, num_tp). *)
From Coq Require Import ZArith List Permutation.
From TE Require Import Base.Val Algebra.Metric Algebra.MergeTree Algebra.Additive Models.Binned Props.C01.
Import ListNotations.

Corollary binary_binned_prc_sharding : forall (c : bcfg) (t t' : mtree bprc_metric),
    Forall (fun b => avalid bprc_spec c b = true) (stream _ t) ->
    Forall (fun b => avalid bprc_spec c b = true) (stream _ t') ->
    Permutation (stream _ t) (stream _ t') ->
    cmp bprc_metric c (run bprc_metric c t) = cmp bprc_metric c (run bprc_metric c t').
Proof. exact (additive_family_sharding bprc_spec). Qed.
Corollary multiclass_binned_prc_sharding : forall (c : bcfg) (t t' : mtree mcprc_metric),
    Forall (fun b => avalid mcprc_spec c b = true) (stream _ t) ->
    Forall (fun b => avalid mcprc_spec c b = true) (stream _ t') ->
    Permutation (stream _ t) (stream _ t') ->
    cmp mcprc_metric c (run mcprc_metric c t) = cmp mcprc_metric c (run mcprc_metric c t').
Proof. exact (additive_family_sharding mcprc_spec). Qed.
Corollary multilabel_binned_prc_sharding : forall (c : bcfg) (t t' : mtree mlprc_metric),
    Forall (fun b => avalid mlprc_spec c b = true) (stream _ t) ->
    Forall (fun b => avalid mlprc_spec c b = true) (stream _ t') ->
    Permutation (stream _ t) (stream _ t') ->
    cmp mlprc_metric c (run mlprc_metric c t) = cmp mlprc_metric c (run mlprc_metric c t').
Proof. exact (additive_family_sharding mlprc_spec). Qed.
Corollary binary_binned_auprc_sharding : forall (c : bcfg) (t t' : mtree bauprc_metric),
    Forall (fun b => avalid bauprc_spec c b = true) (stream _ t) ->
    Forall (fun b => avalid bauprc_spec c b = true) (stream _ t') ->
    Permutation (stream _ t) (stream _ t') ->
    cmp bauprc_metric c (run bauprc_metric c t) = cmp bauprc_metric c (run bauprc_metric c t').
Proof. exact (additive_family_sharding bauprc_spec). Qed.
Corollary multiclass_binned_auprc_sharding : forall (c : bcfg) (t t' : mtree mcauprc_metric),
    Forall (fun b => avalid mcauprc_spec c b = true) (stream _ t) ->
    Forall (fun b => avalid mcauprc_spec c b = true) (stream _ t') ->
    Permutation (stream _ t) (stream _ t') ->
    cmp mcauprc_metric c (run mcauprc_metric c t) = cmp mcauprc_metric c (run mcauprc_metric c t').
Proof. exact (additive_family_sharding mcauprc_spec). Qed.
Corollary multilabel_binned_auprc_sharding : forall (c : bcfg) (t t' : mtree mlauprc_metric),
    Forall (fun b => avalid mlauprc_spec c b = true) (stream _ t) ->
    Forall (fun b => avalid mlauprc_spec c b = true) (stream _ t') ->
    Permutation (stream _ t) (stream _ t') ->
    cmp mlauprc_metric c (run mlauprc_metric c t) = cmp mlauprc_metric c (run mlauprc_metric c t').
Proof. exact (additive_family_sharding mlauprc_spec). Qed.

(* non-vacuity: two shards (one of them empty) merged, then a post-merge update; duplicated thresholds *)
Example binned_tree_example :
  let c := {| bD := 8; bthr := TList [0; 4; 4; 8]%Z; bmem := true; bC := 2; bmacro := true |} in
  let b1 : list mcsample := [([4; 1]%Z, 0%nat); ([3; 8]%Z, 1%nat)] in
  let b2 : list mcsample := [([9; 0]%Z, 1%nat)] in
  let t := Merge mcauprc_metric (Shard mcauprc_metric [b1]) [Shard mcauprc_metric []] [b2] in
  let t' := Shard mcauprc_metric [b2; b1] in
  Forall (fun b => avalid mcauprc_spec c b = true) (stream _ t) /\
  enc_auprc (cmp mcauprc_metric c (run mcauprc_metric c t)) = enc_auprc (cmp mcauprc_metric c (run mcauprc_metric c t')).
Proof. vm_compute. split; [repeat constructor|reflexivity]. Qed.

Print Assumptions binary_binned_prc_sharding.
Print Assumptions multiclass_binned_prc_sharding.
Print Assumptions multilabel_binned_prc_sharding.
Print Assumptions binary_binned_auprc_sharding.
Print Assumptions multiclass_binned_auprc_sharding.
Print Assumptions multilabel_binned_auprc_sharding.
