(* C07 -- regression, aggregation, statistical and image metrics equal their formulas.
   Exact arithmetic over Qc (partial w.r.t. floating-point rounding, see DESIGN C07 "Limits");
   IEEE conventions via xq; log / exp / log10 are symbolic nodes over exact sufficient statistics.
   Statements only; proofs in Proofs/RegressionP.v. *)
From Coq Require Import ZArith List Bool QArith Qcanon String.
From TE Require Import Base.Val Base.Nd Base.Xq Algebra.Metric Algebra.MergeTree
  Models.Aggregation Models.Aggregation2 Models.Regression Models.Stat Proofs.RegressionP Proofs.CovP Proofs.WassP Models.Fad Proofs.FadP.
Import ListNotations.
Open Scope list_scope.
Open Scope Qc_scope.

(* ---- Max / Min (definitional): after any stream of non-empty updates the state is -inf (+inf) if
   nothing was seen, else an element of the data that bounds all data ---- *)
Theorem max_spec : forall bs, Forall (fun b => b <> []) bs ->
  is_max_of (cmp max_metric tt (fold_left (upd max_metric tt) bs (init max_metric tt))) (List.concat bs).
Proof. intros bs H. exact (max_stream_spec bs NInf [] (or_introl (conj eq_refl eq_refl)) H). Qed.
Theorem min_spec : forall bs, Forall (fun b => b <> []) bs ->
  is_min_of (cmp min_metric tt (fold_left (upd min_metric tt) bs (init min_metric tt))) (List.concat bs).
Proof. intros bs H. exact (min_stream_spec bs PInf [] (or_introl (conj eq_refl eq_refl)) H). Qed.

(* ---- R2Score ---- *)
(* TSS from the sufficient statistics (sum y^2 - (sum y)^2 / n) is the centered sum of squares *)
Theorem r2_suffstat_spec : forall ys : list Qc, ys <> [] ->
  r2_tss (lenQ ys) (sumQ ys) (sumQ (map sq ys)) = sumQ (map (fun y => sq (y - sumQ ys / lenQ ys)) ys).
Proof. exact r2_tss_centered. Qed.
(* the functional / class value on 1-D data: 1 - RSS/TSS with the textbook TSS, adjusted form when
   num_regressors <> 0, the same for raw_values / uniform_average / variance_weighted *)
Theorem r2_score_1d_spec : forall c xs ts,
  r2_w c = None -> ts <> [] -> mkq 2 1 <= lenQ ts -> mkq (r2_p c) 1 < lenQ ts - 1 ->
  let mean := sumQ ts / lenQ ts in
  let tss := sumQ (map (fun t => sq (t - mean)) ts) in
  tss <> 0 ->
  r2_cmp c (r2_stat c (b1d xs ts None)) =
  R2Val (XS (Fin (r2_adjusted (r2_p c) (lenQ ts) (1 - sumQ (sqerrs xs ts) / tss)))).
Proof. exact r2_1d_spec. Qed.
(* the two ValueError guards *)
Theorem r2_guard_too_few_samples : forall c s, nth 0 (a_sc s) 0 < mkq 2 1 -> r2_cmp c s = R2Err "ValueError".
Proof. exact r2_guard_few. Qed.
Theorem r2_guard_num_regressors : forall c s,
  mkq 2 1 <= nth 0 (a_sc s) 0 -> nth 0 (a_sc s) 0 - 1 <= mkq (r2_p c) 1 -> r2_cmp c s = R2Err "ValueError".
Proof. exact r2_guard_regressors. Qed.

(* ---- MeanSquaredError ---- *)
(* the sign * clamp(|w|, eps) denominator is the total weight itself unless |w| < eps *)
Theorem mse_denominator_spec : forall sw, (eps64 <= sw \/ sw <= - eps64 \/ sw = 0) -> mse_den sw = sw.
Proof. intros sw [H|[H| ->]]; [apply mse_den_pos|apply mse_den_neg|apply mse_den_zero]; assumption. Qed.
Theorem mse_spec : forall c xs ts ws, mse_w c = None -> eps64 <= sumQ ws ->
  mse_cmp c (mse_stat c (b1d xs ts (Some ws))) = XS (Fin (sumQ (map2 Qcmult ws (sqerrs xs ts)) / sumQ ws)).
Proof. exact mse_1d_spec. Qed.
Theorem mse_unweighted_spec : forall c xs ts, mse_w c = None -> ts <> [] ->
  mse_cmp c (mse_stat c (b1d xs ts None)) = XS (Fin (sumQ (sqerrs xs ts) / lenQ ts)).
Proof. exact mse_1d_unweighted_spec. Qed.

(* ---- Covariance: Chan's combine of two batches, per matrix entry (columns xs, zs) ---- *)
Theorem cov_chan_entry_spec : forall xa za xb zb : list Qc,
  List.length xa = List.length za -> List.length xb = List.length zb -> xa <> [] -> xb <> [] ->
  ss_batch xa za + (ss_batch xb zb
  + (sumQ xa / lenQ xa - sumQ xb / lenQ xb) * (sumQ za / lenQ za - sumQ zb / lenQ zb)
    * (lenQ xb * lenQ xa) / (lenQ xa + lenQ xb))
  = ss_batch (xa ++ xb) (za ++ zb).
Proof. exact chan_entry. Qed.

(* the same at the level of the model's vectors / matrices: Covariance._update applied to the statistics of
   two non-empty batches is the two-pass statistic (sum, scatter around the mean) of the concatenated rows *)
Theorem cov_chan_spec : forall d a b, rows_ok d a = true -> rows_ok d b = true -> a <> [] -> b <> [] ->
  cov_step (cov_stat d a) (cov_stat d b) = cov_stat d (a ++ b).
Proof. exact cov_step_concat. Qed.
(* streaming = two-pass for every non-empty stream of non-empty batches *)
Theorem cov_stream_spec : forall d b bs, Forall (fun b => rows_ok d b = true /\ b <> []) (b :: bs) ->
  fold_left (upd cov_metric d) (b :: bs) (init cov_metric d) = cov_stat d (List.concat (b :: bs)).
Proof. exact cov_stream. Qed.
(* compute(): mean = sum/n and the UNBIASED covariance scatter/(n-1) of the two-pass definition; ValueError for n < 2 *)
Theorem cov_two_pass_spec : forall d rows, rows_ok d rows = true -> (2 <= List.length rows)%nat ->
  let n := qofnat (List.length rows) in
  cov_cmp (cov_stat d rows) =
  CovVal (vec_of d (fun i => sumQ (col i rows) / n))
         (mat_of d (fun i j => (0 + scatter (sumQ (col i rows) / n) (sumQ (col j rows) / n) (col i rows) (col j rows)) / (n - 1))).
Proof. exact cov_compute_two_pass. Qed.
Theorem cov_guard_too_few_samples : forall s, (cv_n s < 2)%Z -> cov_cmp s = CovErr "ValueError".
Proof. exact cov_guard. Qed.

(* ---- AUC: trapezoid rule over the pairs, after a STABLE sort by x when reorder=True
   (pairs with equal x keep their input order: the result is order-dependent inside x-ties, C12) ---- *)
Theorem auc_trapz_spec : forall reorder xs ys,
  exists l, auc_row reorder xs ys = trapz l /\ Permutation.Permutation (combine xs ys) l
            /\ (if reorder then Sorted.StronglySorted le1 l else l = combine xs ys).
Proof. exact auc_row_spec. Qed.
Theorem trapz_rule : forall a b r, trapz (a :: b :: r) = (fst b - fst a) * (snd a + snd b) * half + trapz (b :: r).
Proof. exact trapz_step. Qed.
Theorem auc_sort_is_stable : forall p q l, fst p = fst q -> ins_pair p (q :: l) = p :: q :: l.
Proof. exact ins_pair_stable. Qed.

(* ---- Wasserstein1D: the value is the sum, over consecutive points v < v' of the sorted merged support, of
   |F_x(v) - F_y(v)| * (v' - v), where the model's F (cumulative weight at the searchsorted-right index of v in
   the value-sorted sample / total weight) IS the weighted empirical CDF of the sample as given:
   (sum of w_i with x_i <= v) / (sum of all w_i) -- any input order, ties included ---- *)
Theorem wasserstein_cdf_spec : forall x xw y yw,
  wass x xw y yw = sumQ (w_terms (sort_pairs (combine x xw)) (sort_pairs (combine y yw)) (sort_q (x ++ y)))
  /\ (forall l v, cdf_at (sort_pairs l) v = (0 + wsum_le l v) / (0 + wsum l))
  /\ (forall sx sy v v' r, w_terms sx sy (v :: v' :: r) = qabs (cdf_at sx v - cdf_at sy v) * (v' - v) :: w_terms sx sy (v' :: r))
  /\ Permutation.Permutation (x ++ y) (sort_q (x ++ y)) /\ Sorted.StronglySorted Qcle (sort_q (x ++ y)).
Proof.
  intros. split; [reflexivity|]. split; [exact cdf_spec|]. split; [reflexivity|].
  split; [apply sort_q_perm|apply sort_q_sorted].
Qed.

(* ---- Throughput (definitional): items / seconds, 0.0 before any update ---- *)
Theorem throughput_spec : forall bs : list (Qc * Qc),
  fold_left tp_upd bs (0, 0) = (0 + sumQ (map fst bs), 0 + sumQ (map snd bs)).
Proof. intros bs. exact (tp_updates bs (0, 0)). Qed.

(* ---- PSNR: exact sufficient statistics (count, sum of squared errors, target range); the value is the
   symbolic node 10*log10(data_range^2 / (sse/n)) ---- *)
Theorem psnr_suffstat_fixed_range : forall r bs s,
  p_n (fold_left (p_upd (Some r)) bs s) = p_n s + sumQ (map (fun b => qofnat (List.length (snd b))) bs)
  /\ p_sse (fold_left (p_upd (Some r)) bs s) = p_sse s + sumQ (map p_sse_of bs)
  /\ p_dr (fold_left (p_upd (Some r)) bs s) = p_dr s.
Proof. exact psnr_updates_fixed. Qed.
Theorem psnr_suffstat_auto_range : forall bs s,
  p_n (fold_left (p_upd None) bs s) = p_n s + sumQ (map (fun b => qofnat (List.length (snd b))) bs)
  /\ p_sse (fold_left (p_upd None) bs s) = p_sse s + sumQ (map p_sse_of bs).
Proof. exact psnr_updates_auto. Qed.
Theorem psnr_auto_range_spec : forall s b,
  p_dr (p_upd None s b) = xsub (p_mx (p_upd None s b)) (p_mn (p_upd None s b))
  /\ p_mx (p_upd None s b) = xmax (bmax (snd b)) (p_mx s) /\ p_mn (p_upd None s b) = xmin (bmin (snd b)) (p_mn s).
Proof. exact psnr_auto_range. Qed.
Theorem psnr_spec : forall dr sse n, n <> 0 -> sse <> 0 ->
  psnr_ratio (Fin dr) sse n = Fin (dr * dr / (sse / n)).
Proof. exact psnr_ratio_fin. Qed.

(* ---- Perplexity: ignore_index filters exactly the masked positions; sum_log_probs is the log-linear form
   sum over kept positions of ( ln(sum_j exp x_ij) - x_{i,t_i} ), num_total the number kept ---- *)
Theorem perplexity_spec : forall ig rows ts,
  snd (px_stat ig rows ts) = qofnat (List.length (px_kept ig rows ts))
  /\ f_k (fst (px_stat ig rows ts)) = sumQ (map (fun rt => - nth (Z.to_nat (snd rt)) (fst rt) 0) (px_kept ig rows ts))
  /\ f_logs (fst (px_stat ig rows ts)) = map (fun rt => (1, sumexp (fst rt))) (px_kept ig rows ts).
Proof. exact px_stat_spec. Qed.

(* ---- BinaryNormalizedEntropy: weights / positives are plain sums; a sample's cross entropy is the
   log-linear form  -w t ln p - w (1-t) ln(1-p) ---- *)
Theorem ne_counts_spec : forall l xs ts ws,
  snd (fst (ne_row l xs ts ws)) = sumQ ws /\ snd (ne_row l xs ts ws) = sumQ (map2 Qcmult ws ts).
Proof. exact ne_row_counts. Qed.
Theorem ne_term_spec : forall x t w, x <> 0 -> 1 - x <> 0 -> w * t <> 0 -> w * (1 - t) <> 0 ->
  ne_term false x t w = {| f_k := 0 + 0; f_logs := [(- (w * t), vq x); (- (w * (1 - t)), vq (1 - x))] |}.
Proof. exact ne_term_prob. Qed.

(* ---- FrechetAudioDistance / gaussian_frechet_distance ---- *)
(* partial sums -> moments: for the embedded frames `rows` of one side (n >= 2), compute()'s mean is the column mean and
   its covariance  cov_partial/(n-1) - mean^T mean n/(n-1)  is the UNBIASED two-pass covariance scatter/(n-1) *)
Theorem fad_moments_spec : forall d (rows : matq), (2 <= List.length rows)%nat ->
  let n := qofnat (List.length rows) in
  fad_mean n (colsums d rows) = vec_of d (fun i => sumQ (col i rows) / n)
  /\ fad_cov n (colsums d rows) (gram d rows)
     = mat_of d (fun i j => scatter (sumQ (col i rows) / n) (sumQ (col j rows) / n) (col i rows) (col j rows) / (n - 1)).
Proof. exact fad_moments. Qed.
(* distance = |mu_x - mu_y|^2 + tr cov_x + tr cov_y - 2 c, with the exact rational first two terms and
   c = sum sqrt eig(cov_x cov_y) the only uninterpreted node (evaluated by the harness at 200 bits) *)
Theorem frechet_structure : forall d s,
  let pc := nrows (nget 0 s) in let pm := hd [] (nrows (nget 1 s)) in let pn := nsc (nget 2 s) in
  let tc := nrows (nget 3 s) in let tm := hd [] (nrows (nget 4 s)) in let tn := nsc (nget 5 s) in
  mkq 2 1 <= pn -> mkq 2 1 <= tn ->
  fad_cmp d s =
  let mx := fad_mean pn pm in let cx := fad_cov pn pm pc in let my := fad_mean tn tm in let cy := fad_cov tn tm tc in
  rsub (radd (vq (sumQ (map sq (vsub mx my)))) (vq (trace cx + trace cy))) (rmul (VZ 2) (sqrt_eig_sum cx cy)).
Proof. exact fad_cmp_structure. Qed.
(* fewer than two frames on a side: non-finite covariance -> ValueError (since /repo e524ac4) *)
Theorem fad_guard_too_few_frames : forall d s,
  nsc (nget 2 s) < mkq 2 1 \/ nsc (nget 5 s) < mkq 2 1 -> fad_cmp d s = verr "ValueError".
Proof. exact fad_cmp_guard. Qed.
Example frechet_example :   (* mu (0,0) vs (1,2), cov I vs 4I: 5 + 2 + 8 - 2 c(I, 4I) *)
  frechet [mkq 0 1; mkq 0 1] [[mkq 1 1; mkq 0 1]; [mkq 0 1; mkq 1 1]] [mkq 1 1; mkq 2 1] [[mkq 4 1; mkq 0 1]; [mkq 0 1; mkq 4 1]]
  = rsub (radd (VQ 5 1) (VQ 10 1)) (rmul (VZ 2) (VT "trsqrtprod" [VL [VL [VQ 1 1; VQ 0 1]; VL [VQ 0 1; VQ 1 1]]; VL [VL [VQ 4 1; VQ 0 1]; VL [VQ 0 1; VQ 4 1]]])).
Proof. vm_compute. reflexivity. Qed.

(* ---- non-vacuity: the hypotheses are satisfiable and the models compute the expected values ---- *)
Definition q (a : Z) (b : positive) : Qc := mkq a b.
Definition ex_r2 : r2_cfg := {| r2_mode := 2; r2_p := 1; r2_w := None |}.
(* variance_weighted, num_regressors = 1, n = 4: RSS 2, TSS 5, R^2 = 3/5, adjusted 1 - (2/5)(3/2) = 2/5 *)
Example r2_adjusted_example :
  r2_out_val (r2_cmp ex_r2 (r2_stat ex_r2 (b1d [q 1 1; q 2 1; q 2 1; q 5 1] [q 1 1; q 2 1; q 3 1; q 4 1] None))) = VQ 2 5.
Proof. vm_compute. reflexivity. Qed.
Example r2_spec_hypotheses_satisfiable :
  let ts := [q 1 1; q 2 1; q 3 1; q 4 1] in
  r2_w ex_r2 = None /\ ts <> [] /\ mkq 2 1 <= lenQ ts /\ mkq (r2_p ex_r2) 1 < lenQ ts - 1
  /\ sumQ (map (fun t => sq (t - sumQ ts / lenQ ts)) ts) <> 0.
Proof.
  cbv zeta. split; [reflexivity|]. split; [discriminate|]. split; [apply qle_iff; reflexivity|].
  split; [apply qlt_iff; reflexivity|]. intro E. apply qeq_iff in E. vm_compute in E. discriminate.
Qed.
Example r2_guard_example :    (* n = 2, num_regressors = 1 >= n - 1 *)
  r2_out_val (r2_cmp ex_r2 (r2_stat ex_r2 (b1d [q 1 1; q 2 1] [q 1 1; q 2 1] None))) = verr "ValueError".
Proof. vm_compute. reflexivity. Qed.
Example r2_constant_target_example :   (* TSS = 0, RSS > 0: 1 - inf = -inf (IEEE), as torch returns *)
  r2_out_val (r2_cmp {| r2_mode := 0; r2_p := 0; r2_w := None |}
                (r2_stat ex_r2 (b1d [q 1 1; q 2 1; q 0 1] [q 3 1; q 3 1; q 3 1] None))) = VT "ninf" [].
Proof. vm_compute. reflexivity. Qed.
Example mse_weighted_example :   (* (1/2 * 1 + 3/2 * 4) / 2 = 13/4 *)
  let c := {| mse_raw := false; mse_w := None |} in
  xnd_val (mse_cmp c (mse_stat c (b1d [q 1 1; q 3 1] [q 0 1; q 1 1] (Some [q 1 2; q 3 2])))) = VQ 13 4.
Proof. vm_compute. reflexivity. Qed.
Example cov_example :
  cov_out_val (cov_cmp (cov_stat 2 [[q 1 1; q 2 1]; [q 3 1; q 1 2]; [q 0 1; q 5 1]]))
  = VL [VL [VQ 4 3; VQ 5 2]; VL [VL [VQ 7 3; VQ (-13) 4]; VL [VQ (-13) 4; VQ 21 4]]].
Proof. vm_compute. reflexivity. Qed.
(* AUC(reorder=True) inside an x-tie: the stable sort keeps the input order, so the value depends on it (C12) *)
Example auc_tie_order_example :
  vq (auc_row true [q 0 1; q 1 1; q 1 1; q 3 1] [q 0 1; q 1 1; q 3 1; q 0 1]) = VQ 7 2
  /\ vq (auc_row true [q 0 1; q 1 1; q 1 1; q 3 1] [q 0 1; q 3 1; q 1 1; q 0 1]) = VQ 5 2.
Proof. vm_compute. split; reflexivity. Qed.
Example wasserstein_examples :   (* a shift by 5 costs 5; weighted, unsorted, tied samples *)
  vq (wass [q 0 1; q 1 1; q 3 1] [q 1 1; q 1 1; q 2 1] [q 5 1; q 6 1; q 8 1] [q 1 1; q 1 1; q 2 1]) = VQ 5 1
  /\ vq (wass [q 3 1; q 1 1; q 1 1] [q 1 2; q 1 1; q 2 1] [q 1 1; q 2 1] [q 3 1; q 1 1]) = VQ 1 4.
Proof. vm_compute. split; reflexivity. Qed.
Example psnr_examples :   (* auto range 1, mse 1/8: 10*log10(8); no data: nan *)
  p_cmp (fold_left (p_upd None) [([q 1 2; q 1 1], [q 0 1; q 1 1])] (p_init None)) = rmul (VZ 10) (rlog10 (VQ 8 1))
  /\ p_cmp (p_init None) = VT "nan" [].
Proof. vm_compute. split; reflexivity. Qed.
Example perplexity_ignore_index_example :   (* the token with target 2 = ignore_index is dropped *)
  vq (snd (px_stat (Some 2%Z) [[q 1 1; q 0 1]; [q 0 1; q 2 1]; [q 1 2; q 1 2]] [0%Z; 2%Z; 1%Z])) = VQ 2 1
  /\ form_val (fst (px_stat (Some 2%Z) [[q 1 1; q 0 1]; [q 0 1; q 2 1]] [0%Z; 2%Z]))
     = radd (VQ (-1) 1) (rmul (VQ 1 1) (rln (radd (rexp (VQ 1 1)) (rexp (VQ 0 1))))).
Proof. vm_compute. split; reflexivity. Qed.
Example ne_clamp_example :   (* probability 0 for a positive of weight 2: the clamped logarithm gives 2 * 100 *)
  form_val (ne_term false (q 0 1) (q 1 1) (q 2 1)) = VQ 200 1.
Proof. vm_compute. reflexivity. Qed.
Example max_example :
  xq_val (cmp max_metric tt (fold_left (upd max_metric tt) [[q 1 1; q (-3) 1]; [q 5 2]] (init max_metric tt))) = VQ 5 2.
Proof. vm_compute. reflexivity. Qed.

Print Assumptions max_spec.
Print Assumptions min_spec.
Print Assumptions r2_suffstat_spec.
Print Assumptions r2_score_1d_spec.
Print Assumptions r2_guard_too_few_samples.
Print Assumptions r2_guard_num_regressors.
Print Assumptions mse_denominator_spec.
Print Assumptions mse_spec.
Print Assumptions mse_unweighted_spec.
Print Assumptions cov_chan_entry_spec.
Print Assumptions auc_trapz_spec.
Print Assumptions trapz_rule.
Print Assumptions auc_sort_is_stable.
Print Assumptions throughput_spec.
Print Assumptions psnr_suffstat_fixed_range.
Print Assumptions psnr_suffstat_auto_range.
Print Assumptions psnr_auto_range_spec.
Print Assumptions psnr_spec.
Print Assumptions perplexity_spec.
Print Assumptions ne_counts_spec.
Print Assumptions ne_term_spec.
Print Assumptions cov_chan_spec.
Print Assumptions cov_stream_spec.
Print Assumptions cov_two_pass_spec.
Print Assumptions cov_guard_too_few_samples.
Print Assumptions wasserstein_cdf_spec.
Print Assumptions fad_moments_spec.
Print Assumptions frechet_structure.
Print Assumptions fad_guard_too_few_frames.
