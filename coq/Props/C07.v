(* C07 -- regression, aggregation, statistical and image metrics equal their formulas.
   Exact arithmetic over Qc (partial w.r.t. floating-point rounding, see DESIGN C07 "Limits");
   IEEE conventions via xq; log / exp / log10 are symbolic nodes over exact sufficient statistics.
   Statements only; proofs in Proofs/RegressionP.v. *)
From Coq Require Import ZArith List Bool QArith Qcanon String.
From TE Require Import Base.Val Base.Nd Base.Xq Algebra.Metric Algebra.MergeTree
  Models.Aggregation Models.Aggregation2 Models.Regression Models.Stat Proofs.RegressionP.
Import ListNotations.
Open Scope list_scope.
Open Scope Qc_scope.

(* ---- Max / Min (definitional): after any stream of non-empty updates the state is -inf (+inf) if
   nothing was seen, else an element of the data that bounds all data ---- *)
Theorem max_spec : forall bs, Forall (fun b => b <> []) bs ->
  is_max_of (cmp max_metric tt (fold_left (upd max_metric tt) bs (init max_metric tt))) (List.concat bs).
Proof. intros bs H. exact (max_stream_spec bs NInf [] (or_introl (conj eq_refl eq_refl)) H). Qed.
Theorem min_spec : forall bs, Forall (fun b => b <> []) bs ->
  is_min_of (cmp min_metric tt (fold_left (upd min_metric tt) bs (init min_metric tt))) (List.concat bs).
Proof. intros bs H. exact (min_stream_spec bs PInf [] (or_introl (conj eq_refl eq_refl)) H). Qed.

(* ---- R2Score ---- *)
(* TSS from the sufficient statistics (sum y^2 - (sum y)^2 / n) is the centered sum of squares *)
Theorem r2_suffstat_spec : forall ys : list Qc, ys <> [] ->
  r2_tss (lenQ ys) (sumQ ys) (sumQ (map sq ys)) = sumQ (map (fun y => sq (y - sumQ ys / lenQ ys)) ys).
Proof. exact r2_tss_centered. Qed.
(* the functional / class value on 1-D data: 1 - RSS/TSS with the textbook TSS, adjusted form when
   num_regressors <> 0, the same for raw_values / uniform_average / variance_weighted *)
Theorem r2_score_1d_spec : forall c xs ts,
  r2_w c = None -> ts <> [] -> mkq 2 1 <= lenQ ts -> mkq (r2_p c) 1 < lenQ ts - 1 ->
  let mean := sumQ ts / lenQ ts in
  let tss := sumQ (map (fun t => sq (t - mean)) ts) in
  tss <> 0 ->
  r2_cmp c (r2_stat c (b1d xs ts None)) =
  R2Val (XS (Fin (r2_adjusted (r2_p c) (lenQ ts) (1 - sumQ (sqerrs xs ts) / tss)))).
Proof. exact r2_1d_spec. Qed.
(* the two ValueError guards *)
Theorem r2_guard_too_few_samples : forall c s, nth 0 (a_sc s) 0 < mkq 2 1 -> r2_cmp c s = R2Err "ValueError".
Proof. exact r2_guard_few. Qed.
Theorem r2_guard_num_regressors : forall c s,
  mkq 2 1 <= nth 0 (a_sc s) 0 -> nth 0 (a_sc s) 0 - 1 <= mkq (r2_p c) 1 -> r2_cmp c s = R2Err "ValueError".
Proof. exact r2_guard_regressors. Qed.

(* ---- MeanSquaredError ---- *)
(* the sign * clamp(|w|, eps) denominator is the total weight itself unless |w| < eps *)
Theorem mse_denominator_spec : forall sw, (eps64 <= sw \/ sw <= - eps64 \/ sw = 0) -> mse_den sw = sw.
Proof. intros sw [H|[H| ->]]; [apply mse_den_pos|apply mse_den_neg|apply mse_den_zero]; assumption. Qed.
Theorem mse_spec : forall c xs ts ws, mse_w c = None -> eps64 <= sumQ ws ->
  mse_cmp c (mse_stat c (b1d xs ts (Some ws))) = XS (Fin (sumQ (map2 Qcmult ws (sqerrs xs ts)) / sumQ ws)).
Proof. exact mse_1d_spec. Qed.
Theorem mse_unweighted_spec : forall c xs ts, mse_w c = None -> ts <> [] ->
  mse_cmp c (mse_stat c (b1d xs ts None)) = XS (Fin (sumQ (sqerrs xs ts) / lenQ ts)).
Proof. exact mse_1d_unweighted_spec. Qed.

(* ---- Covariance: Chan's combine of two batches, per matrix entry (columns xs, zs) ---- *)
Theorem cov_chan_entry_spec : forall xa za xb zb : list Qc,
  List.length xa = List.length za -> List.length xb = List.length zb -> xa <> [] -> xb <> [] ->
  ss_batch xa za + (ss_batch xb zb
  + (sumQ xa / lenQ xa - sumQ xb / lenQ xb) * (sumQ za / lenQ za - sumQ zb / lenQ zb)
    * (lenQ xb * lenQ xa) / (lenQ xa + lenQ xb))
  = ss_batch (xa ++ xb) (za ++ zb).
Proof. exact chan_entry. Qed.

Print Assumptions max_spec.
Print Assumptions min_spec.
Print Assumptions r2_suffstat_spec.
Print Assumptions r2_score_1d_spec.
Print Assumptions r2_guard_too_few_samples.
Print Assumptions r2_guard_num_regressors.
Print Assumptions mse_denominator_spec.
Print Assumptions mse_spec.
Print Assumptions mse_unweighted_spec.
Print Assumptions cov_chan_entry_spec.
