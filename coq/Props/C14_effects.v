(* C14 item 1 -- commit discipline, static layer L-eff: meaning of the commit-order check. *)
From Coq Require Import List String Bool Arith.
From TE Require Import Models.Effects Proofs.EffectsP.
Import ListNotations.
Open Scope string_scope.

(* If the path-sensitive abstract run of update()'s skeleton (states Clean/Dirty, loop bodies
   iterated to the fixpoint) never meets a MayRaise in state Dirty, then every concrete execution
   that raises has performed no state write: all attributes are what they were before the call.
   D = labels of calls assumed total (Models/EffectsTables.commit_discharge). *)
Theorem commit_discipline_sound : forall (D : list string) (s : sk) (n : nat),
  commit_ok D s = true -> exec (erase D s) true n -> n = 0.
Proof. exact failed_update_writes_nothing. Qed.

Theorem commit_order_sound_general : forall s r n, exec s r n -> forall d, ok s d = true ->
  (r = true -> d = false /\ n = 0) /\ (n <> 0 -> ex s d = true).
Proof. exact commit_order_sound. Qed.

(* non-vacuity: validate-then-mutate passes; mutate-then-validate and call-inside-a-writing-loop fail *)
Example validate_then_mutate_accepted :
  commit_ok [] (seqs [MayRaise "check"; MayRaise "_update"; InPlace "a"; InPlace "b"]) = true.
Proof. reflexivity. Qed.
Example mutate_then_validate_rejected : commit_ok [] (Seq (InPlace "a") (MayRaise "check")) = false.
Proof. reflexivity. Qed.
Example call_in_writing_loop_rejected :
  commit_ok [] (Seq (MayRaise "check") (Loop (Seq (MayRaise "f") (InPlace "a")))) = false.
Proof. reflexivity. Qed.
Example raising_run_exists : exec (erase [] (Seq (MayRaise "check") (InPlace "a"))) true 0.
Proof. apply e_seq_raise. apply e_raise. Qed.

Print Assumptions commit_discipline_sound.
Print Assumptions commit_order_sound_general.
