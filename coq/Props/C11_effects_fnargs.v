(* C11 -- generated-table obligation: no functional metric (nor any helper under
   torcheval/metrics/functional) mutates a parameter, or a local alias of one, in place. *)
From Coq Require Import List String Bool.
From TE Require Import Models.Effects Generated.FunctionalArgs.
Import ListNotations.

Theorem functional_args_unmodified : forallb functional_ok functional_args = true.
Proof. vm_compute. reflexivity. Qed.

Print Assumptions functional_args_unmodified.
