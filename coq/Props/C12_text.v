(* C12 for the text metrics: the result depends only on the multiset of sentence pairs -- any order of
   the updates, any order of the pairs, any batching.  BLEU: among update streams whose batches are each
   accepted (validity is per update: splitting a batch may make an update invalid -- the documented
   exception, see bleu_split_stays_valid_refuted in C03_text.v). *)
From Coq Require Import ZArith List Bool QArith Qcanon Permutation.
From TE Require Import Base.Val Base.Nd Base.Xq Algebra.Metric Algebra.Additive Models.Text Proofs.TextP Proofs.TextCatP.
From TE Require Proofs.CountingCatP.
Import ListNotations.
Open Scope nat_scope.

(* two update streams whose concatenations are permutations of each other: this covers re-ordering the
   updates, re-ordering pairs inside and across batches, splitting and joining batches, empty batches *)
Theorem word_error_rate_multiset_only : forall bs bs' : list pbatch,
  Permutation (concat bs) (concat bs') -> class_run wer_spec_add tt bs = class_run wer_spec_add tt bs'.
Proof. exact wer_multiset. Qed.
Theorem word_information_preserved_multiset_only : forall bs bs' : list pbatch,
  Permutation (concat bs) (concat bs') -> class_run wip_spec_add tt bs = class_run wip_spec_add tt bs'.
Proof. exact wip_multiset. Qed.
Theorem word_information_lost_multiset_only : forall bs bs' : list pbatch,
  Permutation (concat bs) (concat bs') -> class_run wil_spec_add tt bs = class_run wil_spec_add tt bs'.
Proof. exact wil_multiset. Qed.

(* BLEU: both streams consist of accepted batches *)
Theorem bleu_multiset_only : forall (c : bcfg) (bs bs' : list bbatch),
  Forall (bleu_valid c) bs -> Forall (bleu_valid c) bs' ->
  Permutation (concat bs) (concat bs') -> class_run bleu_spec_add c bs = class_run bleu_spec_add c bs'.
Proof. exact bleu_multiset. Qed.
(* order of the updates alone needs validity of one side only *)
Theorem bleu_order_irrelevant : forall (c : bcfg) (bs bs' : list bbatch),
  Forall (fun b => avalid bleu_spec_add c b = true) bs -> Permutation bs bs' ->
  class_run bleu_spec_add c bs = class_run bleu_spec_add c bs'.
Proof. exact (fun c => CountingCatP.order_invariant bleu_spec_add c). Qed.

(* V_fixed (repaired _bleu_score_compute): the same invariance *)
Theorem bleu_multiset_only_fixed : forall (c : bcfg) (bs bs' : list bbatch),
  Forall (bleu_valid c) bs -> Forall (bleu_valid c) bs' ->
  Permutation (concat bs) (concat bs') ->
  class_run (bleu_spec_add_v V_fixed) c bs = class_run (bleu_spec_add_v V_fixed) c bs'.
Proof. exact (bleu_multiset_v V_fixed). Qed.

(* non-vacuity: the same five pairs, permuted and re-batched *)
Open Scope Z_scope.
Example wer_rebatching_example :
  let p1 := ([1; 2], [1; 3]) in let p2 := ([4; 5; 6; 7], [4; 5; 8]) in let p3 := ([] : sent, [] : sent) in
  let p4 := ([9], [9; 9]) in let p5 := ([2; 2], [] : sent) in
  let bs : list pbatch := [[p1; p2]; []; [p3; p4; p5]] in
  let bs' : list pbatch := [[p5]; [p3; p1]; [p4]; [p2]] in
  Permutation (concat bs) (concat bs') /\ xq_val (class_run wer_spec_add tt bs) = VQ 6 7.
Proof.
  intros p1 p2 p3 p4 p5 bs bs'. split; [|vm_compute; reflexivity].
  cbn [concat app bs bs'].
  apply (Permutation_trans (l' := [p5; p1; p2; p3; p4])).
  - apply Permutation_sym, (Permutation_cons_append [p1; p2; p3; p4] p5).
  - apply perm_skip. apply (Permutation_trans (l' := [p3; p1; p2; p4])).
    + apply Permutation_sym. apply (Permutation_middle [p1; p2] [p4] p3).
    + apply perm_skip, perm_skip. apply perm_swap.
Qed.
Example bleu_rebatching_example :
  let c : bcfg := (2%nat, None) in
  let s1 := ([1; 2; 3; 1; 2], [[1; 2; 4; 5]; [2; 3; 1]]) in let s2 := ([7; 8], [[7; 9]]) in let s3 := ([9], [[] : sent]) in
  let bs : list bbatch := [[s1]; [s2; s3]] in let bs' : list bbatch := [[s3; s2; s1]] in
  Forall (bleu_valid c) bs /\ Forall (bleu_valid c) bs' /\ Permutation (concat bs) (concat bs') /\
  class_run bleu_spec_add c bs = class_run bleu_spec_add c bs'.
Proof.
  intros c s1 s2 s3 bs bs'. split; [vm_compute; repeat constructor|]. split; [vm_compute; repeat constructor|].
  split; [|vm_compute; reflexivity]. cbn [concat app bs bs'].
  apply (Permutation_trans (l' := [s3; s1; s2])).
  - apply Permutation_sym, (Permutation_cons_append [s1; s2] s3).
  - apply perm_skip, perm_swap.
Qed.

Print Assumptions word_error_rate_multiset_only.
Print Assumptions word_information_preserved_multiset_only.
Print Assumptions word_information_lost_multiset_only.
Print Assumptions bleu_multiset_only.
Print Assumptions bleu_order_irrelevant.
Print Assumptions bleu_multiset_only_fixed.
