(* C16 (AUROC part) -- the multi-task / multi-class AUROC kernel decomposes into single rows. *)
From Coq Require Import ZArith List Bool QArith Qcanon Permutation.
From TE Require Import Base.Val Base.Nd Models.Curves Proofs.CurvesP Proofs.CurvesPR Proofs.CurvesMC.
Import ListNotations.

(* torch's flattened dst.masked_scatter_(M', src[M]) writes into row i exactly row i's selected
   values whenever every row of M' has as many trues as the row of M *)
Theorem masked_scatter_rowlocal : forall {A} (D X : list (list A)) (M M' : list (list bool)),
  List.length D = List.length X -> List.length M = List.length X -> List.length M' = List.length X ->
  Forall2 (fun d m' => List.length d = List.length m') D M' ->
  Forall2 (fun m x => List.length m = List.length x) M X ->
  Forall2 (fun m m' => count_true m = count_true m') M M' ->
  scatter2 D M' (select2 M X)
  = map3 (fun d m' sel => fst (scatter_row d m' sel)) D M' (map (fun mx => select (fst mx) (snd mx)) (combine M X)).
Proof. intros A. exact (@masked_scatter_rowlocal_gen A). Qed.

(* the 2-D kernel of _binary_auroc_compute_jit / _multiclass_auroc_compute (rows of any lengths and
   tie structures) = row-wise map of the 1-D algorithm: no row's result depends on another row *)
Theorem auroc_kernel_is_rowwise : forall R : list (list sample), auroc_kernel_sorted R = map auroc_row_sorted R.
Proof. exact auroc_kernel_rowwise_sorted. Qed.
Theorem auroc_multitask_decomposes : forall R : list (list sample), auroc_kernel R = map auroc_row R.
Proof. exact auroc_kernel_rowwise. Qed.

(* task i of BinaryAUROC(num_tasks) = the single-task metric on slice i *)
Theorem binary_auroc_task_slice : forall nt cols i, cols <> [] -> (i < nt)%nat -> nt <> 1%nat ->
  match bauroc_algo nt cols with
  | Rmany a => nth i a half = auroc_row (map (fun col => nth i col dsample) cols)
  | _ => False end.
Proof. exact bauroc_task_slice. Qed.

(* the vectorised multiclass PR-curve pipeline (flip, pad, flattened boolean select, split by row
   counts) = the binary pipeline applied to each row; any sorted rows, any tie structures *)
Theorem prc_multiclass_decomposes : forall R : list (list sample), mc_prc_sorted R = curves3 (map prc_sorted R).
Proof. exact mc_prc_sorted_rowwise. Qed.

(* rows with different tie structure: row 0 constant, row 1 distinct, row 2 all-positive *)
Example kernel_rows_example :
  let w := mkq 1%Z 1%positive in
  let R := [[(1%Z, (true, w)); (1%Z, (false, w)); (1%Z, (true, w))];
            [(3%Z, (true, w)); (2%Z, (false, w)); (1%Z, (true, w))];
            [(2%Z, (true, w)); (2%Z, (true, w)); (1%Z, (true, w))]] in
  auroc_kernel R = [half; half; half] /\ map auroc_row R = [half; half; half].
Proof. vm_compute. split; reflexivity. Qed.

Print Assumptions masked_scatter_rowlocal.
Print Assumptions auroc_kernel_is_rowwise.
Print Assumptions auroc_multitask_decomposes.
Print Assumptions binary_auroc_task_slice.
Print Assumptions prc_multiclass_decomposes.
