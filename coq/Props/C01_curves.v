(* C01 (curve classes) -- every merge tree of a curve metric computes on the concatenation of its
   in-order stream of batches; for AUROC the result moreover depends only on the multiset. *)
From Coq Require Import ZArith List Bool QArith Qcanon Permutation.
From TE Require Import Base.Val Algebra.Metric Algebra.MergeTree Algebra.Cache Models.Curves Proofs.CurvesP Proofs.CurvesPR.
Import ListNotations.

(* generic for the ten classes (all are [list_cache] instances): update appends, merge appends one
   concatenated chunk per non-empty source; compute sees the samples in merge order *)
Theorem curves_merge_tree_concat :
  forall (C S O : Type) (vld : C -> list S -> bool) (f : C -> list S -> O),
  let K := list_cache C S O vld f in
  forall (c : C) (t : mtree (cache_metric K)),
    Forall (fun b => vld c b = true) (stream (cache_metric K) t) ->
    cmp (cache_metric K) c (run (cache_metric K) c t) = f c (List.concat (stream (cache_metric K) t)).
Proof. exact list_cache_merge_tree. Qed.

(* instances *)
Theorem bauroc_merge_tree : forall c t, Forall (fun b => bvalid c b = true) (stream bauroc_metric t) ->
  cmp bauroc_metric c (run bauroc_metric c t) = bauroc_algo (snd c) (List.concat (stream bauroc_metric t)).
Proof. exact (list_cache_merge_tree bcfg bcol (res Qc) bvalid (fun c => bauroc_algo (snd c))). Qed.
Theorem bprc_merge_tree : forall c t, Forall (fun b => vtrue1 c b = true) (stream bprc_metric t) ->
  cmp bprc_metric c (run bprc_metric c t) = bprc_algo (List.concat (stream bprc_metric t)).
Proof. exact (list_cache_merge_tree b1cfg sample (option curve) vtrue1 (fun _ => bprc_algo)). Qed.
Theorem mcauroc_merge_tree : forall c t, Forall (fun b => mcvalid c b = true) (stream mcauroc_metric t) ->
  cmp mcauroc_metric c (run mcauroc_metric c t) = mcauroc_algo (mnum c) (mmacro c) (List.concat (stream mcauroc_metric t)).
Proof. exact (list_cache_merge_tree mcfg mcsample (res Qc) mcvalid (fun c => mcauroc_algo (mnum c) (mmacro c))). Qed.

(* order-insensitivity of compute from algo = spec: any two trees whose streams hold the same
   multiset of samples compute the same AUROC *)
Theorem bauroc_any_sharding_any_order : forall c t t',
  Forall (fun b => bvalid c b = true) (stream bauroc_metric t) ->
  Forall (fun b => bvalid c b = true) (stream bauroc_metric t') ->
  Permutation (List.concat (stream bauroc_metric t)) (List.concat (stream bauroc_metric t')) ->
  cmp bauroc_metric c (run bauroc_metric c t) = cmp bauroc_metric c (run bauroc_metric c t').
Proof. exact bauroc_any_order. Qed.
Theorem mcauroc_any_sharding_any_order : forall c t t',
  Forall (fun b => mcvalid c b = true) (stream mcauroc_metric t) ->
  Forall (fun b => mcvalid c b = true) (stream mcauroc_metric t') ->
  Permutation (List.concat (stream mcauroc_metric t)) (List.concat (stream mcauroc_metric t')) ->
  cmp mcauroc_metric c (run mcauroc_metric c t) = cmp mcauroc_metric c (run mcauroc_metric c t').
Proof. exact mcauroc_any_order. Qed.

(* the PR curve (hence AUPRC and recall@precision, functions of it) depends only on the multiset of samples *)
Theorem bprc_any_order : forall l l' : list sample, Forall (fun x => (0 < wt x)%Qc) l -> Permutation l l' -> bprc_algo l = bprc_algo l'.
Proof. exact bprc_algo_perm. Qed.

(* non-vacuity: nested merge with an empty shard and a post-merge update *)
Example bauroc_tree_example :
  let w := mkq 1%Z 1%positive in
  let b1 : list bcol := [[(3%Z, (true, w))]; [(1%Z, (false, w))]] in
  let b2 : list bcol := [[(1%Z, (true, w))]] in
  let M := bauroc_metric in
  let t := Merge M (Shard M []) [Merge M (Shard M [b1]) [Shard M []] []; Shard M []] [b2] in
  cmp M (64%positive, 1%nat) (run M (64%positive, 1%nat) t) = Rone (mkq 3%Z 4%positive).
Proof. vm_compute. reflexivity. Qed.

Print Assumptions curves_merge_tree_concat.
Print Assumptions bauroc_merge_tree.
Print Assumptions bprc_merge_tree.
Print Assumptions mcauroc_merge_tree.
Print Assumptions bauroc_any_sharding_any_order.
Print Assumptions mcauroc_any_sharding_any_order.
Print Assumptions bprc_any_order.
