(* C11, sync clause -- "syncing leaves the local metric's results unchanged and can be repeated with
   the same outcome".  Statements only; proofs in Proofs/SyncNonInterfP.v (generic theory) and
   Proofs/SyncInstancesP.v (instances).

   toolkit.get_synced_metric (world size > 1) touches the local object only through
   metric._prepare_for_merge_state(); the returned object is clone_metric(metric).merge_state(others).
   Modelled effect of k syncs on the local object, group of n members: [local_after_syncs M c k n s]
   (= s when n = 1, prep applied k times otherwise).  [PrepLaws M c]: prep is idempotent, invisible
   to compute, to every later history of the object ([outs]: results and raises; the representation
   of the state is not a result) and to every object the local one is merged into later.
   [tk_sd]/[tk_mrg] instantiate the toolkit model of C02 (Models/Toolkit.v) with a value model.
   Tie: skeletons of _prepare_for_merge_state (tools/tr_effects.py) + stream C11_sync
   (vlib/syncdirect.py, every catalogue class on the checking transport) + the history
   correspondence of each model (op "prep"). *)
From Coq Require Import ZArith List Bool QArith Qcanon String Arith Lia.
From TE Require Import Base.Val Base.Xq Algebra.Metric Algebra.Pool Algebra.Behave Algebra.Additive Algebra.Cache
     Models.Proto Models.Synclib Models.Toolkit Proofs.ToolkitP
     Models.Aggregation Models.Aggregation2 Models.Binned Models.Curves Models.Ranking Models.RankingFixed
     Models.Regression Models.Stat Models.Fad Models.Window Models.WindowAUROC
     Proofs.SyncNonInterfP Proofs.SyncInstancesP.
Import ListNotations.
Open Scope nat_scope.
Open Scope list_scope.

(* ---- 1. the three statements, for any metric model satisfying the laws ---- *)

(* the local object after any number of syncs: same compute(), same results and raises under every
   later history (updates, merges with arbitrary sources, computes, further syncs), and the same
   results of every object it is merged into later *)
Theorem sync_leaves_local_results_unchanged :
  forall (M : Metric) (c : cfg M), PrepLaws M c -> forall (k n : nat) (s : st M),
    cmp M c (local_after_syncs M c k n s) = cmp M c s /\
    (forall ops, outs M c (local_after_syncs M c k n s) ops = outs M c s ops) /\
    (forall t l1 l2 ops, outs M c (mrg M c t (l1 ++ local_after_syncs M c k n s :: l2)) ops
                         = outs M c (mrg M c t (l1 ++ s :: l2)) ops).
Proof. exact SyncNonInterfP.sync_leaves_local_results_unchanged. Qed.

(* a repeated sync of the whole group (every rank holding what the earlier syncs left) runs the same
   protocol to the same outcome -- same returned objects / computed values / state dicts, or the same
   collective mismatch -- unconditionally *)
Theorem sync_repeatable :
  forall (M : Metric) (c : cfg M) (enc : st M -> sdict) (dec : pseudo_t -> st M) (fx : fixes) (g : list nat),
    PrepLaws M c -> forall (k Wg : nat) (ms : nat -> st M),
    let n := List.length g in
    let sd := tk_sd M c enc in let mg := tk_mrg M c dec in
    run_all (respond g) (map (fun i => get_synced_metric (st M) sd mg fx g n i Wg (local_after_syncs M c k n (ms i))) (seq 0 n))
    = run_all (respond g) (map (fun i => get_synced_metric (st M) sd mg fx g n i Wg (ms i)) (seq 0 n)) /\
    run_all (respond g) (map (fun i => sync_and_compute (st M) (out M) sd mg (cmp M c) fx g n i Wg (local_after_syncs M c k n (ms i))) (seq 0 n))
    = run_all (respond g) (map (fun i => sync_and_compute (st M) (out M) sd mg (cmp M c) fx g n i Wg (ms i)) (seq 0 n)) /\
    run_all (respond g) (map (fun i => get_synced_state_dict (st M) sd mg fx g n i Wg (local_after_syncs M c k n (ms i))) (seq 0 n))
    = run_all (respond g) (map (fun i => get_synced_state_dict (st M) sd mg fx g n i Wg (ms i)) (seq 0 n)).
Proof. exact SyncNonInterfP.sync_repeatable. Qed.

(* with C02 (sync_equals_local_merge_exact): first and repeated sync both return, on rank i, the
   prepared local state merged with the other members' states in rank order *)
Theorem sync_repeatable_merged :
  forall (M : Metric) (c : cfg M) (enc : st M -> sdict) (dec : pseudo_t -> st M) (fx : fixes) (g : list nat),
    PrepLaws M c -> forall (k Wg : nat) (ms : nat -> st M) order iv tl,
    let n := List.length g in
    n <> 1 -> n <= Wg -> NoDup order ->
    schema_agree fx g Wg (fun i => [(TMP, tk_sd M c enc (ms i))]) order iv tl ->
    let result := Some (map (fun i => Ok (mrg M c (prep M c (ms i))
                       (map dec (map (ideal_pseudo order iv) (filter (fun r => negb (Nat.eqb r i)) (seq 0 n)))))) (seq 0 n)) in
    run_all (respond g) (map (fun i => get_synced_metric (st M) (tk_sd M c enc) (tk_mrg M c dec) fx g n i Wg (ms i)) (seq 0 n)) = result /\
    run_all (respond g) (map (fun i => get_synced_metric (st M) (tk_sd M c enc) (tk_mrg M c dec) fx g n i Wg
                                          (local_after_syncs M c k n (ms i))) (seq 0 n)) = result.
Proof. exact SyncNonInterfP.sync_repeatable_merged. Qed.

Theorem sync_collection_repeatable :
  forall (M : Metric) (c : cfg M) (enc : st M -> sdict) (dec : pseudo_t -> st M) (fx : fixes) (g : list nat),
    PrepLaws M c -> forall (k Wg : nat) (mcs : nat -> list (string * st M)) order iv tl,
    let n := List.length g in
    n <> 1 -> n <= Wg -> NoDup order ->
    schema_agree fx g Wg (fun i => map (fun km => (fst km, tk_sd M c enc (snd km))) (mcs i)) order iv tl ->
    let after := fun i => map (fun km => (fst km, local_after_syncs M c k n (snd km))) (mcs i) in
    run_all (respond g) (map (fun i => get_synced_metric_collection (st M) (tk_sd M c enc) (tk_mrg M c dec) fx g n i Wg (after i)) (seq 0 n))
    = run_all (respond g) (map (fun i => get_synced_metric_collection (st M) (tk_sd M c enc) (tk_mrg M c dec) fx g n i Wg (mcs i)) (seq 0 n)).
Proof. exact SyncNonInterfP.sync_collection_repeatable. Qed.

(* the returned object j = clone of the prepared local object i merged with the pseudo-metrics ks:
   whatever is done afterwards to it or to any object other than i (updates, merges -- also with i
   as a source --, resets, loads), object i stays what the sync left and computes the same value.
   (World size 1 is excluded by i <> j: there the toolkit returns the local object itself,
   C02.world1_identity.) *)
Theorem synced_metric_is_independent :
  forall (M : Metric) (K : Codec M) (c : cfg M) (p : pool M) (vi vj : val) (ks : list val),
    nat_of vi <> nat_of vj -> nat_of vi < List.length (objs M p) -> nat_of vj < List.length (objs M p) ->
    let s := get M c (nat_of vi) (objs M p) in
    let p1 := steps M K c p (sync_ops vi vj ks) in
    get M c (nat_of vi) (objs M p1) = prep M c s /\
    (forall k, k <> nat_of vi -> k <> nat_of vj -> get M c k (objs M p1) = get M c k (objs M p)) /\
    get M c (nat_of vj) (objs M p1)
      = mrg M c (prep M c s) (map (fun k => if Nat.eqb (nat_of k) (nat_of vi) then prep M c s
                                            else if Nat.eqb (nat_of k) (nat_of vj) then prep M c s
                                            else get M c (nat_of k) (objs M p)) ks) /\
    forall ops, Forall (fun o => ~ In (nat_of vi) (writes o)) ops ->
      get M c (nat_of vi) (objs M (steps M K c p1 ops)) = prep M c s /\
      snd (step M K c (steps M K c p1 ops) (VT "compute" [vi])) = enc_out K c (cmp M c (prep M c s)).
Proof. exact SyncNonInterfP.synced_metric_is_independent. Qed.

Theorem synced_metric_use_keeps_local_results :
  forall (M : Metric) (K : Codec M) (c : cfg M), PrepLaws M c ->
  forall (p : pool M) (vi vj : val) (ks ops : list val),
    nat_of vi <> nat_of vj -> nat_of vi < List.length (objs M p) -> nat_of vj < List.length (objs M p) ->
    Forall (fun o => ~ In (nat_of vi) (writes o)) ops ->
    snd (step M K c (steps M K c (steps M K c p (sync_ops vi vj ks)) ops) (VT "compute" [vi]))
    = snd (step M K c p (VT "compute" [vi])).
Proof. exact SyncNonInterfP.synced_metric_use_keeps_local_results. Qed.

(* proof method: a congruence for update / merge (target and sources) / prep / compute relating
   prep s to s, plus idempotence, gives the laws *)
Theorem PrepLaws_of_congruence :
  forall (M : Metric) (c : cfg M) (R : st M -> st M -> Prop),
    ObsCong M c R -> (forall s, prep M c (prep M c s) = prep M c s) -> PrepLaws M c.
Proof. exact SyncNonInterfP.PrepLaws_of_cong. Qed.

(* the congruence also covers histories whose merge sources are themselves only related (other
   objects that were synced somewhere in their past) *)
Theorem related_histories_same_results :
  forall (M : Metric) (c : cfg M) (R : st M -> st M -> Prop), ObsCong M c R ->
  forall ops ops', Forall2 (sop_rel M R) ops ops' -> forall s t, R s t -> outs M c s ops = outs M c t ops'.
Proof. exact SyncNonInterfP.cong_outs_rel. Qed.

(* ---- 2. instances: one per family ---- *)
(* all additive classes (Mean, Sum, accuracy / precision / recall / F1 / confusion matrices, binned
   PR curves and AUPRC, CTR, WeightedCalibration, WER / WIP / WIL, BLEU, ...) *)
Theorem additive_classes_PrepLaws : forall (S : AddSpec) (c : Additive.acfg S), PrepLaws (add_metric S) c.
Proof. exact add_PrepLaws. Qed.
(* all cache classes, given torch.cat([x]) = x for the chunk type *)
Theorem cache_classes_PrepLaws : forall (S : CacheSpec) (c : ccfg S), cat_single S c -> PrepLaws (cache_metric S) c.
Proof. exact cache_PrepLaws. Qed.
(* ... and without it everything but state-level idempotence *)
Theorem cache_classes_prep_invisible : forall (S : CacheSpec) (c : ccfg S) (s : list (cchunk S)),
  let Mc := cache_metric S in
  cmp Mc c (prep Mc c s) = cmp Mc c s /\
  (forall ops, outs Mc c (prep Mc c s) ops = outs Mc c s ops) /\
  (forall ops, outs Mc c (prep Mc c (prep Mc c s)) ops = outs Mc c (prep Mc c s) ops) /\
  (forall t l1 l2 ops, outs Mc c (mrg Mc c t (l1 ++ prep Mc c s :: l2)) ops = outs Mc c (mrg Mc c t (l1 ++ s :: l2)) ops).
Proof. exact cache_prep_invisible. Qed.
Theorem list_cache_classes_PrepLaws : forall C S O vld f c, PrepLaws (cache_metric (list_cache C S O vld f)) c.
Proof. exact list_cache_PrepLaws. Qed.
(* HitRate / ReciprocalRank style score caches *)
Theorem score_cache_classes_PrepLaws : forall C B fvalid f c, PrepLaws (sc_metric C B fvalid f) c.
Proof. exact sc_PrepLaws. Qed.

(* ---- per class: the classes of torcheval that override _prepare_for_merge_state ---- *)
Theorem Cat_PrepLaws : forall c, PrepLaws cat_metric c.                               Proof. exact cat_PrepLaws. Qed.
Theorem AUC_PrepLaws : forall c, PrepLaws auc_metric c.                               Proof. exact auc_PrepLaws. Qed.
Theorem BinaryAUROC_PrepLaws : forall c, PrepLaws Curves.bauroc_metric c.             Proof. exact bauroc_PrepLaws. Qed.
Theorem MulticlassAUROC_PrepLaws : forall c, PrepLaws Curves.mcauroc_metric c.        Proof. exact mcauroc_PrepLaws. Qed.
Theorem BinaryAUPRC_PrepLaws : forall c, PrepLaws Curves.bauprc_metric c.             Proof. exact bauprc_PrepLaws. Qed.
Theorem MulticlassAUPRC_PrepLaws : forall c, PrepLaws Curves.mcauprc_metric c.        Proof. exact mcauprc_PrepLaws. Qed.
Theorem MultilabelAUPRC_PrepLaws : forall c, PrepLaws Curves.mlauprc_metric c.        Proof. exact mlauprc_PrepLaws. Qed.
Theorem BinaryPrecisionRecallCurve_PrepLaws : forall c, PrepLaws Curves.bprc_metric c.        Proof. exact bprc_PrepLaws. Qed.
Theorem MulticlassPrecisionRecallCurve_PrepLaws : forall c, PrepLaws Curves.mcprc_metric c.   Proof. exact mcprc_PrepLaws. Qed.
Theorem MultilabelPrecisionRecallCurve_PrepLaws : forall c, PrepLaws Curves.mlprc_metric c.   Proof. exact mlprc_PrepLaws. Qed.
Theorem BinaryRecallAtFixedPrecision_PrepLaws : forall c, PrepLaws Curves.brap_metric c.      Proof. exact brap_PrepLaws. Qed.
Theorem MultilabelRecallAtFixedPrecision_PrepLaws : forall c, PrepLaws Curves.mlrap_metric c. Proof. exact mlrap_PrepLaws. Qed.
Theorem BinaryBinnedAUROC_PrepLaws : forall c, PrepLaws Binned.broc_metric c.         Proof. exact broc_PrepLaws. Qed.
Theorem MulticlassBinnedAUROC_PrepLaws : forall c, PrepLaws Binned.mroc_metric c.     Proof. exact mroc_PrepLaws. Qed.
Theorem HitRate_PrepLaws : forall c, PrepLaws hitrate_metric c.                       Proof. exact hitrate_PrepLaws. Qed.
Theorem ReciprocalRank_PrepLaws : forall c, PrepLaws rrank_metric c.                  Proof. exact rrank_PrepLaws. Qed.

(* ---- hand-written models with the inherited no-op ---- *)
Theorem Max_PrepLaws : forall c, PrepLaws max_metric c.                               Proof. exact max_PrepLaws. Qed.
Theorem Min_PrepLaws : forall c, PrepLaws min_metric c.                               Proof. exact min_PrepLaws. Qed.
Theorem Throughput_PrepLaws : forall c, PrepLaws tp_metric c.                         Proof. exact throughput_PrepLaws. Qed.
Theorem FrechetAudioDistance_PrepLaws : forall c, PrepLaws fad_metric c.              Proof. exact fad_PrepLaws. Qed.
Theorem RetrievalPrecisionRecall_PrepLaws : forall r c, PrepLaws (retr_metric r) c.   Proof. exact retrieval_PrepLaws. Qed.
Theorem RetrievalPrecision_fixed_PrepLaws : forall c, PrepLaws rprec_fx_metric c.     Proof. exact rprec_fx_PrepLaws. Qed.
Theorem RetrievalRecall_fixed_PrepLaws : forall c, PrepLaws rrec_fx_metric c.         Proof. exact rrec_fx_PrepLaws. Qed.
Theorem MeanSquaredError_PrepLaws : forall c, PrepLaws mse_metric c.                  Proof. exact mse_PrepLaws. Qed.
Theorem R2Score_PrepLaws : forall c, PrepLaws r2_metric c.                            Proof. exact r2_PrepLaws. Qed.
Theorem Covariance_PrepLaws : forall c, PrepLaws cov_metric c.                        Proof. exact cov_PrepLaws. Qed.
Theorem Wasserstein1D_PrepLaws : forall c, PrepLaws w_metric c.                       Proof. exact wasserstein_PrepLaws. Qed.
Theorem PeakSignalNoiseRatio_PrepLaws : forall c, PrepLaws p_metric c.                Proof. exact psnr_PrepLaws. Qed.
Theorem NormalizedEntropy_PrepLaws : forall c, PrepLaws ne_metric c.                  Proof. exact ne_PrepLaws. Qed.
Theorem Perplexity_PrepLaws : forall c, PrepLaws px_metric c.                         Proof. exact perplexity_PrepLaws. Qed.
Theorem Windowed_PrepLaws : forall W v c, PrepLaws (win_metric W v) c.                Proof. exact window_PrepLaws. Qed.
Theorem WindowedBinaryAUROC_PrepLaws : forall v c, PrepLaws (wauroc v) c.             Proof. exact wauroc_PrepLaws. Qed.
Theorem WindowedBinaryAUROC_cfix_PrepLaws : forall v c, PrepLaws (wauroc_cfix v) c.   Proof. exact wauroc_cfix_PrepLaws. Qed.

(* ---- 3. non-vacuity ---- *)
(* BinaryAUROC (num_tasks = 1) with two cached chunks: the sync rewrites the local state (one chunk)
   and compute() is the same defined value *)
Definition ex_cfg : Curves.bcfg := (1%positive, 1%nat).
Definition ex_state : st Curves.bauroc_metric :=
  [ [[(3%Z, (true, 1%Qc))]; [(1%Z, (false, 1%Qc))]] ; [[(2%Z, (true, 1%Qc))]; [(4%Z, (false, 1%Qc))]] ].
Example sync_changes_local_representation :
  local_after_sync Curves.bauroc_metric ex_cfg 2 ex_state
  = [ [[(3%Z, (true, 1%Qc))]; [(1%Z, (false, 1%Qc))]; [(2%Z, (true, 1%Qc))]; [(4%Z, (false, 1%Qc))]] ]
  /\ local_after_sync Curves.bauroc_metric ex_cfg 2 ex_state <> ex_state
  /\ local_after_sync Curves.bauroc_metric ex_cfg 1 ex_state = ex_state.
Proof.
  split; [reflexivity|]. split; [|reflexivity].
  intros H. apply (f_equal (@List.length _)) in H. vm_compute in H. discriminate H.
Qed.
Example sync_keeps_local_compute :
  cmp Curves.bauroc_metric ex_cfg (local_after_sync Curves.bauroc_metric ex_cfg 2 ex_state)
  = cmp Curves.bauroc_metric ex_cfg ex_state
  /\ match cmp Curves.bauroc_metric ex_cfg ex_state with Curves.Rone q => this q = (1 # 2)%Q | _ => False end.
Proof. split; vm_compute; reflexivity. Qed.
(* a later update + compute shows the same results although the states differ *)
Example sync_keeps_later_results :
  let b : batch Curves.bauroc_metric := [[(5%Z, (true, 1%Qc))]] in
  outs Curves.bauroc_metric ex_cfg (local_after_sync Curves.bauroc_metric ex_cfg 2 ex_state)
       [SUpd _ b; SCompute _; SMerge _ [ex_state]; SCompute _]
  = outs Curves.bauroc_metric ex_cfg ex_state [SUpd _ b; SCompute _; SMerge _ [ex_state]; SCompute _]
  /\ List.length (outs Curves.bauroc_metric ex_cfg ex_state [SUpd _ b; SCompute _; SMerge _ [ex_state]; SCompute _]) = 4
  /\ upd Curves.bauroc_metric ex_cfg (local_after_sync Curves.bauroc_metric ex_cfg 2 ex_state) b
     <> upd Curves.bauroc_metric ex_cfg ex_state b.
Proof.
  intros b. split; [apply results_injective; vm_compute; reflexivity|]. split; [reflexivity|].
  intros H. apply (f_equal (@List.length _)) in H. vm_compute in H. discriminate H.
Qed.
(* AUC: prep collapses both lists *)
Example auc_sync_changes_state_not_result :
  let c := {| auc_reorder := true; auc_tasks := 1 |} in
  let s : auc_st := ([[[0%Qc; 1%Qc]]; [[Q2Qc 2]]], [[[1%Qc; 1%Qc]]; [[Q2Qc 3]]]) in
  auc_prep s <> s /\ auc_cmp c (auc_prep s) = auc_cmp c s /\ map this (auc_cmp c s) = [(3 # 1)%Q].
Proof.
  intros c s. split; [|split; vm_compute; reflexivity].
  intros H. apply (f_equal (fun x : auc_st => List.length (fst x))) in H. vm_compute in H. discriminate H.
Qed.

(* the laws have content: a metric whose _prepare_for_merge_state drops data violates them *)
Definition lossy_metric : Metric :=
  plain unit nat nat nat (fun _ => 0) (fun _ _ => true) (fun _ s b => s + b) (fun _ s ms => fold_left Nat.add ms s)
        (fun _ s => s) (fun _ _ => 0).
Example lossy_prep_violates_laws : ~ PrepLaws lossy_metric tt.
Proof. intros L. pose proof (pl_cmp lossy_metric tt L 1) as H. discriminate H. Qed.
(* ... and one that is invisible to compute now but not later (prep re-orders what a later update
   depends on) violates pl_later only *)
Definition late_metric : Metric :=
  plain unit (nat * bool) nat nat (fun _ => (0, false)) (fun _ _ => true)
        (fun _ s b => if snd s then (fst s + 2 * b, true) else (fst s + b, false))
        (fun _ s ms => fold_left (fun a m => (fst a + fst m, snd a)) ms s)
        (fun _ s => fst s) (fun _ s => (fst s, true)).
Example late_prep_violates_only_later :
  (forall s, prep late_metric tt (prep late_metric tt s) = prep late_metric tt s) /\
  (forall s, cmp late_metric tt (prep late_metric tt s) = cmp late_metric tt s) /\
  ~ PrepLaws late_metric tt.
Proof.
  split; [reflexivity|]. split; [reflexivity|]. intros L.
  pose proof (pl_later late_metric tt L (0, false) [SUpd late_metric 1; SCompute late_metric]) as H. discriminate H.
Qed.

Print Assumptions sync_leaves_local_results_unchanged.
Print Assumptions sync_repeatable.
Print Assumptions sync_repeatable_merged.
Print Assumptions sync_collection_repeatable.
Print Assumptions synced_metric_is_independent.
Print Assumptions synced_metric_use_keeps_local_results.
Print Assumptions PrepLaws_of_congruence.
Print Assumptions related_histories_same_results.
Print Assumptions additive_classes_PrepLaws.
Print Assumptions cache_classes_PrepLaws.
Print Assumptions cache_classes_prep_invisible.
Print Assumptions list_cache_classes_PrepLaws.
Print Assumptions score_cache_classes_PrepLaws.
Print Assumptions Cat_PrepLaws.
Print Assumptions AUC_PrepLaws.
Print Assumptions BinaryAUROC_PrepLaws.
Print Assumptions MulticlassBinnedAUROC_PrepLaws.
Print Assumptions HitRate_PrepLaws.
Print Assumptions Windowed_PrepLaws.
Print Assumptions sync_keeps_local_compute.
Print Assumptions late_prep_violates_only_later.
