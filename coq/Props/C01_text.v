(* C01 for the text metrics: WordErrorRate, WordInformationPreserved, WordInformationLost and
   BLEUScore are additive-family classes, so any sharding / merge order / merge grouping of the same
   multiset of update batches computes the same value.  Corollaries of additive_family_sharding. *)
From Coq Require Import ZArith List Permutation.
From TE Require Import Base.Val Algebra.Metric Algebra.MergeTree Algebra.Additive Models.Text Props.C01.
Import ListNotations.

Corollary wer_sharding : forall t t' : mtree wer_metric,
  Permutation (stream _ t) (stream _ t') ->
  wer_gamma tt (run wer_metric tt t) = wer_gamma tt (run wer_metric tt t').
Proof.
  intros t t' HP. apply (additive_family_sharding wer_spec_add tt t t'); try assumption;
    apply Forall_forall; intros b _; reflexivity.
Qed.
Corollary wip_sharding : forall t t' : mtree wip_metric,
  Permutation (stream _ t) (stream _ t') ->
  wip_gamma tt (run wip_metric tt t) = wip_gamma tt (run wip_metric tt t').
Proof.
  intros t t' HP. apply (additive_family_sharding wip_spec_add tt t t'); try assumption;
    apply Forall_forall; intros b _; reflexivity.
Qed.
Corollary wil_sharding : forall t t' : mtree wil_metric,
  Permutation (stream _ t) (stream _ t') ->
  wil_gamma tt (run wil_metric tt t) = wil_gamma tt (run wil_metric tt t').
Proof.
  intros t t' HP. apply (additive_family_sharding wil_spec_add tt t t'); try assumption;
    apply Forall_forall; intros b _; reflexivity.
Qed.
(* BLEU: every update batch must itself be accepted (the too-short test is applied per update) *)
Corollary bleu_sharding : forall (c : bcfg) (t t' : mtree bleu_metric),
  Forall (fun b => bleu_ok (fst c) b = true) (stream _ t) ->
  Forall (fun b => bleu_ok (fst c) b = true) (stream _ t') ->
  Permutation (stream _ t) (stream _ t') ->
  bleu_gamma c (run bleu_metric c t) = bleu_gamma c (run bleu_metric c t').
Proof. intros c t t' H1 H2 HP. exact (additive_family_sharding bleu_spec_add c t t' H1 H2 HP). Qed.

(* V_fixed (repaired _bleu_score_compute): same state, same merge; only compute() differs *)
Corollary bleu_sharding_fixed : forall (c : bcfg) (t t' : mtree (add_metric (bleu_spec_add_v V_fixed))),
  Forall (fun b => bleu_ok (fst c) b = true) (stream _ t) ->
  Forall (fun b => bleu_ok (fst c) b = true) (stream _ t') ->
  Permutation (stream _ t) (stream _ t') ->
  bleu_gamma_v V_fixed c (run (add_metric (bleu_spec_add_v V_fixed)) c t) = bleu_gamma_v V_fixed c (run (add_metric (bleu_spec_add_v V_fixed)) c t').
Proof. intros c t t' H1 H2 HP. exact (additive_family_sharding (bleu_spec_add_v V_fixed) c t t' H1 H2 HP). Qed.

(* non-vacuity: two different shardings of the same three BLEU update batches *)
Open Scope Z_scope.
Example bleu_sharding_example :
  let c : bcfg := (2%nat, None) in
  let b1 : bbatch := [([1; 2; 3; 1; 2], [[1; 2; 4; 5]; [2; 3; 1]])] in
  let b2 : bbatch := [([7; 8], [[7; 8]]); ([9], [[]])] in
  let b3 : bbatch := [([1; 2; 3], [[3; 2; 1]; [1; 2]])] in
  let t  := Merge bleu_metric (Shard bleu_metric [b1]) [Shard bleu_metric []; Shard bleu_metric [b2]] [b3] in
  let t' := Merge bleu_metric (Shard bleu_metric []) [Merge bleu_metric (Shard bleu_metric [b3]) [Shard bleu_metric [b1]] []] [b2] in
  Forall (fun b => bleu_ok (fst c) b = true) (stream _ t) /\ Permutation (stream _ t) (stream _ t') /\
  run bleu_metric c t = run bleu_metric c t' /\ bleu_gamma c (run bleu_metric c t) <> VQ 0 1.
Proof.
  intros c b1 b2 b3 t t'. split; [|split; [|split]].
  - repeat constructor.
  - cbn [stream flat_map app]. exact (Permutation_app_comm [b1; b2] [b3]).
  - vm_compute. reflexivity.
  - vm_compute. discriminate.
Qed.

Print Assumptions wer_sharding.
Print Assumptions wip_sharding.
Print Assumptions wil_sharding.
Print Assumptions bleu_sharding.
Print Assumptions bleu_sharding_fixed.
