(* C01 for the ranking family.  HitRate / ReciprocalRank: ordered cache (documented deviation: data
   is seen in merge order); ClickThroughRate / WeightedCalibration: additive, any sharding / order;
   RetrievalPrecision / RetrievalRecall: merge_state concatenates the retained items without
   re-pruning and compute() inspects the un-pruned state -- the faithful model REFUTES "merged =
   single instance" (witnesses below); what does hold is stated in C08 (retrieval_class_state). *)
From Coq Require Import ZArith List Bool QArith Qcanon Permutation.
From TE Require Import Base.Val Base.Nd Base.Xq Algebra.Metric Algebra.MergeTree Algebra.Additive
  Models.Ranking Proofs.RankingP Proofs.RankingAlgP.
Import ListNotations.

Theorem hit_rate_merge_tree_eq_single_in_merge_order :
  forall k (t : mtree hitrate_metric), Forall (fun b => hit_valid k b = true) (stream hitrate_metric t) ->
    cmp hitrate_metric k (run hitrate_metric k t) =
    cmp hitrate_metric k (run hitrate_metric k (Shard hitrate_metric (stream hitrate_metric t))).
Proof. exact (merge_tree_eq_single hitrate_metric (sc_alg (option Z) hr_batch hit_valid hit_fn)). Qed.
Theorem reciprocal_rank_merge_tree_eq_single_in_merge_order :
  forall k (t : mtree rrank_metric), Forall (fun b => rr_valid k b = true) (stream rrank_metric t) ->
    cmp rrank_metric k (run rrank_metric k t) =
    cmp rrank_metric k (run rrank_metric k (Shard rrank_metric (stream rrank_metric t))).
Proof. exact (merge_tree_eq_single rrank_metric (sc_alg (option Z) hr_batch rr_valid rr_fn)). Qed.

Theorem click_through_rate_any_sharding :
  forall nt (t t' : mtree ctr_metric),
    Forall (fun b => ctr_valid nt b = true) (stream ctr_metric t) ->
    Forall (fun b => ctr_valid nt b = true) (stream ctr_metric t') ->
    Permutation (stream ctr_metric t) (stream ctr_metric t') ->
    cmp ctr_metric nt (run ctr_metric nt t) = cmp ctr_metric nt (run ctr_metric nt t').
Proof. exact (fun nt => merge_tree_any_sharding ctr_metric (add_alg ctr_spec) nt (add_alg_comm ctr_spec)). Qed.
Theorem weighted_calibration_any_sharding :
  forall nt (t t' : mtree wc_metric),
    Forall (fun b => wc_valid nt b = true) (stream wc_metric t) ->
    Forall (fun b => wc_valid nt b = true) (stream wc_metric t') ->
    Permutation (stream wc_metric t) (stream wc_metric t') ->
    cmp wc_metric nt (run wc_metric nt t) = cmp wc_metric nt (run wc_metric nt t').
Proof. exact (fun nt => merge_tree_any_sharding wc_metric (add_alg wc_spec) nt (add_alg_comm wc_spec)). Qed.

(* k=1, "pos": shard A saw (.9, irrelevant), shard B saw (.1, relevant).  Merged: state holds both,
   "1 in target" -> precision of the top-1 = 0.  Single instance: (.1, relevant) is pruned, no 1 in
   target -> empty_target_action -> 1. *)
Theorem retrieval_precision_merge_refuted :
  let t := wit_tree false [b1 900 0] [b1 100 1] in
  cmp (retr_metric false) (wit_cfg APos) (run (retr_metric false) (wit_cfg APos) t) = RVec [Fin 0%Qc] /\
  cmp (retr_metric false) (wit_cfg APos) (run (retr_metric false) (wit_cfg APos) (Shard (retr_metric false) (stream (retr_metric false) t))) = RVec [Fin 1%Qc].
Proof. exact precision_merge_refuted. Qed.
(* k=1: two relevant items in two shards.  Merged: 1 retrieved / 2 in the (un-pruned) state = 1/2
   (which happens to be the true recall); single instance: 1 / 1 retained = 1. *)
Theorem retrieval_recall_merge_refuted :
  let t := wit_tree true [b1 900 1] [b1 100 1] in
  cmp (retr_metric true) (wit_cfg ANeg) (run (retr_metric true) (wit_cfg ANeg) t) = RVec [Fin (mkq 1 2)] /\
  cmp (retr_metric true) (wit_cfg ANeg) (run (retr_metric true) (wit_cfg ANeg) (Shard (retr_metric true) (stream (retr_metric true) t))) = RVec [Fin 1%Qc].
Proof. exact recall_merge_refuted. Qed.

(* ---- retrieval classes: what DOES hold ------------------------------------------------------------
   (class, option) combinations, k given (with k = None nothing is ever pruned):
     RetrievalPrecision, empty_target_action = "neg", any k / limit_k_to_size / num_queries / avg : INVARIANT
     RetrievalPrecision, "pos" / "skip" / "err"                                                     : refuted
     RetrievalRecall, every empty_target_action                                                     : refuted
   The hypotheses "tie_free" are the property's proviso (torch.topk's order among equal scores is
   unspecified; the model's canonical order makes the model-level proofs independent of it). *)
(* state level, both classes, every option: after ANY merge tree (nested merges, empty shards, updates
   after merges) the top-k of the items held for query i = the top-k of all items routed to query i,
   and every held item comes from the stream *)
Theorem retrieval_state_after_any_merge_tree :
  forall recall c (t : mtree (retr_metric recall)),
    (forall i, i < r_nq c -> tie_free (rdata c i (stream (retr_metric recall) t))) ->
    List.length (run (retr_metric recall) c t) = r_nq c /\
    forall i, i < r_nq c ->
      topk (r_k c) (nth i (run (retr_metric recall) c t) []) = topk (r_k c) (rdata c i (stream (retr_metric recall) t)) /\
      incl (nth i (run (retr_metric recall) c t) []) (rdata c i (stream (retr_metric recall) t)).
Proof. intros recall c t _. exact (retr_tree_state recall c t). Qed.
(* RetrievalPrecision with "neg": compute() after any merge tree in closed form ... *)
Theorem retrieval_precision_neg_merge_tree_closed_form :
  forall c (t : mtree (retr_metric false)), r_act c = ANeg -> r_k c <> Some 0 ->
    (forall i, i < r_nq c -> tie_free (rdata c i (stream (retr_metric false) t))) ->
    (forall i, i < r_nq c -> labels01 (rdata c i (stream (retr_metric false) t))) ->
    cmp (retr_metric false) c (run (retr_metric false) c t) =
    rfinish c (map (fun i => rquery false c (topk (r_k c) (rdata c i (stream (retr_metric false) t)))) (seq 0 (r_nq c))).
Proof. intros c t Ha Hk _ Hl. exact (rprec_neg_tree c t Ha Hk Hl). Qed.
(* ... hence sharding-invariant: any two merge trees over permutations of the same update stream agree
   (in particular a tree and the single instance Shard (stream t)) *)
Theorem retrieval_precision_neg_any_sharding :
  forall c (t t' : mtree (retr_metric false)), r_act c = ANeg -> r_k c <> Some 0 ->
    (forall i, i < r_nq c -> tie_free (rdata c i (stream (retr_metric false) t))) ->
    (forall i, i < r_nq c -> labels01 (rdata c i (stream (retr_metric false) t))) ->
    Permutation (stream (retr_metric false) t) (stream (retr_metric false) t') ->
    cmp (retr_metric false) c (run (retr_metric false) c t) = cmp (retr_metric false) c (run (retr_metric false) c t').
Proof. intros c t t' Ha Hk _ Hl Hp. exact (rprec_neg_sharding c t t' Ha Hk Hl Hp). Qed.
Theorem retrieval_precision_merge_refuted_pos_skip_err :
  forall a, a <> ANeg ->
  let t := wit_tree false [b1 900 0] [b1 100 1] in
  enc_rout (wit_cfg a) (cmp (retr_metric false) (wit_cfg a) (run (retr_metric false) (wit_cfg a) t)) <>
  enc_rout (wit_cfg a) (cmp (retr_metric false) (wit_cfg a) (run (retr_metric false) (wit_cfg a) (Shard (retr_metric false) (stream (retr_metric false) t)))).
Proof. exact precision_merge_refuted_all. Qed.
Theorem retrieval_recall_merge_refuted_every_action :
  forall a,
  let t := wit_tree true [b1 900 1] [b1 100 1] in
  enc_rout (wit_cfg a) (cmp (retr_metric true) (wit_cfg a) (run (retr_metric true) (wit_cfg a) t)) <>
  enc_rout (wit_cfg a) (cmp (retr_metric true) (wit_cfg a) (run (retr_metric true) (wit_cfg a) (Shard (retr_metric true) (stream (retr_metric true) t)))).
Proof. exact recall_merge_refuted_all. Qed.
(* non-vacuity: nested merge with an empty shard and a post-merge update, 2 queries, k = 2, "neg" *)
Example retrieval_precision_neg_tree_example :
  let c := Build_rcfg ANeg (Some 2) true 2 false 1024 in
  let M := retr_metric false in
  let ba : rbatch := ([5; 9; 7]%Z, [1; 0; 1]%Z, Some [0; 0; 1]%Z) in
  let bb : rbatch := ([8; 1]%Z, [1; 0]%Z, Some [0; 1]%Z) in
  let bc : rbatch := ([3; 6]%Z, [1; 1]%Z, Some [1; 0]%Z) in
  let t := Merge M (Shard M []) [Merge M (Shard M [ba]) [Shard M [bb]; Shard M []] []] [bc] in
  (forall i, i < r_nq c -> tie_free (rdata c i (stream M t)) /\ labels01 (rdata c i (stream M t))) /\
  enc_rout c (cmp M c (run M c t)) = enc_rout c (cmp M c (run M c (Shard M [bc; bb; ba]))).
Proof.
  split; [|vm_compute; reflexivity].
  intros [|[|i]] Hi; [| |cbn in Hi; Lia.lia]; (split; [unfold tie_free; cbn; repeat constructor; cbn; intuition discriminate|
     unfold labels01; cbn; repeat (apply Forall_cons; [cbn; first [left; reflexivity | right; reflexivity]|]); apply Forall_nil]).
Qed.

Example ctr_tree_example :
  let b : ctr_batch := ([[1%Qc; 0%Qc]], WSc 1%Qc) in
  let t := Merge ctr_metric (Shard ctr_metric []) [Shard ctr_metric [b]; Shard ctr_metric []] [b] in
  map vq (cmp ctr_metric 1 (run ctr_metric 1 t)) = map vq [ctr_ratio tiny64 (mkq 2 1) (mkq 4 1)].
Proof. vm_compute. reflexivity. Qed.

Print Assumptions hit_rate_merge_tree_eq_single_in_merge_order.
Print Assumptions reciprocal_rank_merge_tree_eq_single_in_merge_order.
Print Assumptions click_through_rate_any_sharding.
Print Assumptions weighted_calibration_any_sharding.
Print Assumptions retrieval_precision_merge_refuted.
Print Assumptions retrieval_recall_merge_refuted.
Print Assumptions retrieval_state_after_any_merge_tree.
Print Assumptions retrieval_precision_neg_merge_tree_closed_form.
Print Assumptions retrieval_precision_neg_any_sharding.
Print Assumptions retrieval_precision_merge_refuted_pos_skip_err.
Print Assumptions retrieval_recall_merge_refuted_every_action.
