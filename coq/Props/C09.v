(* C09 -- checkpoint, pickle and clone reproduce present and future behaviour (value model). *)
From Coq Require Import List Bool.
From TE Require Import Base.Val Algebra.Metric Algebra.Pool Algebra.Behave Algebra.Additive Algebra.Cache.
Import ListNotations.

(* If every attribute that update/merge/compute use is a registered state, loading state_dict()
   into ANY instance of the same configuration gives an object with the same observations under
   EVERY continuation of update / merge / compute / prepare calls. *)
Theorem load_state_dict_reproduces_behaviour :
  forall (M : Metric) (c : cfg M), registered_only M c ->
    forall s target ops, behave M c (load M c target (save M c s)) ops = behave M c s ops.
Proof. exact restore_bisim. Qed.

(* the copy is independent: an operation on one object leaves every other object unchanged *)
Theorem operations_do_not_touch_other_objects :
  forall (M : Metric) (K : Codec M) (c : cfg M) (p : pool M) (o : val) (k : nat),
    ~ In k (writes o) ->
    get M c k (objs M (fst (step M K c p o))) = get M c k (objs M p).
Proof. exact step_frame. Qed.

(* additive and cache family models have only registered state *)
Theorem additive_family_registered_only : forall (S : AddSpec) c, registered_only (add_metric S) c.
Proof. intros S c. repeat split. Qed.
Theorem cache_family_registered_only : forall (S : CacheSpec) c, registered_only (cache_metric S) c.
Proof. intros S c. repeat split. Qed.

Print Assumptions load_state_dict_reproduces_behaviour.
Print Assumptions operations_do_not_touch_other_objects.
Print Assumptions additive_family_registered_only.
Print Assumptions cache_family_registered_only.
