(* C01 / C12 for the count-based classification metrics: every class of the family is an AddSpec,
   so any merge tree / any sharding / any order of the same batches computes the same result. *)
From Coq Require Import ZArith List Permutation.
From TE Require Import Base.Val Algebra.Metric Algebra.MergeTree Algebra.Additive Models.Counting Props.C01.
Import ListNotations.

Definition sharding_invariant (S : AddSpec) : Prop :=
  forall (c : acfg S) (t t' : mtree (add_metric S)),
    Forall (fun b => avalid S c b = true) (stream _ t) ->
    Forall (fun b => avalid S c b = true) (stream _ t') ->
    Permutation (stream _ t) (stream _ t') ->
    agamma S c (run (add_metric S) c t) = agamma S c (run (add_metric S) c t').

Corollary multiclass_accuracy_sharding : sharding_invariant mcacc_spec.
Proof. exact (additive_family_sharding mcacc_spec). Qed.
Corollary binary_accuracy_sharding : sharding_invariant binacc_spec.
Proof. exact (additive_family_sharding binacc_spec). Qed.
Corollary multilabel_accuracy_sharding : sharding_invariant mlacc_spec.
Proof. exact (additive_family_sharding mlacc_spec). Qed.
Corollary topk_multilabel_accuracy_sharding : sharding_invariant tkacc_spec.
Proof. exact (additive_family_sharding tkacc_spec). Qed.
Corollary multiclass_precision_sharding : sharding_invariant mcprec_spec.
Proof. exact (additive_family_sharding mcprec_spec). Qed.
Corollary binary_precision_sharding : sharding_invariant binprec_spec.
Proof. exact (additive_family_sharding binprec_spec). Qed.
Corollary multiclass_recall_sharding : sharding_invariant mcrec_spec.
Proof. exact (additive_family_sharding mcrec_spec). Qed.
Corollary binary_recall_sharding : sharding_invariant binrec_spec.
Proof. exact (additive_family_sharding binrec_spec). Qed.
Corollary multiclass_f1_sharding : sharding_invariant mcf1_spec.
Proof. exact (additive_family_sharding mcf1_spec). Qed.
Corollary binary_f1_sharding : sharding_invariant binf1_spec.
Proof. exact (additive_family_sharding binf1_spec). Qed.
Corollary multiclass_confusion_matrix_sharding : sharding_invariant mccm_spec.
Proof. exact (additive_family_sharding mccm_spec). Qed.
Corollary binary_confusion_matrix_sharding : sharding_invariant bincm_spec.
Proof. exact (additive_family_sharding bincm_spec). Qed.

(* non-vacuity: a merge tree with an empty shard and a post-merge update on macro precision *)
Example precision_tree_example :
  let b1 : mcbatch := (Labels [0; 1; 1]%Z, [0; 1; 2]%Z) in
  let b2 : mcbatch := (Logits [[1; 1; 0]; [0; 2; 2]]%Z, [0; 2]%Z) in
  let M := add_metric mcprec_spec in
  let t := Merge M (Shard M []) [Shard M [b1]; Shard M []] [b2] in
  let t' := Merge M (Shard M [b2]) [] [b1] in
  Forall (fun b => avalid mcprec_spec (Macro, Some 3%nat) b = true) (stream _ t) /\
  res_val (agamma mcprec_spec (Macro, Some 3%nat) (run M (Macro, Some 3%nat) t))
  = res_val (agamma mcprec_spec (Macro, Some 3%nat) (run M (Macro, Some 3%nat) t')) /\
  res_val (agamma mcprec_spec (Macro, Some 3%nat) (run M (Macro, Some 3%nat) t)) = VQ 4 9.
Proof. vm_compute. repeat split; repeat constructor. Qed.

Print Assumptions multiclass_accuracy_sharding.
Print Assumptions binary_accuracy_sharding.
Print Assumptions multilabel_accuracy_sharding.
Print Assumptions topk_multilabel_accuracy_sharding.
Print Assumptions multiclass_precision_sharding.
Print Assumptions binary_precision_sharding.
Print Assumptions multiclass_recall_sharding.
Print Assumptions binary_recall_sharding.
Print Assumptions multiclass_f1_sharding.
Print Assumptions binary_f1_sharding.
Print Assumptions multiclass_confusion_matrix_sharding.
Print Assumptions binary_confusion_matrix_sharding.
