(* C05 -- AUROC, AUPRC, PR curves, recall@precision equal their definitions incl. ties.
   Statements only; proofs live in Proofs/CurvesP.v. *)
From Coq Require Import ZArith List Bool QArith Qcanon Sorted Permutation.
From TE Require Import Base.Val Base.Xq Models.Curves Proofs.CurvesP.
Import ListNotations.
Open Scope Qc_scope.

(* 1. AUROC.  For every list of (score, label, weight) and EVERY descending-sorted permutation of
   it (torch.sort leaves the order inside ties unspecified), the code's pipeline -- diff-mask,
   cumsum, masked select, left zero padding, trapezoid, division by TP*FP, 0.5 when that is 0 --
   equals the weighted probability that a positive outranks a negative with ties one half. *)
Theorem auroc_pairwise : forall l l' : list sample,
  Permutation l l' -> StronglySorted (fun a b => (sc b <= sc a)%Z) l' ->
  auroc_row_sorted l' = auroc_spec l.
Proof. exact auroc_row_pairwise. Qed.

(* the full 2-D kernel (flattened masked select / masked_scatter_), every admissible sort of every row *)
Theorem auroc_kernel_pairwise : forall R R' : list (list sample),
  Forall2 (fun r r' => Permutation r r' /\ StronglySorted (fun a b => (sc b <= sc a)%Z) r') R R' ->
  auroc_kernel_sorted R' = map auroc_spec R.
Proof. exact auroc_kernel_any_sort. Qed.

(* BinaryAUROC / binary_auroc (num_tasks >= 1, optional weights): compute() = spec *)
Theorem binary_auroc_is_pairwise : forall nt cols, bauroc_algo nt cols = bauroc_spec nt cols.
Proof. exact bauroc_algo_spec. Qed.

(* MulticlassAUROC: one-vs-rest binary results and their stated average *)
Theorem multiclass_auroc_ovr : forall C macro l, mcauroc_algo C macro l = mcauroc_spec C macro l.
Proof. exact mcauroc_algo_spec. Qed.

(* non-vacuity: ties across classes, weights, a 0.5 default *)
Example auroc_example :
  let q n d := mkq n d in
  let l : list sample := [(2%Z, (true, q 1%Z 1%positive)); (2%Z, (false, q 2%Z 1%positive)); (1%Z, (true, q 3%Z 1%positive)); (3%Z, (false, q 1%Z 2%positive))] in
  auroc_row l = q 1%Z 10%positive /\ auroc_spec l = q 1%Z 10%positive /\ auroc_row [(1%Z, (true, q 1%Z 1%positive))] = half.
Proof. vm_compute. repeat split; reflexivity. Qed.

Print Assumptions auroc_pairwise.
Print Assumptions auroc_kernel_pairwise.
Print Assumptions binary_auroc_is_pairwise.
Print Assumptions multiclass_auroc_ovr.
