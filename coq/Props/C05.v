(* C05 -- AUROC, AUPRC, PR curves, recall@precision equal their definitions incl. ties.
   Statements only; proofs live in Proofs/CurvesP.v. *)
From Coq Require Import ZArith List Bool QArith Qcanon Sorted Permutation.
From TE Require Import Base.Val Base.Xq Models.Curves Proofs.CurvesP Proofs.CurvesPR Proofs.CurvesMC.
Import ListNotations.
Open Scope Qc_scope.

(* 1. AUROC.  For every list of (score, label, weight) and EVERY descending-sorted permutation of
   it (torch.sort leaves the order inside ties unspecified), the code's pipeline -- diff-mask,
   cumsum, masked select, left zero padding, trapezoid, division by TP*FP, 0.5 when that is 0 --
   equals the weighted probability that a positive outranks a negative with ties one half. *)
Theorem auroc_pairwise : forall l l' : list sample,
  Permutation l l' -> StronglySorted (fun a b => (sc b <= sc a)%Z) l' ->
  auroc_row_sorted l' = auroc_spec l.
Proof. exact auroc_row_pairwise. Qed.

(* the full 2-D kernel (flattened masked select / masked_scatter_), every admissible sort of every row *)
Theorem auroc_kernel_pairwise : forall R R' : list (list sample),
  Forall2 (fun r r' => Permutation r r' /\ StronglySorted (fun a b => (sc b <= sc a)%Z) r') R R' ->
  auroc_kernel_sorted R' = map auroc_spec R.
Proof. exact auroc_kernel_any_sort. Qed.

(* BinaryAUROC / binary_auroc (num_tasks >= 1, optional weights): compute() = spec *)
Theorem binary_auroc_is_pairwise : forall nt cols, bauroc_algo nt cols = bauroc_spec nt cols.
Proof. exact bauroc_algo_spec. Qed.

(* MulticlassAUROC: one-vs-rest binary results and their stated average *)
Theorem multiclass_auroc_ovr : forall C macro l, mcauroc_algo C macro l = mcauroc_spec C macro l.
Proof. exact mcauroc_algo_spec. Qed.

(* non-vacuity: ties across classes, weights, a 0.5 default *)
Example auroc_example :
  let q n d := mkq n d in
  let l : list sample := [(2%Z, (true, q 1%Z 1%positive)); (2%Z, (false, q 2%Z 1%positive)); (1%Z, (true, q 3%Z 1%positive)); (3%Z, (false, q 1%Z 2%positive))] in
  auroc_row l = q 1%Z 10%positive /\ auroc_spec l = q 1%Z 10%positive /\ auroc_row [(1%Z, (true, q 1%Z 1%positive))] = half.
Proof. vm_compute. repeat split; reflexivity. Qed.


(* 2. PR curve.  For every descending-sorted permutation of the input (weights > 0; they are 1 in
   these metrics) the curve has exactly one point per distinct score d, thresholds ascending, with
   tp(d) = #{s >= d, y}, fp(d) = #{s >= d, not y}, precision tp/(tp+fp), recall tp/TP (all ones when
   TP = 0: the code's NaN -> 1 rule), followed by the point (1, 0). *)
Theorem prc_points_spec : forall l l' : list sample,
  Permutation l l' -> StronglySorted (fun a b => (sc b <= sc a)%Z) l' -> Forall (fun x => 0 < wt x) l ->
  prc_sorted l' = fin_curve (prc_spec l).
Proof. exact prc_sorted_spec. Qed.
(* the counting form, without any assumption on weights: what cumsum(...)[mask] selects *)
Theorem prc_counts_spec : forall l l' : list sample,
  Permutation l l' -> StronglySorted (fun a b => (sc b <= sc a)%Z) l' ->
  let m := mask (map sc l') in
  select m (cumsum 0 (map pw l')) = map (fun d => Pge d l) (rev (dset (map sc l))) /\
  select m (cumsum 0 (map nw l')) = map (fun d => Nge d l) (rev (dset (map sc l))) /\
  select m (map sc l') = rev (dset (map sc l)).
Proof. exact prc_counts. Qed.
(* the spec's threshold list is the strictly ascending list of exactly the scores present *)
Theorem prc_thresholds_distinct : forall l : list Z,
  StronglySorted Z.lt (dset l) /\ forall d, In d (dset l) <-> In d l.
Proof. intros l. split; [apply dset_sorted|intros d; apply dset_in]. Qed.

(* 3. AUPRC = sum over those points of recall increment times precision *)
Theorem auprc_riemann_spec : forall l l' : list sample,
  Permutation l l' -> StronglySorted (fun a b => (sc b <= sc a)%Z) l' -> Forall (fun x => 0 < wt x) l ->
  auprc_of (prc_sorted l') = Fin (auprc_spec l).
Proof. exact auprc_sorted_spec. Qed.

(* recall at fixed precision = the largest recall among curve points whose precision reaches the
   bound; the reported threshold follows the code's rule (largest threshold, sentinel -1 included,
   whose recall equals that maximum; absolute value) *)
Theorem recall_at_precision_spec : forall den minp (l l' : list sample),
  Permutation l l' -> StronglySorted (fun a b => (sc b <= sc a)%Z) l' -> Forall (fun x => 0 < wt x) l -> minp <= 1 ->
  rap_kernel den minp (prc_sorted l') = (Fin (rap_spec minp l), rap_thr_spec den minp l).
Proof. exact rap_sorted_spec. Qed.
Theorem recall_at_precision_is_max : forall minp (l : list sample), minp <= 1 ->
  let c := prc_spec l in
  let pts := combine (fst (fst c)) (snd (fst c)) in
  (exists p, In (p, rap_spec minp l) pts /\ minp <= p) /\
  (forall p r, In (p, r) pts -> minp <= p -> r <= rap_spec minp l).
Proof. exact rap_spec_is_max. Qed.

(* class level (compute() as a function of all samples seen) *)
Theorem binary_prc_spec : forall l, Forall (fun x => 0 < wt x) l -> bprc_algo l = bprc_spec l.
Proof. exact bprc_algo_spec. Qed.
Theorem binary_recall_at_precision_spec : forall den minp l, Forall (fun x => 0 < wt x) l -> minp <= 1 ->
  brap_algo den minp l = brap_spec den minp l.
Proof. exact brap_algo_spec. Qed.
Theorem binary_auprc_spec : forall nt cols, Forall (Forall (fun x => 0 < wt x)) (task_rows nt cols) ->
  bauprc_algo nt cols = bauprc_spec nt cols.
Proof. exact bauprc_algo_spec. Qed.
(* 4. multilabel = per-label binary results and their average *)
Theorem multilabel_auprc_per_label : forall L macro l, mlauprc_algo L macro l = mlauprc_spec L macro l.
Proof. exact mlauprc_algo_spec. Qed.
Theorem multilabel_prc_per_label : forall L l, mlprc_algo L l = mlprc_spec L l.
Proof. exact mlprc_algo_spec. Qed.
Theorem multilabel_recall_at_precision_per_label : forall den minp L l, minp <= 1 ->
  mlrap_algo den minp L l = mlrap_spec den minp L l.
Proof. exact mlrap_algo_spec. Qed.

(* multiclass = one-vs-rest binary results (the vectorised flip / pad / split pipeline) and their average *)
Theorem multiclass_prc_ovr : forall C l, mcprc_algo C l = mcprc_spec C l.
Proof. exact mcprc_algo_spec. Qed.
Theorem multiclass_auprc_ovr : forall C macro l, mcauprc_algo C macro l = mcauprc_spec C macro l.
Proof. exact mcauprc_algo_spec. Qed.

(* non-vacuity: ties, an all-negative input (recall NaN -> 1), the threshold sentinel *)
Example prc_example :
  let w := mkq 1%Z 1%positive in
  let l : list sample := [(2%Z, (true, w)); (2%Z, (false, w)); (1%Z, (true, w)); (3%Z, (false, w))] in
  prc_row l = fin_curve (prc_spec l) /\ snd (prc_row l) = [1%Z; 2%Z; 3%Z] /\
  snd (fst (prc_row [(1%Z, (false, w)); (2%Z, (false, w))])) = [Fin 1; Fin 1; Fin 0] /\
  rap_row 4%positive 1 [(3%Z, (false, w)); (2%Z, (true, w))] = (Fin 0, 3%Z).
Proof. vm_compute. repeat split; reflexivity. Qed.

(* Observation outside the statement of C05: the *threshold* reported next to the recall need not
   itself meet the precision bound (it is the largest threshold whose recall equals the maximum).
   Scores (0.75 negative, 0.5 positive), min_precision 1: result (0, 0.75); precision at 0.75 is 0. *)
Example rap_reported_threshold_meets_bound_refuted :
  exists (l : list sample) (minp : Qc) (t : Z),
    rap_row 4%positive minp l = (Fin 0, t) /\ minp <= 1 /\ ~ (minp <= prec_at l t).
Proof.
  exists [(3%Z, (false, mkq 1%Z 1%positive)); (2%Z, (true, mkq 1%Z 1%positive))], 1, 3%Z.
  split; [vm_compute; reflexivity|]. split; [apply Qcle_refl|]. vm_compute. intros H. apply H. reflexivity.
Qed.

Print Assumptions auroc_pairwise.
Print Assumptions auroc_kernel_pairwise.
Print Assumptions binary_auroc_is_pairwise.
Print Assumptions multiclass_auroc_ovr.
Print Assumptions prc_points_spec.
Print Assumptions prc_counts_spec.
Print Assumptions prc_thresholds_distinct.
Print Assumptions auprc_riemann_spec.
Print Assumptions recall_at_precision_spec.
Print Assumptions recall_at_precision_is_max.
Print Assumptions binary_prc_spec.
Print Assumptions binary_recall_at_precision_spec.
Print Assumptions binary_auprc_spec.
Print Assumptions multilabel_auprc_per_label.
Print Assumptions multilabel_prc_per_label.
Print Assumptions multilabel_recall_at_precision_per_label.
Print Assumptions multiclass_prc_ovr.
Print Assumptions multiclass_auprc_ovr.
