(* C08 (text half) -- word error rate, word information preserved / lost and BLEU equal the values
   obtained from a reference Levenshtein distance and clipped n-gram counting with
   closest-reference-length brevity penalty; class forms report the definitions applied to ALL
   data seen so far.  Statements only; proofs live in Proofs/TextP.v. *)
From Coq Require Import ZArith List Bool QArith Qcanon Arith Permutation.
From TE Require Import Base.Val Base.Nd Base.Xq Algebra.Metric Algebra.MergeTree Algebra.Additive
  Models.Text Proofs.TextP Proofs.TextCatP.
Import ListNotations.
Open Scope nat_scope.

(* ---- edit distance ---------------------------------------------------------------------- *)

(* The row-by-row DP of _edit_distance (algo) equals the code's recurrence on prefixes
   (prefixes are represented by their reversals, so D(i,j) = lev (rev a[:i]) (rev b[:j])):
   equal last tokens -> the diagonal, without comparison; otherwise 1 + min(up, left, diagonal). *)
Theorem edit_distance_recurrence : forall (tok : Type) (teq : tok -> tok -> bool) (a b : list tok),
  edit_distance_gen tok teq a b = lev tok teq (rev a) (rev b).
Proof. exact edit_distance_recurrence_gen. Qed.

(* ... and that recurrence equals the textbook Levenshtein recurrence
   D(i,j) = min(D(i-1,j)+1, D(i,j-1)+1, D(i-1,j-1)+[x<>y])   (needs the 1-Lipschitz property). *)
Theorem lev_is_textbook : forall (tok : Type) (teq : tok -> tok -> bool) (ra rb : list tok),
  lev tok teq ra rb = lev_std tok teq ra rb.
Proof. exact lev_is_textbook_gen. Qed.

(* On sentences (integer tokens): the DP computes the reference distance, and the reference distance
   is the function determined by the three textbook equations. *)
Theorem edit_distance_is_levenshtein : forall a b : sent, edit_distance a b = levenshtein a b.
Proof. exact edit_distance_levenshtein. Qed.
Theorem levenshtein_equations :
  (forall b, levenshtein [] b = List.length b) /\
  (forall a, levenshtein a [] = List.length a) /\
  (forall a x b y, levenshtein (a ++ [x]) (b ++ [y]) =
     Nat.min (levenshtein a (b ++ [y]) + 1)
             (Nat.min (levenshtein (a ++ [x]) b + 1) (levenshtein a b + if Z.eqb x y then 0 else 1))).
Proof. exact (conj levenshtein_nil_l (conj levenshtein_nil_r levenshtein_snoc)). Qed.

(* ... and those equations have exactly one solution: ANY function satisfying the textbook
   recurrence is the function the DP computes. *)
Theorem levenshtein_unique_solution : forall f : sent -> sent -> nat,
  (forall b, f [] b = List.length b) ->
  (forall a, f a [] = List.length a) ->
  (forall a x b y, f (a ++ [x]) (b ++ [y]) =
     Nat.min (f a (b ++ [y]) + 1) (Nat.min (f (a ++ [x]) b + 1) (f a b + if Z.eqb x y then 0 else 1))) ->
  forall a b, f a b = edit_distance a b.
Proof. exact levenshtein_unique. Qed.

(* ---- WER / WIP / WIL -------------------------------------------------------------------- *)
(* For ANY merge tree of WordErrorRate objects (any sharding, empty shards, nested merges, updates
   after merges) compute() equals the definition -- sum of reference Levenshtein distances over the
   sum of reference lengths, IEEE division -- applied to the concatenation of ALL pairs seen. *)
Theorem wer_spec : forall t : mtree wer_metric,
  wer_gamma tt (run wer_metric tt t) = wer_def levenshtein (concat (stream _ t)).
Proof. exact wer_class_spec. Qed.
Theorem wip_spec : forall t : mtree wip_metric,
  wip_gamma tt (run wip_metric tt t) = wip_def levenshtein (concat (stream _ t)).
Proof. exact wip_class_spec. Qed.
Theorem wil_spec : forall t : mtree wil_metric,
  wil_gamma tt (run wil_metric tt t) = wil_def levenshtein (concat (stream _ t)).
Proof. exact wil_class_spec. Qed.
(* the functional forms on one corpus *)
Theorem wer_functional_spec : forall b, wer_gamma tt (wer_beta tt b) = wer_def levenshtein b.
Proof. exact wer_fn_spec. Qed.
Theorem wip_functional_spec : forall b, wip_gamma tt (wip_beta tt b) = wip_def levenshtein b.
Proof. exact wip_fn_spec. Qed.
Theorem wil_functional_spec : forall b, wil_gamma tt (wil_beta tt b) = wil_def levenshtein b.
Proof. exact wil_fn_spec. Qed.


(* ---- BLEU ------------------------------------------------------------------------------- *)
(* Per candidate and order i in 1..n_gram: what the Counter |= / & code accumulates into
   matches_by_order[i-1] is the clipped count  sum_g min(c_cand g, max_ref c_ref g)  where c_x g is
   the number of occurrences of the i-gram g in x -- summed over ANY duplicate-free enumeration G of
   n-grams that covers the candidate's i-grams (so: over all n-grams). *)
Theorem bleu_clipped_spec : forall n cand refs i G,
  1 <= i <= n -> NoDup G -> incl (windows i cand) G ->
  nth (i - 1) (sent_matches n cand refs) 0 =
  list_sum (map (fun g => Nat.min (count_occ gram_dec (windows i cand) g)
                                  (list_max (map (fun r => count_occ gram_dec (windows i r) g) refs))) G).
Proof. exact sent_matches_nth. Qed.
(* as lists: algo = executable spec (the enumeration being the candidate's distinct i-grams) *)
Theorem bleu_matches_algo_eq_spec : forall n cand refs, sent_matches n cand refs = sent_matches_spec n cand refs.
Proof. exact sent_matches_eq_spec. Qed.
(* possible matches at (0-based) order i: max(len - i, 0) *)
Theorem bleu_possible_spec : forall n cand i, i < n ->
  nth i (sent_possible n cand) 0 = List.length cand - i.
Proof. exact sent_possible_nth. Qed.
(* the reference length entering the brevity penalty is a closest one to the candidate length, the
   shorter one on ties *)
Theorem bleu_closest_ref_spec : forall lc r rs,
  In (closest_len lc (r :: rs)) (r :: rs) /\ forall x, In x (r :: rs) ->
    absdiff (closest_len lc (r :: rs)) lc < absdiff x lc \/
    (absdiff (closest_len lc (r :: rs)) lc = absdiff x lc /\ closest_len lc (r :: rs) <= x).
Proof. exact closest_len_spec. Qed.
(* brevity penalty (the exp is symbolic): 1 if candidate length > reference length, else exp(1 - r/c) *)
Theorem bleu_brevity_spec : forall il tl : Qc, il <> 0%Qc ->
  brevity il tl = if qlt tl il then RFin (vq 1) else RFin (rexp (vq (1 - tl / il)%Qc)).
Proof. exact brevity_shape. Qed.
(* For ANY merge tree of BLEUScore objects whose update batches were each accepted, compute() equals
   the definition (0 when nothing matched; else brevity penalty * exp(sum_i w_i ln(m_i / p_i)) with the
   configured or uniform weights) evaluated on the statistics -- corpus lengths, clipped counts,
   possible matches -- of the concatenation of ALL sentences seen. *)
Theorem bleu_spec : forall (c : bcfg) (t : mtree bleu_metric),
  Forall (fun b => bleu_ok (fst c) b = true) (stream _ t) ->
  bleu_gamma c (run bleu_metric c t) = bleu_gamma c (bleu_beta_with sent_matches_spec c (concat (stream _ t))).
Proof. exact bleu_class_spec. Qed.
Theorem bleu_functional_spec : forall c b,
  bleu_of_stats c (bleu_beta c b) = bleu_of_stats c (bleu_beta_with sent_matches_spec c b).
Proof. exact bleu_fn_spec. Qed.

(* REFUTED by the faithful model (known finding C08-bleu-zero-weight-nan): with a zero weight on an
   order without matches, class and functional return nan although the corpus is accepted and an
   n-gram matched (0 * log 0 inside exp(sum w_i log p_i); the product form bp * prod p_i^w_i is 1/2 here). *)
Theorem bleu_value_is_number_refuted : exists (c : bcfg) (b : bbatch),
  bleu_ok (fst c) b = true /\ bleu_matches sent_matches (fst c) b = [1; 0] /\
  bleu_gamma c (bleu_beta c b) = xq_val NaN /\ xr_val (bleu_of_stats c (bleu_beta c b)) = xq_val NaN.
Proof. exact (ex_intro _ _ (ex_intro _ _ bleu_zero_weight_witness)). Qed.

(* ---- V_fixed: the repaired _bleu_score_compute (fixes/bleu-zero-weight.patch, a zero-weighted order is
   ignored: p^0 = 1).  The theorems above speak about V_code; the harness decides from the witness
   (n_gram=2, weights (1,0), "a b" vs "a c") which variant the tree under test is tied to. ---- *)
Theorem bleu_spec_fixed : forall (c : bcfg) (t : mtree (add_metric (bleu_spec_add_v V_fixed))),
  Forall (fun b => bleu_ok (fst c) b = true) (stream _ t) ->
  bleu_gamma_v V_fixed c (run (add_metric (bleu_spec_add_v V_fixed)) c t)
  = bleu_gamma_v V_fixed c (bleu_beta_with sent_matches_spec c (concat (stream _ t))).
Proof. exact (bleu_class_spec_v V_fixed). Qed.
(* the positive counterpart of bleu_value_is_number_refuted: with weights >= 0 (zeros allowed) the repaired
   compute of an accepted corpus is always a number -- 0 or a finite positive symbolic value, never nan / inf *)
Theorem bleu_value_is_number_fixed : forall (c : bcfg) (b : bbatch),
  1 <= fst c -> Forall (fun w => w = 0%Qc \/ qlt 0 w = true) (bleu_weights c) -> bleu_valid c b ->
  bleu_of_stats_v V_fixed c (bleu_beta c b) = RZero \/ exists v, bleu_of_stats_v V_fixed c (bleu_beta c b) = RFin v.
Proof. exact bleu_value_is_number_fixed_gen. Qed.
(* on the witness of bleu_value_is_number_refuted the repaired form gives exp(1 - 2/2) * exp(0 + 1*ln(1/2) + 0) = 1/2,
   for the class and for the functional *)
Theorem bleu_fixed_witness_is_product_form : exists (c : bcfg) (b : bbatch),
  bleu_valid c b /\
  bleu_fn_v V_fixed c b = rmul (rexp (VQ 0 1)) (rexp (radd (radd (VQ 0 1) (rmul (VQ 1 1) (rln (VQ 1 2)))) (VQ 0 1))) /\
  class_run (bleu_spec_add_v V_fixed) c [b] = bleu_fn_v V_fixed c b.
Proof. exact (ex_intro _ _ (ex_intro _ _ bleu_fixed_witness)). Qed.

(* ---- non-vacuity ------------------------------------------------------------------------ *)
Open Scope Z_scope.
(* matching tokens in the middle: the diagonal shortcut is exercised; distance 2 *)
Example edit_distance_example :
  edit_distance [1; 2; 3; 4] [1; 3; 4; 5] = 2%nat /\ levenshtein [1; 2; 3; 4] [1; 3; 4; 5] = 2%nat.
Proof. vm_compute. split; reflexivity. Qed.
(* a merge tree with an empty shard, a nested merge and a post-merge update: 3 errors / 6 reference words *)
Example wer_tree_example :
  let b1 : pbatch := [([1; 2], [1; 3])] in
  let b2 : pbatch := [([4; 5; 6; 7], [4; 5; 8]); ([], [])] in
  let t := Merge wer_metric (Shard wer_metric []) [Merge wer_metric (Shard wer_metric [b1]) [Shard wer_metric []] []] [b2; [([9], [9])]] in
  xq_val (wer_gamma tt (run wer_metric tt t)) = VQ 1 2.
Proof. vm_compute. reflexivity. Qed.
(* division by zero is modelled as IEEE does it: no reference words, one inserted word -> +inf *)
Example wer_inf_example : wer_def levenshtein [([1], [])] = PInf.
Proof. vm_compute. reflexivity. Qed.
Example wip_wil_example :
  let b : pbatch := [([1; 2; 3], [1; 2; 4; 5])] in
  xq_val (wip_def levenshtein b) = VQ 1 3 /\ xq_val (wil_def levenshtein b) = VQ 2 3.
Proof. vm_compute. split; reflexivity. Qed.

(* the docstring example "the squirrel is eating the nut" (the=1 squirrel=2 is=3 eating=4 nut=5 a=6 tasty=7):
   clipped matches 5,3,2,1 of 6,5,4,3 possible; closest reference length 6 (of 6 and 7) *)
Example bleu_docstring_example :
  let cand := [1; 2; 3; 4; 1; 5] in let refs := [[6; 2; 3; 4; 6; 5]; [1; 2; 3; 4; 6; 7; 5]] in
  sent_matches 4 cand refs = [5; 3; 2; 1]%nat /\ sent_matches_spec 4 cand refs = [5; 3; 2; 1]%nat /\
  sent_possible 4 cand = [6; 5; 4; 3]%nat /\ sent_reflen cand refs = 6%nat /\
  bleu_ok 4 [(cand, refs)] = true.
Proof. vm_compute. repeat split; reflexivity. Qed.
(* clipping: "1 1 1 2" against references "1 2 2" and "1 1 3": min(3, max(1,2)) + min(1, max(2,0)) = 3,
   over an enumeration with n-grams that do not occur at all *)
Example bleu_clipping_example :
  clipped 1 [1; 1; 1; 2] [[1; 2; 2]; [1; 1; 3]] [[1]; [2]; [3]; [9]] = 3%nat /\
  nth 0 (sent_matches 2 [1; 1; 1; 2] [[1; 2; 2]; [1; 1; 3]]) 0%nat = 3%nat.
Proof. vm_compute. split; reflexivity. Qed.
(* ties in closeness go to the shorter reference: candidate length 5, references 3,7,4,6 -> 4 *)
Example bleu_closest_example : closest_len 5 [3; 7; 4; 6]%nat = 4%nat.
Proof. vm_compute. reflexivity. Qed.
(* a corpus too short for n_gram is rejected per update; the same sentence is accepted next to a long one *)
Example bleu_too_short_example :
  bleu_ok 3 [([1; 2], [[1; 2]])] = false /\ bleu_ok 3 [([1; 2], [[1; 2]]); ([1; 2; 3], [[3]])] = true.
Proof. vm_compute. split; reflexivity. Qed.

Print Assumptions edit_distance_recurrence.
Print Assumptions lev_is_textbook.
Print Assumptions edit_distance_is_levenshtein.
Print Assumptions levenshtein_equations.
Print Assumptions wer_spec.
Print Assumptions wip_spec.
Print Assumptions wil_spec.
Print Assumptions wer_functional_spec.
Print Assumptions wip_functional_spec.
Print Assumptions wil_functional_spec.
Print Assumptions bleu_clipped_spec.
Print Assumptions bleu_matches_algo_eq_spec.
Print Assumptions bleu_possible_spec.
Print Assumptions bleu_closest_ref_spec.
Print Assumptions bleu_brevity_spec.
Print Assumptions bleu_spec.
Print Assumptions bleu_functional_spec.
Print Assumptions bleu_value_is_number_refuted.
Print Assumptions levenshtein_unique_solution.
Print Assumptions bleu_spec_fixed.
Print Assumptions bleu_fixed_witness_is_product_form.
Print Assumptions bleu_value_is_number_fixed.
