(* C08 (text half) -- word error rate, word information preserved / lost and BLEU equal the values
   obtained from a reference Levenshtein distance and clipped n-gram counting with
   closest-reference-length brevity penalty; class forms report the definitions applied to ALL
   data seen so far.  Statements only; proofs live in Proofs/TextP.v. *)
From Coq Require Import ZArith List Bool QArith Qcanon Arith Permutation.
From TE Require Import Base.Val Base.Nd Base.Xq Algebra.Metric Algebra.MergeTree Algebra.Additive
  Models.Text Proofs.TextP.
Import ListNotations.
Open Scope nat_scope.

(* ---- edit distance ---------------------------------------------------------------------- *)

(* The row-by-row DP of _edit_distance (algo) equals the code's recurrence on prefixes
   (prefixes are represented by their reversals, so D(i,j) = lev (rev a[:i]) (rev b[:j])):
   equal last tokens -> the diagonal, without comparison; otherwise 1 + min(up, left, diagonal). *)
Theorem edit_distance_recurrence : forall (tok : Type) (teq : tok -> tok -> bool) (a b : list tok),
  edit_distance_gen tok teq a b = lev tok teq (rev a) (rev b).
Proof. exact edit_distance_recurrence_gen. Qed.

(* ... and that recurrence equals the textbook Levenshtein recurrence
   D(i,j) = min(D(i-1,j)+1, D(i,j-1)+1, D(i-1,j-1)+[x<>y])   (needs the 1-Lipschitz property). *)
Theorem lev_is_textbook : forall (tok : Type) (teq : tok -> tok -> bool) (ra rb : list tok),
  lev tok teq ra rb = lev_std tok teq ra rb.
Proof. exact lev_is_textbook_gen. Qed.

(* On sentences (integer tokens): the DP computes the reference distance, and the reference distance
   is the function determined by the three textbook equations. *)
Theorem edit_distance_is_levenshtein : forall a b : sent, edit_distance a b = levenshtein a b.
Proof. exact edit_distance_levenshtein. Qed.
Theorem levenshtein_equations :
  (forall b, levenshtein [] b = List.length b) /\
  (forall a, levenshtein a [] = List.length a) /\
  (forall a x b y, levenshtein (a ++ [x]) (b ++ [y]) =
     Nat.min (levenshtein a (b ++ [y]) + 1)
             (Nat.min (levenshtein (a ++ [x]) b + 1) (levenshtein a b + if Z.eqb x y then 0 else 1))).
Proof. exact (conj levenshtein_nil_l (conj levenshtein_nil_r levenshtein_snoc)). Qed.

(* ---- WER / WIP / WIL -------------------------------------------------------------------- *)
(* For ANY merge tree of WordErrorRate objects (any sharding, empty shards, nested merges, updates
   after merges) compute() equals the definition -- sum of reference Levenshtein distances over the
   sum of reference lengths, IEEE division -- applied to the concatenation of ALL pairs seen. *)
Theorem wer_spec : forall t : mtree wer_metric,
  wer_gamma tt (run wer_metric tt t) = wer_def levenshtein (concat (stream _ t)).
Proof. exact wer_class_spec. Qed.
Theorem wip_spec : forall t : mtree wip_metric,
  wip_gamma tt (run wip_metric tt t) = wip_def levenshtein (concat (stream _ t)).
Proof. exact wip_class_spec. Qed.
Theorem wil_spec : forall t : mtree wil_metric,
  wil_gamma tt (run wil_metric tt t) = wil_def levenshtein (concat (stream _ t)).
Proof. exact wil_class_spec. Qed.
(* the functional forms on one corpus *)
Theorem wer_functional_spec : forall b, wer_gamma tt (wer_beta tt b) = wer_def levenshtein b.
Proof. exact wer_fn_spec. Qed.
Theorem wip_functional_spec : forall b, wip_gamma tt (wip_beta tt b) = wip_def levenshtein b.
Proof. exact wip_fn_spec. Qed.
Theorem wil_functional_spec : forall b, wil_gamma tt (wil_beta tt b) = wil_def levenshtein b.
Proof. exact wil_fn_spec. Qed.

(* ---- non-vacuity ------------------------------------------------------------------------ *)
Open Scope Z_scope.
(* matching tokens in the middle: the diagonal shortcut is exercised; distance 2 *)
Example edit_distance_example :
  edit_distance [1; 2; 3; 4] [1; 3; 4; 5] = 2%nat /\ levenshtein [1; 2; 3; 4] [1; 3; 4; 5] = 2%nat.
Proof. vm_compute. split; reflexivity. Qed.
(* a merge tree with an empty shard, a nested merge and a post-merge update: 3 errors / 6 reference words *)
Example wer_tree_example :
  let b1 : pbatch := [([1; 2], [1; 3])] in
  let b2 : pbatch := [([4; 5; 6; 7], [4; 5; 8]); ([], [])] in
  let t := Merge wer_metric (Shard wer_metric []) [Merge wer_metric (Shard wer_metric [b1]) [Shard wer_metric []] []] [b2; [([9], [9])]] in
  xq_val (wer_gamma tt (run wer_metric tt t)) = VQ 1 2.
Proof. vm_compute. reflexivity. Qed.
(* division by zero is modelled as IEEE does it: no reference words, one inserted word -> +inf *)
Example wer_inf_example : wer_def levenshtein [([1], [])] = PInf.
Proof. vm_compute. reflexivity. Qed.
Example wip_wil_example :
  let b : pbatch := [([1; 2; 3], [1; 2; 4; 5])] in
  xq_val (wip_def levenshtein b) = VQ 1 3 /\ xq_val (wil_def levenshtein b) = VQ 2 3.
Proof. vm_compute. split; reflexivity. Qed.

Print Assumptions edit_distance_recurrence.
Print Assumptions lev_is_textbook.
Print Assumptions edit_distance_is_levenshtein.
Print Assumptions levenshtein_equations.
Print Assumptions wer_spec.
Print Assumptions wip_spec.
Print Assumptions wil_spec.
Print Assumptions wer_functional_spec.
Print Assumptions wip_functional_spec.
Print Assumptions wil_functional_spec.
