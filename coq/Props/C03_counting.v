(* C03 for the count-based classification metrics: the class form (update() on ANY non-empty sequence of
   valid batches, then compute()) equals the functional form [fn_of S c] -- the definition executed by the
   `@model ..._fn` entry points, i.e. the object of the functional correspondence -- applied ONCE to the
   concatenation of the batches, which is itself a valid batch.
   [..._ok] = valid for the configuration (+ all score batches of one width w, otherwise the tensors cannot
   be concatenated); [mc_cat] concatenates two score batches as scores and otherwise the predicted labels. *)
From Coq Require Import ZArith List Bool Permutation.
From TE Require Import Base.Val Base.Nd Algebra.Metric Algebra.MergeTree Algebra.Additive Models.Counting Proofs.CountingP Proofs.CountingCatP.
Import ListNotations.
Open Scope Z_scope.


Corollary multiclass_accuracy_class_eq_functional (c : acc_cfg) (w : nat) : forall b rest, acc_ok c w b -> Forall (acc_ok c w) rest ->
  class_run mcacc_spec c (b :: rest) = fn_of mcacc_spec c (cat_all mcacc_spec mc_cat b rest) /\
  avalid mcacc_spec c (cat_all mcacc_spec mc_cat b rest) = true.
Proof. exact (class_eq_fn_of_laws mcacc_spec c _ _ (mcacc_laws c w)). Qed.

Corollary binary_accuracy_class_eq_functional (c : Z) : forall b rest, bin_ok b -> Forall (bin_ok) rest ->
  class_run binacc_spec c (b :: rest) = fn_of binacc_spec c (cat_all binacc_spec bin_cat b rest) /\
  avalid binacc_spec c (cat_all binacc_spec bin_cat b rest) = true.
Proof. exact (class_eq_fn_of_laws binacc_spec c _ _ (binacc_laws c)). Qed.

Corollary multilabel_accuracy_class_eq_functional (c : ml_cfg) (w : nat) : forall b rest, ml_ok w b -> Forall (ml_ok w) rest ->
  class_run mlacc_spec c (b :: rest) = fn_of mlacc_spec c (cat_all mlacc_spec ml_cat b rest) /\
  avalid mlacc_spec c (cat_all mlacc_spec ml_cat b rest) = true.
Proof. exact (class_eq_fn_of_laws mlacc_spec c _ _ (mlacc_laws c w)). Qed.

Corollary topk_multilabel_accuracy_class_eq_functional (c : tk_cfg) (w : nat) : forall b rest, tk_ok c w b -> Forall (tk_ok c w) rest ->
  class_run tkacc_spec c (b :: rest) = fn_of tkacc_spec c (cat_all tkacc_spec tk_cat b rest) /\
  avalid tkacc_spec c (cat_all tkacc_spec tk_cat b rest) = true.
Proof. exact (class_eq_fn_of_laws tkacc_spec c _ _ (tkacc_laws c w)). Qed.

Corollary multiclass_precision_class_eq_functional (c : prf_cfg) (w : nat) : forall b rest, prf_ok c w b -> Forall (prf_ok c w) rest ->
  class_run mcprec_spec c (b :: rest) = fn_of mcprec_spec c (cat_all mcprec_spec mc_cat b rest) /\
  avalid mcprec_spec c (cat_all mcprec_spec mc_cat b rest) = true.
Proof. exact (class_eq_fn_of_laws mcprec_spec c _ _ (mcprec_laws c w)). Qed.

Corollary binary_precision_class_eq_functional (c : Z) : forall b rest, bin_ok b -> Forall (bin_ok) rest ->
  class_run binprec_spec c (b :: rest) = fn_of binprec_spec c (cat_all binprec_spec bin_cat b rest) /\
  avalid binprec_spec c (cat_all binprec_spec bin_cat b rest) = true.
Proof. exact (class_eq_fn_of_laws binprec_spec c _ _ (binprec_laws c)). Qed.

Corollary multiclass_recall_class_eq_functional (c : prf_cfg) (w : nat) : forall b rest, prf_ok c w b -> Forall (prf_ok c w) rest ->
  class_run mcrec_spec c (b :: rest) = fn_of mcrec_spec c (cat_all mcrec_spec mc_cat b rest) /\
  avalid mcrec_spec c (cat_all mcrec_spec mc_cat b rest) = true.
Proof. exact (class_eq_fn_of_laws mcrec_spec c _ _ (mcrec_laws c w)). Qed.

Corollary binary_recall_class_eq_functional (c : Z) : forall b rest, bin_ok b -> Forall (bin_ok) rest ->
  class_run binrec_spec c (b :: rest) = fn_of binrec_spec c (cat_all binrec_spec bin_cat b rest) /\
  avalid binrec_spec c (cat_all binrec_spec bin_cat b rest) = true.
Proof. exact (class_eq_fn_of_laws binrec_spec c _ _ (binrec_laws c)). Qed.

Corollary multiclass_f1_class_eq_functional (c : prf_cfg) (w : nat) : forall b rest, prf_ok c w b -> Forall (prf_ok c w) rest ->
  class_run mcf1_spec c (b :: rest) = fn_of mcf1_spec c (cat_all mcf1_spec mc_cat b rest) /\
  avalid mcf1_spec c (cat_all mcf1_spec mc_cat b rest) = true.
Proof. exact (class_eq_fn_of_laws mcf1_spec c _ _ (mcf1_laws c w)). Qed.

Corollary binary_f1_class_eq_functional (c : Z) : forall b rest, bin_ok b -> Forall (bin_ok) rest ->
  class_run binf1_spec c (b :: rest) = fn_of binf1_spec c (cat_all binf1_spec bin_cat b rest) /\
  avalid binf1_spec c (cat_all binf1_spec bin_cat b rest) = true.
Proof. exact (class_eq_fn_of_laws binf1_spec c _ _ (binf1_laws c)). Qed.

Corollary multiclass_confusion_matrix_class_eq_functional (c : cm_cfg) : forall b rest, cm_ok c b -> Forall (cm_ok c) rest ->
  class_run mccm_spec c (b :: rest) = fn_of mccm_spec c (cat_all mccm_spec mc_cat b rest) /\
  avalid mccm_spec c (cat_all mccm_spec mc_cat b rest) = true.
Proof. exact (class_eq_fn_of_laws mccm_spec c _ _ (mccm_laws c)). Qed.

Corollary binary_confusion_matrix_class_eq_functional (c : bincm_cfg) : forall b rest, bin_ok b -> Forall (bin_ok) rest ->
  class_run bincm_spec c (b :: rest) = fn_of bincm_spec c (cat_all bincm_spec bin_cat b rest) /\
  avalid bincm_spec c (cat_all bincm_spec bin_cat b rest) = true.
Proof. exact (class_eq_fn_of_laws bincm_spec c _ _ (bincm_laws c)). Qed.

(* the @model ..._fn entry points of the functional correspondence run exactly [fn_of] behind decoding and
   the validity check *)
Theorem run_fn_on_valid : forall (S : AddSpec) dc db (f : acfg S -> abatch S -> res) c b cv bv,
  dc cv = Some c -> db bv = Some b -> avalid S c b = true ->
  run_fn S dc db f (VL [cv; bv]) = res_val (f c b).
Proof. intros S dc db f c b cv bv H1 H2 H3. unfold run_fn. rewrite H1, H2, H3. reflexivity. Qed.
Example functional_entry_points_are_fn_of :
  run_mcacc_fn = run_fn mcacc_spec dec_acc_cfg dec_mcbatch (fn_of mcacc_spec) /\
  run_binacc_fn = run_fn binacc_spec dec_thr dec_binbatch (fn_of binacc_spec) /\
  run_mlacc_fn = run_fn mlacc_spec dec_ml_cfg dec_mlbatch (fn_of mlacc_spec) /\
  run_tkacc_fn = run_fn tkacc_spec dec_tk_cfg dec_tkbatch (fn_of tkacc_spec) /\
  run_mcprec_fn = run_fn mcprec_spec dec_prf_cfg dec_mcbatch (fn_of mcprec_spec) /\
  run_binprec_fn = run_fn binprec_spec dec_thr dec_binbatch (fn_of binprec_spec) /\
  run_mcrec_fn = run_fn mcrec_spec dec_prf_cfg dec_mcbatch (fn_of mcrec_spec) /\
  run_binrec_fn = run_fn binrec_spec dec_thr dec_binbatch (fn_of binrec_spec) /\
  run_mcf1_fn = run_fn mcf1_spec dec_prf_cfg dec_mcbatch (fn_of mcf1_spec) /\
  run_binf1_fn = run_fn binf1_spec dec_thr dec_binbatch (fn_of binf1_spec) /\
  run_mccm_fn = run_fn mccm_spec dec_cm_cfg dec_mcbatch (fn_of mccm_spec) /\
  run_bincm_fn = run_fn bincm_spec dec_bincm_cfg dec_binbatch (fn_of bincm_spec).
Proof. repeat split. Qed.

(* non-vacuity: three batches (labels, scores with a tie, labels), macro F1; re-batched differently *)
Example f1_three_batches_example :
  let c : prf_cfg := (Macro, Some 3%nat) in
  let b1 : mcbatch := (Labels [0; 1], [0; 2]) in
  let b2 : mcbatch := (Logits [[1; 1; 0]; [0; 2; 2]], [1; 1]) in
  let b3 : mcbatch := (Labels [2], [2]) in
  prf_ok c 3 b1 /\ prf_ok c 3 b2 /\ prf_ok c 3 b3 /\
  res_val (class_run mcf1_spec c [b1; b2; b3]) = res_val (fn_of mcf1_spec c (cat_all mcf1_spec mc_cat b1 [b2; b3])) /\
  cat_all mcf1_spec mc_cat b1 [b2; b3] = (Labels [0; 1; 0; 1; 2], [0; 2; 1; 1; 2]) /\
  cat_all mcf1_spec mc_cat b2 [b2] = (Logits [[1; 1; 0]; [0; 2; 2]; [1; 1; 0]; [0; 2; 2]], [1; 1; 1; 1]).
Proof. vm_compute. repeat split; intros rows H; inversion H; reflexivity. Qed.

Print Assumptions multiclass_accuracy_class_eq_functional.
Print Assumptions binary_accuracy_class_eq_functional.
Print Assumptions multilabel_accuracy_class_eq_functional.
Print Assumptions topk_multilabel_accuracy_class_eq_functional.
Print Assumptions multiclass_precision_class_eq_functional.
Print Assumptions binary_precision_class_eq_functional.
Print Assumptions multiclass_recall_class_eq_functional.
Print Assumptions binary_recall_class_eq_functional.
Print Assumptions multiclass_f1_class_eq_functional.
Print Assumptions binary_f1_class_eq_functional.
Print Assumptions multiclass_confusion_matrix_class_eq_functional.
Print Assumptions binary_confusion_matrix_class_eq_functional.
Print Assumptions run_fn_on_valid.
