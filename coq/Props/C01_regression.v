(* C01 for the regression / aggregation family: Alg instances and sharding corollaries.
   Statements only; proofs in Algebra/ and Proofs/RegressionP.v. *)
From Coq Require Import ZArith List Bool QArith Qcanon Permutation String.
From TE Require Import Base.Val Base.Nd Base.Xq Algebra.Metric Algebra.MergeTree Algebra.Cache Algebra.Pool
  Models.Aggregation Models.Aggregation2 Models.Regression Models.Stat Proofs.RegressionP Proofs.CovP Proofs.RegAlgP Proofs.AdoptP Models.Fad Proofs.FadP.
Import ListNotations.
Open Scope list_scope.
Open Scope Qc_scope.

(* Max / Min: commutative idempotent monoids (xq with -inf / +inf as identity): any sharding, any order *)
Theorem max_any_sharding : forall t t' : mtree max_metric,
  Forall (fun b => valid max_metric tt b = true) (stream _ t) ->
  Forall (fun b => valid max_metric tt b = true) (stream _ t') ->
  Permutation (stream _ t) (stream _ t') ->
  cmp max_metric tt (run max_metric tt t) = cmp max_metric tt (run max_metric tt t').
Proof. exact (merge_tree_any_sharding max_metric max_alg tt xmax_comm). Qed.
Theorem min_any_sharding : forall t t' : mtree min_metric,
  Forall (fun b => valid min_metric tt b = true) (stream _ t) ->
  Forall (fun b => valid min_metric tt b = true) (stream _ t') ->
  Permutation (stream _ t) (stream _ t') ->
  cmp min_metric tt (run min_metric tt t) = cmp min_metric tt (run min_metric tt t').
Proof. exact (merge_tree_any_sharding min_metric min_alg tt xmin_comm). Qed.

(* Cat: cache family -- any merge tree computes the concatenation of the data in merge order *)
Theorem cat_merge_tree_eq_single : forall (c : cat_cfg) (t : mtree cat_metric),
  Forall (fun b => valid cat_metric c b = true) (stream _ t) ->
  cmp cat_metric c (run cat_metric c t) = cmp cat_metric c (run cat_metric c (Shard _ (stream _ t))).
Proof. exact (merge_tree_eq_single cat_metric (cache_alg cat_spec)). Qed.

(* Throughput (documented deviation): num_total adds; elapsed is max over merged shards and + over own
   updates -- closed form for every merge tree *)
Theorem throughput_merge : forall t : mtree tp_metric, run tp_metric tt t = (tp_total t, tp_elapsed t).
Proof. exact throughput_tree. Qed.

(* ---- shape adoption (MeanSquaredError): fresh target <- vector shard <- scalar-zero (fresh) shard,
   then an update; equals the single instance that saw both batches ---- *)
Definition ex_b1 : rbatch :=
  {| rb_x := [[mkq 1 1; mkq 2 1]; [mkq 0 1; mkq 1 2]]; rb_t := [[mkq 0 1; mkq 0 1]; [mkq 1 1; mkq 1 1]];
     rb_w := Some [mkq 1 2; mkq 2 1]; rb_1d := false |}.
Definition ex_b2 : rbatch :=
  {| rb_x := [[mkq 3 1; mkq 1 1]]; rb_t := [[mkq 1 1; mkq 1 1]]; rb_w := None; rb_1d := false |}.
Definition ex_c : mse_cfg := {| mse_raw := true; mse_w := Some 2%nat |}.
Example mse_adoption_path :
  let t := Merge mse_metric (Shard mse_metric []) [Shard mse_metric [ex_b1]; Shard mse_metric []] [ex_b2] in
  xnd_val (cmp mse_metric ex_c (run mse_metric ex_c t)) =
  xnd_val (cmp mse_metric ex_c (run mse_metric ex_c (Shard mse_metric [ex_b1; ex_b2])))
  /\ enc_st mse_codec ex_c (run mse_metric ex_c t) = VL [VL [VQ 13 2; VQ 5 2]; VQ 7 2].
Proof. vm_compute. split; reflexivity. Qed.

(* ---- Covariance: two shards combined with Chan's update = one instance that saw all rows ---- *)
Definition ex_r1 : matq := [[mkq 1 1; mkq 2 1]; [mkq 3 1; mkq 1 2]; [mkq 0 1; mkq 5 1]].
Definition ex_r2 : matq := [[mkq 2 1; mkq 2 1]; [mkq (-1) 1; mkq 7 2]].
Example cov_chan_tree :
  let t := Merge cov_metric (Shard cov_metric []) [Shard cov_metric [ex_r1]; Shard cov_metric []; Shard cov_metric [ex_r2]] [] in
  cov_out_val (cmp cov_metric 2%nat (run cov_metric 2%nat t)) =
  cov_out_val (cmp cov_metric 2%nat (run cov_metric 2%nat (Shard cov_metric [ex_r1 ++ ex_r2]))).
Proof. vm_compute. reflexivity. Qed.

(* Covariance (Chan's identity): merging a non-empty shard (and any fresh shards) into a non-empty shard gives
   exactly the state of the single instance that saw both streams, hence the same mean / covariance *)
Theorem cov_merge_eq_single : forall d a al b bl,
  Forall (fun b => rows_ok d b = true /\ b <> []) (a :: al) -> Forall (fun b => rows_ok d b = true /\ b <> []) (b :: bl) ->
  mrg cov_metric d (fold_left (upd cov_metric d) (a :: al) (init cov_metric d))
      [init cov_metric d; fold_left (upd cov_metric d) (b :: bl) (init cov_metric d); init cov_metric d]
  = fold_left (upd cov_metric d) ((a :: al) ++ (b :: bl)) (init cov_metric d).
Proof. exact cov_merge_shards. Qed.

(* ---- shape-adopting additive states: commutative monoid with an adjoined identity (a fresh 0-dim state of a
   2-D stream carries no data); any sharding / merge order / nesting, all batches of the configured width ---- *)
Theorem mse_any_sharding : forall (c : mse_cfg) (t t' : mtree mse_metric),
  Forall (fun b => valid mse_metric c b = true) (stream _ t) ->
  Forall (fun b => valid mse_metric c b = true) (stream _ t') ->
  Permutation (stream _ t) (stream _ t') ->
  cmp mse_metric c (run mse_metric c t) = cmp mse_metric c (run mse_metric c t').
Proof. intros c. exact (merge_tree_any_sharding mse_metric mse_alg c aop_comm). Qed.
Theorem r2_any_sharding : forall (c : r2_cfg) (t t' : mtree r2_metric),
  Forall (fun b => valid r2_metric c b = true) (stream _ t) ->
  Forall (fun b => valid r2_metric c b = true) (stream _ t') ->
  Permutation (stream _ t) (stream _ t') ->
  cmp r2_metric c (run r2_metric c t) = cmp r2_metric c (run r2_metric c t').
Proof. intros c. exact (merge_tree_any_sharding r2_metric r2_alg c aop_comm). Qed.
(* ---- PSNR: (count, sse) sums x (min, max) semilattice ---- *)
Theorem psnr_any_sharding : forall (c : option Qc) (t t' : mtree p_metric),
  Forall (fun b => valid p_metric c b = true) (stream _ t) ->
  Forall (fun b => valid p_metric c b = true) (stream _ t') ->
  Permutation (stream _ t) (stream _ t') ->
  cmp p_metric c (run p_metric c t) = cmp p_metric c (run p_metric c t').
Proof. intros c. exact (merge_tree_any_sharding p_metric psnr_alg c p_op_comm). Qed.
(* ---- list-shaped abstractions (symbolic log-linear forms, cached samples): any merge tree equals the single
   instance on the in-order stream; order-insensitivity of the VALUE is the commutativity of real addition
   under the symbolic nodes (NE, Perplexity) resp. the sort in compute (Wasserstein, AUC reorder) ---- *)
Theorem ne_merge_tree_eq_single : forall (c : ne_cfg) (t : mtree ne_metric),
  Forall (fun b => valid ne_metric c b = true) (stream _ t) ->
  cmp ne_metric c (run ne_metric c t) = cmp ne_metric c (run ne_metric c (Shard _ (stream _ t))).
Proof. exact (merge_tree_eq_single ne_metric ne_alg). Qed.
Theorem perplexity_merge_tree_eq_single : forall (c : option Z) (t : mtree px_metric),
  Forall (fun b => valid px_metric c b = true) (stream _ t) ->
  cmp px_metric c (run px_metric c t) = cmp px_metric c (run px_metric c (Shard _ (stream _ t))).
Proof. exact (merge_tree_eq_single px_metric px_alg). Qed.
Theorem auc_merge_tree_eq_single : forall (c : auc_cfg) (t : mtree auc_metric),
  Forall (fun b => valid auc_metric c b = true) (stream _ t) ->
  cmp auc_metric c (run auc_metric c t) = cmp auc_metric c (run auc_metric c (Shard _ (stream _ t))).
Proof. exact (merge_tree_eq_single auc_metric auc_alg). Qed.
Theorem wasserstein_merge_tree_eq_single : forall (c : unit) (t : mtree w_metric),
  Forall (fun b => valid w_metric c b = true) (stream _ t) ->
  cmp w_metric c (run w_metric c t) = cmp w_metric c (run w_metric c (Shard _ (stream _ t))).
Proof. exact (merge_tree_eq_single w_metric wasserstein_alg). Qed.

(* FrechetAudioDistance: additive partial sums (AddSpec): any sharding, any merge order *)
Theorem fad_any_sharding : forall (d : nat) (t t' : mtree fad_metric),
  Forall (fun b => valid fad_metric d b = true) (stream _ t) ->
  Forall (fun b => valid fad_metric d b = true) (stream _ t') ->
  Permutation (stream _ t) (stream _ t') ->
  cmp fad_metric d (run fad_metric d t) = cmp fad_metric d (run fad_metric d t').
Proof. intros d. exact (merge_tree_any_sharding fad_metric fad_alg d fad_alg_comm). Qed.

Print Assumptions max_any_sharding.
Print Assumptions min_any_sharding.
Print Assumptions cat_merge_tree_eq_single.
Print Assumptions throughput_merge.
Print Assumptions mse_adoption_path.
Print Assumptions cov_chan_tree.
Print Assumptions cov_merge_eq_single.
Print Assumptions mse_any_sharding.
Print Assumptions r2_any_sharding.
Print Assumptions psnr_any_sharding.
Print Assumptions ne_merge_tree_eq_single.
Print Assumptions perplexity_merge_tree_eq_single.
Print Assumptions auc_merge_tree_eq_single.
Print Assumptions wasserstein_merge_tree_eq_single.
Print Assumptions fad_any_sharding.
