(* C17 for the ranking family: retrieval precision / recall functionals are invariant under strictly
   increasing maps of the scores (tie-free scores: the property's proviso; a strictly increasing map
   keeps them tie-free); click-through rate and weighted calibration under multiplying all weights by
   a positive constant and under duplicating the data set.  (HitRate / ReciprocalRank: Props/C17.v.)
   CTR computes c / (w + eps) with eps = finfo.tiny: it is homogeneous of degree 0 in (c, w, eps), so the
   exact statement is "scaling the weights by k = scaling eps by 1/k"; for the eps-free definition
   (eps = 0) the invariance is exact.  Statements only (proofs: Proofs/RankingAlgP.v). *)
From Coq Require Import ZArith List Bool QArith Qcanon String.
From TE Require Import Base.Val Base.Nd Base.Xq Algebra.Metric Models.Ranking Proofs.RankingP Proofs.RankingAlgP.
From TE Require Proofs.MetamorphicP.
Import ListNotations.
Open Scope Qc_scope.

Theorem retrieval_precision_invariant_under_increasing_maps :
  forall f, MetamorphicP.strictly_increasing f -> forall k lim l, tie_free l ->
    prec_fn k lim (map (iremap f) l) = prec_fn k lim l.
Proof. intros f Hf k lim l _. exact (prec_fn_monotone f Hf k lim l). Qed.
Theorem retrieval_recall_invariant_under_increasing_maps :
  forall f, MetamorphicP.strictly_increasing f -> forall k l, tie_free l ->
    rec_fn k (map (iremap f) l) = rec_fn k l.
Proof. intros f Hf k l _. exact (rec_fn_monotone f Hf k l). Qed.
Theorem increasing_maps_keep_scores_tie_free :
  forall f, MetamorphicP.strictly_increasing f -> forall l, tie_free l -> tie_free (map (iremap f) l).
Proof. exact tie_free_remap. Qed.
(* the retained top-k itself is mapped item by item *)
Theorem retrieval_topk_commutes_with_increasing_maps :
  forall f, MetamorphicP.strictly_increasing f -> forall k l, topk k (map (iremap f) l) = map (iremap f) (topk k l).
Proof. exact topk_remap. Qed.

Theorem click_through_rate_weight_scaling :
  forall k eps b, k <> 0 -> ctr_fn_eps eps (fst b, scale_w k (snd b)) = ctr_fn_eps (eps / k) b.
Proof. exact ctr_weight_scale. Qed.
Theorem click_through_rate_invariant_under_weight_scaling_eps_free :
  forall k b, k <> 0 -> ctr_fn_eps 0 (fst b, scale_w k (snd b)) = ctr_fn_eps 0 b.
Proof. exact ctr_weight_scale_exact. Qed.
Theorem click_through_rate_duplication :
  forall eps nt b, ctr_valid nt b = true -> ctr_fn_eps eps (ctr_cat b b) = ctr_fn_eps (eps / (1 + 1)) b.
Proof. exact ctr_duplicate. Qed.
Theorem click_through_rate_invariant_under_duplication_eps_free :
  forall nt b, ctr_valid nt b = true -> ctr_fn_eps 0 (ctr_cat b b) = ctr_fn_eps 0 b.
Proof. exact ctr_duplicate_exact. Qed.
Theorem weighted_calibration_invariant_under_weight_scaling :
  forall k nt b, 0 < k -> wc_fn nt (wc_in b, wc_tg b, scale_w k (snd b)) = wc_fn nt b.
Proof. exact wc_weight_scale. Qed.
Theorem weighted_calibration_invariant_under_duplication :
  forall nt b, wc_valid nt b = true -> wc_fn nt (wc_cat b b) = wc_fn nt b.
Proof. exact wc_duplicate. Qed.

(* non-vacuity *)
Example retrieval_monotone_example :
  let l : list item := [(5, 1); (9, 0); (7, 1); (2, 1)]%Z in
  let f := (fun z => 2 * z + 1)%Z in
  tie_free l /\ xq_val (prec_fn (Some 2%nat) false (map (iremap f) l)) = VQ 1 2 /\ xq_val (rec_fn (Some 2%nat) l) = VQ 1 3.
Proof. split; [unfold tie_free; cbn; repeat constructor; cbn; intuition discriminate|split; vm_compute; reflexivity]. Qed.
Example wc_scale_example :       (* a task with zero target sum keeps its +inf under scaling *)
  let b : wc_batch := ([[1; 1]; [1; 0]], [[0; 0]; [1; 1]], WSc 1) in
  map xq_val (wc_fn 2 (wc_in b, wc_tg b, scale_w (mkq 3 1) (snd b))) = [VT "pinf"%string []; VQ 1 2].
Proof. vm_compute. reflexivity. Qed.

Print Assumptions retrieval_precision_invariant_under_increasing_maps.
Print Assumptions retrieval_recall_invariant_under_increasing_maps.
Print Assumptions increasing_maps_keep_scores_tie_free.
Print Assumptions retrieval_topk_commutes_with_increasing_maps.
Print Assumptions click_through_rate_weight_scaling.
Print Assumptions click_through_rate_invariant_under_weight_scaling_eps_free.
Print Assumptions click_through_rate_duplication.
Print Assumptions click_through_rate_invariant_under_duplication_eps_free.
Print Assumptions weighted_calibration_invariant_under_weight_scaling.
Print Assumptions weighted_calibration_invariant_under_duplication.
