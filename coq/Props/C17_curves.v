(* C17 (curve algorithms) -- the metamorphic invariances of the specifications (Props/C17.v) transported
   to the ALGORITHMS through the algo = spec theorems of C05; weight scaling; duplication of the data set. *)
From Coq Require Import ZArith List Bool QArith Qcanon Sorted Permutation.
From TE Require Import Base.Val Base.Xq Models.Curves Proofs.CurvesP Proofs.CurvesPR Proofs.MetamorphicP Proofs.CurvesMetaP.
Import ListNotations.
Open Scope Qc_scope.

(* strictly increasing maps of the scores: the torch pipeline itself (any admissible sorts on both sides) *)
Theorem auroc_pipeline_invariant_under_increasing_maps : forall f, strictly_increasing f -> forall l l1 l2 : list sample,
  Permutation (map (remap f) l) l1 -> StronglySorted (fun a b => (sc b <= sc a)%Z) l1 ->
  Permutation l l2 -> StronglySorted (fun a b => (sc b <= sc a)%Z) l2 ->
  auroc_row_sorted l1 = auroc_row_sorted l2.
Proof. exact auroc_row_sorted_monotone. Qed.
(* binary_auroc / BinaryAUROC.compute, all tasks, weights *)
Theorem binary_auroc_invariant_under_increasing_maps : forall f, strictly_increasing f ->
  forall nt cols, bvalid (1%positive, nt) cols = true ->
  bauroc_algo nt (map (map (remap f)) cols) = bauroc_algo nt cols.
Proof. exact bauroc_algo_monotone. Qed.
(* multiclass one-vs-rest AUROC, every class score mapped *)
Theorem multiclass_auroc_invariant_under_increasing_maps : forall f, strictly_increasing f ->
  forall C macro l, forallb (fun s => Nat.eqb (List.length (fst s)) C) l = true ->
  mcauroc_algo C macro (map (mc_remap f) l) = mcauroc_algo C macro l.
Proof. exact mcauroc_algo_monotone. Qed.
(* AUPRC, the PR curve (thresholds mapped), the recall-at-precision value *)
Theorem auprc_invariant_under_increasing_maps : forall f, strictly_increasing f -> forall l,
  Forall (fun x => 0 < wt x) l -> auprc_row (map (remap f) l) = auprc_row l.
Proof. exact auprc_row_monotone. Qed.
Theorem pr_curve_algo_invariant_under_increasing_maps : forall f, strictly_increasing f -> forall l,
  Forall (fun x => 0 < wt x) l ->
  prc_row (map (remap f) l) = (fst (fst (prc_row l)), snd (fst (prc_row l)), map f (snd (prc_row l))).
Proof. exact prc_row_monotone. Qed.
Theorem recall_at_precision_value_invariant_under_increasing_maps : forall f, strictly_increasing f ->
  forall den den' minp l, Forall (fun x => 0 < wt x) l -> minp <= 1 ->
  fst (rap_row den minp (map (remap f) l)) = fst (rap_row den' minp l).
Proof. exact rap_row_value_monotone. Qed.

(* all weights multiplied by a constant c <> 0 (in particular c > 0) *)
Theorem auroc_spec_invariant_under_weight_scaling : forall c, c <> 0 -> forall l,
  auroc_spec (map (scale_w c) l) = auroc_spec l.
Proof. exact auroc_spec_weight_scale. Qed.
Theorem auroc_invariant_under_weight_scaling : forall c, c <> 0 -> forall l,
  auroc_row (map (scale_w c) l) = auroc_row l.
Proof. exact auroc_row_weight_scale. Qed.

(* the whole data set duplicated *)
Theorem auroc_invariant_under_duplication : forall l, auroc_row (l ++ l) = auroc_row l.
Proof. exact auroc_row_duplicate. Qed.
Theorem pr_curve_invariant_under_duplication : forall l, Forall (fun x => 0 < wt x) l -> prc_row (l ++ l) = prc_row l.
Proof. exact prc_row_duplicate. Qed.
Theorem auprc_invariant_under_duplication : forall l, Forall (fun x => 0 < wt x) l -> auprc_row (l ++ l) = auprc_row l.
Proof. exact auprc_row_duplicate. Qed.

(* non-vacuity *)
Example curves_metamorphic_example :
  let w n := mkq n 1%positive in
  let l : list sample := [(3%Z, (true, w 1%Z)); (3%Z, (false, w 2%Z)); (1%Z, (true, w 1%Z)); (5%Z, (false, w 3%Z))] in
  auroc_row (map (remap (fun z => 2 * z + 1)%Z) l) = auroc_row l /\
  auroc_row (map (scale_w (w 3%Z)) l) = mkq 1%Z 10%positive /\ auroc_row (l ++ l) = mkq 1%Z 10%positive.
Proof. cbv zeta. repeat split; apply Qc_is_canon; vm_compute; reflexivity. Qed.

Print Assumptions auroc_pipeline_invariant_under_increasing_maps.
Print Assumptions binary_auroc_invariant_under_increasing_maps.
Print Assumptions multiclass_auroc_invariant_under_increasing_maps.
Print Assumptions auprc_invariant_under_increasing_maps.
Print Assumptions pr_curve_algo_invariant_under_increasing_maps.
Print Assumptions recall_at_precision_value_invariant_under_increasing_maps.
Print Assumptions auroc_spec_invariant_under_weight_scaling.
Print Assumptions auroc_invariant_under_weight_scaling.
Print Assumptions auroc_invariant_under_duplication.
Print Assumptions pr_curve_invariant_under_duplication.
Print Assumptions auprc_invariant_under_duplication.
