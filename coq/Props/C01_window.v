(* C01 (windowed classes) -- the documented deviation: merge_state POOLS the windows.
   Immediately after  target.merge_state(sources)  (target and sources built by update() calls):
     windowed value = the non-windowed compute over the UNION of the shards' current windows
                      (each shard contributes its last min(total, N) entries),
     lifetime value = the non-windowed compute over everything all shards saw.
   Proved for the faithful V_code models (Models/Window.v, WindowAUROC.v); proofs in
   Proofs/WindowMergeP.v.  The last section states what is NOT true after a merge. *)
From Coq Require Import ZArith List Bool QArith Qcanon Permutation.
From TE Require Import Base.Val Base.Xq Algebra.Metric Algebra.Pool Models.Curves Models.Window Models.WindowAUROC
  Proofs.WindowP Proofs.WindowMergeP.
Import ListNotations.
Open Scope list_scope.

Definition shard_of (M : Metric) (c : cfg M) (us : list (batch M)) : st M := fold_left (upd M c) us (init M c).

(* Generic: any ring buffer whose statistic adds commutatively / associatively up to Req.
   (All shards empty: total_updates = 0 and compute() returns the empty result.) *)
Theorem window_merge_pools :
  forall (W : WinSpec) (L : WinLaws W) (LM : WinLawsM W L) (c : wcfg) (us0 : list wbatch) (uss : list (list wbatch)),
    (0 < cN c)%nat ->
    let M := win_metric W V_code in
    let m := mrg M c (shard_of M c us0) (map (shard_of M c) uss) in
    let hs := map (map (wstat W c)) (us0 :: uss) in
    exists lw ll,
      cmp M c m = (if Nat.eqb (w_tot m) 0 then WEmpty
                   else WOut (if cLife c then Some (wgam W c ll) else None) (wgam W c lw)) /\
      Forall2 (Req L) lw (tsum W c (flat_map (lastn (cN c)) hs)) /\
      (cLife c = true -> Forall2 (Req L) ll (tsum W c (List.concat hs))).
Proof. intros W L LM c us0 uss. exact (ring_merge_pools W L LM c us0 uss). Qed.

(* the three rational statistics: clean equalities *)
Definition merge_pools_eq (W : WinSpec) : Prop :=
  forall (c : wcfg) (us0 : list wbatch) (uss : list (list wbatch)), (0 < cN c)%nat ->
    let M := win_metric W V_code in
    let m := mrg M c (shard_of M c us0) (map (shard_of M c) uss) in
    let hs := map (map (wstat W c)) (us0 :: uss) in
    cmp M c m = (if Nat.eqb (w_tot m) 0 then WEmpty
                 else WOut (if cLife c then Some (wgam W c (tsum W c (List.concat hs))) else None)
                           (wgam W c (tsum W c (flat_map (lastn (cN c)) hs)))).
Theorem window_merge_pools_ctr : merge_pools_eq ctr_spec.
Proof. intros c us0 uss. exact (ring_merge_pools_eq ctr_spec ctr_laws ctr_lawsM c (fun x y H => H) us0 uss). Qed.
Theorem window_merge_pools_wcal : merge_pools_eq wcal_spec.
Proof. intros c us0 uss. exact (ring_merge_pools_eq wcal_spec wcal_laws wcal_lawsM c (fun x y H => H) us0 uss). Qed.
Theorem window_merge_pools_mse : merge_pools_eq mse_spec.
Proof. intros c us0 uss. exact (ring_merge_pools_eq mse_spec mse_laws mse_lawsM c (fun x y H => H) us0 uss). Qed.
(* normalized entropy: up to the order of the formal log terms (see C13.ne_equiv_same_value) *)
Theorem window_merge_pools_ne :
  forall (c : wcfg) (us0 : list wbatch) (uss : list (list wbatch)), (0 < cN c)%nat ->
    let M := wne V_code in
    let m := mrg M c (shard_of M c us0) (map (shard_of M c) uss) in
    let hs := map (map (wstat ne_spec c)) (us0 :: uss) in
    exists lw ll,
      cmp M c m = (if Nat.eqb (w_tot m) 0 then WEmpty else WOut (if cLife c then Some ll else None) lw) /\
      Forall2 ne_equiv lw (tsum ne_spec c (flat_map (lastn (cN c)) hs)) /\
      (cLife c = true -> Forall2 ne_equiv ll (tsum ne_spec c (List.concat hs))).
Proof. intros c us0 uss. exact (ring_merge_pools ne_spec ne_laws ne_lawsM c us0 uss). Qed.

(* WindowedBinaryAUROC (enlarges max_num_samples).  Buffer level: the merged buffers are the shards'
   windows one after the other (each a rotation of the shard's last N samples), then zeros; and with
   no zero score compute() reads exactly a permutation of that union. *)
Theorem window_merge_pools_auroc_buffer :
  forall (c : acfg) (bs0 : list (list col)) (bss : list (list (list col))), (0 < aN c)%nat ->
    let M := wauroc V_code in
    let m := mrg M c (shard_of M c bs0) (map (shard_of M c) bss) in
    let union := flat_map (lastn (aN c)) (map (@List.concat col) (bs0 :: bss)) in
    (exists parts, a_buf m = parts ++ repeat (azcol c) (a_max m - List.length parts) /\ Permutation parts union) /\
    (Forall (fun cl => nonzero_col cl = true) union -> Permutation (aread m) union).
Proof.
  intros c bs0 bss HN M m union.
  assert (Hs : Forall2 (AInv c) (map (@List.concat col) bss) (map (shard_of M c) bss)).
  { clear - HN. induction bss as [|b r IH]; cbn [map]; [constructor|constructor; [apply (ashard_inv c b HN)|exact IH]]. }
  exact (auroc_merge_reads_union c _ _ _ _ HN (ashard_inv c bs0 HN) Hs).
Qed.
(* compute() level: no retained zero score, at least two pooled samples => compute() is the AUROC
   DEFINITION (Curves.auroc_spec) of the pooled samples, per task *)
Theorem window_merge_pools_auroc :
  forall (c : acfg) (bs0 : list (list col)) (bss : list (list (list col))), (0 < aN c)%nat ->
    let M := wauroc V_code in
    let union := flat_map (lastn (aN c)) (map (@List.concat col) (bs0 :: bss)) in
    Forall (fun cl => nonzero_col cl = true) union -> (2 <= List.length union)%nat ->
    cmp M c (mrg M c (shard_of M c bs0) (map (shard_of M c) bss)) = auroc_ref c union.
Proof. intros c bs0 bss. exact (auroc_merge_pools c bs0 bss). Qed.

(* ---- NOT true after a merge (the four update-granular classes keep max_num_updates) ---- *)
(* (a) merging is not compositional: a merged object used as a source contributes only its first
   min(total_updates, max_num_updates) slots.  window 2, A = [1],[1], B = [0],[0]:
   fresh.merge([A.merge([B])]) computes 1, fresh.merge([A, B]) computes 1/2. *)
Theorem window_merge_nested_refuted :
  shown (wcmp ctr_spec mcfg2 (wmrg ctr_spec mcfg2 (sh2 []) [wmrg ctr_spec mcfg2 (sh2 [ctr1 1; ctr1 1]) [sh2 [ctr1 0; ctr1 0]]]))
    = VL [VQ 1 1] /\
  shown (wcmp ctr_spec mcfg2 (wmrg ctr_spec mcfg2 (sh2 []) [sh2 [ctr1 1; ctr1 1]; sh2 [ctr1 0; ctr1 0]]))
    = VL [VQ 1 2].
Proof. exact merge_nested_witness. Qed.
(* (b) updates after a merge never evict the slots taken over from the sources: the cursor wraps
   modulo the old max_num_updates, compute() sums the whole pooled buffer.  window 2, A = B = [1],[1];
   A.merge([B]); 4 updates [0] (the pooled buffer size): 1/2; after 44 updates: still 1/2;
   ClickThroughRate of the last four updates: 0. *)
Theorem window_update_after_merge_refuted :
  shown (wcmp ctr_spec mcfg2 (merged_then 4)) = VL [VQ 1 2] /\
  shown (wcmp ctr_spec mcfg2 (merged_then 44)) = VL [VQ 1 2] /\
  vlistQ (win_ref ctr_spec mcfg2 (repeat (ctr1 0) 4)) = VL [VQ 0 1].
Proof. exact merge_then_update_witness. Qed.

Print Assumptions window_merge_pools.
Print Assumptions window_merge_pools_ctr.
Print Assumptions window_merge_pools_wcal.
Print Assumptions window_merge_pools_mse.
Print Assumptions window_merge_pools_ne.
Print Assumptions window_merge_pools_auroc_buffer.
Print Assumptions window_merge_pools_auroc.
Print Assumptions window_merge_nested_refuted.
Print Assumptions window_update_after_merge_refuted.
