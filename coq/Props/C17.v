(* C17 -- invariance under monotone rescaling, weight scaling, duplication.
   Statements about the specifications that Props/C05.v (AUROC = pairwise statistic, PR points =
   counts >= threshold), Props/C08_ranking.v (rank rule) and the Mean model tie to the code. *)
From Coq Require Import ZArith List Bool QArith Qcanon.
From TE Require Import Base.Val Base.Xq Models.Curves Models.Ranking Models.Aggregation Proofs.MetamorphicP.
Import ListNotations.
Open Scope Qc_scope.

(* AUROC is unchanged by ANY strictly increasing transformation of the scores (any size of input) *)
Theorem auroc_invariant_under_increasing_maps :
  forall f, strictly_increasing f -> forall l, auroc_spec (map (remap f) l) = auroc_spec l.
Proof. exact auroc_spec_monotone. Qed.

(* PR curve: precision and recall values unchanged, thresholds mapped by f *)
Theorem pr_curve_invariant_under_increasing_maps :
  forall f, strictly_increasing f -> forall l,
    prc_spec (map (remap f) l) =
    (fst (fst (prc_spec l)), snd (fst (prc_spec l)), map f (snd (prc_spec l))).
Proof. exact prc_spec_monotone. Qed.

(* hit rate and reciprocal rank depend on a row of scores only through comparisons *)
Theorem hit_rate_invariant_under_increasing_maps :
  forall f, strictly_increasing f -> forall k smp, in_range smp = true ->
    hit_one k (map f (fst smp), snd smp) = hit_one k smp.
Proof. exact hit_one_monotone. Qed.
Theorem reciprocal_rank_invariant_under_increasing_maps :
  forall f, strictly_increasing f -> forall k smp, in_range smp = true ->
    rr_one k (map f (fst smp), snd smp) = rr_one k smp.
Proof. exact rr_one_monotone. Qed.

(* weighted mean: multiplying all weights by a non-zero constant; duplicating the data set *)
Theorem weighted_mean_invariant_under_weight_scaling :
  forall c xs ws, c <> 0 -> mean_fn (xs, WEach (map (Qcmult c) ws)) = mean_fn (xs, WEach ws).
Proof. exact mean_weight_scale. Qed.
Theorem weighted_mean_invariant_under_duplication :
  forall xs ws, List.length ws = List.length xs ->
    mean_fn (xs ++ xs, WEach (ws ++ ws)) = mean_fn (xs, WEach ws).
Proof. exact mean_duplicate. Qed.

(* non-vacuity: x -> 2x+1 is strictly increasing; a tie-heavy weighted input *)
Example affine_is_strictly_increasing : strictly_increasing (fun z => 2 * z + 1)%Z.
Proof. intros a b. destruct (Z.ltb_spec a b), (Z.ltb_spec (2 * a + 1) (2 * b + 1)); try reflexivity; exfalso; Lia.lia. Qed.
Example auroc_monotone_example :
  let l := [(3%Z, (true, mkq 1 2)); (3%Z, (false, mkq 2 1)); (1%Z, (true, mkq 1 1)); (5%Z, (false, mkq 3 1))] in
  auroc_spec (map (remap (fun z => 2 * z + 1)%Z) l) = auroc_spec l /\ this (auroc_spec l) = (1 # 15)%Q.
Proof. split; [apply Qc_is_canon; vm_compute; reflexivity|vm_compute; reflexivity]. Qed.

Print Assumptions auroc_invariant_under_increasing_maps.
Print Assumptions pr_curve_invariant_under_increasing_maps.
Print Assumptions hit_rate_invariant_under_increasing_maps.
Print Assumptions reciprocal_rank_invariant_under_increasing_maps.
Print Assumptions weighted_mean_invariant_under_weight_scaling.
Print Assumptions weighted_mean_invariant_under_duplication.
