(* C01 (windowed classes) -- the REPAIRED merge_state of the four update-granular windowed classes
   (fixes/window-merge-capacity.patch: `self.max_num_updates = merge_max_num_updates`, the line
   WindowedBinaryAUROC.merge_state always had).  Model: Models/Window.v win_metric_cap (wmrg_cap), selected
   by the harness when the witness of the known finding C01-window-merged-object-merged-again shows the
   repaired behaviour (families/window.py merge_capacity_variant).  Proofs: Proofs/WindowCapP.v.
   The statements about the code AS IT IS (win_metric: merge keeps max_num_updates) are untouched:
   Props/C01_window.v (window_merge_pools, window_merge_nested_refuted, window_update_after_merge_refuted)
   and Props/C01_window_trees.v (window_sequential_merge_window, ...).

   For the repaired class:
   * every merge tree without updates between merges reports the statistic of the pooled windows of ALL
     leaves -- sequential / nested = flat, nothing is truncated             (window_merge_pools_any_tree_repaired)
   * max_num_updates of any tree = N * number of leaves, total_updates = number of updates
                                                                          (window_capacity_after_merge_repaired)
   * after a merge the object is a ring buffer of the enlarged capacity     (window_update_after_merge_repaired)
   * lifetime values: exact for every tree, as before                       (window_lifetime_*_repaired). *)
From Coq Require Import ZArith List Bool QArith Qcanon Permutation.
From TE Require Import Base.Val Base.Xq Algebra.Metric Algebra.Pool Algebra.MergeTree Models.Window
  Proofs.WindowP Proofs.WindowMergeP Proofs.WindowTreeP Proofs.WindowCapP.
Import ListNotations.
Open Scope list_scope.

Definition ctree (W : WinSpec) : Type := mtree (win_metric_cap W V_code).
(* the leaves' update lists, their number, "no update() after a merge_state() anywhere in the tree" *)
Definition cleaves {W} (t : ctree W) : list (list wbatch) := leaves W V_code t.
Definition cnleaves {W} (t : ctree W) : nat := nleaves W V_code t.
Definition cnopost {W} (t : ctree W) : bool := nopost_c W V_code t.

(* ============================ pooled windows: sequential / nested = flat ============================ *)
Theorem window_merge_pools_any_tree_repaired :
  forall (W : WinSpec) (L : WinLaws W) (LM : WinLawsM W L) (c : wcfg) (t : ctree W),
    (0 < cN c)%nat -> cnopost t = true ->
    let M := win_metric_cap W V_code in
    exists lw,
      windowed_of (cmp M c (run M c t)) = (if Nat.eqb (w_tot (run M c t)) 0 then None else Some (wgam W c lw)) /\
      Forall2 (Req L) lw (tsum W c (flat_map (fun us => lastn (cN c) (map (wstat W c) us)) (cleaves t))).
Proof. intros W L LM c t. exact (cap_pools_any_tree W L LM V_code c t). Qed.

Definition pools_any_tree_eq (W : WinSpec) : Prop :=
  forall (c : wcfg) (t : ctree W), (0 < cN c)%nat -> cnopost t = true ->
    let M := win_metric_cap W V_code in
    windowed_of (cmp M c (run M c t))
    = (if Nat.eqb (w_tot (run M c t)) 0 then None else Some (win_ref W c (flat_map (lastn (cN c)) (cleaves t)))).
Theorem window_merge_pools_any_tree_repaired_ctr : pools_any_tree_eq ctr_spec.
Proof. intros c t. exact (cap_pools_any_tree_eq ctr_spec ctr_laws ctr_lawsM V_code c (fun x y H => H) t). Qed.
Theorem window_merge_pools_any_tree_repaired_wcal : pools_any_tree_eq wcal_spec.
Proof. intros c t. exact (cap_pools_any_tree_eq wcal_spec wcal_laws wcal_lawsM V_code c (fun x y H => H) t). Qed.
Theorem window_merge_pools_any_tree_repaired_mse : pools_any_tree_eq mse_spec.
Proof. intros c t. exact (cap_pools_any_tree_eq mse_spec mse_laws mse_lawsM V_code c (fun x y H => H) t). Qed.
Theorem window_merge_pools_any_tree_repaired_ne :
  forall (c : wcfg) (t : ctree ne_spec), (0 < cN c)%nat -> cnopost t = true ->
    let M := wne_cap V_code in
    exists lw,
      windowed_of (cmp M c (run M c t)) = (if Nat.eqb (w_tot (run M c t)) 0 then None else Some lw) /\
      Forall2 ne_equiv lw (tsum ne_spec c (flat_map (fun us => lastn (cN c) (map (wstat ne_spec c) us)) (cleaves t))).
Proof. intros c t. exact (cap_pools_any_tree ne_spec ne_laws ne_lawsM V_code c t). Qed.

(* a merged object merged again hands over its whole pool (plus unfilled zero slots): the repaired
   counterpart of window_merged_again_contributes_firstN *)
Theorem window_merged_again_contributes_all_repaired :
  forall (W : WinSpec) (c : wcfg) (s : wst (wS W)) (ms : list (wst (wS W))),
    exists Z, wfilled W (wmrg_cap W c s ms) = (wfilled W s ++ flat_map (wfilled W) ms) ++ Z /\
              forall x, In x Z -> x = zcol W c.
Proof. intros W c s ms. exact (wfilled_mrg_cap W c s ms). Qed.

(* ============================ capacity and total_updates ============================ *)
Theorem window_capacity_after_merge_repaired :
  forall (W : WinSpec) (c : wcfg) (t : ctree W),
    let M := win_metric_cap W V_code in
    w_max (run M c t) = (cN c * cnleaves t)%nat /\ w_tot (run M c t) = List.length (stream M t).
Proof.
  intros W c t. exact (conj (cap_capacity_any_tree W V_code c t) (cap_total_updates_any_tree W V_code c t)).
Qed.

(* ============================ updates after a merge ============================ *)
(* The root  Merge t os post  of ANY tree (t, os arbitrary trees): K = N * number of leaves;
   parts = the pooled slots in buffer order (target's filled slots, then each source's).
   (1) capacity K, cursor right after the merge = |parts| mod K, and the buffer read from the cursor
       (the order of eviction) = last K of  unfilled zero slots ++ parts ++ new updates:
       a full pool (|parts| = K) evicts slot 0 first, then in buffer order; otherwise the unfilled slots
       are used up first, then slot 0, ...
   (2) the windowed value is the statistic of the last K entries of  parts ++ new updates
   (3) after K or more further updates: the statistic of exactly the last K updates
       -- the positive counterpart of window_update_after_merge_refuted. *)
Theorem window_update_after_merge_repaired :
  forall (W : WinSpec) (L : WinLaws W) (c : wcfg) (t : ctree W) (os : list (ctree W)) (post : list wbatch),
    (0 < cN c)%nat ->
    let M := win_metric_cap W V_code in
    let K := (cN c * cnleaves (Merge M t os post))%nat in
    let parts := wfilled W (run M c t) ++ flat_map (wfilled W) (map (run M c) os) in
    let s0 := mrg M c (run M c t) (map (run M c) os) in
    let s' := run M c (Merge M t os post) in
    (w_max s' = K /\ w_cur s0 = Nat.modulo (List.length parts) K /\
     rotv W s' = lastn K (repeat (zcol W c) (K - List.length parts) ++ parts ++ map (wstat W c) post)) /\
    (exists lw, windowed_of (cmp M c s') = (if Nat.eqb (w_tot s') 0 then None else Some (wgam W c lw)) /\
                Forall2 (Req L) lw (tsum W c (lastn K (parts ++ map (wstat W c) post)))) /\
    ((K <= List.length post)%nat ->
     exists lw, windowed_of (cmp M c s') = Some (wgam W c lw) /\
                Forall2 (Req L) lw (tsum W c (lastn K (map (wstat W c) post)))).
Proof. intros W L c t os post. exact (cap_update_after_merge_tree W L V_code c t os post). Qed.

Definition update_after_merge_full_eq (W : WinSpec) : Prop :=
  forall (c : wcfg) (t : ctree W) (os : list (ctree W)) (post : list wbatch), (0 < cN c)%nat ->
    let M := win_metric_cap W V_code in
    let K := (cN c * cnleaves (Merge M t os post))%nat in
    (K <= List.length post)%nat ->
    windowed_of (cmp M c (run M c (Merge M t os post))) = Some (win_ref W c (lastn K post)).
Theorem window_update_after_merge_repaired_ctr : update_after_merge_full_eq ctr_spec.
Proof. intros c t os post. exact (cap_update_after_merge_tree_full_eq ctr_spec ctr_laws V_code c (fun x y H => H) t os post). Qed.
Theorem window_update_after_merge_repaired_wcal : update_after_merge_full_eq wcal_spec.
Proof. intros c t os post. exact (cap_update_after_merge_tree_full_eq wcal_spec wcal_laws V_code c (fun x y H => H) t os post). Qed.
Theorem window_update_after_merge_repaired_mse : update_after_merge_full_eq mse_spec.
Proof. intros c t os post. exact (cap_update_after_merge_tree_full_eq mse_spec mse_laws V_code c (fun x y H => H) t os post). Qed.
Theorem window_update_after_merge_repaired_ne :
  forall (c : wcfg) (t : ctree ne_spec) (os : list (ctree ne_spec)) (post : list wbatch), (0 < cN c)%nat ->
    let M := wne_cap V_code in
    let K := (cN c * cnleaves (Merge M t os post))%nat in
    (K <= List.length post)%nat ->
    exists lw, windowed_of (cmp M c (run M c (Merge M t os post))) = Some lw /\
               Forall2 ne_equiv lw (tsum ne_spec c (lastn K (map (wstat ne_spec c) post))).
Proof.
  intros c t os post HN M K.
  exact (proj2 (proj2 (cap_update_after_merge_tree ne_spec ne_laws V_code c t os post HN))).
Qed.

(* ============================ lifetime: unchanged ============================ *)
Theorem window_lifetime_any_merge_tree_repaired :
  forall (W : WinSpec) (L : WinLaws W) (LM : WinLawsM W L) (c : wcfg) (t : ctree W),
    cLife c = true ->
    let M := win_metric_cap W V_code in
    exists ll,
      lifetime_of (cmp M c (run M c t))
        = (if Nat.eqb (List.length (stream M t)) 0 then None else Some (wgam W c ll)) /\
      Forall2 (Req L) ll (tsum W c (map (wstat W c) (stream M t))).
Proof. intros W L LM c t. exact (cap_lifetime_any_tree W L LM V_code c t). Qed.
Theorem window_lifetime_any_two_merge_trees_repaired :
  forall (W : WinSpec) (L : WinLaws W) (LM : WinLawsM W L) (c : wcfg) (t t' : ctree W),
    cLife c = true ->
    let M := win_metric_cap W V_code in
    stream M t <> [] -> Permutation (stream M t) (stream M t') ->
    exists ll ll',
      lifetime_of (cmp M c (run M c t)) = Some (wgam W c ll) /\
      lifetime_of (cmp M c (run M c t')) = Some (wgam W c ll') /\ Forall2 (Req L) ll ll'.
Proof. intros W L LM c t t'. exact (cap_lifetime_any_two_trees W L LM V_code c t t'). Qed.
Theorem window_lifetime_after_merge_then_updates_repaired :
  forall (W : WinSpec) (L : WinLaws W) (LM : WinLawsM W L) (c : wcfg) (t : ctree W) (post : list wbatch),
    cLife c = true ->
    let M := win_metric_cap W V_code in
    let s := fold_left (upd M c) post (run M c t) in
    exists ll,
      w_tot s = List.length (stream M t ++ post) /\
      lifetime_of (cmp M c s)
        = (if Nat.eqb (List.length (stream M t ++ post)) 0 then None else Some (wgam W c ll)) /\
      Forall2 (Req L) ll (tsum W c (map (wstat W c) (stream M t ++ post))).
Proof. intros W L LM c t post. exact (cap_lifetime_after_tree_then_updates W L LM V_code c t post). Qed.

Definition lifetime_tree_eq_repaired (W : WinSpec) : Prop :=
  forall (c : wcfg) (t : ctree W), cLife c = true ->
    let M := win_metric_cap W V_code in
    lifetime_of (cmp M c (run M c t))
    = (if Nat.eqb (List.length (stream M t)) 0 then None else Some (win_ref W c (stream M t))).
Theorem window_lifetime_any_merge_tree_repaired_ctr : lifetime_tree_eq_repaired ctr_spec.
Proof. intros c t. exact (cap_lifetime_any_tree_eq ctr_spec ctr_laws ctr_lawsM V_code c (fun x y H => H) t). Qed.
Theorem window_lifetime_any_merge_tree_repaired_wcal : lifetime_tree_eq_repaired wcal_spec.
Proof. intros c t. exact (cap_lifetime_any_tree_eq wcal_spec wcal_laws wcal_lawsM V_code c (fun x y H => H) t). Qed.
Theorem window_lifetime_any_merge_tree_repaired_mse : lifetime_tree_eq_repaired mse_spec.
Proof. intros c t. exact (cap_lifetime_any_tree_eq mse_spec mse_laws mse_lawsM V_code c (fun x y H => H) t). Qed.
Theorem window_lifetime_any_merge_tree_repaired_ne :
  forall (c : wcfg) (t : ctree ne_spec), cLife c = true ->
    let M := wne_cap V_code in
    exists ll,
      lifetime_of (cmp M c (run M c t)) = (if Nat.eqb (List.length (stream M t)) 0 then None else Some ll) /\
      Forall2 ne_equiv ll (win_ref ne_spec c (stream M t)).
Proof. intros c t. exact (cap_lifetime_any_tree ne_spec ne_laws ne_lawsM V_code c t). Qed.

(* ============================ Examples ============================ *)
(* the shards of Props/C01_window_trees.v (window 2, every shard received 5 updates: wrapped twice);
   A clicks 1,1,1,1,1; B 0,0,0,0,0; C 1,1,1,0,0 *)
Definition rcfg : wcfg := {| cT := 1; cN := 2; cLife := true; cOpt := false |}.
Definition csh (l : list Z) : ctree ctr_spec := Shard (wctr_cap V_code) (map ctr1 l).
Definition rA := csh [1;1;1;1;1]%Z.  Definition rB := csh [0;0;0;0;0]%Z.  Definition rC := csh [1;1;1;0;0]%Z.
Definition rflat (post : list wbatch) : ctree ctr_spec := Merge (wctr_cap V_code) rA [rB; rC] post.
Definition rseq (post : list wbatch) : ctree ctr_spec := Merge (wctr_cap V_code) (Merge (wctr_cap V_code) rA [rB] []) [rC] post.
Definition rnest (post : list wbatch) : ctree ctr_spec :=
  Merge (wctr_cap V_code) (Shard _ []) [Merge (wctr_cap V_code) rA [rB] []; rC] post.
Definition rshow (t : ctree ctr_spec) : val := enc_wout vlistQ rcfg (cmp (wctr_cap V_code) rcfg (run (wctr_cap V_code) rcfg t)).
(* flat = sequential = nested: lifetime 8/15, window 2/6 (code as it is: 1/3, 1/2, 1/2 -- wctr_wrapped_shards_trees);
   capacities 6, 6, 8 (the fresh target of the nested form brings its own 2 slots) *)
Example wctr_repaired_trees_agree :
  rshow (rflat []) = VL [VL [VQ 8 15]; VL [VQ 1 3]] /\
  rshow (rseq [])  = VL [VL [VQ 8 15]; VL [VQ 1 3]] /\
  rshow (rnest []) = VL [VL [VQ 8 15]; VL [VQ 1 3]] /\
  w_max (run (wctr_cap V_code) rcfg (rseq [])) = 6%nat /\ w_max (run (wctr_cap V_code) rcfg (rnest [])) = 8%nat /\
  w_tot (run (wctr_cap V_code) rcfg (rnest [])) = 15%nat.
Proof. repeat split; vm_compute; reflexivity. Qed.
(* updates after the sequential merge (pool full, cursor 6 mod 6 = 0): two updates (click 1) evict A's two
   slots [1,1] -> still 2/6; six updates evict everything -> 6/6; lifetime 10/17 and 14/21 *)
Example wctr_repaired_updates_after_merge :
  rshow (rseq (repeat (ctr1 1) 2)) = VL [VL [VQ 10 17]; VL [VQ 1 3]] /\
  rshow (rseq (repeat (ctr1 1) 6)) = VL [VL [VQ 2 3]; VL [VQ 1 1]] /\
  vlistQ (win_ref ctr_spec rcfg (lastn 6 (repeat (ctr1 1) 6))) = VL [VQ 1 1].
Proof. repeat split; vm_compute; reflexivity. Qed.
(* the witness of window_update_after_merge_refuted on the repaired model: A = B = [1],[1] (window 2);
   A.merge([B]); four updates [0] -> 0 (code as it is: 1/2, for ever) *)
Definition rmerged_then (k : nat) : wst q2 :=
  run (wctr_cap V_code) mcfg2 (Merge (wctr_cap V_code) (csh [1;1]%Z) [csh [1;1]%Z] (repeat (ctr1 0) k)).
Example wctr_repaired_update_after_merge_witness :
  shown (wcmp ctr_spec mcfg2 (rmerged_then 2)) = VL [VQ 1 2] /\
  shown (wcmp ctr_spec mcfg2 (rmerged_then 4)) = VL [VQ 0 1] /\
  shown (wcmp ctr_spec mcfg2 (rmerged_then 44)) = VL [VQ 0 1].
Proof. repeat split; vm_compute; reflexivity. Qed.
(* the replay of the known finding (WindowedMeanSquaredError, window 1, shards [1,2],[3,4],[5,6] against
   target 0, sequential merge): the windowed squared errors are [4;16;36] repaired, [4;36] as it is *)
Definition k1cfg : wcfg := {| cT := 1; cN := 1; cLife := true; cOpt := false |}.
Definition mse0 (x : Z) : wbatch := {| b_x := [[mkq x 1]]; b_y := [[mkq 0 1]]; b_w := [[mkq 1 1]] |}.
Definition kseq_cap : ctree mse_spec :=
  let M := wmse_cap V_code in
  Merge M (Merge M (Shard M (map mse0 [1;2]%Z)) [Shard M (map mse0 [3;4]%Z)] []) [Shard M (map mse0 [5;6]%Z)] [].
Definition kseq_code : mtree (wmse V_code) :=
  let M := wmse V_code in
  Merge M (Merge M (Shard M (map mse0 [1;2]%Z)) [Shard M (map mse0 [3;4]%Z)] []) [Shard M (map mse0 [5;6]%Z)] [].
Example wmse_known_finding_witness :
  map (map fst) (w_buf (run (wmse_cap V_code) k1cfg kseq_cap)) = [[mkq 4 1]; [mkq 16 1]; [mkq 36 1]] /\
  map (map fst) (w_buf (run (wmse V_code) k1cfg kseq_code)) = [[mkq 4 1]; [mkq 36 1]] /\
  w_max (run (wmse_cap V_code) k1cfg kseq_cap) = 3%nat /\
  w_max (run (wmse V_code) k1cfg kseq_code) = 1%nat.
Proof. repeat split; vm_compute; reflexivity. Qed.

Print Assumptions window_merge_pools_any_tree_repaired.
Print Assumptions window_merge_pools_any_tree_repaired_ctr.
Print Assumptions window_merge_pools_any_tree_repaired_wcal.
Print Assumptions window_merge_pools_any_tree_repaired_mse.
Print Assumptions window_merge_pools_any_tree_repaired_ne.
Print Assumptions window_merged_again_contributes_all_repaired.
Print Assumptions window_capacity_after_merge_repaired.
Print Assumptions window_update_after_merge_repaired.
Print Assumptions window_update_after_merge_repaired_ctr.
Print Assumptions window_update_after_merge_repaired_wcal.
Print Assumptions window_update_after_merge_repaired_mse.
Print Assumptions window_update_after_merge_repaired_ne.
Print Assumptions window_lifetime_any_merge_tree_repaired.
Print Assumptions window_lifetime_any_two_merge_trees_repaired.
Print Assumptions window_lifetime_after_merge_then_updates_repaired.
Print Assumptions window_lifetime_any_merge_tree_repaired_ctr.
Print Assumptions window_lifetime_any_merge_tree_repaired_wcal.
Print Assumptions window_lifetime_any_merge_tree_repaired_mse.
Print Assumptions window_lifetime_any_merge_tree_repaired_ne.
Print Assumptions wctr_repaired_trees_agree.
Print Assumptions wctr_repaired_updates_after_merge.
Print Assumptions wctr_repaired_update_after_merge_witness.
Print Assumptions wmse_known_finding_witness.
