(* C11 -- non-interference, static layer L-eff: meaning of the alias check and of compute purity.
   Statements only; proofs in Proofs/EffectsP.v.  Table obligations over the regenerated skeletons
   are in C11_effects_alias.v / C11_effects_pure.v / C11_effects_fnargs.v (one file per table so
   that a failing table does not take the other obligations down with it). *)
From Coq Require Import List String Bool Arith.
From TE Require Import Models.Effects Proofs.EffectsP.
Import ListNotations.
Open Scope string_scope.

(* If the statements P of a class pass the check (C1, C1', C2, no Clobber), then every step of
   every object t, with any source object sidx <> t and any caller-owned argument location a,
   preserves the separation invariant, and every heap location it writes is unreachable from
   every other object and from every caller-owned tensor. *)
Theorem alias_check_sound : forall P : list atom, alias_ok P = true ->
  forall s t sidx a st, Inv P s -> In st P -> sidx <> t -> a < next s -> (forall i, ~ writable P (objs s i) a) ->
    Inv P (fst (step s t sidx a st)) /\
    (forall l, In l (snd (step s t sidx a st)) -> (forall j, j <> t -> ~ reach (objs s j) l) /\ ~ In l (ext s)).
Proof. exact alias_check_sound_lemma. Qed.

(* hence for whole executions: any interleaving, any number of times, by any objects *)
Theorem alias_check_sound_runs : forall P : list atom, alias_ok P = true ->
  forall s s', run P s s' -> Inv P s -> Inv P s'.
Proof. exact run_preserves_inv. Qed.

Theorem initial_pool_satisfies_inv : forall P : list atom, Inv P {| objs := fun _ _ => []; ext := []; next := 0 |}.
Proof. exact inv_init. Qed.

Theorem no_offence_means_checked : forall P, alias_offences P = [] -> alias_ok P = true.
Proof. exact alias_offences_nil. Qed.

(* compute_pure: no step of compute() writes a heap location or re-binds a registered field (of
   this or any other object), so state_dict() is the same before and after. *)
Theorem compute_pure_sound : forall (R : list fld) (c : sk), compute_pure R c = true ->
  forall st, In st (atoms c) -> forall s t sidx a,
    snd (step s t sidx a st) = [] /\ (forall f, In f R -> objs (fst (step s t sidx a st)) t f = objs s t f)
    /\ (forall j, j <> t -> objs (fst (step s t sidx a st)) j = objs s j).
Proof. exact compute_pure_sound_lemma. Qed.

(* non-vacuity: accumulate-in-place passes; adoption by reference followed by += is rejected *)
Example additive_merge_checked :
  alias_ok (atoms (Seq (Loop (Seq (InPlace "sum") (InPlace "weight"))) (Bind "sum" Fresh))) = true.
Proof. reflexivity. Qed.
Example adoption_by_reference_rejected :
  alias_offences (atoms (Loop (If (Bind "sse" (SrcAlias "sse")) (InPlace "sse")))) = [ABind "sse" (SrcAlias "sse")].
Proof. reflexivity. Qed.
Example cached_argument_checked :
  alias_ok (atoms (Seq (Append "inputs" ArgAlias) (Bind "inputs" (SelfAlias "inputs")))) = true.
Proof. reflexivity. Qed.
Example cached_argument_then_inplace_rejected :
  alias_ok (atoms (Seq (Append "inputs" ArgAlias) (InPlace "inputs"))) = false.
Proof. reflexivity. Qed.

Print Assumptions alias_check_sound.
Print Assumptions alias_check_sound_runs.
Print Assumptions initial_pool_satisfies_inv.
Print Assumptions no_offence_means_checked.
Print Assumptions compute_pure_sound.
