(* C06 -- Binned metrics equal exhaustive per-threshold counting; optimisation modes agree.
   Statements only; proofs in Proofs/BinnedP.v, models in Models/Binned.v. *)
From Coq Require Import ZArith List Bool QArith Qcanon Lia Sorted.
From TE Require Import Base.Val Base.Nd Base.Xq Algebra.Additive Models.Binned Proofs.BinnedP Proofs.BinnedFloorP.
Import ListNotations.
Open Scope Z_scope.

(* 1. binary _update: searchsorted(right)-1 -> 2*idx+label -> histc -> reshape -> suffix sums gives, at
   every threshold index i of ANY sorted threshold list (duplicates allowed, 0 and 1 need not be
   members), exactly the number of positives / negatives scored at or above T_i, and
   fn_i = P - tp_i.  Samples below T_0 are therefore counted only in fn; samples above the last
   threshold are counted at every threshold. *)
Theorem binned_counts_spec : forall (T : list Z) (xs : list sample) (i : nat),
  asc T -> (i < length T)%nat ->
  nth i (bin_tp T xs) 0 = tp_spec (nth i T 0) xs /\
  nth i (bin_fp T xs) 0 = fp_spec (nth i T 0) xs /\
  nth i (bin_fn T xs) 0 = fn_spec (nth i T 0) xs.
Proof. exact binned_counts_spec_thm. Qed.

Theorem binned_counts_vectors : forall (T : list Z) (xs : list sample), asc T ->
  bin_tp T xs = map (fun t => tp_spec t xs) T /\
  bin_fp T xs = map (fun t => fp_spec t xs) T /\
  bin_fn T xs = map (fun t => fn_spec t xs) T.
Proof. exact bin_vectors_spec. Qed.

(* thresholds accepted by the parameter check are sorted, so the theorems apply to every constructible metric *)
Theorem param_check_gives_sorted : forall D T, prc_param_ok D T = true -> asc T.
Proof. exact prc_param_asc. Qed.

(* 2. multiclass / multilabel: for either optimisation mode the three count tensors are the per-cell
   counts  tp[i][c] = #{x | T_i <= score_c(x) /\ target_c(x)}  etc.; hence the modes agree. *)
Theorem binned_multiclass_counts_spec : forall (c : bcfg) (xs : list mcsample),
  asc (thresholds c) -> mc_ok (bC c) xs = true ->
  mc_counts c xs = counts_spec mc_scs mc_hit (bC c) (thresholds c) xs.
Proof. exact mc_counts_spec. Qed.
Theorem binned_multilabel_counts_spec : forall (c : bcfg) (xs : list mlsample),
  asc (thresholds c) -> ml_ok (bC c) xs = true ->
  ml_counts c xs = counts_spec ml_scs ml_hit (bC c) (thresholds c) xs.
Proof. exact ml_counts_spec. Qed.
Theorem binned_modes_agree_multiclass : forall (c : bcfg) (xs : list mcsample),
  asc (thresholds c) -> mc_ok (bC c) xs = true ->
  mc_counts (with_mode c true) xs = mc_counts (with_mode c false) xs.
Proof. exact mc_modes_agree. Qed.
Theorem binned_modes_agree_multilabel : forall (c : bcfg) (xs : list mlsample),
  asc (thresholds c) -> ml_ok (bC c) xs = true ->
  ml_counts (with_mode c true) xs = ml_counts (with_mode c false) xs.
Proof. exact ml_modes_agree. Qed.
(* the state contribution of an update (hence every state and every compute() result) is mode-independent *)
Theorem binned_modes_agree_update_multiclass : forall (c : bcfg) (xs : list mcsample),
  asc (thresholds c) -> mc_ok (bC c) xs = true -> mc_beta (with_mode c true) xs = mc_beta (with_mode c false) xs.
Proof. exact mc_beta_modes. Qed.
Theorem binned_modes_agree_update_multilabel : forall (c : bcfg) (xs : list mlsample),
  asc (thresholds c) -> ml_ok (bC c) xs = true -> ml_beta (with_mode c true) xs = ml_beta (with_mode c false) xs.
Proof. exact ml_beta_modes. Qed.
(* the flattened index of the 'memory' mode is decoded by reshape(T, C, 2) *)
Theorem memory_code_decodes : forall C i c b, 0 < C -> 0 <= c < C -> 0 <= b < 2 ->
  enc C i c b / (2 * C) = i /\ (enc C i c b / 2) mod C = c /\ enc C i c b mod 2 = b.
Proof. exact decode. Qed.
Theorem memory_code_below_first_threshold : forall C c b, 0 < C -> 0 <= c < C -> 0 <= b < 2 -> enc C (-1) c b < 0.
Proof. exact enc_below. Qed.

(* 3. binned = exact on floored scores.
   AUROC (proved in full): for every sorted non-empty threshold list whose first element is <= every score
   (in particular T_0 = 0 and scores in [0,1]; scores above the last threshold are allowed), the binned AUROC
   -- zero-padded, reversed per-threshold counts, torch.trapz, division by P*N, 1/2 when P*N = 0 -- equals the
   exact AUROC (pairs positive>negative count 1, ties 1/2) of the scores rounded down to the nearest threshold. *)
Theorem binned_auroc_floor : forall (T : list Z) (xs : list sample),
  asc T -> T <> [] -> (forall x, In x xs -> hd 0 T <= fst x) ->
  binary_binned_auroc T xs = auroc_exact (floored T xs).
Proof. exact binned_auroc_floor_thm. Qed.
(* per task: what BinaryBinnedAUROC.compute() returns *)
Theorem binned_auroc_floor_per_task : forall (c : bcfg) (cols : list bcol),
  cols <> [] -> asc (thresholds c) -> thresholds c <> [] ->
  (forall t x, In x (task_row t cols) -> hd 0 (thresholds c) <= fst x) ->
  broc_fun c cols = Some (map (fun t => auroc_exact (floored (thresholds c) (task_row t cols))) (seq 0 (bC c)), thr_q c).
Proof. exact broc_fun_floor. Qed.
(* per class: REFUTED for the multiclass form as implemented (one value per sample, not per class) --
   finding C06-multiclass-binned-auroc-per-sample *)
Theorem binned_auroc_floor_per_class_multiclass_refuted :
  (exists C T xs, mc_ok C xs = true /\ asc T /\ length (mc_binned_auroc_algo C T xs) <> length (mc_binned_auroc_spec C T xs)) /\
  (exists C T xs, mc_ok C xs = true /\ asc T /\ length (mc_binned_auroc_algo C T xs) = length (mc_binned_auroc_spec C T xs)
                  /\ mc_binned_auroc_algo C T xs <> mc_binned_auroc_spec C T xs).
Proof. exact mc_binned_auroc_refuted. Qed.
(* AUPRC (proved in full): under the same hypotheses the binned AUPRC -- precision with nan_to_num(.,1), recall,
   the appended (1, 0) point, the riemann integral, nan_to_num(., 0) -- equals the exact AUPRC of the floored
   scores: the sum over the DISTINCT floored scores of recall increment x precision, 0 when there are no
   positives.  Thresholds with an empty bucket and all but the last copy of a duplicated threshold are
   repeated curve points with zero recall increment.  (The counts themselves depend on the floors only.) *)
Theorem binned_counts_depend_on_floors_only : forall (T : list Z) (xs : list sample),
  asc T -> T <> [] -> (forall x, In x xs -> hd 0 T <= fst x) ->
  bin_tp T (floored T xs) = bin_tp T xs /\ bin_fp T (floored T xs) = bin_fp T xs /\ bin_fn T (floored T xs) = bin_fn T xs.
Proof. exact binned_counts_floor_invariant. Qed.
Theorem binned_auprc_floor : forall (T : list Z) (xs : list sample),
  asc T -> T <> [] -> (forall x, In x xs -> hd 0 T <= fst x) ->
  auprc_curve (map zq (bin_tp T xs)) (map zq (bin_fp T xs)) (map zq (bin_fn T xs)) = Fin (auprc_exact (floored T xs)).
Proof. exact binned_auprc_floor_thm. Qed.
(* per task (BinaryBinnedAUPRC), per class (MulticlassBinnedAUPRC: one-vs-rest) and per label
   (MultilabelBinnedAUPRC), either optimisation mode, with the stated average *)
Theorem binned_auprc_floor_per_task : forall (c : bcfg) (rows : list (list sample)),
  asc (thresholds c) -> thresholds c <> [] ->
  (forall r x, In r rows -> In x r -> hd 0 (thresholds c) <= fst x) ->
  map2 (fun tf fn => auprc_curve (fst tf) (snd tf) fn)
       (combine (nrows (st_tp (bauprc_beta c rows))) (nrows (st_fp (bauprc_beta c rows)))) (nrows (st_fn (bauprc_beta c rows)))
  = map (fun r => Fin (auprc_exact (floored (thresholds c) r))) rows.
Proof. exact bauprc_rows_floor. Qed.
Theorem binned_auprc_floor_per_class_multiclass : forall (c : bcfg) (xs : list mcsample),
  asc (thresholds c) -> thresholds c <> [] -> mc_ok (bC c) xs = true ->
  (forall k x, (k < bC c)%nat -> In x xs -> hd 0 (thresholds c) <= nth k (fst x) 0) ->
  m_gamma_auprc c (mc_beta c xs)
  = let a := map (fun k => Fin (auprc_exact (floored (thresholds c) (ovr k xs)))) (seq 0 (bC c)) in
    if bmacro c then AMacro (xmean a) else AEach a.
Proof. exact mc_auprc_floor. Qed.
Theorem binned_auprc_floor_per_label_multilabel : forall (c : bcfg) (xs : list mlsample),
  asc (thresholds c) -> thresholds c <> [] -> ml_ok (bC c) xs = true ->
  (forall k x, (k < bC c)%nat -> In x xs -> hd 0 (thresholds c) <= nth k (fst x) 0) ->
  m_gamma_auprc c (ml_beta c xs)
  = let a := map (fun k => Fin (auprc_exact (floored (thresholds c) (label_col k xs)))) (seq 0 (bC c)) in
    if bmacro c then AMacro (xmean a) else AEach a.
Proof. exact ml_auprc_floor. Qed.

(* 4. the AddSpec instances' [avalid] (which carries a computed shape condition so that the generic additive
   algebra applies) is exactly the input check: the count tensors always have the registered states' shapes *)
Theorem binned_valid_binary_curve : forall c xs, avalid bprc_spec c xs = true.
Proof. exact bprc_valid_all. Qed.
Theorem binned_valid_binary_auprc : forall c rows, length rows = bC c -> rect rows = true -> avalid bauprc_spec c rows = true.
Proof. exact bauprc_valid_is_input_check. Qed.
Theorem binned_valid_multiclass : forall c xs, asc (thresholds c) -> mc_ok (bC c) xs = true ->
  avalid mcprc_spec c xs = true /\ avalid mcauprc_spec c xs = true.
Proof. exact mc_valid_is_input_check. Qed.
Theorem binned_valid_multilabel : forall c xs, asc (thresholds c) -> ml_ok (bC c) xs = true ->
  avalid mlprc_spec c xs = true /\ avalid mlauprc_spec c xs = true.
Proof. exact ml_valid_is_input_check. Qed.

(* threshold construction: an integer n means linspace(0, 1, n) = i/(n-1) (exact on the grid when (n-1) | D) *)
Example linspace_example :
  linspace 8 5 = [0; 2; 4; 6; 8] /\ linspace 8 1 = [0] /\ linspace 8 9 = [0; 1; 2; 3; 4; 5; 6; 7; 8] /\
  auprc_param_ok 8 (linspace 8 3) = true /\ auprc_param_ok 8 [0; 4; 4] = false /\ prc_param_ok 8 [2; 2; 5] = true /\
  prc_param_ok 8 [2; 1] = false /\ prc_param_ok 8 [0; 9] = false.
Proof. vm_compute. auto 10. Qed.

(* non-vacuity: duplicated thresholds, neither 0 nor 1 a member; scores below the first, ON a threshold,
   between, and above the last threshold (grid of eighths) *)
Example binned_counts_example :
  let T := [2; 2; 5] in
  let xs : list sample := [(1, true); (2, true); (5, false); (9, true); (4, false); (1, false)] in
  asc T /\ bin_tp T xs = [2; 2; 1] /\ bin_fp T xs = [2; 2; 1] /\ bin_fn T xs = [1; 1; 2].
Proof. split; [repeat constructor; lia|vm_compute; auto]. Qed.
Example binned_modes_example :
  let c := {| bD := 8; bthr := TList [0; 3; 3; 8]; bmem := true; bC := 3; bmacro := true |} in
  let xs : list mcsample := [([3; 0; 8], 0%nat); ([2; 3; 9], 2%nat); ([-1; 8; 3], 1%nat)] in
  asc (thresholds c) /\ mc_ok (bC c) xs = true /\
  mc_counts c xs = ([[0; 0; 0]; [0; 0; 0]; [0; 0; 0]; [1; 0; 0]],
                    [[1; 2; 2]; [0; 1; 2]; [0; 1; 2]; [0; 0; 1]],
                    [[1; 1; 1]; [1; 1; 1]; [1; 1; 1]; [0; 1; 1]]).
Proof. split; [repeat constructor; lia|vm_compute; auto]. Qed.

(* floors: scores between thresholds, ON a duplicated threshold and above the last one; a tie after flooring *)
Example binned_auroc_floor_example :
  let T := [0; 4; 4; 8] in
  let xs : list sample := [(3, true); (0, false); (5, false); (4, true); (9, true); (7, false)] in
  asc T /\ (forall x, In x xs -> hd 0 T <= fst x) /\
  floored T xs = [(0, true); (0, false); (4, false); (4, true); (8, true); (4, false)] /\
  vq (binary_binned_auroc T xs) = VQ 11 18 /\ vq (auroc_exact (floored T xs)) = VQ 11 18.
Proof.
  split; [repeat constructor; lia|]. split; [|vm_compute; auto].
  intros x Hx. cbn in Hx. repeat (destruct Hx as [<-|Hx]; [cbn; lia|]). destruct Hx.
Qed.
Example binned_auprc_floor_example :
  let T := [0; 4; 4; 8] in
  let xs : list sample := [(3, true); (0, false); (5, false); (4, true); (9, true); (7, false)] in
  xq_val (auprc_curve (map zq (bin_tp T xs)) (map zq (bin_fp T xs)) (map zq (bin_fn T xs))) = VQ 2 3 /\
  xq_val (Fin (auprc_exact (floored T xs))) = VQ 2 3.
Proof. vm_compute. auto. Qed.

Print Assumptions binned_counts_spec.
Print Assumptions binned_counts_vectors.
Print Assumptions param_check_gives_sorted.
Print Assumptions binned_multiclass_counts_spec.
Print Assumptions binned_multilabel_counts_spec.
Print Assumptions binned_modes_agree_multiclass.
Print Assumptions binned_modes_agree_multilabel.
Print Assumptions binned_modes_agree_update_multiclass.
Print Assumptions binned_modes_agree_update_multilabel.
Print Assumptions memory_code_decodes.
Print Assumptions memory_code_below_first_threshold.
Print Assumptions binned_auroc_floor.
Print Assumptions binned_auroc_floor_per_task.
Print Assumptions binned_auroc_floor_per_class_multiclass_refuted.
Print Assumptions binned_counts_depend_on_floors_only.
Print Assumptions binned_auprc_floor.
Print Assumptions binned_auprc_floor_per_task.
Print Assumptions binned_auprc_floor_per_class_multiclass.
Print Assumptions binned_auprc_floor_per_label_multilabel.
Print Assumptions binned_valid_binary_curve.
Print Assumptions binned_valid_binary_auprc.
Print Assumptions binned_valid_multiclass.
Print Assumptions binned_valid_multilabel.
