(* C09 item 2 -- registration, static layer L-eff: meaning of `written <= registered + derived`. *)
From Coq Require Import List String Bool.
From TE Require Import Models.Effects Proofs.EffectsP.
Import ListNotations.
Open Scope string_scope.

(* If every attribute the methods write is registered, then load_state_dict(state_dict(o)) into a
   freshly constructed object reproduces o on EVERY attribute, whatever was written before. *)
Theorem registry_load_sound : forall R W : list fld, registry_ok R [] W = true ->
  forall (fresh : aobj) (ws : list (fld * nat)), (forall f, In f (map fst ws) -> In f W) ->
    forall g, aload R (awrites fresh ws) fresh g = awrites fresh ws g.
Proof. exact registry_load_restores. Qed.

(* storage produced by a Fresh right-hand side (detach().clone(), deepcopy) is reachable from no object *)
Theorem fresh_storage_unreachable : forall P s, Inv P s -> (forall j, ~ reach (objs s j) (next s)) /\ ~ In (next s) (ext s).
Proof. exact fresh_is_unreachable. Qed.

Example cursor_not_covered : registry_ok ["total_updates"; "windowed_sum"] [] ["windowed_sum"; "next_inserted"; "total_updates"] = false.
Proof. reflexivity. Qed.

Print Assumptions registry_load_sound.
Print Assumptions fresh_storage_unreachable.
