(* C10 -- generated-table obligation: reset() covers every attribute written outside __init__. *)
From Coq Require Import List String Bool.
From TE Require Import Models.Effects Models.EffectsTables Generated.Skeletons Generated.Registry Generated.KnownEffects.
Import ListNotations.
Open Scope string_scope.

Theorem reset_covers_all_classes :
  registry_table_ok class_skeletons registry (derived_attrs ++ reset_assigned) registry_excused_reset = true.
Proof. vm_compute. reflexivity. Qed.

Theorem reset_excuses_are_live : registry_excuses_live registry (derived_attrs ++ reset_assigned) registry_excused_reset = true.
Proof. vm_compute. reflexivity. Qed.

Print Assumptions reset_covers_all_classes.
Print Assumptions reset_excuses_are_live.
