(* C11 -- generated-table obligation: the alias check over the skeletons of ALL classes (regenerated
   from the Python AST by tools/tr_effects.py on every run), known offences excused per (class, atom). *)
From Coq Require Import List String Bool.
From TE Require Import Models.Effects Generated.Skeletons Generated.Registry Generated.KnownEffects.
Import ListNotations.
Open Scope string_scope.

(* every method of every class was translated, and every alias offence of every class is a
   recorded (class, statement) pair *)
Theorem noninterference_all_classes :
  alias_table_ok class_skeletons base_methods registry alias_excused = true.
Proof. vm_compute. reflexivity. Qed.

(* every class without an excuse passes the check outright (alias_check_sound applies to it) *)
Theorem noninterference_checked_classes :
  forallb (fun c => alias_ok (class_atoms class_skeletons base_methods registry c))
          (unexcused_classes class_skeletons alias_excused) = true.
Proof. vm_compute. reflexivity. Qed.

(* every recorded excuse REALLY is an offence of the current tree (a repaired tree drops it) *)
Theorem alias_excuses_are_live :
  alias_excuses_live class_skeletons base_methods registry alias_excused = true.
Proof. vm_compute. reflexivity. Qed.

Print Assumptions noninterference_all_classes.
Print Assumptions noninterference_checked_classes.
Print Assumptions alias_excuses_are_live.
