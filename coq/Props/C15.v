(* C15 -- Lossless distributed exchange: what synclib gathers is what the ranks hold (states of
   any shape incl. zero extents, uneven sizes, lists, dicts, objects), for every group size; and the
   configurations in which the code as it is does NOT deliver that (refuted statements).
   Statements only; proofs live in Proofs/ProtoP.v and Proofs/SynclibP.v.
   [fx : fixes] selects the variant: V_code = the code as it is, V_fixed = all three repairs
   (fx_d12, fx_d9, fx_dst); the hypotheses depend on it.
   Conventions: g = global ranks of the group members in group order, n = length g, rank index i =
   group rank, dst = synclib's ``rank`` argument, Wg = world size (slots of gathered_states). *)
From Coq Require Import ZArith List Bool String Arith Lia.
From TE Require Import Base.Val Models.Proto Models.Synclib Proofs.ProtoP Proofs.SynclibP.
Import ListNotations.
Open Scope string_scope.
Open Scope list_scope.

(* ---- 0. the runner used by the harness (with trace) computes the runner of the theorems ---- *)
Theorem traced_runner_agrees :
  forall (g : list nat) (A : Type) (ps : list (P A)),
    snd (run_all_tr (respond g) ps) = run_all (respond g) ps.
Proof. intros. apply run_all_tr_snd. Qed.

(* ---- 1. F.pad to the per-dimension maximum, then slicing back, is the identity ---- *)
Theorem pad_slice_roundtrip :
  forall (x : td) (s m : list nat), wf s x -> le_shape s m -> slice s (pad m x) = x.
Proof. exact SynclibP.pad_slice_roundtrip. Qed.

Example zero_extent : slice [0; 3] (pad [4; 5] (TArr [])) = TArr [] /\ wf [0; 3] (TArr []).
Proof. split; [reflexivity|cbn; auto]. Qed.

(* ---- 2. send_tensors: scalar fast path, equal-size fast path, pad / gather / trim.
   [tens_okx fx d z t]: t is well formed, has dtype z -- unless fx_d10 && fx_dt (dtype negotiation,
   fixes/sync-dtype.patch: then ANY mix of dtypes is delivered, each tensor in its own dtype) -- and -- unless
   fx_d10 (ndim negotiation) -- ndim d;
   with fx_d10 tensors of ANY mix of ranks are delivered, each with its own shape ---- *)
Theorem send_tensors_lossless :
  forall (fx : fixes) (g : list nat) (dst : option nat) (ts : nat -> tensor) (d : nat) (z : Z),
    let n := List.length g in
    n > 0 -> dst_ok fx g dst -> (forall i, i < n -> tens_okx fx d z (ts i)) ->
    run_all (respond g) (map (fun i => send_tensors fx g dst i (ts i)) (seq 0 n))
    = Some (map (fun i => Ok (if receives dst i then Some (map ts (seq 0 n)) else None)) (seq 0 n)).
Proof. exact SynclibP.send_tensors_lossless. Qed.

(* ---- 3. with ``rank=d`` only rank d receives ---- *)
Theorem dst_only_receives :
  forall (fx : fixes) (g : list nat) (d : nat) (ts : nat -> tensor) (dd : nat) (z : Z),
    let n := List.length g in
    n > 0 -> dst_ok fx g (Some d) -> (forall i, i < n -> tens_okx fx dd z (ts i)) ->
    exists out, run_all (respond g) (map (fun i => send_tensors fx g (Some d) i (ts i)) (seq 0 n)) = Some out /\
      List.length out = n /\
      nth d out (Exc "") = Ok (Some (map ts (seq 0 n))) /\
      forall i, i < n -> i <> d -> nth i out (Exc "") = Ok None.
Proof. exact SynclibP.dst_only_receives. Qed.

(* non-vacuity: three ranks, uneven 2-D tensors including a zero extent, sub-world group order *)
Definition f2 (rows : list (list Z)) (c : nat) : tensor :=
  mkT 0 [List.length rows; c] (TArr (map (fun r => TArr (map (fun z => TSc (VZ z)) r)) rows)).
Definition ex_ts (i : nat) : tensor :=
  nth i [f2 [[1;2;3]]%Z 3; f2 [] 2; f2 [[4];[5]]%Z 1] (f2 [] 0).
Example send_uneven_example :
  run_all (respond [0;1;2]) (map (fun i => send_tensors V_code [0;1;2] None i (ex_ts i)) (seq 0 3))
  = Some (map (fun _ => Ok (Some (map ex_ts (seq 0 3)))) (seq 0 3))
  /\ (forall i, i < 3 -> tens_ok 2 0 (ex_ts i)).
Proof.
  split; [vm_compute; reflexivity|].
  intros i Hi. destruct i as [|[|[|i]]]; try lia; repeat split; cbn; auto.
Qed.
Example send_dst_example :
  run_all (respond [0;1;2]) (map (fun i => send_tensors V_code [0;1;2] (Some 1) i (ex_ts i)) (seq 0 3))
  = Some [Ok None; Ok (Some (map ex_ts (seq 0 3))); Ok None].
Proof. vm_compute. reflexivity. Qed.

(* ---- 4. _sync_obj_states ---- *)
Theorem obj_sync_lossless :
  forall (fx : fixes) (g : list nat) (dst : option nat) (Wg : nat) (vs : nat -> val),
    let n := List.length g in
    n > 0 -> dst_ok fx g dst ->
    run_all (respond g) (map (fun i => sync_obj fx g dst i Wg (vs i)) (seq 0 n))
    = Some (map (fun i => Ok (if receives dst i then pad_slots Wg (map (fun j => GO (vs j)) (seq 0 n))
                              else untouched Wg)) (seq 0 n)).
Proof. exact SynclibP.obj_sync_lossless. Qed.

(* ---- 5. _sync_list_tensor_states: lists of different lengths (dummy tensors on short ranks), empty
   lists on some ranks (dtype/shape broadcast; V_code: only on the world group, see subgroup_root_refuted; with
   fx_d9: any duplicate-free group), not all lists empty unless fx_d12 (see list_all_empty_refuted) ---- *)
Theorem list_sync_lossless :
  forall (fx : fixes) (g : list nat) (dst : option nat) (Wg : nat) (xss : nat -> list tensor) (d : nat) (z : Z),
    let n := List.length g in
    n > 0 -> n <= Wg -> dst_ok fx g dst ->
    (forall i, i < n -> forall t, In t (xss i) -> tens_ok d z t) ->
    (fx_d12 fx = true \/ exists i, i < n /\ xss i <> []) ->
    ((exists i, i < n /\ xss i = []) -> (if fx_d9 fx then NoDup g else g = seq 0 n)) ->
    run_all (respond g) (map (fun i => sync_list fx g dst i Wg (xss i)) (seq 0 n))
    = Some (map (fun i => Ok (if receives dst i then pad_slots Wg (map (fun j => GL (xss j)) (seq 0 n))
                              else untouched Wg)) (seq 0 n)).
Proof. exact SynclibP.list_sync_lossless. Qed.

(* ---- 6. _sync_dict_tensor_states when all ranks hold the same key set ---- *)
Theorem dict_sync_lossless_same_keys :
  forall (fx : fixes) (g : list nat) (dst : option nat) (Wg : nat) (kvs : nat -> list (string * tensor))
         (ks : list string) (d : nat) (z : Z),
    let n := List.length g in
    n > 0 -> n <= Wg -> dst_ok fx g dst -> (fx_d12 fx = true \/ ks <> []) ->
    (forall i, i < n -> map fst (sort_keys (kvs i)) = ks) ->
    (forall i, i < n -> forall kt, In kt (kvs i) -> tens_ok d z (snd kt)) ->
    run_all (respond g) (map (fun i => sync_dict fx g dst i Wg (kvs i)) (seq 0 n))
    = Some (map (fun i => Ok (if receives dst i
                              then map (fun j => GD (sort_keys (kvs j))) (seq 0 n) ++ repeat (GD []) (Wg - n)
                              else untouched Wg)) (seq 0 n)).
Proof. exact SynclibP.dict_sync_lossless_same_keys. Qed.

(* ---- 7. sync_states over a mixed collection: every (metric, state) key of the traversal order is
   addressed to the right slot of the right rank.  [ideal_family fx g dst Wg ss iv tl]: the sync of
   the per-rank states [ss] delivers [iv j] for rank j (slots of ranks outside the group: [tl]);
   it holds for tensor / object / list / dict states under the hypotheses of 2, 4, 5, 6. ---- *)
Theorem ideal_family_instances :
  forall (fx : fixes) (g : list nat) (dst : option nat) (Wg : nat) (d : nat) (z : Z),
    let n := List.length g in
    n > 0 -> n <= Wg -> dst_ok fx g dst ->
    (forall ts, (forall i, i < n -> tens_okx fx d z (ts i)) ->
       ideal_family fx g dst Wg (fun i => STensor (ts i)) (fun j => GT (ts j)) GEmpty) /\
    (forall vs, ideal_family fx g dst Wg (fun i => SObj (vs i)) (fun j => GO (vs j)) GEmpty) /\
    (forall xss, (forall i, i < n -> forall t, In t (xss i) -> tens_ok d z t) ->
       (fx_d12 fx = true \/ exists i, i < n /\ xss i <> []) ->
       ((exists i, i < n /\ xss i = []) -> (if fx_d9 fx then NoDup g else g = seq 0 n)) ->
       ideal_family fx g dst Wg (fun i => SList (xss i)) (fun j => GL (xss j)) GEmpty) /\
    (forall kvs ks, (fx_d12 fx = true \/ ks <> []) -> (forall i, i < n -> map fst (sort_keys (kvs i)) = ks) ->
       (forall i, i < n -> forall kt, In kt (kvs i) -> tens_ok d z (snd kt)) ->
       ideal_family fx g dst Wg (fun i => SDict (kvs i)) (fun j => GD (sort_keys (kvs j))) (GD [])).
Proof.
  intros fx g dst Wg d z n Hn HW Hok. repeat split.
  - intros ts Ht. exact (ideal_tensor fx g dst Wg ts d z Hn Hok Ht).
  - intros vs. exact (ideal_obj fx g dst Wg vs Hn Hok).
  - intros xss H1 H2 H3. exact (ideal_list fx g dst Wg xss d z Hn HW Hok H1 H2 H3).
  - intros kvs ks H1 H2 H3. exact (ideal_dict fx g dst Wg kvs ks d z Hn HW Hok H1 H2 H3).
Qed.

Theorem mixed_collection_addressing :
  forall (fx : fixes) (g : list nat) (dst : option nat) (Wg : nat) (mds : nat -> mdict) (order : list key)
         (iv : key -> nat -> gs) (tl : key -> gs),
    let n := List.length g in
    n <= Wg ->
    (forall k, In k order -> exists ss, (forall i, i < n -> lookup2 (mds i) k = Some (ss i)) /\
                                        ideal_family fx g dst Wg ss (iv k) (tl k)) ->
    exists gath,
      run_all (respond g) (map (fun i => sync_states fx g dst i Wg (mds i) order) (seq 0 n))
      = Some (map (fun i => Ok (if receives dst i then Some gath else None)) (seq 0 n)) /\
      List.length gath = Wg /\
      (forall j k, j < n -> In k order -> get_key k (nth j gath []) = Some (iv k j)) /\
      (forall j k, n <= j < Wg -> In k order -> get_key k (nth j gath []) = Some (tl k)).
Proof. exact SynclibP.mixed_collection_addressing. Qed.

(* when the traversal keys are distinct, the gathered dicts are exactly the dicts of ideal values in
   traversal order (slot j < n: rank j's values; other slots: the fillers) *)
Theorem mixed_collection_exact :
  forall (fx : fixes) (g : list nat) (dst : option nat) (Wg : nat) (mds : nat -> mdict) (order : list key)
         (iv : key -> nat -> gs) (tl : key -> gs),
    let n := List.length g in
    n <= Wg -> NoDup order ->
    (forall k, In k order -> exists ss, (forall i, i < n -> lookup2 (mds i) k = Some (ss i)) /\
                                        ideal_family fx g dst Wg ss (iv k) (tl k)) ->
    run_all (respond g) (map (fun i => sync_states fx g dst i Wg (mds i) order) (seq 0 n))
    = Some (map (fun i => Ok (if receives dst i then Some (ideal_gath n Wg order iv tl) else None)) (seq 0 n)).
Proof. exact SynclibP.mixed_collection_exact. Qed.

(* non-vacuity: three ranks, two metrics with a tensor, an object, a list (one rank empty, uneven
   lengths) and a dict state; rank 1 receives *)
Definition ex_md (i : nat) : mdict :=
  [("b", [("t", STensor (ex_ts i)); ("o", SObj (VZ (Z.of_nat i)))]);
   ("a", [("l", SList (nth i [[ex_ts 0; ex_ts 2]; []; [ex_ts 1]] []));
          ("d", SDict [("y", ex_ts i); ("x", ex_ts (2 - i))])])].
Example mixed_example :
  traversal (ex_md 0) = [("a","d"); ("a","l"); ("b","o"); ("b","t")] /\
  exists gath,
    run_all (respond [0;1;2]) (map (fun i => sync_states V_code [0;1;2] (Some 1) i 3 (ex_md i) (traversal (ex_md i))) (seq 0 3))
    = Some [Ok None; Ok (Some gath); Ok None] /\
    map (get_key ("b","t")) gath = map (fun j => Some (GT (ex_ts j))) (seq 0 3) /\
    map (get_key ("b","o")) gath = map (fun j => Some (GO (VZ (Z.of_nat j)))) (seq 0 3) /\
    map (get_key ("a","l")) gath = [Some (GL [ex_ts 0; ex_ts 2]); Some (GL []); Some (GL [ex_ts 1])] /\
    map (get_key ("a","d")) gath = map (fun j => Some (GD [("x", ex_ts (2 - j)); ("y", ex_ts j)])) (seq 0 3).
Proof. split; [reflexivity|]. eexists. split; [vm_compute; reflexivity|]. repeat split. Qed.

(* ---- 8. refuted statements (the model is faithful to the code as it is) ---- *)
Definition sc (z : Z) : tensor := mkT 0 [] (TSc (VZ z)).
Definition v1 (l : list Z) : tensor := mkT 0 [List.length l] (TArr (map (fun z => TSc (VZ z)) l)).

(* D12: every rank holds an empty list: the gathered value is the ``{}`` placeholder, not [] *)
Theorem list_all_empty_refuted :
  exists out,
    run_all (respond [0;1]) (map (fun i => sync_states V_code [0;1] None i 2 [("m", [("x", SList [])])] [("m","x")]) (seq 0 2))
    = Some [Ok (Some out); Ok (Some out)]
    /\ get_key ("m","x") (nth 0 out []) = Some GEmpty /\ get_key ("m","x") (nth 1 out []) = Some GEmpty
    /\ GEmpty <> GL [].
Proof. eexists. split; [vm_compute; reflexivity|]. repeat split; discriminate. Qed.

(* D11: dict states with different key sets: rank 0 ({a}) receives rank 1's {b:10, c:20} as {a:10}
   (mis-keyed and truncated); rank 1 receives rank 0's {a:1} as {b:1} *)
Theorem dict_unequal_keys_refuted :
  forall fx : fixes,
  let kv i := nth i [[("a", sc 1)]; [("b", sc 10); ("c", sc 20)]] [] in
  exists out0 out1,
    run_all (respond [0;1]) (map (fun i => sync_states fx [0;1] None i 2 [("m", [("x", SDict (kv i))])] [("m","x")]) (seq 0 2))
    = Some [Ok (Some out0); Ok (Some out1)]
    /\ get_key ("m","x") (nth 1 out0 []) = Some (GD [("a", sc 10)])
    /\ get_key ("m","x") (nth 0 out1 []) = Some (GD [("b", sc 1)]).
Proof. intros [a b c [] []]; do 2 eexists; (split; [vm_compute; reflexivity|]); split; reflexivity. Qed.

(* D9: sub-group [1;2] of a world of 3; the member with data has group rank 1, which
   _sync_dtype_and_shape hands to broadcast_object_list as a GLOBAL rank: global rank 1 is the
   member WITHOUT data -> dtype, shape = None -> TypeError on every member *)
Theorem subgroup_root_refuted :
  run_all (respond [1;2])
    (map (fun i => sync_states V_code [1;2] None i 3 [("m", [("x", SList (nth i [[]; [v1 [1;2]%Z]] []))])] [("m","x")]) (seq 0 2))
  = Some [Exc "TypeError"; Exc "TypeError"].
Proof. vm_compute. reflexivity. Qed.

(* ``rank=1`` in the sub-group [1;2]: group rank 1 builds the gather list, but dist.gather reads
   dst=1 as a global rank (group rank 0) -> ValueError on every member *)
Theorem subgroup_dst_refuted :
  run_all (respond [1;2]) (map (fun i => send_tensors V_code [1;2] (Some 1) i (nth i [v1 [1]%Z; v1 [1;2]%Z] (sc 0))) (seq 0 2))
  = Some [Exc "ValueError"; Exc "ValueError"]
  /\ ~ dst_ok V_code [1;2] (Some 1).
Proof.
  split; [vm_compute; reflexivity|]. intros [_ H]. specialize (H 0 ltac:(cbn; lia)). discriminate.
Qed.

(* D10 at synclib level: a scalar on one rank and a 1-D tensor on the other: the ranks issue
   different collectives *)
Theorem ndim_mismatch_refuted :
  forall fx : fixes, fx_d10 fx = false ->
  run_all (respond [0;1]) (map (fun i => send_tensors fx [0;1] None i (nth i [sc 1; v1 [1;2]%Z] (sc 0))) (seq 0 2)) = None.
Proof. intros [a b c d []] E; cbn in E; subst d; vm_compute; reflexivity. Qed.

(* ---- 9. the repaired variant on exactly the refuted witnesses, and the headline corollaries ---- *)
(* any duplicate-free group, any named rank d < n, any mix of ndims *)
Theorem send_tensors_lossless_fixed :
  forall (g : list nat) (dst : option nat) (ts : nat -> tensor) (z : Z),
    let n := List.length g in
    n > 0 -> NoDup g -> (match dst with Some d => d < n | None => True end) ->
    (forall i, i < n -> wf (shp (ts i)) (dat (ts i)) /\ dt (ts i) = z) ->
    run_all (respond g) (map (fun i => send_tensors V_fixed g dst i (ts i)) (seq 0 n))
    = Some (map (fun i => Ok (if receives dst i then Some (map ts (seq 0 n)) else None)) (seq 0 n)).
Proof. exact SynclibP.send_tensors_lossless_fixed. Qed.

(* NO all-empty exception, ANY duplicate-free group *)
Theorem list_sync_lossless_fixed :
  forall (g : list nat) (dst : option nat) (Wg : nat) (xss : nat -> list tensor) (d : nat) (z : Z),
    let n := List.length g in
    n > 0 -> n <= Wg -> NoDup g -> (match dst with Some d => d < n | None => True end) ->
    (forall i, i < n -> forall t, In t (xss i) -> tens_ok d z t) ->
    run_all (respond g) (map (fun i => sync_list V_fixed g dst i Wg (xss i)) (seq 0 n))
    = Some (map (fun i => Ok (if receives dst i then pad_slots Wg (map (fun j => GL (xss j)) (seq 0 n))
                              else untouched Wg)) (seq 0 n)).
Proof. exact SynclibP.list_sync_lossless_fixed. Qed.

(* D12 repaired (fx_d12 alone suffices): every rank obtains [] for every member *)
Theorem list_all_empty_fixed :
  exists out,
    run_all (respond [0;1])
      (map (fun i => sync_states (mkFx true false false false false) [0;1] None i 2 [("m", [("x", SList [])])] [("m","x")]) (seq 0 2))
    = Some [Ok (Some out); Ok (Some out)]
    /\ get_key ("m","x") (nth 0 out []) = Some (GL []) /\ get_key ("m","x") (nth 1 out []) = Some (GL [])
    /\ run_all (respond [0;1])
         (map (fun i => sync_states V_fixed [0;1] None i 2 [("m", [("x", SList [])])] [("m","x")]) (seq 0 2))
       = Some [Ok (Some out); Ok (Some out)].
Proof. eexists. split; [vm_compute; reflexivity|]. repeat split. Qed.

(* D9 repaired: the sub-group [1;2] of a world of 3 *)
Theorem subgroup_root_fixed :
  exists out,
    run_all (respond [1;2])
      (map (fun i => sync_states V_fixed [1;2] None i 3 [("m", [("x", SList (nth i [[]; [v1 [1;2]%Z]] []))])] [("m","x")]) (seq 0 2))
    = Some [Ok (Some out); Ok (Some out)]
    /\ get_key ("m","x") (nth 0 out []) = Some (GL [])
    /\ get_key ("m","x") (nth 1 out []) = Some (GL [v1 [1;2]%Z])
    /\ get_key ("m","x") (nth 2 out []) = Some GEmpty.
Proof. eexists. split; [vm_compute; reflexivity|]. repeat split. Qed.

(* ``rank=1`` in the sub-group [1;2] repaired: group rank 1 receives, group rank 0 does not *)
Theorem subgroup_dst_fixed :
  let ts i := nth i [v1 [1]%Z; v1 [1;2]%Z] (sc 0) in
  run_all (respond [1;2]) (map (fun i => send_tensors V_fixed [1;2] (Some 1) i (ts i)) (seq 0 2))
  = Some [Ok None; Ok (Some [ts 0; ts 1])]
  /\ dst_ok V_fixed [1;2] (Some 1).
Proof.
  split; [vm_compute; reflexivity|]. split; [cbn; lia|]. cbn [fx_dst V_fixed].
  repeat constructor; cbn; intuition discriminate.
Qed.


(* D10 repaired (fx_d10 alone suffices): both ranks receive the scalar as a scalar and the 1-D
   tensor as a 1-D tensor *)
Theorem ndim_mismatch_fixed :
  let ts i := nth i [sc 1; v1 [1;2]%Z] (sc 0) in
  run_all (respond [0;1]) (map (fun i => send_tensors (mkFx false false false true false) [0;1] None i (ts i)) (seq 0 2))
  = Some [Ok (Some [sc 1; v1 [1;2]%Z]); Ok (Some [sc 1; v1 [1;2]%Z])]
  /\ run_all (respond [0;1]) (map (fun i => send_tensors V_fixed [0;1] None i (ts i)) (seq 0 2))
     = Some [Ok (Some [sc 1; v1 [1;2]%Z]); Ok (Some [sc 1; v1 [1;2]%Z])]
  /\ (forall i, i < 2 -> tens_okx V_fixed 0 0 (ts i)).
Proof.
  split; [vm_compute; reflexivity|]. split; [vm_compute; reflexivity|].
  intros i Hi. destruct i as [|[|i]]; try lia; (split; [cbn; auto|split; [left; reflexivity|left; reflexivity]]).
Qed.

(* three ranks, ndims 0 / 2 / 1 incl. a zero extent, rank 2 receives *)
Example ndim_mix_example :
  let ts i := nth i [sc 7; ex_ts 1; v1 [1;2;3]%Z] (sc 0) in
  run_all (respond [0;1;2]) (map (fun i => send_tensors V_fixed [0;1;2] (Some 2) i (ts i)) (seq 0 3))
  = Some [Ok None; Ok None; Ok (Some [sc 7; ex_ts 1; v1 [1;2;3]%Z])].
Proof. vm_compute. reflexivity. Qed.

(* ---- 10. dtype negotiation (fx_dt on top of fx_d10; fixes/sync-dtype.patch) ---- *)
(* C02-state-dtype-follows-data at synclib level: a float32 scalar next to a float64 scalar: the ranks issue
   all_gather with different dtypes (every variant without the dtype negotiation) *)
Theorem dtype_mismatch_refuted :
  forall fx : fixes, fx_d10 fx && fx_dt fx = false ->
  run_all (respond [0;1]) (map (fun i => send_tensors fx [0;1] None i (nth i [sc 1; mkT 1 [] (TSc (VZ 2))] (sc 0))) (seq 0 2)) = None.
Proof. intros [a b c [] []] E; try discriminate E; vm_compute; reflexivity. Qed.

(* with the negotiation: any duplicate-free group, any named rank, tensors of ANY per-rank ndim AND dtype:
   every receiver obtains, per sending rank, exactly the tensor that rank sent -- shape, DTYPE and content.
   (The model's cast relabels the dtype of exact values: it mirrors ``.to(dtype)`` as long as every value is
   representable in the transport dtype -- float32 / float64 / bool / integers below 2^53; see Models/Synclib.v.) *)
Theorem send_tensors_lossless_any_dtype :
  forall (fx : fixes) (g : list nat) (dst : option nat) (ts : nat -> tensor),
    let n := List.length g in
    fx_d10 fx = true -> fx_dt fx = true ->
    n > 0 -> dst_ok fx g dst -> (forall i, i < n -> wf (shp (ts i)) (dat (ts i))) ->
    run_all (respond g) (map (fun i => send_tensors fx g dst i (ts i)) (seq 0 n))
    = Some (map (fun i => Ok (if receives dst i then Some (map ts (seq 0 n)) else None)) (seq 0 n)).
Proof. exact SynclibP.send_tensors_lossless_any_dtype. Qed.

(* the refuted witness repaired, and a mix of int64 / float32 / bool with ndims 1 / 0 / 2 travelling as float64 *)
Example dtype_mismatch_fixed :
  let ts i := nth i [sc 1; mkT 1 [] (TSc (VZ 2))] (sc 0) in
  run_all (respond [0;1]) (map (fun i => send_tensors V_fixed [0;1] None i (ts i)) (seq 0 2))
  = Some [Ok (Some [ts 0; ts 1]); Ok (Some [ts 0; ts 1])].
Proof. vm_compute. reflexivity. Qed.
Example dtype_mix_example :
  let ts i := nth i [mkT 3 [2] (TArr [TSc (VZ (-3)); TSc (VZ 5)]); sc 1; mkT 4 [1; 2] (TArr [TArr [TSc (VZ 1); TSc (VZ 0)]])] (sc 0) in
  run_all (respond [0;1;2]) (map (fun i => send_tensors V_fixed [0;1;2] (Some 2) i (ts i)) (seq 0 3))
  = Some [Ok None; Ok None; Ok (Some [ts 0; ts 1; ts 2])]
  /\ transport [3; 0; 4]%Z = 1%Z /\ transport [0; 1]%Z = 1%Z /\ transport [5; 2]%Z = 2%Z /\ transport [4; 0]%Z = 0%Z.
Proof. split; [vm_compute; reflexivity|repeat split]. Qed.

Print Assumptions traced_runner_agrees.
Print Assumptions pad_slice_roundtrip.
Print Assumptions send_tensors_lossless.
Print Assumptions dst_only_receives.
Print Assumptions obj_sync_lossless.
Print Assumptions list_sync_lossless.
Print Assumptions dict_sync_lossless_same_keys.
Print Assumptions ideal_family_instances.
Print Assumptions mixed_collection_addressing.
Print Assumptions mixed_collection_exact.
Print Assumptions list_all_empty_refuted.
Print Assumptions dict_unequal_keys_refuted.
Print Assumptions subgroup_root_refuted.
Print Assumptions subgroup_dst_refuted.
Print Assumptions ndim_mismatch_refuted.
Print Assumptions send_tensors_lossless_fixed.
Print Assumptions list_sync_lossless_fixed.
Print Assumptions list_all_empty_fixed.
Print Assumptions subgroup_root_fixed.
Print Assumptions subgroup_dst_fixed.
Print Assumptions ndim_mismatch_fixed.
Print Assumptions dtype_mismatch_refuted.
Print Assumptions send_tensors_lossless_any_dtype.
