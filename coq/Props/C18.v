(* C18 -- Shape contract: inconsistent sample counts are rejected, never broadcast.
   Statements only.  All theorems are over the GENERATED check terms (Generated/ShapeChecks.v, re-translated from
   /repo on every run by tools/tr_shapes.py), so a weakened / dropped / edited condition in /repo breaks a proof.
     check_iff_contract_<f>            : for every well-typed argument environment the translated check function accepts
                                         exactly the inputs of the hand-written docstring contract (Models/Contracts.v);
     contract_implies_accepts_<f>      : (_partial: completeness half only) every documented input is accepted;
     check_iff_contract_<f>_refuted    : the equivalence fails on the as-is tree -- witness environment, checked by
                                         computation; stated as a dichotomy so that the same file also checks on a tree
                                         in which the check function has been repaired. *)
From Coq Require Import ZArith List Bool String.
From TE Require Import Models.ShapeLang Generated.ShapeChecks Models.Contracts Proofs.ShapesTac Proofs.ShapesP
  Proofs.ShapesRefutedP Proofs.ShapesRefutedSlowP.
Import ListNotations.
Open Scope string_scope.

(* fail-closed translation: no check function was left untranslated *)
Theorem all_check_functions_translated : untranslated = [].
Proof. reflexivity. Qed.
Theorem every_check_function_has_a_contract :
  forallb (fun c => match find_contract (fst c) all_contracts with Some _ => true | None => false end) all_checks = true.
Proof. vm_compute. reflexivity. Qed.

Theorem check_iff_contract_accuracy_param_check : forall e, wf sig_accuracy_param_check e -> (accepts chk_accuracy_param_check e = true <-> contract_accuracy_param_check e).
Proof. exact ShapesP.check_iff_contract_accuracy_param_check. Qed.
Theorem check_iff_contract_accuracy_update_input_check : forall e, wf sig_accuracy_update_input_check e -> (accepts chk_accuracy_update_input_check e = true <-> contract_accuracy_update_input_check e).
Proof. exact ShapesP.check_iff_contract_accuracy_update_input_check. Qed.
Theorem check_iff_contract_binary_accuracy_update_input_check : forall e, wf sig_binary_accuracy_update_input_check e -> (accepts chk_binary_accuracy_update_input_check e = true <-> contract_binary_accuracy_update_input_check e).
Proof. exact ShapesP.check_iff_contract_binary_accuracy_update_input_check. Qed.
Theorem check_iff_contract_binary_binned_auprc_param_check : forall e, wf sig_binary_binned_auprc_param_check e -> (accepts chk_binary_binned_auprc_param_check e = true <-> contract_binary_binned_auprc_param_check e).
Proof. exact ShapesP.check_iff_contract_binary_binned_auprc_param_check. Qed.
Theorem check_iff_contract_binary_confusion_matrix_update_input_check : forall e, wf sig_binary_confusion_matrix_update_input_check e -> (accepts chk_binary_confusion_matrix_update_input_check e = true <-> contract_binary_confusion_matrix_update_input_check e).
Proof. exact ShapesP.check_iff_contract_binary_confusion_matrix_update_input_check. Qed.
Theorem check_iff_contract_binary_f1_score_update_input_check : forall e, wf sig_binary_f1_score_update_input_check e -> (accepts chk_binary_f1_score_update_input_check e = true <-> contract_binary_f1_score_update_input_check e).
Proof. exact ShapesP.check_iff_contract_binary_f1_score_update_input_check. Qed.
Theorem check_iff_contract_binary_precision_recall_curve_update_input_check : forall e, wf sig_binary_precision_recall_curve_update_input_check e -> (accepts chk_binary_precision_recall_curve_update_input_check e = true <-> contract_binary_precision_recall_curve_update_input_check e).
Proof. exact ShapesP.check_iff_contract_binary_precision_recall_curve_update_input_check. Qed.
Theorem check_iff_contract_binary_precision_update_input_check : forall e, wf sig_binary_precision_update_input_check e -> (accepts chk_binary_precision_update_input_check e = true <-> contract_binary_precision_update_input_check e).
Proof. exact ShapesP.check_iff_contract_binary_precision_update_input_check. Qed.
Theorem check_iff_contract_binary_recall_at_fixed_precision_update_input_check : forall e, wf sig_binary_recall_at_fixed_precision_update_input_check e -> (accepts chk_binary_recall_at_fixed_precision_update_input_check e = true <-> contract_binary_recall_at_fixed_precision_update_input_check e).
Proof. exact ShapesP.check_iff_contract_binary_recall_at_fixed_precision_update_input_check. Qed.
Theorem check_iff_contract_binary_recall_update_input_check : forall e, wf sig_binary_recall_update_input_check e -> (accepts chk_binary_recall_update_input_check e = true <-> contract_binary_recall_update_input_check e).
Proof. exact ShapesP.check_iff_contract_binary_recall_update_input_check. Qed.
Theorem check_iff_contract_click_through_rate_input_check : forall e, wf sig_click_through_rate_input_check e -> (accepts chk_click_through_rate_input_check e = true <-> contract_click_through_rate_input_check e).
Proof. exact ShapesP.check_iff_contract_click_through_rate_input_check. Qed.
Theorem check_iff_contract_confusion_matrix_param_check : forall e, wf sig_confusion_matrix_param_check e -> (accepts chk_confusion_matrix_param_check e = true <-> contract_confusion_matrix_param_check e).
Proof. exact ShapesP.check_iff_contract_confusion_matrix_param_check. Qed.
Theorem check_iff_contract_f1_score_param_check : forall e, wf sig_f1_score_param_check e -> (accepts chk_f1_score_param_check e = true <-> contract_f1_score_param_check e).
Proof. exact ShapesP.check_iff_contract_f1_score_param_check. Qed.
Theorem check_iff_contract_f1_score_update_input_check : forall e, wf sig_f1_score_update_input_check e -> (accepts chk_f1_score_update_input_check e = true <-> contract_f1_score_update_input_check e).
Proof. exact ShapesP.check_iff_contract_f1_score_update_input_check. Qed.
Theorem check_iff_contract_frequency_input_check : forall e, wf sig_frequency_input_check e -> (accepts chk_frequency_input_check e = true <-> contract_frequency_input_check e).
Proof. exact ShapesP.check_iff_contract_frequency_input_check. Qed.
Theorem check_iff_contract_hit_rate_input_check : forall e, wf sig_hit_rate_input_check e -> (accepts chk_hit_rate_input_check e = true <-> contract_hit_rate_input_check e).
Proof. exact ShapesP.check_iff_contract_hit_rate_input_check. Qed.
Theorem check_iff_contract_mean_squared_error_param_check : forall e, wf sig_mean_squared_error_param_check e -> (accepts chk_mean_squared_error_param_check e = true <-> contract_mean_squared_error_param_check e).
Proof. exact ShapesP.check_iff_contract_mean_squared_error_param_check. Qed.
Theorem check_iff_contract_multiclass_auprc_param_check : forall e, wf sig_multiclass_auprc_param_check e -> (accepts chk_multiclass_auprc_param_check e = true <-> contract_multiclass_auprc_param_check e).
Proof. exact ShapesP.check_iff_contract_multiclass_auprc_param_check. Qed.
Theorem check_iff_contract_multiclass_auprc_update_input_check : forall e, wf sig_multiclass_auprc_update_input_check e -> (accepts chk_multiclass_auprc_update_input_check e = true <-> contract_multiclass_auprc_update_input_check e).
Proof. exact ShapesP.check_iff_contract_multiclass_auprc_update_input_check. Qed.
Theorem check_iff_contract_multiclass_auroc_param_check : forall e, wf sig_multiclass_auroc_param_check e -> (accepts chk_multiclass_auroc_param_check e = true <-> contract_multiclass_auroc_param_check e).
Proof. exact ShapesP.check_iff_contract_multiclass_auroc_param_check. Qed.
Theorem check_iff_contract_multiclass_auroc_update_input_check : forall e, wf sig_multiclass_auroc_update_input_check e -> (accepts chk_multiclass_auroc_update_input_check e = true <-> contract_multiclass_auroc_update_input_check e).
Proof. exact ShapesP.check_iff_contract_multiclass_auroc_update_input_check. Qed.
Theorem check_iff_contract_multiclass_binned_auprc_param_check : forall e, wf sig_multiclass_binned_auprc_param_check e -> (accepts chk_multiclass_binned_auprc_param_check e = true <-> contract_multiclass_binned_auprc_param_check e).
Proof. exact ShapesP.check_iff_contract_multiclass_binned_auprc_param_check. Qed.
Theorem check_iff_contract_multiclass_binned_auprc_update_input_check : forall e, wf sig_multiclass_binned_auprc_update_input_check e -> (accepts chk_multiclass_binned_auprc_update_input_check e = true <-> contract_multiclass_binned_auprc_update_input_check e).
Proof. exact ShapesP.check_iff_contract_multiclass_binned_auprc_update_input_check. Qed.
Theorem check_iff_contract_multiclass_binned_auroc_update_input_check : forall e, wf sig_multiclass_binned_auroc_update_input_check e -> (accepts chk_multiclass_binned_auroc_update_input_check e = true <-> contract_multiclass_binned_auroc_update_input_check e).
Proof. exact ShapesP.check_iff_contract_multiclass_binned_auroc_update_input_check. Qed.
Theorem check_iff_contract_multiclass_precision_recall_curve_update_input_check : forall e, wf sig_multiclass_precision_recall_curve_update_input_check e -> (accepts chk_multiclass_precision_recall_curve_update_input_check e = true <-> contract_multiclass_precision_recall_curve_update_input_check e).
Proof. exact ShapesP.check_iff_contract_multiclass_precision_recall_curve_update_input_check. Qed.
Theorem check_iff_contract_multilabel_accuracy_param_check : forall e, wf sig_multilabel_accuracy_param_check e -> (accepts chk_multilabel_accuracy_param_check e = true <-> contract_multilabel_accuracy_param_check e).
Proof. exact ShapesP.check_iff_contract_multilabel_accuracy_param_check. Qed.
Theorem check_iff_contract_multilabel_auprc_param_check : forall e, wf sig_multilabel_auprc_param_check e -> (accepts chk_multilabel_auprc_param_check e = true <-> contract_multilabel_auprc_param_check e).
Proof. exact ShapesP.check_iff_contract_multilabel_auprc_param_check. Qed.
Theorem check_iff_contract_multilabel_auprc_update_input_check : forall e, wf sig_multilabel_auprc_update_input_check e -> (accepts chk_multilabel_auprc_update_input_check e = true <-> contract_multilabel_auprc_update_input_check e).
Proof. exact ShapesP.check_iff_contract_multilabel_auprc_update_input_check. Qed.
Theorem check_iff_contract_multilabel_binned_auprc_param_check : forall e, wf sig_multilabel_binned_auprc_param_check e -> (accepts chk_multilabel_binned_auprc_param_check e = true <-> contract_multilabel_binned_auprc_param_check e).
Proof. exact ShapesP.check_iff_contract_multilabel_binned_auprc_param_check. Qed.
Theorem check_iff_contract_multilabel_binned_auprc_update_input_check : forall e, wf sig_multilabel_binned_auprc_update_input_check e -> (accepts chk_multilabel_binned_auprc_update_input_check e = true <-> contract_multilabel_binned_auprc_update_input_check e).
Proof. exact ShapesP.check_iff_contract_multilabel_binned_auprc_update_input_check. Qed.
Theorem check_iff_contract_multilabel_precision_recall_curve_update_input_check : forall e, wf sig_multilabel_precision_recall_curve_update_input_check e -> (accepts chk_multilabel_precision_recall_curve_update_input_check e = true <-> contract_multilabel_precision_recall_curve_update_input_check e).
Proof. exact ShapesP.check_iff_contract_multilabel_precision_recall_curve_update_input_check. Qed.
Theorem check_iff_contract_multilabel_recall_at_fixed_precision_update_input_check : forall e, wf sig_multilabel_recall_at_fixed_precision_update_input_check e -> (accepts chk_multilabel_recall_at_fixed_precision_update_input_check e = true <-> contract_multilabel_recall_at_fixed_precision_update_input_check e).
Proof. exact ShapesP.check_iff_contract_multilabel_recall_at_fixed_precision_update_input_check. Qed.
Theorem check_iff_contract_num_collisions_input_check : forall e, wf sig_num_collisions_input_check e -> (accepts chk_num_collisions_input_check e = true <-> contract_num_collisions_input_check e).
Proof. exact ShapesP.check_iff_contract_num_collisions_input_check. Qed.
Theorem check_iff_contract_optimization_param_check : forall e, wf sig_optimization_param_check e -> (accepts chk_optimization_param_check e = true <-> contract_optimization_param_check e).
Proof. exact ShapesP.check_iff_contract_optimization_param_check. Qed.
Theorem check_iff_contract_perplexity_input_check : forall e, wf sig_perplexity_input_check e -> (accepts chk_perplexity_input_check e = true <-> contract_perplexity_input_check e).
Proof. exact ShapesP.check_iff_contract_perplexity_input_check. Qed.
Theorem check_iff_contract_precision_param_check : forall e, wf sig_precision_param_check e -> (accepts chk_precision_param_check e = true <-> contract_precision_param_check e).
Proof. exact ShapesP.check_iff_contract_precision_param_check. Qed.
Theorem check_iff_contract_precision_update_input_check : forall e, wf sig_precision_update_input_check e -> (accepts chk_precision_update_input_check e = true <-> contract_precision_update_input_check e).
Proof. exact ShapesP.check_iff_contract_precision_update_input_check. Qed.
Theorem check_iff_contract_psnr_input_check : forall e, wf sig_psnr_input_check e -> (accepts chk_psnr_input_check e = true <-> contract_psnr_input_check e).
Proof. exact ShapesP.check_iff_contract_psnr_input_check. Qed.
Theorem check_iff_contract_psnr_param_check : forall e, wf sig_psnr_param_check e -> (accepts chk_psnr_param_check e = true <-> contract_psnr_param_check e).
Proof. exact ShapesP.check_iff_contract_psnr_param_check. Qed.
Theorem check_iff_contract_r2_score_param_check : forall e, wf sig_r2_score_param_check e -> (accepts chk_r2_score_param_check e = true <-> contract_r2_score_param_check e).
Proof. exact ShapesP.check_iff_contract_r2_score_param_check. Qed.
Theorem check_iff_contract_recall_param_check : forall e, wf sig_recall_param_check e -> (accepts chk_recall_param_check e = true <-> contract_recall_param_check e).
Proof. exact ShapesP.check_iff_contract_recall_param_check. Qed.
Theorem check_iff_contract_recall_update_input_check : forall e, wf sig_recall_update_input_check e -> (accepts chk_recall_update_input_check e = true <-> contract_recall_update_input_check e).
Proof. exact ShapesP.check_iff_contract_recall_update_input_check. Qed.
Theorem check_iff_contract_reciprocal_rank_input_check : forall e, wf sig_reciprocal_rank_input_check e -> (accepts chk_reciprocal_rank_input_check e = true <-> contract_reciprocal_rank_input_check e).
Proof. exact ShapesP.check_iff_contract_reciprocal_rank_input_check. Qed.
Theorem check_iff_contract_retrieval_precision_param_check : forall e, wf sig_retrieval_precision_param_check e -> (accepts chk_retrieval_precision_param_check e = true <-> contract_retrieval_precision_param_check e).
Proof. exact ShapesP.check_iff_contract_retrieval_precision_param_check. Qed.
Theorem check_iff_contract_retrieval_precision_update_input_check : forall e, wf sig_retrieval_precision_update_input_check e -> (accepts chk_retrieval_precision_update_input_check e = true <-> contract_retrieval_precision_update_input_check e).
Proof. exact ShapesP.check_iff_contract_retrieval_precision_update_input_check. Qed.
Theorem check_iff_contract_retrieval_recall_param_check : forall e, wf sig_retrieval_recall_param_check e -> (accepts chk_retrieval_recall_param_check e = true <-> contract_retrieval_recall_param_check e).
Proof. exact ShapesP.check_iff_contract_retrieval_recall_param_check. Qed.
Theorem check_iff_contract_retrieval_recall_update_input_check : forall e, wf sig_retrieval_recall_update_input_check e -> (accepts chk_retrieval_recall_update_input_check e = true <-> contract_retrieval_recall_update_input_check e).
Proof. exact ShapesP.check_iff_contract_retrieval_recall_update_input_check. Qed.
Theorem check_iff_contract_topk_multilabel_accuracy_update_input_check : forall e, wf sig_topk_multilabel_accuracy_update_input_check e -> (accepts chk_topk_multilabel_accuracy_update_input_check e = true <-> contract_topk_multilabel_accuracy_update_input_check e).
Proof. exact ShapesP.check_iff_contract_topk_multilabel_accuracy_update_input_check. Qed.
Theorem check_iff_contract_word_error_rate_input_check : forall e, wf sig_word_error_rate_input_check e -> (accepts chk_word_error_rate_input_check e = true <-> contract_word_error_rate_input_check e).
Proof. exact ShapesP.check_iff_contract_word_error_rate_input_check. Qed.
Theorem check_iff_contract_word_information_preserved_input_check : forall e, wf sig_word_information_preserved_input_check e -> (accepts chk_word_information_preserved_input_check e = true <-> contract_word_information_preserved_input_check e).
Proof. exact ShapesP.check_iff_contract_word_information_preserved_input_check. Qed.

(* ---- non-equivalences on the current tree ---- *)
Theorem contract_implies_accepts_auc_update_input_check_partial : forall e, wf sig_auc_update_input_check e -> contract_auc_update_input_check e -> accepts chk_auc_update_input_check e = true.
Proof. exact ShapesRefutedP.contract_implies_accepts_auc_update_input_check. Qed.
Theorem check_iff_contract_auc_update_input_check_refuted :
  (forall e, wf sig_auc_update_input_check e -> accepts chk_auc_update_input_check e = contractb_auc_update_input_check e)
  \/ (exists e, wf sig_auc_update_input_check e /\ accepts chk_auc_update_input_check e <> contractb_auc_update_input_check e).
Proof. exact ShapesRefutedP.check_iff_contract_auc_update_input_check_refuted_or_fixed. Qed.
Theorem contract_implies_accepts_binary_auprc_update_input_check_partial : forall e, wf sig_binary_auprc_update_input_check e -> contract_binary_auprc_update_input_check e -> accepts chk_binary_auprc_update_input_check e = true.
Proof. exact ShapesRefutedP.contract_implies_accepts_binary_auprc_update_input_check. Qed.
Theorem check_iff_contract_binary_auprc_update_input_check_refuted :
  (forall e, wf sig_binary_auprc_update_input_check e -> accepts chk_binary_auprc_update_input_check e = contractb_binary_auprc_update_input_check e)
  \/ (exists e, wf sig_binary_auprc_update_input_check e /\ accepts chk_binary_auprc_update_input_check e <> contractb_binary_auprc_update_input_check e).
Proof. exact ShapesRefutedP.check_iff_contract_binary_auprc_update_input_check_refuted_or_fixed. Qed.
Theorem contract_implies_accepts_binary_auroc_update_input_check_partial : forall e, wf sig_binary_auroc_update_input_check e -> contract_binary_auroc_update_input_check e -> accepts chk_binary_auroc_update_input_check e = true.
Proof. exact ShapesRefutedP.contract_implies_accepts_binary_auroc_update_input_check. Qed.
Theorem check_iff_contract_binary_auroc_update_input_check_refuted :
  (forall e, wf sig_binary_auroc_update_input_check e -> accepts chk_binary_auroc_update_input_check e = contractb_binary_auroc_update_input_check e)
  \/ (exists e, wf sig_binary_auroc_update_input_check e /\ accepts chk_binary_auroc_update_input_check e <> contractb_binary_auroc_update_input_check e).
Proof. exact ShapesRefutedP.check_iff_contract_binary_auroc_update_input_check_refuted_or_fixed. Qed.
Theorem contract_implies_accepts_binary_binned_auprc_update_input_check_partial : forall e, wf sig_binary_binned_auprc_update_input_check e -> contract_binary_binned_auprc_update_input_check e -> accepts chk_binary_binned_auprc_update_input_check e = true.
Proof. exact ShapesRefutedP.contract_implies_accepts_binary_binned_auprc_update_input_check. Qed.
Theorem check_iff_contract_binary_binned_auprc_update_input_check_refuted :
  (forall e, wf sig_binary_binned_auprc_update_input_check e -> accepts chk_binary_binned_auprc_update_input_check e = contractb_binary_binned_auprc_update_input_check e)
  \/ (exists e, wf sig_binary_binned_auprc_update_input_check e /\ accepts chk_binary_binned_auprc_update_input_check e <> contractb_binary_binned_auprc_update_input_check e).
Proof. exact ShapesRefutedP.check_iff_contract_binary_binned_auprc_update_input_check_refuted_or_fixed. Qed.
Theorem contract_implies_accepts_binary_binned_auroc_param_check_partial : forall e, wf sig_binary_binned_auroc_param_check e -> contract_binary_binned_auroc_param_check e -> accepts chk_binary_binned_auroc_param_check e = true.
Proof. exact ShapesRefutedP.contract_implies_accepts_binary_binned_auroc_param_check. Qed.
Theorem check_iff_contract_binary_binned_auroc_param_check_refuted :
  (forall e, wf sig_binary_binned_auroc_param_check e -> accepts chk_binary_binned_auroc_param_check e = contractb_binary_binned_auroc_param_check e)
  \/ (exists e, wf sig_binary_binned_auroc_param_check e /\ accepts chk_binary_binned_auroc_param_check e <> contractb_binary_binned_auroc_param_check e).
Proof. exact ShapesRefutedP.check_iff_contract_binary_binned_auroc_param_check_refuted_or_fixed. Qed.
Theorem contract_implies_accepts_binary_binned_auroc_update_input_check_partial : forall e, wf sig_binary_binned_auroc_update_input_check e -> contract_binary_binned_auroc_update_input_check e -> accepts chk_binary_binned_auroc_update_input_check e = true.
Proof. exact ShapesRefutedP.contract_implies_accepts_binary_binned_auroc_update_input_check. Qed.
Theorem check_iff_contract_binary_binned_auroc_update_input_check_refuted :
  (forall e, wf sig_binary_binned_auroc_update_input_check e -> accepts chk_binary_binned_auroc_update_input_check e = contractb_binary_binned_auroc_update_input_check e)
  \/ (exists e, wf sig_binary_binned_auroc_update_input_check e /\ accepts chk_binary_binned_auroc_update_input_check e <> contractb_binary_binned_auroc_update_input_check e).
Proof. exact ShapesRefutedP.check_iff_contract_binary_binned_auroc_update_input_check_refuted_or_fixed. Qed.
Theorem contract_implies_accepts_binned_precision_recall_curve_param_check_partial : forall e, wf sig_binned_precision_recall_curve_param_check e -> contract_binned_precision_recall_curve_param_check e -> accepts chk_binned_precision_recall_curve_param_check e = true.
Proof. exact ShapesRefutedP.contract_implies_accepts_binned_precision_recall_curve_param_check. Qed.
Theorem check_iff_contract_binned_precision_recall_curve_param_check_refuted :
  (forall e, wf sig_binned_precision_recall_curve_param_check e -> accepts chk_binned_precision_recall_curve_param_check e = contractb_binned_precision_recall_curve_param_check e)
  \/ (exists e, wf sig_binned_precision_recall_curve_param_check e /\ accepts chk_binned_precision_recall_curve_param_check e <> contractb_binned_precision_recall_curve_param_check e).
Proof. exact ShapesRefutedP.check_iff_contract_binned_precision_recall_curve_param_check_refuted_or_fixed. Qed.
Theorem contract_implies_accepts_confusion_matrix_update_input_check_partial : forall e, wf sig_confusion_matrix_update_input_check e -> contract_confusion_matrix_update_input_check e -> accepts chk_confusion_matrix_update_input_check e = true.
Proof. exact ShapesRefutedP.contract_implies_accepts_confusion_matrix_update_input_check. Qed.
Theorem check_iff_contract_confusion_matrix_update_input_check_refuted :
  (forall e, wf sig_confusion_matrix_update_input_check e -> accepts chk_confusion_matrix_update_input_check e = contractb_confusion_matrix_update_input_check e)
  \/ (exists e, wf sig_confusion_matrix_update_input_check e /\ accepts chk_confusion_matrix_update_input_check e <> contractb_confusion_matrix_update_input_check e).
Proof. exact ShapesRefutedP.check_iff_contract_confusion_matrix_update_input_check_refuted_or_fixed. Qed.
Theorem contract_implies_accepts_mean_squared_error_update_input_check_partial : forall e, wf sig_mean_squared_error_update_input_check e -> contract_mean_squared_error_update_input_check e -> accepts chk_mean_squared_error_update_input_check e = true.
Proof. exact ShapesRefutedP.contract_implies_accepts_mean_squared_error_update_input_check. Qed.
Theorem check_iff_contract_mean_squared_error_update_input_check_refuted :
  (forall e, wf sig_mean_squared_error_update_input_check e -> accepts chk_mean_squared_error_update_input_check e = contractb_mean_squared_error_update_input_check e)
  \/ (exists e, wf sig_mean_squared_error_update_input_check e /\ accepts chk_mean_squared_error_update_input_check e <> contractb_mean_squared_error_update_input_check e).
Proof. exact ShapesRefutedP.check_iff_contract_mean_squared_error_update_input_check_refuted_or_fixed. Qed.
Theorem contract_implies_accepts_multiclass_binned_auroc_param_check_partial : forall e, wf sig_multiclass_binned_auroc_param_check e -> contract_multiclass_binned_auroc_param_check e -> accepts chk_multiclass_binned_auroc_param_check e = true.
Proof. exact ShapesRefutedP.contract_implies_accepts_multiclass_binned_auroc_param_check. Qed.
Theorem check_iff_contract_multiclass_binned_auroc_param_check_refuted :
  (forall e, wf sig_multiclass_binned_auroc_param_check e -> accepts chk_multiclass_binned_auroc_param_check e = contractb_multiclass_binned_auroc_param_check e)
  \/ (exists e, wf sig_multiclass_binned_auroc_param_check e /\ accepts chk_multiclass_binned_auroc_param_check e <> contractb_multiclass_binned_auroc_param_check e).
Proof. exact ShapesRefutedP.check_iff_contract_multiclass_binned_auroc_param_check_refuted_or_fixed. Qed.
Theorem contract_implies_accepts_multilabel_accuracy_update_input_check_partial : forall e, wf sig_multilabel_accuracy_update_input_check e -> contract_multilabel_accuracy_update_input_check e -> accepts chk_multilabel_accuracy_update_input_check e = true.
Proof. exact ShapesRefutedP.contract_implies_accepts_multilabel_accuracy_update_input_check. Qed.
Theorem check_iff_contract_multilabel_accuracy_update_input_check_refuted :
  (forall e, wf sig_multilabel_accuracy_update_input_check e -> accepts chk_multilabel_accuracy_update_input_check e = contractb_multilabel_accuracy_update_input_check e)
  \/ (exists e, wf sig_multilabel_accuracy_update_input_check e /\ accepts chk_multilabel_accuracy_update_input_check e <> contractb_multilabel_accuracy_update_input_check e).
Proof. exact ShapesRefutedP.check_iff_contract_multilabel_accuracy_update_input_check_refuted_or_fixed. Qed.
Theorem contract_implies_accepts_ne_input_check_partial : forall e, wf sig_ne_input_check e -> contract_ne_input_check e -> accepts chk_ne_input_check e = true.
Proof. exact ShapesRefutedSlowP.contract_implies_accepts_ne_input_check. Qed.
Theorem check_iff_contract_ne_input_check_refuted :
  (forall e, wf sig_ne_input_check e -> accepts chk_ne_input_check e = contractb_ne_input_check e)
  \/ (exists e, wf sig_ne_input_check e /\ accepts chk_ne_input_check e <> contractb_ne_input_check e).
Proof. exact ShapesRefutedSlowP.check_iff_contract_ne_input_check_refuted_or_fixed. Qed.
Theorem contract_implies_accepts_r2_score_update_input_check_partial : forall e, wf sig_r2_score_update_input_check e -> contract_r2_score_update_input_check e -> accepts chk_r2_score_update_input_check e = true.
Proof. exact ShapesRefutedP.contract_implies_accepts_r2_score_update_input_check. Qed.
Theorem check_iff_contract_r2_score_update_input_check_refuted :
  (forall e, wf sig_r2_score_update_input_check e -> accepts chk_r2_score_update_input_check e = contractb_r2_score_update_input_check e)
  \/ (exists e, wf sig_r2_score_update_input_check e /\ accepts chk_r2_score_update_input_check e <> contractb_r2_score_update_input_check e).
Proof. exact ShapesRefutedP.check_iff_contract_r2_score_update_input_check_refuted_or_fixed. Qed.
Theorem check_iff_contract_topk_multilabel_accuracy_param_check_refuted :
  (forall e, wf sig_topk_multilabel_accuracy_param_check e -> accepts chk_topk_multilabel_accuracy_param_check e = contractb_topk_multilabel_accuracy_param_check e)
  \/ (exists e, wf sig_topk_multilabel_accuracy_param_check e /\ accepts chk_topk_multilabel_accuracy_param_check e <> contractb_topk_multilabel_accuracy_param_check e).
Proof. exact ShapesRefutedP.check_iff_contract_topk_multilabel_accuracy_param_check_refuted_or_fixed. Qed.
Theorem contract_implies_accepts_wasserstein_update_input_check_partial : forall e, wf sig_wasserstein_update_input_check e -> contract_wasserstein_update_input_check e -> accepts chk_wasserstein_update_input_check e = true.
Proof. exact ShapesRefutedSlowP.contract_implies_accepts_wasserstein_update_input_check. Qed.
Theorem check_iff_contract_wasserstein_update_input_check_refuted :
  (forall e, wf sig_wasserstein_update_input_check e -> accepts chk_wasserstein_update_input_check e = contractb_wasserstein_update_input_check e)
  \/ (exists e, wf sig_wasserstein_update_input_check e /\ accepts chk_wasserstein_update_input_check e <> contractb_wasserstein_update_input_check e).
Proof. exact ShapesRefutedSlowP.check_iff_contract_wasserstein_update_input_check_refuted_or_fixed. Qed.
Theorem contract_implies_accepts_weighted_calibration_input_check_partial : forall e, wf sig_weighted_calibration_input_check e -> contract_weighted_calibration_input_check e -> accepts chk_weighted_calibration_input_check e = true.
Proof. exact ShapesRefutedP.contract_implies_accepts_weighted_calibration_input_check. Qed.
Theorem check_iff_contract_weighted_calibration_input_check_refuted :
  (forall e, wf sig_weighted_calibration_input_check e -> accepts chk_weighted_calibration_input_check e = contractb_weighted_calibration_input_check e)
  \/ (exists e, wf sig_weighted_calibration_input_check e /\ accepts chk_weighted_calibration_input_check e <> contractb_weighted_calibration_input_check e).
Proof. exact ShapesRefutedP.check_iff_contract_weighted_calibration_input_check_refuted_or_fixed. Qed.
Theorem contract_implies_accepts_window_mean_squared_error_update_input_check_partial : forall e, wf sig_window_mean_squared_error_update_input_check e -> contract_window_mean_squared_error_update_input_check e -> accepts chk_window_mean_squared_error_update_input_check e = true.
Proof. exact ShapesRefutedP.contract_implies_accepts_window_mean_squared_error_update_input_check. Qed.
Theorem check_iff_contract_window_mean_squared_error_update_input_check_refuted :
  (forall e, wf sig_window_mean_squared_error_update_input_check e -> accepts chk_window_mean_squared_error_update_input_check e = contractb_window_mean_squared_error_update_input_check e)
  \/ (exists e, wf sig_window_mean_squared_error_update_input_check e /\ accepts chk_window_mean_squared_error_update_input_check e <> contractb_window_mean_squared_error_update_input_check e).
Proof. exact ShapesRefutedP.check_iff_contract_window_mean_squared_error_update_input_check_refuted_or_fixed. Qed.

(* which of the dichotomies are refutations on THIS tree (computed; reported by the check as a note) *)
Definition refuted_now : list (string * bool) := [
  ("_auc_update_input_check", refuted_now_auc_update_input_check);
  ("_binary_auprc_update_input_check", refuted_now_binary_auprc_update_input_check);
  ("_binary_auroc_update_input_check", refuted_now_binary_auroc_update_input_check);
  ("_binary_binned_auprc_update_input_check", refuted_now_binary_binned_auprc_update_input_check);
  ("_binary_binned_auroc_param_check", refuted_now_binary_binned_auroc_param_check);
  ("_binary_binned_auroc_update_input_check", refuted_now_binary_binned_auroc_update_input_check);
  ("_binned_precision_recall_curve_param_check", refuted_now_binned_precision_recall_curve_param_check);
  ("_confusion_matrix_update_input_check", refuted_now_confusion_matrix_update_input_check);
  ("_mean_squared_error_update_input_check", refuted_now_mean_squared_error_update_input_check);
  ("_multiclass_binned_auroc_param_check", refuted_now_multiclass_binned_auroc_param_check);
  ("_multilabel_accuracy_update_input_check", refuted_now_multilabel_accuracy_update_input_check);
  ("_ne_input_check", refuted_now_ne_input_check);
  ("_r2_score_update_input_check", refuted_now_r2_score_update_input_check);
  ("_topk_multilabel_accuracy_param_check", refuted_now_topk_multilabel_accuracy_param_check);
  ("_wasserstein_update_input_check", refuted_now_wasserstein_update_input_check);
  ("_weighted_calibration_input_check", refuted_now_weighted_calibration_input_check);
  ("_window_mean_squared_error_update_input_check", refuted_now_window_mean_squared_error_update_input_check)
].
Example refuted_now_is_computable : List.length refuted_now = 17%nat.
Proof. reflexivity. Qed.

(* non-vacuity: the accuracy check accepts a documented call and rejects a mismatched one *)
Example accuracy_accepts_documented :
  accepts chk_accuracy_update_input_check
    (env_of [("input", ATensor [4; 3]%nat); ("target", ATensor [4]%nat); ("num_classes", AInt 3); ("k", AInt 2)] [] None) = true.
Proof. vm_compute. reflexivity. Qed.
Example accuracy_rejects_mismatch :
  accepts chk_accuracy_update_input_check
    (env_of [("input", ATensor [4; 3]%nat); ("target", ATensor [5]%nat); ("num_classes", AInt 3); ("k", AInt 2)] [] None) = false.
Proof. vm_compute. reflexivity. Qed.

Print Assumptions all_check_functions_translated.
Print Assumptions every_check_function_has_a_contract.
Print Assumptions check_iff_contract_accuracy_param_check.
Print Assumptions check_iff_contract_accuracy_update_input_check.
Print Assumptions check_iff_contract_binary_accuracy_update_input_check.
Print Assumptions check_iff_contract_binary_binned_auprc_param_check.
Print Assumptions check_iff_contract_binary_confusion_matrix_update_input_check.
Print Assumptions check_iff_contract_binary_f1_score_update_input_check.
Print Assumptions check_iff_contract_binary_precision_recall_curve_update_input_check.
Print Assumptions check_iff_contract_binary_precision_update_input_check.
Print Assumptions check_iff_contract_binary_recall_at_fixed_precision_update_input_check.
Print Assumptions check_iff_contract_binary_recall_update_input_check.
Print Assumptions check_iff_contract_click_through_rate_input_check.
Print Assumptions check_iff_contract_confusion_matrix_param_check.
Print Assumptions check_iff_contract_f1_score_param_check.
Print Assumptions check_iff_contract_f1_score_update_input_check.
Print Assumptions check_iff_contract_frequency_input_check.
Print Assumptions check_iff_contract_hit_rate_input_check.
Print Assumptions check_iff_contract_mean_squared_error_param_check.
Print Assumptions check_iff_contract_multiclass_auprc_param_check.
Print Assumptions check_iff_contract_multiclass_auprc_update_input_check.
Print Assumptions check_iff_contract_multiclass_auroc_param_check.
Print Assumptions check_iff_contract_multiclass_auroc_update_input_check.
Print Assumptions check_iff_contract_multiclass_binned_auprc_param_check.
Print Assumptions check_iff_contract_multiclass_binned_auprc_update_input_check.
Print Assumptions check_iff_contract_multiclass_binned_auroc_update_input_check.
Print Assumptions check_iff_contract_multiclass_precision_recall_curve_update_input_check.
Print Assumptions check_iff_contract_multilabel_accuracy_param_check.
Print Assumptions check_iff_contract_multilabel_auprc_param_check.
Print Assumptions check_iff_contract_multilabel_auprc_update_input_check.
Print Assumptions check_iff_contract_multilabel_binned_auprc_param_check.
Print Assumptions check_iff_contract_multilabel_binned_auprc_update_input_check.
Print Assumptions check_iff_contract_multilabel_precision_recall_curve_update_input_check.
Print Assumptions check_iff_contract_multilabel_recall_at_fixed_precision_update_input_check.
Print Assumptions check_iff_contract_num_collisions_input_check.
Print Assumptions check_iff_contract_optimization_param_check.
Print Assumptions check_iff_contract_perplexity_input_check.
Print Assumptions check_iff_contract_precision_param_check.
Print Assumptions check_iff_contract_precision_update_input_check.
Print Assumptions check_iff_contract_psnr_input_check.
Print Assumptions check_iff_contract_psnr_param_check.
Print Assumptions check_iff_contract_r2_score_param_check.
Print Assumptions check_iff_contract_recall_param_check.
Print Assumptions check_iff_contract_recall_update_input_check.
Print Assumptions check_iff_contract_reciprocal_rank_input_check.
Print Assumptions check_iff_contract_retrieval_precision_param_check.
Print Assumptions check_iff_contract_retrieval_precision_update_input_check.
Print Assumptions check_iff_contract_retrieval_recall_param_check.
Print Assumptions check_iff_contract_retrieval_recall_update_input_check.
Print Assumptions check_iff_contract_topk_multilabel_accuracy_update_input_check.
Print Assumptions check_iff_contract_word_error_rate_input_check.
Print Assumptions check_iff_contract_word_information_preserved_input_check.
Print Assumptions contract_implies_accepts_auc_update_input_check_partial.
Print Assumptions check_iff_contract_auc_update_input_check_refuted.
Print Assumptions contract_implies_accepts_binary_auprc_update_input_check_partial.
Print Assumptions check_iff_contract_binary_auprc_update_input_check_refuted.
Print Assumptions contract_implies_accepts_binary_auroc_update_input_check_partial.
Print Assumptions check_iff_contract_binary_auroc_update_input_check_refuted.
Print Assumptions contract_implies_accepts_binary_binned_auprc_update_input_check_partial.
Print Assumptions check_iff_contract_binary_binned_auprc_update_input_check_refuted.
Print Assumptions contract_implies_accepts_binary_binned_auroc_param_check_partial.
Print Assumptions check_iff_contract_binary_binned_auroc_param_check_refuted.
Print Assumptions contract_implies_accepts_binary_binned_auroc_update_input_check_partial.
Print Assumptions check_iff_contract_binary_binned_auroc_update_input_check_refuted.
Print Assumptions contract_implies_accepts_binned_precision_recall_curve_param_check_partial.
Print Assumptions check_iff_contract_binned_precision_recall_curve_param_check_refuted.
Print Assumptions contract_implies_accepts_confusion_matrix_update_input_check_partial.
Print Assumptions check_iff_contract_confusion_matrix_update_input_check_refuted.
Print Assumptions contract_implies_accepts_mean_squared_error_update_input_check_partial.
Print Assumptions check_iff_contract_mean_squared_error_update_input_check_refuted.
Print Assumptions contract_implies_accepts_multiclass_binned_auroc_param_check_partial.
Print Assumptions check_iff_contract_multiclass_binned_auroc_param_check_refuted.
Print Assumptions contract_implies_accepts_multilabel_accuracy_update_input_check_partial.
Print Assumptions check_iff_contract_multilabel_accuracy_update_input_check_refuted.
Print Assumptions contract_implies_accepts_ne_input_check_partial.
Print Assumptions check_iff_contract_ne_input_check_refuted.
Print Assumptions contract_implies_accepts_r2_score_update_input_check_partial.
Print Assumptions check_iff_contract_r2_score_update_input_check_refuted.
Print Assumptions check_iff_contract_topk_multilabel_accuracy_param_check_refuted.
Print Assumptions contract_implies_accepts_wasserstein_update_input_check_partial.
Print Assumptions check_iff_contract_wasserstein_update_input_check_refuted.
Print Assumptions contract_implies_accepts_weighted_calibration_input_check_partial.
Print Assumptions check_iff_contract_weighted_calibration_input_check_refuted.
Print Assumptions contract_implies_accepts_window_mean_squared_error_update_input_check_partial.
Print Assumptions check_iff_contract_window_mean_squared_error_update_input_check_refuted.
