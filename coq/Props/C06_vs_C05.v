(* C06 vs C05: the exact quantities in "binned = exact on floored scores" ARE the curves family's C05
   specifications (Models/Curves.v, Props/C05.v) with unit weights; so the C06 floor theorems are literally
   about the quantities that C05 proves the exact AUROC / AUPRC implementations to compute. *)
From Coq Require Import ZArith List Bool QArith Qcanon.
From TE Require Import Base.Val Base.Xq Models.Binned Proofs.BinnedP Proofs.BinnedFloorP.
From TE Require Models.Curves Proofs.CurvesP Proofs.CurvesPR.
Import ListNotations.
Open Scope Z_scope.

(* a binned-family sample (score, label) as a curves-family sample (score, label, weight 1) *)
Theorem lift_is_unit_weight : forall x : sample, lift x = (fst x, (snd x, 1%Qc)).
Proof. reflexivity. Qed.

Theorem auroc_exact_is_C05_auroc_spec : forall xs : list sample, auroc_exact xs = Curves.auroc_spec (map lift xs).
Proof. exact auroc_exact_is_C05. Qed.
Theorem auprc_exact_is_C05_auprc_spec : forall xs : list sample, auprc_exact xs = Curves.auprc_spec (map lift xs).
Proof. exact auprc_exact_is_C05. Qed.
Theorem distinct_scores_is_C05_dset : forall l, distinct_asc l = Curves.dset l.
Proof. exact distinct_asc_dset. Qed.

(* hence: binned AUROC / AUPRC = the C05 quantity of the floored scores, and -- by C05 -- = what the exact
   pipelines (sort, diff-mask, cumsum, trapezoid / riemann) return on the floored scores *)
Theorem binned_auroc_is_C05_on_floored : forall (T : list Z) (xs : list sample),
  asc T -> T <> [] -> (forall x, In x xs -> hd 0 T <= fst x) ->
  binary_binned_auroc T xs = Curves.auroc_spec (map lift (floored T xs)) /\
  binary_binned_auroc T xs = Curves.auroc_row (map lift (floored T xs)).
Proof. exact binned_auroc_C05_floor. Qed.
Theorem binned_auprc_is_C05_on_floored : forall (T : list Z) (xs : list sample),
  asc T -> T <> [] -> (forall x, In x xs -> hd 0 T <= fst x) ->
  auprc_curve (map zq (bin_tp T xs)) (map zq (bin_fp T xs)) (map zq (bin_fn T xs))
  = Fin (Curves.auprc_spec (map lift (floored T xs))).
Proof. exact binned_auprc_C05_floor. Qed.

(* non-vacuity: ties after flooring, a threshold with an empty bucket, a duplicated threshold *)
Example C06_vs_C05_example :
  let T := [0; 2; 4; 4; 8] in
  let xs : list sample := [(3, true); (0, false); (5, false); (4, true); (9, true); (7, false)] in
  vq (auroc_exact (floored T xs)) = vq (Curves.auroc_spec (map lift (floored T xs))) /\
  vq (auprc_exact (floored T xs)) = vq (Curves.auprc_spec (map lift (floored T xs))) /\
  xq_val (auprc_curve (map zq (bin_tp T xs)) (map zq (bin_fp T xs)) (map zq (bin_fn T xs))) = vq (Curves.auprc_spec (map lift (floored T xs))) /\
  vq (binary_binned_auroc T xs) = vq (Curves.auroc_row (map lift (floored T xs))).
Proof. vm_compute. auto. Qed.

Print Assumptions auroc_exact_is_C05_auroc_spec.
Print Assumptions auprc_exact_is_C05_auprc_spec.
Print Assumptions distinct_scores_is_C05_dset.
Print Assumptions binned_auroc_is_C05_on_floored.
Print Assumptions binned_auprc_is_C05_on_floored.
