(* C08 (ranking / retrieval half) -- hit rate, reciprocal rank, retrieval precision / recall, click-
   through rate, weighted calibration, collisions, frequency-at-k equal the values obtained by
   explicitly ranking and counting; class forms vs the definition on ALL data seen.
   Statements only; proofs in Proofs/RankingP.v.  "tie_free" is the property's own proviso for the
   retrieval metrics (torch.topk leaves the order of equal scores unspecified). *)
From Coq Require Import ZArith List Bool QArith Qcanon Permutation Lia String.
From TE Require Import Base.Val Base.Nd Base.Xq Algebra.Metric Algebra.MergeTree Models.Ranking Proofs.RankingP.
Import ListNotations.
Open Scope nat_scope.

(* ---- hit rate / reciprocal rank ---- *)
(* the code's rank (number of strictly greater scores) is the position of the first element with the
   target's score in EVERY descending arrangement of the row *)
Theorem rank_is_position_in_any_descending_order :
  forall row t s, in_range (row, t) = true -> Permutation row s -> wdescZ s ->
    rk_rank row t = first_pos (nth (Z.to_nat t) row 0%Z) s.
Proof. exact rank_any_sorting. Qed.
Theorem hit_rate_spec :
  forall k smp, in_range smp = true -> hit_one k smp = hit_spec_one k smp.
Proof. exact hit_one_spec. Qed.
(* the "k >= num_classes => ones" shortcut of the code is the rank rule, not an exception to it *)
Theorem hit_rate_rank_rule :
  forall k smp, in_range smp = true ->
    hit_one (Some k) smp = if (rk_rank (fst smp) (snd smp) <? k)%Z then 1%Qc else 0%Qc.
Proof. exact hit_one_rank_rule. Qed.
Theorem hit_rate_k_beyond_candidates_all_ones :
  forall k b, Forall (fun s => (Z.of_nat (List.length (fst s)) <= k)%Z) b -> hit_fn (Some k) b = map (fun _ => 1%Qc) b.
Proof. exact hit_all_ones. Qed.
Theorem reciprocal_rank_spec :
  forall k smp, in_range smp = true -> rr_one k smp = rr_spec_one k smp.
Proof. exact rr_one_spec. Qed.
(* class forms: after ANY merge tree (in particular any sequence of updates) compute() is the
   per-sample definition applied to all samples seen, in stream order -- nothing truncated *)
Theorem hit_rate_class_all_data :
  forall k (t : mtree hitrate_metric), Forall (fun b => hit_valid k b = true) (stream hitrate_metric t) ->
    cmp hitrate_metric k (run hitrate_metric k t) = flat_map (hit_fn k) (stream hitrate_metric t).
Proof. exact (sc_merge_tree (option Z) hr_batch hit_valid hit_fn). Qed.
Theorem reciprocal_rank_class_all_data :
  forall k (t : mtree rrank_metric), Forall (fun b => rr_valid k b = true) (stream rrank_metric t) ->
    cmp rrank_metric k (run rrank_metric k t) = flat_map (rr_fn k) (stream rrank_metric t).
Proof. exact (sc_merge_tree (option Z) hr_batch rr_valid rr_fn). Qed.

(* ---- retrieval precision / recall: functionals ---- *)
(* whatever order torch.topk/sort returns, if it is a descending permutation it is the model's *)
Theorem topk_order_is_determined :
  forall l s, Permutation l s -> sorted2 s -> s = sortd l.
Proof. exact sortd_unique. Qed.
Theorem retrieval_precision_spec :
  forall k lim l, tie_free l -> prec_fn k lim l = prec_spec k lim l.
Proof. exact prec_fn_spec. Qed.
Theorem retrieval_recall_spec :
  forall k l, tie_free l -> rec_fn k l = rec_spec k l.
Proof. exact rec_fn_spec. Qed.
Theorem retrieval_precision_k_beyond_candidates :
  forall k lim l, List.length l <= k ->
    prec_spec (Some k) lim l = qdivx (zq (sumlab l)) (zq (Z.of_nat (if lim then List.length l else k))).
Proof. exact prec_spec_k_beyond. Qed.
Theorem retrieval_recall_k_beyond_candidates :
  forall k l, List.length l <= k -> rec_spec (Some k) l = qdivx (zq (sumlab l)) (zq (sumlab l)).
Proof. exact rec_spec_k_beyond. Qed.

(* ---- retrieval precision / recall: classes ---- *)
Theorem retrieval_precision_retention :
  forall k A B, topk k (topk k A ++ B) = topk k (A ++ B).
Proof. exact topk_retention. Qed.
(* after any sequence of updates the class holds, per query, the top-k of ALL data of that query *)
Theorem retrieval_class_state :
  forall recall c bs i, i < r_nq c ->
    nth i (fold_left (upd (retr_metric recall) c) bs (init (retr_metric recall) c)) [] = topk (r_k c) (rdata c i bs).
Proof. exact retr_class_state. Qed.
(* RetrievalPrecision = definition on all data, unless relevant items exist and all were pruned *)
Theorem retrieval_precision_class_eq :
  forall c bs, r_k c <> Some 0 ->
    (forall i, i < r_nq c -> tie_free (rdata c i bs) /\
       (has1 (topk (r_k c) (rdata c i bs)) = true \/ has1 (rdata c i bs) = false)) ->
    class_after false c bs = rclass_spec false c bs.
Proof. exact rprec_class_eq. Qed.
Theorem retrieval_precision_pruned_pos_refuted :
  exists c bs, valid_tie_free c bs /\ r_k c <> Some 0 /\
    (exists i, i < r_nq c /\ has1 (rdata c i bs) = true) /\
    class_after false c bs = RVec [Fin 1%Qc] /\ rclass_spec false c bs = RVec [Fin 0%Qc].
Proof. exact precision_pruned_pos_refuted. Qed.
Theorem retrieval_precision_pruned_err_refuted :
  class_after false (wit_cfg AErr) wit_d4 = RErr /\ rclass_spec false (wit_cfg AErr) wit_d4 = RVec [Fin 0%Qc].
Proof. exact precision_pruned_err_refuted. Qed.
(* RetrievalRecall = definition only when no relevant item lies outside the retained top-k *)
Theorem retrieval_recall_class_eq_partial :
  forall c bs, r_k c <> Some 0 ->
    (forall i, i < r_nq c -> tie_free (rdata c i bs) /\
       sumlab (topk (r_k c) (rdata c i bs)) = sumlab (rdata c i bs) /\
       has1 (topk (r_k c) (rdata c i bs)) = has1 (rdata c i bs)) ->
    class_after true c bs = rclass_spec true c bs.
Proof. exact rrecall_class_eq. Qed.
(* what the class reports instead: retained / retained *)
Theorem retrieval_recall_class_asis :
  forall c D, r_k c <> Some 0 -> has1 (topk (r_k c) D) = true ->
    rquery true c (topk (r_k c) D) = Some (qdivx (zq (sumlab (topk (r_k c) D))) (zq (sumlab (topk (r_k c) D)))).
Proof. exact rquery_recall_asis. Qed.
Theorem retrieval_recall_class_refuted :
  exists c bs, valid_tie_free c bs /\ r_k c <> Some 0 /\
    class_after true c bs = RVec [Fin 1%Qc] /\ rclass_spec true c bs = RVec [Fin (mkq 1 2)].
Proof. exact recall_class_refuted. Qed.
Theorem retrieval_recall_pruned_pos_refuted :
  class_after true (wit_cfg APos) wit_d4 = RVec [Fin 1%Qc] /\ rclass_spec true (wit_cfg APos) wit_d4 = RVec [Fin 0%Qc].
Proof. exact recall_pruned_pos_refuted. Qed.

(* ---- click-through rate, weighted calibration, collisions, frequency ---- *)
Theorem ctr_spec :
  forall nt b, ctr_fn nt b = mapi (fun i xs => (rk_sumQ (map2 Qcmult (weights_of (snd b) i xs) xs) /
                                              (rk_sumQ (weights_of (snd b) i xs) + tiny32))%Qc) (fst b).
Proof. exact ctr_fn_spec. Qed.
Theorem weighted_calibration_spec :
  forall w i xs, wdot w i xs = rk_sumQ (map2 Qcmult (weights_of w i xs) xs).
Proof. exact wdot_spec. Qed.
(* class compute(): per-task IEEE quotient of the accumulated sums unless nothing was accumulated *)
Theorem weighted_calibration_class_value :
  forall nt s, wc_nothing s = false -> wc_gamma nt s = map2 qdivx (nlist (nget 0 s)) (nlist (nget 1 s)).
Proof. exact wc_gamma_value. Qed.
Theorem weighted_calibration_class_nothing_accumulated_empty :
  forall nt s, wc_nothing s = true -> wc_gamma nt s = [].
Proof. exact wc_gamma_nothing. Qed.
Example weighted_calibration_zero_task_example :   (* task 0 has target sum 0, task 1 does not: [inf; 1/2] *)
  map xq_val (wc_gamma 2 (Arr [nvec [mkq 1 1; mkq 1 1]; nvec [mkq 0 1; mkq 2 1]])) = [VT "pinf"%string []; VQ 1 2].
Proof. vm_compute. reflexivity. Qed.
Theorem collisions_spec_thm : forall l, collisions_fn l = collisions_spec l.
Proof. exact collisions_fn_spec. Qed.
Theorem frequency_spec :
  forall k l, List.length (frequency_fn k l) = List.length l /\
    forall i, i < List.length l ->
      (((nth i l 0) < k)%Qc -> nth i (frequency_fn k l) 0%Qc = 1%Qc) /\
      (~ ((nth i l 0) < k)%Qc -> nth i (frequency_fn k l) 0%Qc = 0%Qc).
Proof. exact frequency_fn_spec. Qed.

(* non-vacuity *)
Example hit_rate_tie_example :      (* target ties with another candidate: rank 1, hit for k=2 only *)
  hit_fn (Some 2%Z) [([3; 2; 2]%Z, 2%Z)] = [1%Qc] /\ hit_fn (Some 1%Z) [([3; 2; 2]%Z, 2%Z)] = [0%Qc].
Proof. split; reflexivity. Qed.
Example retention_example :
  topk (Some 2) (topk (Some 2) [(5, 0); (9, 1); (7, 0)]%Z ++ [(8, 1)]%Z) = [(9, 1); (8, 1)]%Z.
Proof. reflexivity. Qed.
Example class_eq_example :          (* two queries, three updates, k=2: hypotheses of retrieval_precision_class_eq hold *)
  let c := Build_rcfg APos (Some 2) false 2 false 1024 in
  let bs := [([5; 9; 7]%Z, [0; 1; 0]%Z, Some [0; 0; 1]%Z); ([8; 1]%Z, [1; 0]%Z, Some [0; 1]%Z); ([3]%Z, [0]%Z, Some [1]%Z)] in
  (forall i, i < r_nq c -> has1 (topk (r_k c) (rdata c i bs)) = true \/ has1 (rdata c i bs) = false) /\
  enc_rout c (class_after false c bs) = VL [VQ 1 1; VQ 1 1].
Proof. split; [intros [|[|i]] Hi; [left; reflexivity|right; reflexivity|cbn in Hi; lia]|vm_compute; reflexivity]. Qed.

Print Assumptions rank_is_position_in_any_descending_order.
Print Assumptions hit_rate_spec.
Print Assumptions hit_rate_rank_rule.
Print Assumptions hit_rate_k_beyond_candidates_all_ones.
Print Assumptions reciprocal_rank_spec.
Print Assumptions hit_rate_class_all_data.
Print Assumptions reciprocal_rank_class_all_data.
Print Assumptions topk_order_is_determined.
Print Assumptions retrieval_precision_spec.
Print Assumptions retrieval_recall_spec.
Print Assumptions retrieval_precision_k_beyond_candidates.
Print Assumptions retrieval_recall_k_beyond_candidates.
Print Assumptions retrieval_precision_retention.
Print Assumptions retrieval_class_state.
Print Assumptions retrieval_precision_class_eq.
Print Assumptions retrieval_precision_pruned_pos_refuted.
Print Assumptions retrieval_precision_pruned_err_refuted.
Print Assumptions retrieval_recall_class_eq_partial.
Print Assumptions retrieval_recall_class_asis.
Print Assumptions retrieval_recall_class_refuted.
Print Assumptions retrieval_recall_pruned_pos_refuted.
Print Assumptions ctr_spec.
Print Assumptions weighted_calibration_spec.
Print Assumptions weighted_calibration_class_value.
Print Assumptions weighted_calibration_class_nothing_accumulated_empty.
Print Assumptions collisions_spec_thm.
Print Assumptions frequency_spec.
