(* C11 -- non-interference at the level of the value model: merge leaves sources unchanged,
   compute is pure.  (That the real objects share no storage is decided by the alias analysis
   of Props/C11_effects.v over skeletons regenerated from the source, and by the storage checks.) *)
From Coq Require Import List Bool String.
From TE Require Import Base.Val Algebra.Metric Algebra.Pool Algebra.Behave.
Import ListNotations.
Open Scope string_scope.

Theorem merge_leaves_sources_unchanged :
  forall (M : Metric) (K : Codec M) (c : cfg M) (p : pool M) (i : val) (js : list val) (k : nat),
    k <> nat_of i ->
    get M c k (objs M (fst (step M K c p (VT "merge" [i; VL js])))) = get M c k (objs M p).
Proof.
  intros M K c p i js k Hk. apply step_frame. cbn. intros [H|[]]. congruence.
Qed.

Theorem compute_changes_nothing :
  forall (M : Metric) (K : Codec M) (c : cfg M) (p : pool M) (i : val),
    fst (step M K c p (VT "compute" [i])) = p.
Proof. exact compute_pure. Qed.

Print Assumptions merge_leaves_sources_unchanged.
Print Assumptions compute_changes_nothing.
