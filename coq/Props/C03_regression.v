(* C03 for the regression family: the class form on ANY batching equals the functional model applied once to
   the concatenation of the batches; the functional entry points (@model ..._fn, tied to torcheval's
   functionals by fn_corr) compute exactly the right-hand sides.  Statements only. *)
From Coq Require Import ZArith List Bool QArith Qcanon String.
From TE Require Import Base.Val Base.Nd Base.Xq Algebra.Metric Algebra.MergeTree Algebra.Pool
  Models.Aggregation Models.Aggregation2 Models.Regression Models.Stat Proofs.RegressionP Proofs.RegAlgP Proofs.RegC03P.
Import ListNotations.
Open Scope list_scope.
Open Scope Qc_scope.

(* generic form for metrics whose update() rejects the empty batch (no neutral batch needed) *)
Theorem class_eq_functional_on_nonempty_concatenation :
  forall (M : Metric) (L : Alg M) (c : cfg M) (bcat : batch M -> batch M -> batch M),
    (forall b1 b2, valid M c b1 = true -> valid M c b2 = true -> beta L c (bcat b1 b2) = op L (beta L c b1) (beta L c b2)) ->
    (forall b1 b2, valid M c b1 = true -> valid M c b2 = true -> valid M c (bcat b1 b2) = true) ->
    forall b bs, Forall (fun b => valid M c b = true) (b :: bs) ->
    cmp M c (fold_left (upd M c) (b :: bs) (init M c)) = gamma L c (beta L c (bconcat1 M bcat b bs)).
Proof. exact class_eq_functional_nonempty. Qed.

(* Perplexity: value on all tokens of all batches (empty result when every token is ignored) *)
Theorem perplexity_class_eq_functional : forall ig bs, Forall (fun b => valid px_metric ig b = true) bs ->
  cmp px_metric ig (fold_left (upd px_metric ig) bs (init px_metric ig))
  = let s := px_stat ig (flat_map px_rows bs) (flat_map px_tgt bs) in if qeq (snd s) 0 then VL [] else px_value s.
Proof. exact px_class_fn. Qed.
Theorem perplexity_fn_model : forall cv bv ig b, as_opt as_Z cv = Some ig -> dec_px_batch bv = Some b -> px_valid ig b = true ->
  run_perplexity_fn (VL [cv; bv]) = let s := px_stat ig (px_rows b) (px_tgt b) in if qeq (snd s) 0 then vnone else px_value s.
Proof. exact run_perplexity_fn_is. Qed.

(* Wasserstein1D: value on the concatenated samples with materialised weights *)
Theorem wasserstein_class_eq_functional : forall b bs, Forall (fun b => valid w_metric tt b = true) (b :: bs) ->
  let B := bconcat1 w_metric w_cat b bs in
  cmp w_metric tt (fold_left (upd w_metric tt) (b :: bs) (init w_metric tt))
  = Some (wass (wb_x B) (wts (wb_x B) (wb_xw B)) (wb_y B) (wts (wb_y B) (wb_yw B))).
Proof. exact w_class_fn. Qed.
Theorem wasserstein_fn_model : forall cv bv b, dec_w_batch bv = Some b -> w_valid b = true ->
  run_wasserstein_fn (VL [cv; bv]) = w_out_val (Some (wass (wb_x b) (wts (wb_x b) (wb_xw b)) (wb_y b) (wts (wb_y b) (wb_yw b)))).
Proof. exact run_wasserstein_fn_is. Qed.

(* PSNR (both data_range modes): value on the concatenated images *)
Theorem psnr_class_eq_functional : forall c b bs, Forall (fun b => valid p_metric c b = true) (b :: bs) ->
  cmp p_metric c (fold_left (upd p_metric c) (b :: bs) (init p_metric c)) = psnr_fn c (bconcat1 p_metric p_cat b bs).
Proof. exact p_class_fn. Qed.
Theorem psnr_fn_model : forall cv bv c b, as_opt as_Q cv = Some c -> as_pair (as_list as_Q) (as_list as_Q) bv = Some b ->
  p_valid c b = true -> snd b <> [] -> run_psnr_fn (VL [cv; bv]) = psnr_fn c b.
Proof. exact run_psnr_fn_is. Qed.

(* Throughput: one instance fed any batching = the functional on the summed counts / times *)
Theorem throughput_class_eq_functional : forall bs : list (Qc * Qc),
  cmp tp_metric tt (fold_left (upd tp_metric tt) bs (init tp_metric tt)) = tp_cmp (0 + sumQ (map fst bs), 0 + sumQ (map snd bs)).
Proof. intros bs. change (upd tp_metric tt) with tp_upd. exact (f_equal tp_cmp (tp_updates bs (0, 0))). Qed.

Print Assumptions class_eq_functional_on_nonempty_concatenation.
Print Assumptions perplexity_class_eq_functional.
Print Assumptions perplexity_fn_model.
Print Assumptions wasserstein_class_eq_functional.
Print Assumptions wasserstein_fn_model.
Print Assumptions psnr_class_eq_functional.
Print Assumptions psnr_fn_model.
Print Assumptions throughput_class_eq_functional.
