(* C14 item 1 -- generated-table obligation: update() of every class validates before it mutates. *)
From Coq Require Import List String Bool.
From TE Require Import Models.Effects Models.EffectsTables Generated.Skeletons Generated.KnownEffects.
Import ListNotations.
Open Scope string_scope.

Theorem commit_discipline_all_classes :
  commit_table_ok class_skeletons commit_discharge commit_excused = true.
Proof. vm_compute. reflexivity. Qed.

(* each excused (class, call) really is a call met after a state write in the current tree *)
Theorem commit_excuses_are_live :
  commit_excuses_live class_skeletons commit_discharge commit_excused = true.
Proof. vm_compute. reflexivity. Qed.

Print Assumptions commit_discipline_all_classes.
Print Assumptions commit_excuses_are_live.
