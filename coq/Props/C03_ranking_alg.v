(* C03 for HitRate, ReciprocalRank, ClickThroughRate, WeightedCalibration: the class form on ANY
   batching equals the functional model applied once to the concatenation of the batches; the
   functional entry points (@model rk_*_fn, tied to torcheval's functionals by fn_corr) compute
   exactly the right-hand sides.  Statements only (proofs: Proofs/RankingAlgP.v).
   (RetrievalPrecision / RetrievalRecall: see Props/C08_ranking.v -- class = functional holds exactly
   under the hypotheses of retrieval_precision_class_eq / retrieval_recall_class_eq_partial and is
   refuted otherwise.) *)
From Coq Require Import ZArith List Bool QArith Qcanon String.
From TE Require Import Base.Val Base.Nd Base.Xq Algebra.Metric Algebra.MergeTree Algebra.Pool
  Models.Ranking Proofs.RankingP Proofs.RegAlgP Proofs.RankingAlgP.
Import ListNotations.
Open Scope list_scope.

(* ordered caches: per-sample values of all samples, in update order (samples of different updates
   may even have different numbers of candidates) *)
Theorem hit_rate_class_eq_functional : forall k bs, Forall (fun b => hit_valid k b = true) bs ->
  cmp hitrate_metric k (fold_left (upd hitrate_metric k) bs (init hitrate_metric k)) = hit_fn k (List.concat bs).
Proof. exact hit_class_fn. Qed.
Theorem hit_rate_concatenation_valid : forall k b bs, Forall (fun b => hit_valid k b = true) (b :: bs) ->
  hit_valid k (List.concat (b :: bs)) = true.
Proof. exact hit_valid_concat. Qed.
Theorem hit_rate_fn_model : forall kv bv k b, dec_oZ kv = Some k -> dec_hr_batch bv = Some b -> hit_valid k b = true ->
  run_hitrate_fn (VL [kv; bv]) = vlistQ (hit_fn k b).
Proof. exact run_hitrate_fn_is. Qed.
Theorem reciprocal_rank_class_eq_functional : forall k bs, Forall (fun b => rr_valid k b = true) bs ->
  cmp rrank_metric k (fold_left (upd rrank_metric k) bs (init rrank_metric k)) = rr_fn k (List.concat bs).
Proof. exact rr_class_fn. Qed.
Theorem reciprocal_rank_concatenation_valid : forall k bs, Forall (fun b => rr_valid k b = true) bs ->
  rr_valid k (List.concat bs) = true.
Proof. exact rr_valid_concat. Qed.
Theorem reciprocal_rank_fn_model : forall kv bv k b, dec_oZ kv = Some k -> dec_hr_batch bv = Some b -> rr_valid k b = true ->
  run_rrank_fn (VL [kv; bv]) = vlistQ (rr_fn k b).
Proof. exact run_rrank_fn_is. Qed.

(* ClickThroughRate: concatenation along the sample dimension with per-sample weights materialised
   (ctr_cat); the class accumulates in float64, hence eps = finfo(float64).tiny where the functional
   (float32) uses finfo(float32).tiny -- the ONLY difference, made explicit by ctr_fn_eps *)
Theorem click_through_rate_class_eq_functional : forall nt b bs, Forall (fun b => ctr_valid nt b = true) (b :: bs) ->
  cmp ctr_metric nt (fold_left (upd ctr_metric nt) (b :: bs) (init ctr_metric nt)) =
  ctr_fn_eps tiny64 (bconcat1 ctr_metric ctr_cat b bs).
Proof. exact ctr_class_fn_eps. Qed.
Theorem click_through_rate_concatenation_valid : forall nt b bs, Forall (fun b => ctr_valid nt b = true) (b :: bs) ->
  ctr_valid nt (bconcat1 ctr_metric ctr_cat b bs) = true.
Proof. exact ctr_concat_valid. Qed.
Theorem click_through_rate_fn_model : forall cv bv nt b, as_nat cv = Some nt -> dec_ctr_batch nt bv = Some b -> ctr_valid nt b = true ->
  run_ctr_fn (VL [cv; bv]) = squeeze1 nt (map vq (ctr_fn_eps tiny32 b)).
Proof. exact run_ctr_fn_is. Qed.

(* WeightedCalibration: class = functional on the concatenation (per-task IEEE quotient), except that
   the class returns the empty tensor when nothing at all was accumulated *)
Theorem weighted_calibration_class_eq_functional : forall nt b bs, Forall (fun b => wc_valid nt b = true) (b :: bs) ->
  let B := bconcat1 wc_metric wc_cat b bs in
  wc_nothing (wc_beta nt B) = false ->
  cmp wc_metric nt (fold_left (upd wc_metric nt) (b :: bs) (init wc_metric nt)) = wc_fn nt B.
Proof. exact wc_class_fn_model. Qed.
Theorem weighted_calibration_concatenation_valid : forall nt b bs, Forall (fun b => wc_valid nt b = true) (b :: bs) ->
  wc_valid nt (bconcat1 wc_metric wc_cat b bs) = true.
Proof. exact wc_concat_valid. Qed.
Theorem weighted_calibration_fn_model : forall cv bv nt b, as_nat cv = Some nt -> dec_wc_batch nt bv = Some b -> wc_valid nt b = true ->
  run_wcal_fn (VL [cv; bv]) = squeeze1 nt (map xq_val (wc_fn nt b)).
Proof. exact run_wcal_fn_is. Qed.

(* non-vacuity: scalar-weighted and tensor-weighted batches concatenate *)
Example ctr_concat_example :
  let b1 : ctr_batch := ([[1%Qc; 0%Qc]], WSc (mkq 2 1)) in
  let b2 : ctr_batch := ([[1%Qc]], WTen [[mkq 1 2]]) in
  ctr_valid 1 b1 = true /\ ctr_valid 1 b2 = true /\
  map (map vq) (fst (ctr_cat b1 b2)) = [[VQ 1 1; VQ 0 1; VQ 1 1]] /\
  map (map vq) (wmat (snd (ctr_cat b1 b2)) (fst (ctr_cat b1 b2))) = [[VQ 2 1; VQ 2 1; VQ 1 2]] /\
  map vq (cmp ctr_metric 1 (fold_left (upd ctr_metric 1) [b1; b2] (init ctr_metric 1))) = map vq (ctr_fn_eps tiny64 (ctr_cat b1 b2)).
Proof. repeat split; vm_compute; reflexivity. Qed.

Print Assumptions hit_rate_class_eq_functional.
Print Assumptions hit_rate_concatenation_valid.
Print Assumptions hit_rate_fn_model.
Print Assumptions reciprocal_rank_class_eq_functional.
Print Assumptions reciprocal_rank_concatenation_valid.
Print Assumptions reciprocal_rank_fn_model.
Print Assumptions click_through_rate_class_eq_functional.
Print Assumptions click_through_rate_concatenation_valid.
Print Assumptions click_through_rate_fn_model.
Print Assumptions weighted_calibration_class_eq_functional.
Print Assumptions weighted_calibration_concatenation_valid.
Print Assumptions weighted_calibration_fn_model.
