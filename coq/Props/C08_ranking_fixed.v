(* C08, V_fixed variants of the retrieval classes (Models/RankingFixed.v = torcheval with
   fixes/retrieval-precision.patch / fixes/retrieval-recall.patch applied; the harness detects which
   variant the tree under test implements and ties that model).  With the patches the class forms equal
   the definition on ALL data seen, for every k, limit_k_to_size, empty_target_action, num_queries
   and avg, on tie-free scores -- the statements that Props/C08_ranking.v refutes for the as-is classes. *)
From Coq Require Import ZArith List Bool QArith Qcanon.
From TE Require Import Base.Val Base.Xq Algebra.Metric Models.Ranking Models.RankingFixed Proofs.RankingP Proofs.RankingAlgP Proofs.RankingFixedP.
Import ListNotations.

Theorem retrieval_precision_fixed_class_eq :
  forall c bs, r_k c <> Some 0%nat ->
    (forall i, (i < r_nq c)%nat -> tie_free (rdata c i bs)) ->
    class_after_rprec_fx c bs = rclass_spec false c bs.
Proof. exact rprec_fixed_class_eq. Qed.
Theorem retrieval_recall_fixed_class_eq :
  forall c bs, r_k c <> Some 0%nat ->
    (forall i, (i < r_nq c)%nat -> tie_free (rdata c i bs) /\ labels01 (rdata c i bs)) ->
    class_after_rrec_fx c bs = rclass_spec true c bs.
Proof. exact rrecall_fixed_class_eq. Qed.
(* what the fixed RetrievalPrecision retains: an item list with the same top-k, the same "a relevant
   item was seen" bit and the same effective length as all the data *)
Theorem retrieval_precision_fixed_retention :
  forall k X, k <> Some 0%nat -> Inv k (keep_rel k X) X.
Proof. exact keep_rel_inv. Qed.

(* the witnesses of the as-is refutations, on the fixed models *)
Example d3_fixed : enc_rout (wit_cfg ANeg) (class_after_rrec_fx (wit_cfg ANeg) wit_d3) = VL [VQ 1 2].
Proof. vm_compute. reflexivity. Qed.
Example d4_fixed_precision : enc_rout (wit_cfg APos) (class_after_rprec_fx (wit_cfg APos) wit_d4) = VL [VQ 0 1].
Proof. vm_compute. reflexivity. Qed.
Example d4_fixed_recall : enc_rout (wit_cfg AErr) (class_after_rrec_fx (wit_cfg AErr) wit_d4) = VL [VQ 0 1].
Proof. vm_compute. reflexivity. Qed.

Print Assumptions retrieval_precision_fixed_class_eq.
Print Assumptions retrieval_recall_fixed_class_eq.
Print Assumptions retrieval_precision_fixed_retention.
