(* C11 -- generated-table obligation: compute() of every class is pure. *)
From Coq Require Import List String Bool.
From TE Require Import Models.Effects Generated.Skeletons Generated.Registry Generated.KnownEffects.
Import ListNotations.
Open Scope string_scope.

Theorem compute_pure_all_classes : pure_table_ok class_skeletons registry pure_excused = true.
Proof. vm_compute. reflexivity. Qed.

Theorem pure_excuses_are_live : pure_excuses_live class_skeletons registry pure_excused = true.
Proof. vm_compute. reflexivity. Qed.

Print Assumptions compute_pure_all_classes.
Print Assumptions pure_excuses_are_live.
