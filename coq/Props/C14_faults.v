(* C14 (item 3, Python level of index safety) -- statements over the GENERATED check terms: a label handed to an
   index-writing kernel that does not bounds-check on both sides (sparse_coo_tensor(...).to_dense() in the confusion
   matrix, advanced indexing `probs[:, target]` in perplexity, which wraps negative indices) must have been bounded on
   BOTH sides by the Python-level check.  Each statement is an as-is-or-repaired dichotomy (same file checks on both
   trees); `..._refuted_now` computes which side holds on this tree and is reported by the fault-injection stream's
   findings (C14-confusion-negative-label, C14-perplexity-negative-label). *)
From Coq Require Import ZArith List Bool String Lia.
From TE Require Import Models.ShapeLang Generated.ShapeChecks Models.Contracts Proofs.ShapesTac.
Import ListNotations.
Open Scope string_scope.

Definition labels_bounded (e : env) (lo hi : string) : bool := atom_false e lo && atom_false e hi.

Definition wit_confusion_negative : env :=
  env_of [("input", ATensor [3%nat; 3%nat]); ("target", ATensor [3%nat]); ("num_classes", AInt 3)]
         [("torch.min(target) < 0", true)] (Some false).

(* confusion matrix: an accepted target has 0 <= min and max < num_classes  --  or the negative-label witness is accepted *)
Theorem confusion_target_labels_in_range_or_refuted :
  (forall e, wf sig_confusion_matrix_update_input_check e ->
     implb (accepts chk_confusion_matrix_update_input_check e)
           (labels_bounded e "torch.min(target) < 0" "torch.max(target) >= num_classes") = true)
  \/ (wf sig_confusion_matrix_update_input_check wit_confusion_negative
      /\ accepts chk_confusion_matrix_update_input_check wit_confusion_negative = true
      /\ atom wit_confusion_negative "torch.min(target) < 0" = Some true).
Proof.
  first [ left; intros e H; unfold chk_confusion_matrix_update_input_check, labels_bounded; solve [shape_solve H]
        | right; vm_compute; repeat split; congruence ].
Qed.
Definition confusion_negative_label_refuted_now : bool :=
  accepts chk_confusion_matrix_update_input_check wit_confusion_negative.

Definition wit_perplexity_negative (a : string) : env :=
  env_of [("input", ATensor [1%nat; 3%nat; 3%nat]); ("target", ATensor [1%nat; 3%nat]); ("ignore_index", ANone)]
         [(a, true)] (Some false).

(* perplexity: only the maximum of the target is tested; a negative label is accepted (and wraps in probs[:, target]) *)
Theorem perplexity_target_labels_in_range_or_refuted :
  (forall e, wf sig_perplexity_input_check e ->
     implb (accepts chk_perplexity_input_check e) (atom_false e "torch.min(_target) < 0") = true)
  \/ (forall e, wf sig_perplexity_input_check e ->
     implb (accepts chk_perplexity_input_check e) (atom_false e "torch.min(target) < 0") = true)
  \/ (wf sig_perplexity_input_check (wit_perplexity_negative "torch.min(target) < 0")
      /\ accepts chk_perplexity_input_check (wit_perplexity_negative "torch.min(target) < 0") = true
      /\ accepts chk_perplexity_input_check (wit_perplexity_negative "torch.min(_target) < 0") = true).
Proof.
  first [ left; intros e H; unfold chk_perplexity_input_check; solve [shape_solve H]
        | right; left; intros e H; unfold chk_perplexity_input_check; solve [shape_solve H]
        | right; right; vm_compute; repeat split; congruence ].
Qed.
Definition perplexity_negative_label_refuted_now : bool :=
  accepts chk_perplexity_input_check (wit_perplexity_negative "torch.min(target) < 0")
  && accepts chk_perplexity_input_check (wit_perplexity_negative "torch.min(_target) < 0").

Print Assumptions confusion_target_labels_in_range_or_refuted.
Print Assumptions perplexity_target_labels_in_range_or_refuted.
