(* C10 -- registration, static layer L-eff: reset() restores exactly the registered attributes. *)
From Coq Require Import List String Bool.
From TE Require Import Models.Effects Proofs.EffectsP.
Import ListNotations.
Open Scope string_scope.

(* If every attribute the methods write is registered, reset() after ANY sequence of writes gives
   the freshly constructed object back on EVERY attribute. *)
Theorem registry_reset_sound : forall R W : list fld, registry_ok R [] W = true ->
  forall (fresh : aobj) (ws : list (fld * nat)), (forall f, In f (map fst ws) -> In f W) ->
    forall g, areset R fresh (awrites fresh ws) g = fresh g.
Proof. exact registry_reset_restores. Qed.

(* and an unregistered written attribute keeps its stale value through reset() *)
Theorem unregistered_attribute_survives_reset : forall (R : list fld) (f : fld), mem f R = false ->
  forall (fresh : aobj) v, areset R fresh (awrite fresh f v) f = v.
Proof. exact unregistered_survives_reset. Qed.

Example stale_cursor : areset ["total_updates"] (fun _ => 0) (awrite (fun _ => 0) "next_inserted" 2) "next_inserted" = 2.
Proof. reflexivity. Qed.

Print Assumptions registry_reset_sound.
Print Assumptions unregistered_attribute_survives_reset.
