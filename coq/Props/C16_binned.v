(* C16 for the binned family: task t / class k / label k of every multi-slice binned metric equals the binary
   (single-slice) binned metric on slice t / k alone; averages are the mean of the per-slice values.
   Together with Props/C06.v (the binned_auroc_floor and binned_auprc_floor theorems) each slice value is the exact C05 quantity of the floored slice.
   REFUTED for MulticlassBinnedAUROC (known finding C06-multiclass-binned-auroc-per-sample). *)
From Coq Require Import ZArith List Bool Lia Sorted QArith Qcanon Permutation.
From TE Require Import Base.Val Base.Nd Base.Xq Algebra.Metric Algebra.MergeTree Algebra.Pool Algebra.Additive Algebra.Cache
  Models.Binned Proofs.BinnedP Proofs.BinnedFloorP Proofs.BinnedC03P.
From TE Require Models.Counting Proofs.CountingCatP.
Import ListNotations.
Open Scope Z_scope.

(* the single-slice metrics: bin_prec / bin_rec / bin_auprc are BinaryBinnedPrecisionRecallCurve's curve and the
   binary binned AUPRC of one row; binary_binned_auroc is the one-task binned AUROC *)
Theorem binary_curve_is_single_slice : forall c r,
  bprc_gamma c (bprc_beta c r) = (bin_prec (thresholds c) r, bin_rec (thresholds c) r, thr_q c).
Proof. exact bin_curve_is_class. Qed.

(* BinaryBinnedAUROC(num_tasks): entry t = one-task metric on row t (all rows see the same thresholds) *)
Theorem binary_binned_auroc_tasks_independent : forall c cols, cols <> [] ->
  broc_fun c cols = Some (map (fun t => binary_binned_auroc (thresholds c) (task_row t cols)) (seq 0 (bC c)), thr_q c) /\
  forall t, broc_fun (with_C c 1) (map (fun col => [nth t col (0, false)]) cols)
            = Some ([binary_binned_auroc (thresholds c) (task_row t cols)], thr_q c).
Proof. exact broc_slices. Qed.
(* BinaryBinnedAUPRC(num_tasks) *)
Theorem binary_binned_auprc_tasks_independent : forall c rows,
  bauprc_gamma c (bauprc_beta c rows)
  = let a := map (bin_auprc (thresholds c)) rows in if Nat.eqb (bC c) 1 then AMacro (nth 0 a NaN) else AEach a.
Proof. exact bauprc_slices. Qed.
(* Multiclass / Multilabel BinnedPrecisionRecallCurve: class k = binary curve of the one-vs-rest / label-k problem *)
Theorem multiclass_binned_prc_classes_independent : forall c xs, asc (thresholds c) -> mc_ok (bC c) xs = true ->
  m_gamma_prc c (mc_beta c xs)
  = (map (fun k => bin_prec (thresholds c) (ovr k xs)) (seq 0 (bC c)), map (fun k => bin_rec (thresholds c) (ovr k xs)) (seq 0 (bC c)), thr_q c).
Proof. exact mc_prc_slices. Qed.
Theorem multilabel_binned_prc_labels_independent : forall c xs, asc (thresholds c) -> ml_ok (bC c) xs = true ->
  m_gamma_prc c (ml_beta c xs)
  = (map (fun k => bin_prec (thresholds c) (label_col k xs)) (seq 0 (bC c)), map (fun k => bin_rec (thresholds c) (label_col k xs)) (seq 0 (bC c)), thr_q c).
Proof. exact ml_prc_slices. Qed.
(* Multiclass / Multilabel BinnedAUPRC: per class / label values, macro = their mean; either optimisation mode *)
Theorem multiclass_binned_auprc_classes_independent : forall c xs, asc (thresholds c) -> mc_ok (bC c) xs = true ->
  m_gamma_auprc c (mc_beta c xs)
  = let a := map (fun k => bin_auprc (thresholds c) (ovr k xs)) (seq 0 (bC c)) in if bmacro c then AMacro (xmean a) else AEach a.
Proof. exact mc_auprc_slices. Qed.
Theorem multilabel_binned_auprc_labels_independent : forall c xs, asc (thresholds c) -> ml_ok (bC c) xs = true ->
  m_gamma_auprc c (ml_beta c xs)
  = let a := map (fun k => bin_auprc (thresholds c) (label_col k xs)) (seq 0 (bC c)) in if bmacro c then AMacro (xmean a) else AEach a.
Proof. exact ml_auprc_slices. Qed.
(* MulticlassBinnedAUROC: NOT the map of the binary binned AUROC over the one-vs-rest slices *)
Theorem multiclass_binned_auroc_classes_independent_refuted :
  (exists C T xs, mc_ok C xs = true /\ asc T /\ length (mc_binned_auroc_algo C T xs) <> length (mc_binned_auroc_spec C T xs)) /\
  (exists C T xs, mc_ok C xs = true /\ asc T /\ length (mc_binned_auroc_algo C T xs) = length (mc_binned_auroc_spec C T xs)
                  /\ mc_binned_auroc_algo C T xs <> mc_binned_auroc_spec C T xs).
Proof. exact mc_binned_auroc_refuted. Qed.
Theorem multiclass_binned_auroc_spec_is_slicewise : forall C T xs,
  mc_binned_auroc_spec C T xs = map (fun k => binary_binned_auroc T (ovr k xs)) (seq 0 C).
Proof. reflexivity. Qed.

(* non-vacuity: slices with different tie structure *)
Example binned_c16_example :
  let c := {| bD := 8; bthr := TList [0; 4; 4; 8]; bmem := true; bC := 3; bmacro := false |} in
  let xs : list mcsample := [([3; 0; 8], 0%nat); ([2; 3; 9], 2%nat); ([4; 8; 3], 1%nat); ([4; 4; 4], 0%nat)] in
  asc (thresholds c) /\ mc_ok (bC c) xs = true /\
  enc_auprc (m_gamma_auprc c (mc_beta c xs)) = vlistX (map (fun k => bin_auprc (thresholds c) (ovr k xs)) [0; 1; 2]%nat).
Proof. split; [repeat constructor; cbn; lia|]. split; [reflexivity|vm_compute; reflexivity]. Qed.

Print Assumptions binary_curve_is_single_slice.
Print Assumptions binary_binned_auroc_tasks_independent.
Print Assumptions binary_binned_auprc_tasks_independent.
Print Assumptions multiclass_binned_prc_classes_independent.
Print Assumptions multilabel_binned_prc_labels_independent.
Print Assumptions multiclass_binned_auprc_classes_independent.
Print Assumptions multilabel_binned_auprc_labels_independent.
Print Assumptions multiclass_binned_auroc_classes_independent_refuted.
Print Assumptions multiclass_binned_auroc_spec_is_slicewise.
