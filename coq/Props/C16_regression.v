(* C16 for the regression family: multi-output / multi-task results decompose per column / per task.
   Statements only; proofs in Proofs/RegC16P.v. *)
From Coq Require Import ZArith List Bool QArith Qcanon String.
From TE Require Import Base.Val Base.Nd Base.Xq Algebra.Metric Models.Aggregation Models.Aggregation2
  Models.Regression Models.Stat Proofs.RegressionP Proofs.CovP Proofs.RegC16P.
Import ListNotations.
Open Scope list_scope.
Open Scope Qc_scope.

(* MeanSquaredError: the statistics of output column j of a (weighted) multi-output batch are the statistics of the
   single-output batch made of column j (same weights) ... *)
Theorem mse_column_statistics : forall c2 c1 b d j,
  mse_w c2 = Some d -> mse_w c1 = None -> rb_valid (Some d) b = true -> (j < d)%nat ->
  a_sc (mse_stat c2 b) = a_sc (mse_stat c1 (bcol j b))
  /\ Sc (nth j (nlist (nth 0 (a_vs (mse_stat c2 b)) (Sc 0))) 0) = nth 0 (a_vs (mse_stat c1 (bcol j b))) (Sc 0).
Proof. exact mse_stat_column. Qed.
(* ... raw_values output j is the single-output value on column j's statistic ... *)
Theorem mse_raw_values_column : forall sse sw j, (j < List.length sse)%nat ->
  nth j (xout (mse_compute true (nvec sse) sw)) NaN = hd NaN (xout (mse_compute true (Sc (nth j sse 0)) sw)).
Proof. exact mse_raw_column. Qed.
(* ... and uniform_average is the mean of the raw values *)
Theorem mse_uniform_average_is_mean : forall sse sw,
  mse_compute false sse sw = XS (xmeanq (xout (mse_compute true sse sw))).
Proof. exact mse_uniform_mean. Qed.

(* R2Score: same decomposition of the statistics; raw_values output j (adjusted or not) = single-output R2 of column j *)
Theorem r2_column_statistics : forall c2 c1 b d j,
  r2_w c2 = Some d -> r2_w c1 = None -> rb_valid (Some d) b = true -> rb_w b = None -> (j < d)%nat ->
  a_sc (r2_stat c2 b) = a_sc (r2_stat c1 (bcol j b))
  /\ map (fun v => Sc (nth j (nlist v) 0)) (a_vs (r2_stat c2 b)) = a_vs (r2_stat c1 (bcol j b)).
Proof. exact r2_stat_column. Qed.
Theorem r2_raw_values_column : forall p n so sso rss j,
  (j < List.length so)%nat -> (j < List.length sso)%nat -> (j < List.length rss)%nat ->
  nth j (xout (r2_core 0 p n (nvec sso) so sso rss)) NaN
  = hd NaN (xout (r2_core 0 p n (Sc (nth j sso 0)) [nth j so 0] [nth j sso 0] [nth j rss 0])).
Proof. exact r2_raw_column. Qed.
Theorem r2_uniform_average_is_mean : forall n l so sso rss,
  r2_core 1 0 n (Arr l) so sso rss = XS (xmeanq (xout (r2_core 0 0 n (Arr l) so sso rss))).
Proof. exact r2_uniform_mean. Qed.
(* variance_weighted, as documented: sum_j r2_j * tss_j / sum_j tss_j *)
Theorem r2_variance_weighted_spec : forall n l so sso rss,
  let tss := map2 (r2_tss n) so sso in
  r2_core 2 0 n (Arr l) so sso rss
  = XS (xsum (map2 (fun r ts => xdivq (xmul r (Fin ts)) (sumQ tss)) (xout (r2_core 0 0 n (Arr l) so sso rss)) tss)).
Proof. exact r2_variance_weighted. Qed.

(* BinaryNormalizedEntropy: the state of task i is the state of the single-task metric fed row i, and compute() maps
   the per-task value over the tasks *)
Theorem ne_task_is_single_task_of_row : forall c c1 b i, ne_logits c1 = ne_logits c ->
  (i < List.length (nb_x b))%nat -> (i < List.length (nb_t b))%nat -> (i < List.length (ne_wrows b))%nat ->
  [nth i (ne_stat c b) (f0, 0, 0)] = ne_stat c1 (ne_row_batch i b).
Proof. exact ne_task_row. Qed.
Theorem ne_compute_per_task : forall s, existsb (fun t => qeq (snd (fst t)) 0) s = false -> ne_cmp s = VL (map ne_value s).
Proof. exact ne_value_per_task. Qed.

(* Covariance: entry (i, j) of the scatter matrix depends only on columns i and j of the data *)
Theorem cov_entry_depends_on_two_columns : forall d r1 r2 i j,
  rows_ok d r1 = true -> rows_ok d r2 = true -> (i < d)%nat -> (j < d)%nat ->
  col i r1 = col i r2 -> col j r1 = col j r2 ->
  nth j (nth i (nrows (cv_ss (cov_stat d r1))) []) 0 = nth j (nth i (nrows (cv_ss (cov_stat d r2))) []) 0.
Proof. exact cov_entry_columns. Qed.

(* non-vacuity: raw_values of a 2-column batch, column by column *)
Example mse_columns_example :
  let c2 := {| mse_raw := true; mse_w := Some 2%nat |} in let c1 := {| mse_raw := true; mse_w := None |} in
  let b := {| rb_x := [[mkq 1 1; mkq 0 1]; [mkq 3 1; mkq 1 1]]; rb_t := [[mkq 0 1; mkq 2 1]; [mkq 1 1; mkq 1 1]];
              rb_w := Some [mkq 1 2; mkq 3 2]; rb_1d := false |} in
  xnd_val (mse_cmp c2 (mse_stat c2 b)) = VL [VQ 13 4; VQ 1 1]
  /\ xnd_val (mse_cmp c1 (mse_stat c1 (bcol 0 b))) = VQ 13 4 /\ xnd_val (mse_cmp c1 (mse_stat c1 (bcol 1 b))) = VQ 1 1.
Proof. vm_compute. repeat split; reflexivity. Qed.

Print Assumptions mse_column_statistics.
Print Assumptions mse_raw_values_column.
Print Assumptions mse_uniform_average_is_mean.
Print Assumptions r2_column_statistics.
Print Assumptions r2_raw_values_column.
Print Assumptions r2_uniform_average_is_mean.
Print Assumptions r2_variance_weighted_spec.
Print Assumptions ne_task_is_single_task_of_row.
Print Assumptions ne_compute_per_task.
Print Assumptions cov_entry_depends_on_two_columns.
