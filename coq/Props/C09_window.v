(* C09 (windowed classes) -- state_dict / load_state_dict and the ring-buffer cursor (D5, load half).
   The cursor next_inserted is a plain attribute: state_dict() does not contain it and
   load_state_dict() leaves the target's own value in place (unchanged by the fix c5ceb09, which
   only repaired reset()).  On the faithful models of the CURRENT code (V_code) this falsifies
   "the restored object behaves like the original" for all five classes; on the V_fixed variant
   (cursor saved and restored with the registered states) it holds. *)
From Coq Require Import ZArith List Bool.
From TE Require Import Base.Val Algebra.Metric Algebra.Pool Models.Window Models.WindowAUROC Proofs.WindowP.
Import ListNotations.

(* load_breaks M K: there are a configuration, a history [pre] on object 0 and a list of batches
   such that, after  d := obj0.state_dict(); obj1 (fresh).load_state_dict(d),  feeding the same
   batches to obj0 and to obj1 (compute() after every update) gives different compute() results.
   Stated through Pool.exec on the faithful Metric. *)
Theorem window_load_refuted : load_breaks (wctr V_code) (wctr_codec V_code).
Proof. exact wctr_load_breaks. Qed.
(* window 3, updates [1],[0]; save; load into a fresh instance; three more updates [1],[1],[1]:
   original 2/3, 2/3, 1 -- restored 1/2, 1, 1 *)
Theorem window_load_refuted_values :
  behaviour (wctr V_code) (wctr_codec V_code) wcfg3 2 (ctr_pre ++ [o_save 0 0; o_load 1 0] ++ cont_on ctr_cont 0)
    = [VL [vq (q 2 3)]; VL [vq (q 2 3)]; VL [vq (q 1 1)]] /\
  behaviour (wctr V_code) (wctr_codec V_code) wcfg3 2 (ctr_pre ++ [o_save 0 0; o_load 1 0] ++ cont_on ctr_cont 1)
    = [VL [vq (q 1 2)]; VL [vq (q 1 1)]; VL [vq (q 1 1)]].
Proof. exact wctr_load_witness_values. Qed.
Theorem window_load_refuted_wcal : load_breaks (wcal V_code) (wcal_codec V_code).
Proof. exact wcal_load_breaks. Qed.
Theorem window_load_refuted_wmse : load_breaks (wmse V_code) (wmse_codec V_code).
Proof. exact wmse_load_breaks. Qed.
Theorem window_load_refuted_wne : load_breaks (wne V_code) (wne_codec V_code).
Proof. exact wne_load_breaks. Qed.
Theorem window_load_refuted_wauroc : load_breaks (wauroc V_code) (wauroc_codec V_code).
Proof. exact wauroc_load_breaks. Qed.

(* V_fixed: with the cursor among the saved states, load_state_dict(state_dict()) into ANY target
   reproduces the source state exactly ... *)
Theorem window_load_fixed :
  forall (W : WinSpec) (c : wcfg) (tgt s : wst (wS W)),
    load (win_metric W V_fixed) c tgt (save (win_metric W V_fixed) c s) = s.
Proof. exact win_fixed_load. Qed.
Theorem window_load_fixed_wauroc :
  forall (c : acfg) (tgt s : ast), load (wauroc V_fixed) c tgt (save (wauroc V_fixed) c s) = s.
Proof. exact wauroc_fixed_load. Qed.
(* ... hence, in any pool, save + load leaves the objects exactly as a deep copy does: the restored
   object and the original have the same state, and therefore the same observations under every
   continuation (Pool.exec is a function of the pool). *)
Theorem window_load_fixed_bisim :
  forall (W : WinSpec) (K : Codec (win_metric W V_fixed)) (c : wcfg) (p : pool (win_metric W V_fixed)) (i j k : nat),
    (k < List.length (dicts _ p))%nat ->
    objs _ (after _ K c p [o_save i k; o_load j k]) = objs _ (after _ K c p [o_clone i j]).
Proof. intros W K c. apply load_bisim_of_eq. intros tgt s. reflexivity. Qed.
Theorem window_load_fixed_bisim_wauroc :
  forall (K : Codec (wauroc V_fixed)) (c : acfg) (p : pool (wauroc V_fixed)) (i j k : nat),
    (k < List.length (dicts _ p))%nat ->
    objs _ (after _ K c p [o_save i k; o_load j k]) = objs _ (after _ K c p [o_clone i j]).
Proof. intros K c. apply load_bisim_of_eq. intros tgt s. reflexivity. Qed.

Print Assumptions window_load_refuted.
Print Assumptions window_load_refuted_values.
Print Assumptions window_load_refuted_wcal.
Print Assumptions window_load_refuted_wmse.
Print Assumptions window_load_refuted_wne.
Print Assumptions window_load_refuted_wauroc.
Print Assumptions window_load_fixed.
Print Assumptions window_load_fixed_wauroc.
Print Assumptions window_load_fixed_bisim.
Print Assumptions window_load_fixed_bisim_wauroc.
