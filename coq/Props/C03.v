(* C03 -- class metric equals functional metric on the concatenated data (generic statement). *)
From Coq Require Import List Bool.
From TE Require Import Base.Val Algebra.Metric Algebra.MergeTree Proofs.GenericP.
Import ListNotations.

(* For any metric with a monoid abstraction whose batch statistic [beta] is additive over batch
   concatenation: update() on ANY sequence of batches followed by compute() equals the functional
   form [gamma (beta _)] applied once to the concatenation of those batches. *)
Theorem class_eq_functional_on_concatenation :
  forall (M : Metric) (L : Alg M) (c : cfg M)
         (bcat : batch M -> batch M -> batch M) (bnil : batch M),
    (forall b1 b2, valid M c b1 = true -> valid M c b2 = true ->
        beta L c (bcat b1 b2) = op L (beta L c b1) (beta L c b2)) ->
    (forall b1 b2, valid M c b1 = true -> valid M c b2 = true -> valid M c (bcat b1 b2) = true) ->
    beta L c bnil = e L c -> valid M c bnil = true ->
    forall bs, Forall (fun b => valid M c b = true) bs ->
    cmp M c (fold_left (upd M c) bs (init M c)) = gamma L c (beta L c (bconcat M bcat bnil bs)).
Proof. exact class_eq_functional_gen. Qed.

Print Assumptions class_eq_functional_on_concatenation.
