(* C10 -- reset() returns a metric to the behaviour of a freshly constructed one (value model). *)
From Coq Require Import List Bool.
From TE Require Import Base.Val Algebra.Metric Algebra.Pool Algebra.Behave Algebra.Additive Algebra.Cache.
Import ListNotations.

Theorem reset_behaves_like_fresh :
  forall (M : Metric) (c : cfg M), registered_only M c ->
    forall s ops, behave M c (rst M c s) ops = behave M c (init M c) ops.
Proof. exact reset_bisim. Qed.

Theorem additive_family_reset : forall (S : AddSpec) c s ops,
  behave (add_metric S) c (rst (add_metric S) c s) ops = behave (add_metric S) c (init (add_metric S) c) ops.
Proof. intros. apply reset_bisim. repeat split. Qed.
Theorem cache_family_reset : forall (S : CacheSpec) c s ops,
  behave (cache_metric S) c (rst (cache_metric S) c s) ops = behave (cache_metric S) c (init (cache_metric S) c) ops.
Proof. intros. apply reset_bisim. repeat split. Qed.

Print Assumptions reset_behaves_like_fresh.
Print Assumptions additive_family_reset.
Print Assumptions cache_family_reset.
