(* C14 -- failure atomicity at the level of the value model (generic): an update() that the
   metric rejects leaves the object exactly as it was, now and under every continuation; and a
   rejected update changes no other object of the pool.  (That the real update() writes nothing
   before it raises is decided by Props/C14_effects*.v over skeletons regenerated from the source,
   and exercised by the fault-injection streams.) *)
From Coq Require Import List Bool String.
From TE Require Import Base.Val Algebra.Metric Algebra.Pool Algebra.Behave.
Import ListNotations.
Open Scope string_scope.

Theorem rejected_update_changes_nothing_now_or_later :
  forall (M : Metric) (c : cfg M) (s : st M) (b : batch M) (ops : list (sop M)),
    valid M c b = false ->
    behave M c s (SUpd M b :: ops) = ORaise M :: behave M c s ops.
Proof. exact failed_update_keeps_state. Qed.

Theorem rejected_update_leaves_the_pool_unchanged :
  forall (M : Metric) (K : Codec M) (c : cfg M) (p : pool M) (i bv : val) (b : batch M),
    dec_batch K c bv = Some b -> valid M c b = false ->
    fst (step M K c p (VT "upd" [i; bv])) = p.
Proof.
  intros M K c p i bv b Hd Hv. unfold step. cbn. rewrite Hd, Hv. reflexivity.
Qed.

Print Assumptions rejected_update_changes_nothing_now_or_later.
Print Assumptions rejected_update_leaves_the_pool_unchanged.
