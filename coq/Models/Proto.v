(* L-proto (DESIGN 2.1): the sync protocol as per-rank interaction trees.
   prog A := Ret a | Op c k ; a lock-step runner over all members of a process group which
   returns None exactly when the ranks do not all issue the same next collective (or one has
   already returned): the model of "hang / collective mismatch / abort".
   Generic in the collectives [call], the per-rank responses [resp] and the transport [respond]
   (one response per rank; None = the calls of the ranks do not match). Definitions only. *)
From Coq Require Import List Bool.
Import ListNotations.

Section Proto.
Variables (call resp : Type).
Variable respond : list call -> option (list resp).

Inductive prog (A : Type) := Ret (a : A) | Op (c : call) (k : resp -> prog A).
Arguments Ret {A}. Arguments Op {A}.

Fixpoint bind {A B} (p : prog A) (f : A -> prog B) : prog B :=
  match p with Ret a => f a | Op c k => Op c (fun r => bind (k r) f) end.

Fixpoint all_ret {A} (ps : list (prog A)) : option (list A) :=
  match ps with
  | [] => Some []
  | Ret a :: r => option_map (cons a) (all_ret r)
  | Op _ _ :: _ => None
  end.
Fixpoint all_op {A} (ps : list (prog A)) : option (list (call * (resp -> prog A))) :=
  match ps with
  | [] => Some []
  | Op c k :: r => option_map (cons (c, k)) (all_op r)
  | Ret _ :: _ => None
  end.
Fixpoint app2 {X Y} (fs : list (X -> Y)) (xs : list X) : list Y :=
  match fs, xs with f :: fs', x :: xs' => f x :: app2 fs' xs' | _, _ => [] end.

(* structural recursion on the first rank's program *)
Fixpoint run {A} (p0 : prog A) (rest : list (prog A)) {struct p0} : option (list A) :=
  match p0 with
  | Ret a => option_map (cons a) (all_ret rest)
  | Op c k =>
      match all_op rest with
      | Some cks =>
          match respond (c :: map fst cks) with
          | Some (r0 :: rs) => run (k r0) (app2 (map snd cks) rs)
          | _ => None
          end
      | None => None
      end
  end.
Definition run_all {A} (ps : list (prog A)) : option (list A) :=
  match ps with [] => Some [] | p :: r => run p r end.

(* the same runner, recording every round of collectives (one entry per rank; None = that rank
   has returned).  The last round of a stuck run is the round at which the ranks disagree. *)
Definition head {A} (p : prog A) : option call :=
  match p with Ret _ => None | Op c _ => Some c end.
Fixpoint run_tr {A} (p0 : prog A) (rest : list (prog A)) {struct p0}
  : list (list (option call)) * option (list A) :=
  match p0 with
  | Ret a => match all_ret rest with
             | Some l => ([], Some (a :: l))
             | None => ([None :: map head rest], None)
             end
  | Op c k =>
      match all_op rest with
      | Some cks =>
          match respond (c :: map fst cks) with
          | Some (r0 :: rs) =>
              let tr := run_tr (k r0) (app2 (map snd cks) rs) in
              (map Some (c :: map fst cks) :: fst tr, snd tr)
          | _ => ([map Some (c :: map fst cks)], None)
          end
      | None => ([Some c :: map head rest], None)
      end
  end.
Definition run_all_tr {A} (ps : list (prog A)) : list (list (option call)) * option (list A) :=
  match ps with [] => ([], Some []) | p :: r => run_tr p r end.
End Proto.

Arguments Ret {call resp A}.
Arguments Op {call resp A}.
Arguments bind {call resp A B}.
Arguments all_ret {call resp A}.
Arguments all_op {call resp A}.
Arguments run {call resp} respond {A}.
Arguments run_all {call resp} respond {A}.
Arguments run_tr {call resp} respond {A}.
Arguments run_all_tr {call resp} respond {A}.
Arguments head {call resp A}.
