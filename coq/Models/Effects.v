(* L-eff -- effect skeletons over an abstract tensor heap (DESIGN 2.1, C09/C10/C11/C14).

   Definitions only (language, heap semantics, the checkers as Gallina functions, the table-level
   checks that Props/ evaluates by vm_compute over coq/Generated/*.v).  Proofs: Proofs/EffectsP.v.

   The skeleton of every update / compute / merge_state / _prepare_for_merge_state method is
   regenerated from the Python AST on every run by tools/tr_effects.py (fail-closed); a method the
   translator could not express is `None`, which every table check rejects. *)
From Coq Require Import List String Bool Arith Lia.
Import ListNotations.
Open Scope string_scope.

Definition fld := string.
Definition loc := nat.

Inductive kind := KTensor | KList | KDict | KNum.
Definition kind_eqb (a b : kind) : bool :=
  match a, b with KTensor, KTensor | KList, KList | KDict, KDict | KNum, KNum => true | _, _ => false end.

(* right-hand sides: where the bound value's storage comes from *)
Inductive rhs := Fresh | Imm | SelfAlias (g : fld) | SrcAlias (g : fld) | ArgAlias.

(* structured skeleton of one method *)
Inductive sk :=
| Bind (f : fld) (r : rhs)        (* self.f = e *)
| Append (f : fld) (r : rhs)      (* self.f.append(e) / extend / list += *)
| BindElem (f : fld) (r : rhs)    (* self.f[i] = e on a list state: re-binds one element *)
| InPlace (f : fld)               (* self.f += e, self.f[i] = e on a tensor, self.f.add_(e), ... *)
| Clobber (r : rhs)               (* in-place write through a local that may alias r (r = SrcAlias/ArgAlias) *)
| MayRaise (label : string)       (* a call that can raise and writes nothing; label = callee text *)
| If (a b : sk)
| Loop (body : sk)
| Seq (a b : sk)
| Skip.

Fixpoint seqs (l : list sk) : sk :=
  match l with
  | [] => Skip
  | [x] => x
  | x :: t => Seq x (seqs t)
  end.

(* flow-insensitive view: the set of atomic effects.  BindElem is an Append for the may-point-to
   heap (the old element stays reachable in the abstraction, which only over-approximates reach). *)
Inductive atom := ABind (f : fld) (r : rhs) | AAppend (f : fld) (r : rhs) | AInPlace (f : fld) | AClobber (r : rhs).

Fixpoint atoms (s : sk) : list atom :=
  match s with
  | Bind f r => [ABind f r]
  | Append f r | BindElem f r => [AAppend f r]
  | InPlace f => [AInPlace f]
  | Clobber r => [AClobber r]
  | MayRaise _ | Skip => []
  | If a b | Seq a b => atoms a ++ atoms b
  | Loop b => atoms b
  end.

Definition rhs_eqb (a b : rhs) : bool :=
  match a, b with
  | Fresh, Fresh | Imm, Imm | ArgAlias, ArgAlias => true
  | SelfAlias g, SelfAlias h | SrcAlias g, SrcAlias h => String.eqb g h
  | _, _ => false
  end.
Definition atom_eqb (a b : atom) : bool :=
  match a, b with
  | ABind f r, ABind g q | AAppend f r, AAppend g q => String.eqb f g && rhs_eqb r q
  | AInPlace f, AInPlace g => String.eqb f g
  | AClobber r, AClobber q => rhs_eqb r q
  | _, _ => false
  end.

Definition mem (x : string) (l : list string) : bool := existsb (String.eqb x) l.
Definition is_nil {A} (l : list A) : bool := match l with [] => true | _ => false end.

(* ------------------------------------------------------------------------------------------ *)
(* Heap semantics (ported from design-probes/AliasSound.v)                                      *)
(* ------------------------------------------------------------------------------------------ *)
Definition obj := fld -> list loc.
Definition pool := nat -> obj.
Record state := { objs : pool; ext : list loc; next : loc }.   (* locations >= next are unused *)

Definition setf (o : obj) (f : fld) (v : list loc) : obj := fun g => if String.eqb g f then v else o g.
Definition seto (p : pool) (t : nat) (o : obj) : pool := fun i => if Nat.eqb i t then o else p i.

(* locations denoted by a right-hand side, for target t, source sidx <> t, argument a *)
Definition rlocs (s : state) (t sidx : nat) (a : loc) (r : rhs) : list loc :=
  match r with
  | Fresh => [next s] | Imm => [] | SelfAlias g => objs s t g | SrcAlias g => objs s sidx g | ArgAlias => [a]
  end.

(* one step of object t: the new state and the heap locations written *)
Definition step (s : state) (t sidx : nat) (a : loc) (st : atom) : state * list loc :=
  let bump r := match r with Fresh => S (next s) | _ => next s end in
  let ext' r := match r with ArgAlias => a :: ext s | _ => ext s end in
  match st with
  | ABind f r => ({| objs := seto (objs s) t (setf (objs s t) f (rlocs s t sidx a r)); ext := ext' r; next := bump r |}, [])
  | AAppend f r => ({| objs := seto (objs s) t (setf (objs s t) f (objs s t f ++ rlocs s t sidx a r)); ext := ext' r; next := bump r |}, [])
  | AInPlace f => (s, objs s t f)
  | AClobber r => (s, rlocs s t sidx a r)
  end.

(* ------------------------------------------------------------------------------------------ *)
(* Checker 1: aliasing (C1, C1', C2 of DESIGN C11; C3 = no Clobber)                             *)
(* ------------------------------------------------------------------------------------------ *)
Definition ipb (P : list atom) (f : fld) : bool :=
  existsb (fun a => match a with AInPlace g => String.eqb g f | _ => false end) P.

Definition bind_ok (P : list atom) (f : fld) (r : rhs) : bool :=
  match r with
  | Fresh | Imm => true
  | SelfAlias g => Bool.eqb (ipb P f) (ipb P g)          (* C1 / C1' *)
  | SrcAlias g => negb (ipb P f) && negb (ipb P g)        (* C1 / C2  *)
  | ArgAlias => negb (ipb P f)                            (* C1       *)
  end.

Definition atom_ok (P : list atom) (a : atom) : bool :=
  match a with
  | ABind f r | AAppend f r => bind_ok P f r
  | AInPlace _ => true
  | AClobber _ => false
  end.

Definition alias_ok (P : list atom) : bool := forallb (atom_ok P) P.
Definition alias_offences (P : list atom) : list atom := filter (fun a => negb (atom_ok P a)) P.

(* ------------------------------------------------------------------------------------------ *)
(* Checker 2: compute purity                                                                     *)
(* ------------------------------------------------------------------------------------------ *)
(* compute() performs no in-place write at all and (re)binds no registered field *)
Definition pure_atom_ok (R : list fld) (a : atom) : bool :=
  match a with
  | ABind f _ | AAppend f _ => negb (mem f R)
  | AInPlace _ | AClobber _ => false
  end.
Definition compute_pure (R : list fld) (s : sk) : bool := forallb (pure_atom_ok R) (atoms s).

(* ------------------------------------------------------------------------------------------ *)
(* Checker 3: commit order (ported from design-probes/CommitOrder.v)                            *)
(* ------------------------------------------------------------------------------------------ *)
Inductive csk := CWrite | CMayRaise | CSkip | CSeq (a b : csk) | CIf (a b : csk) | CLoop (body : csk).

(* D = labels of calls discharged as total (never raising) on inputs that passed validation *)
Fixpoint erase (D : list string) (s : sk) : csk :=
  match s with
  | Bind _ _ | Append _ _ | BindElem _ _ | InPlace _ | Clobber _ => CWrite
  | MayRaise l => if mem l D then CSkip else CMayRaise
  | If a b => CIf (erase D a) (erase D b)
  | Loop b => CLoop (erase D b)
  | Seq a b => CSeq (erase D a) (erase D b)
  | Skip => CSkip
  end.

(* concrete big-step semantics: exec s raised number_of_state_writes *)
Inductive exec : csk -> bool -> nat -> Prop :=
| e_write : exec CWrite false 1
| e_ok : exec CMayRaise false 0
| e_raise : exec CMayRaise true 0
| e_skip : exec CSkip false 0
| e_seq_raise a b n : exec a true n -> exec (CSeq a b) true n
| e_seq a b r n m : exec a false n -> exec b r m -> exec (CSeq a b) r (n + m)
| e_if_l a b r n : exec a r n -> exec (CIf a b) r n
| e_if_r a b r n : exec b r n -> exec (CIf a b) r n
| e_loop_0 body : exec (CLoop body) false 0
| e_loop_raise body n : exec body true n -> exec (CLoop body) true n
| e_loop_s body r n m : exec body false n -> exec (CLoop body) r m -> exec (CLoop body) r (n + m).

(* abstract run from entry state Clean (false) / Dirty (true) *)
Fixpoint ex (s : csk) (d : bool) : bool :=
  match s with
  | CWrite => true
  | CMayRaise | CSkip => d
  | CSeq a b => ex b (ex a d)
  | CIf a b => ex a d || ex b d
  | CLoop body => ex body (ex body d) || ex body d || d
  end.
Fixpoint ok (s : csk) (d : bool) : bool :=
  match s with
  | CWrite | CSkip => true
  | CMayRaise => negb d
  | CSeq a b => ok a d && ok b (ex a d)
  | CIf a b => ok a d && ok b d
  | CLoop body => ok body d && ok body (ex body d)
  end.
Definition commit_ok (D : list string) (s : sk) : bool := ok (erase D s) false.

(* ------------------------------------------------------------------------------------------ *)
(* Checker 4: registration                                                                       *)
(* ------------------------------------------------------------------------------------------ *)
Definition registry_ok (registered derived written : list fld) : bool :=
  forallb (fun w => mem w (registered ++ derived)) written.

(* abstract objects for the meaning of the registration check: reset / load touch registered fields only *)
Definition aobj := fld -> nat.
Definition awrite (o : aobj) (f : fld) (v : nat) : aobj := fun g => if String.eqb g f then v else o g.
Definition areset (R : list fld) (fresh o : aobj) : aobj := fun g => if mem g R then fresh g else o g.
Definition aload (R : list fld) (saved o : aobj) : aobj := fun g => if mem g R then saved g else o g.
Fixpoint awrites (o : aobj) (ws : list (fld * nat)) : aobj :=
  match ws with [] => o | (f, v) :: t => awrites (awrite o f v) t end.

(* ------------------------------------------------------------------------------------------ *)
(* Base-class skeletons are stated over placeholders and instantiated per registered field     *)
(* ------------------------------------------------------------------------------------------ *)
Definition inst_fld (f g : fld) : fld :=
  if String.eqb g "$f" then f
  else if String.eqb g "$default" then "default:" ++ f
  else if String.eqb g "$out" then "out:" ++ f
  else g.
Definition inst_rhs (f : fld) (r : rhs) : rhs :=
  match r with SelfAlias g => SelfAlias (inst_fld f g) | SrcAlias g => SrcAlias (inst_fld f g) | _ => r end.
Definition inst_atom (f : fld) (a : atom) : atom :=
  match a with
  | ABind g r => ABind (inst_fld f g) (inst_rhs f r)
  | AAppend g r => AAppend (inst_fld f g) (inst_rhs f r)
  | AInPlace g => AInPlace (inst_fld f g)
  | AClobber r => AClobber (inst_rhs f r)
  end.

Definition is_some {A} (o : option A) : bool := match o with Some _ => true | None => false end.
Definition fresh_or_imm (r : rhs) : bool := match r with Fresh | Imm => true | _ => false end.

(* ------------------------------------------------------------------------------------------ *)
(* Table-level checks over the generated tables                                                  *)
(* ------------------------------------------------------------------------------------------ *)
Section Tables.
  Variable CS : list (string * list (string * option sk)).                (* Generated/Skeletons.class_skeletons *)
  Variable B : list (string * list (kind * option sk)).                    (* Generated/Skeletons.base_methods *)
  Variable RG : list (string * (list (fld * kind) * list fld)).            (* Generated/Registry.registry *)

  Definition regs_of (c : string) : list (fld * kind) :=
    match find (fun e => String.eqb (fst e) c) RG with Some e => fst (snd e) | None => [] end.
  Definition written_of (c : string) : list fld :=
    match find (fun e => String.eqb (fst e) c) RG with Some e => snd (snd e) | None => [] end.
  Definition methods_of (c : string) : list (string * option sk) :=
    match find (fun e => String.eqb (fst e) c) CS with Some e => snd e | None => [] end.
  Definition method_of (c m : string) : option sk :=
    match find (fun e => String.eqb (fst e) m) (methods_of c) with Some e => snd e | None => None end.

  Definition method_atoms (ms : list (string * option sk)) : list atom :=
    flat_map (fun m => match snd m with Some s => atoms s | None => [] end) ms.
  Definition all_translated (ms : list (string * option sk)) : bool := forallb (fun m => is_some (snd m)) ms.
  Definition base_translated : bool := forallb (fun m => forallb (fun ks => is_some (snd ks)) (snd m)) B.
  Definition base_sk (k : kind) (per_kind : list (kind * option sk)) : option sk :=
    match find (fun ks => kind_eqb (fst ks) k) per_kind with Some ks => snd ks | None => None end.
  Definition base_atoms (regs : list (fld * kind)) : list atom :=
    flat_map (fun fk => flat_map (fun m => match base_sk (snd fk) (snd m) with
                                           | Some s => map (inst_atom (fst fk)) (atoms s) | None => [] end) B) regs.
  (* every statement any object of class c can ever execute *)
  Definition class_atoms (c : string) : list atom := method_atoms (methods_of c) ++ base_atoms (regs_of c).

  Definition excused_atom (X : list (string * atom)) (c : string) (a : atom) : bool :=
    existsb (fun e => String.eqb (fst e) c && atom_eqb (snd e) a) X.

  (* C11 aliasing *)
  Definition alias_unexcused (X : list (string * atom)) (c : string) : list atom :=
    filter (fun a => negb (excused_atom X c a)) (alias_offences (class_atoms c)).
  Definition alias_table_ok (X : list (string * atom)) : bool :=
    base_translated && forallb (fun cm => all_translated (snd cm) && is_nil (alias_unexcused X (fst cm))) CS.
  Definition alias_excuses_live (X : list (string * atom)) : bool :=
    forallb (fun e => existsb (atom_eqb (snd e)) (alias_offences (class_atoms (fst e)))) X.
  Definition unexcused_classes (X : list (string * atom)) : list string :=
    filter (fun c => negb (existsb (fun e => String.eqb (fst e) c) X)) (map fst CS).

  (* C11 compute purity *)
  Definition pure_offences (c : string) : list atom :=
    match method_of c "compute" with
    | Some s => filter (fun a => negb (pure_atom_ok (map fst (regs_of c)) a)) (atoms s)
    | None => [AClobber Fresh]        (* untranslated: rejected *)
    end.
  Definition pure_table_ok (X : list (string * atom)) : bool :=
    forallb (fun cm => is_some (method_of (fst cm) "compute") &&
                       is_nil (filter (fun a => negb (excused_atom X (fst cm) a)) (pure_offences (fst cm)))) CS.
  Definition pure_excuses_live (X : list (string * atom)) : bool :=
    forallb (fun e => existsb (atom_eqb (snd e)) (pure_offences (fst e))) X.

  (* C14 commit order of update(); DIS = discharge list, X = excused (class, label) *)
  Definition labels_of (L : list (string * string)) (c : string) : list string :=
    map snd (filter (fun e => String.eqb (fst e) c) L).
  Definition commit_class_ok (D : list string) (c : string) : bool :=
    match method_of c "update" with Some s => commit_ok D s | None => false end.
  Definition commit_table_ok (DIS X : list (string * string)) : bool :=
    forallb (fun cm => commit_class_ok (labels_of DIS (fst cm) ++ labels_of X (fst cm)) (fst cm)) CS.
  Definition commit_excuses_live (DIS X : list (string * string)) : bool :=
    forallb (fun e => negb (commit_class_ok (labels_of DIS (fst e) ++
                             filter (fun l => negb (String.eqb l (snd e))) (labels_of X (fst e))) (fst e))) X.

  (* C09 / C10 registration; DER = attributes that are functions of registered state *)
  Definition registry_offences (DER : list (string * fld)) (c : string) : list fld :=
    filter (fun w => negb (mem w (map fst (regs_of c) ++ labels_of DER c))) (written_of c).
  Definition registry_table_ok (DER X : list (string * fld)) : bool :=
    forallb (fun e => is_nil (filter (fun w => negb (mem w (labels_of X (fst e)))) (registry_offences DER (fst e)))) RG
    && forallb (fun cm => is_some (find (fun e => String.eqb (fst e) (fst cm)) RG)) CS.
  Definition registry_excuses_live (DER X : list (string * fld)) : bool :=
    forallb (fun e => mem (snd e) (registry_offences DER (fst e))) X.

  (* base-class methods: every value stored by m for placeholder field g is fresh storage / immutable *)
  Definition base_binds_fresh (m : string) (g : fld) : bool :=
    match find (fun e => String.eqb (fst e) m) B with
    | None => false
    | Some e => forallb (fun ks => match snd ks with
                                   | None => false
                                   | Some s => forallb (fun a => match a with
                                                                 | ABind f r | AAppend f r => negb (String.eqb f g) || fresh_or_imm r
                                                                 | AInPlace f => negb (String.eqb f g)
                                                                 | AClobber _ => false end) (atoms s)
                                                && existsb (fun a => match a with ABind f _ => String.eqb f g | _ => false end) (atoms s)
                                   end) (snd e)
    end.
  (* no base method ever writes a default in place, and only _add_state binds it *)
  Definition defaults_immutable : bool :=
    forallb (fun m => forallb (fun ks => match snd ks with
                                         | None => false
                                         | Some s => forallb (fun a => match a with
                                                                       | AInPlace f => negb (String.eqb f "$default")
                                                                       | ABind f _ | AAppend f _ => negb (String.eqb f "$default") || String.eqb (fst m) "_add_state"
                                                                       | AClobber _ => false end) (atoms s)
                                         end) (snd m)) B.
End Tables.

(* functionals: Some [] = translated and mutates no parameter in place *)
Definition functional_ok (e : string * option (list string)) : bool :=
  match snd e with Some [] => true | _ => false end.
