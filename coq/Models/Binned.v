(* Binned precision-recall curves, binned AUPRC, binned AUROC (C06).
   [algo] models mirror torcheval/metrics/functional/classification/binned_*.py step by step:
   searchsorted(right)-1 -> packed code -> histc -> reshape -> suffix sums ('memory' mode and the binary
   _update), broadcast comparison + one-hot + sums ('vectorized' mode, binned AUROC), the compute
   functions with their NaN conventions, the riemann integral and the trapezoid.
   [spec] models: per-threshold counting; exact AUROC / AUPRC of the scores rounded down to a threshold.
   Scores and thresholds are integers on a common grid (value = z / bD).  Definitions only; the proofs
   are in Proofs/BinnedP.v. *)
From Coq Require Import ZArith List Bool QArith Qcanon String Lia.
From TE Require Import Base.Val Base.Nd Base.Xq Algebra.Metric Algebra.MergeTree Algebra.Pool
  Algebra.Additive Algebra.Cache.
Import ListNotations.
Open Scope Z_scope.

(* ------------------------------------------------------------------------------------------ *)
(* torch primitives                                                                             *)
(* ------------------------------------------------------------------------------------------ *)
Definition b2z (b : bool) : Z := if b then 1 else 0.
Definition sumZ (l : list Z) : Z := fold_right Z.add 0 l.
(* torch.searchsorted(T, s, right=True) on a sorted T: number of thresholds <= s *)
Definition ss_right (T : list Z) (s : Z) : nat := List.length (filter (fun t => t <=? s) T).
Definition countZ (c : Z) (l : list Z) : Z := Z.of_nat (List.length (filter (Z.eqb c) l)).
(* torch.histc(codes, bins = nb, min = 0, max = nb): unit bins, out-of-range values ignored
   (a value equal to max would fall into the last bin; the codes below are always < nb) *)
Definition histc (nb : nat) (codes : list Z) : list Z := map (fun k => countZ (Z.of_nat k) codes) (seq 0 nb).
(* flip . cumsum . flip *)
Fixpoint suffix_sum (l : list Z) : list Z :=
  match l with [] => [] | x :: r => (x + match suffix_sum r with [] => 0 | a :: _ => a end) :: suffix_sum r end.
(* sum over dim of a list of rows of width C *)
Definition colsum (C : nat) (rows : list (list Z)) : list Z :=
  map (fun c => sumZ (map (fun r => nth c r 0) rows)) (seq 0 C).
Definition transpose (n : nat) (rows : list (list Z)) : list (list Z) :=
  map (fun i => map (fun r => nth i r 0) rows) (seq 0 n).

(* counting (the vocabulary of the specs) *)
Definition cnt {X} (P : X -> bool) (xs : list X) : Z := Z.of_nat (List.length (filter P xs)).

(* ------------------------------------------------------------------------------------------ *)
(* binary:  _update  (binned_precision_recall_curve.py)                                         *)
(* ------------------------------------------------------------------------------------------ *)
Definition sample := (Z * bool)%type.            (* (score on the grid, label) *)

(* (index, target) stored as 2 * index + target, index = searchsorted(right) - 1 in -1 .. |T|-1 *)
Definition code (T : list Z) (x : sample) : Z := 2 * (Z.of_nat (ss_right T (fst x)) - 1) + b2z (snd x).
(* hist.reshape(n, 2).T : row 0 = even entries (label 0), row 1 = odd entries (label 1) *)
Definition row (b : nat) (n : nat) (h : list Z) : list Z := map (fun i => nth (2 * i + b) h 0) (seq 0 n).
Definition bin_hist (T : list Z) (xs : list sample) : list Z := histc (2 * List.length T) (map (code T) xs).
Definition bin_tp (T : list Z) (xs : list sample) : list Z := suffix_sum (row 1 (List.length T) (bin_hist T xs)).
Definition bin_fp (T : list Z) (xs : list sample) : list Z := suffix_sum (row 0 (List.length T) (bin_hist T xs)).
Definition target_sum (xs : list sample) : Z := sumZ (map (fun x => b2z (snd x)) xs).
Definition bin_fn (T : list Z) (xs : list sample) : list Z := map (fun tp => target_sum xs - tp) (bin_tp T xs).

(* spec: count the samples scored at or above the threshold *)
Definition tp_spec (t : Z) : list sample -> Z := cnt (fun x => (t <=? fst x) && snd x).
Definition fp_spec (t : Z) : list sample -> Z := cnt (fun x => (t <=? fst x) && negb (snd x)).
Definition pos_spec : list sample -> Z := cnt (fun x : sample => snd x).
Definition fn_spec (t : Z) (xs : list sample) : Z := pos_spec xs - tp_spec t xs.

(* ------------------------------------------------------------------------------------------ *)
(* multiclass / multilabel: both optimisation modes, generic in the sample type                 *)
(*   scs x   : the row of C scores of sample x                                                  *)
(*   hitf x k: target of sample x in column k  (multiclass: y = k; multilabel: target[j,k])     *)
(* ------------------------------------------------------------------------------------------ *)
Section MC.
Context {X : Type}.
Variable scs : X -> list Z.
Variable hitf : X -> nat -> bool.
Variable C : nat.
Variable T : list Z.

(* ---- 'vectorized':  labels = input >= threshold[:,None,None];  target one-hot / target rows ---- *)
Definition pred_row (t : Z) (x : X) : list bool := map (fun s => t <=? s) (scs x).
Definition tgt_row (x : X) : list bool := map (hitf x) (seq 0 C).
Definition vec_tp (xs : list X) : list (list Z) :=           (* (labels & target).sum(dim=1) *)
  map (fun t => colsum C (map (fun x => map b2z (map2 andb (pred_row t x) (tgt_row x))) xs)) T.
Definition vec_lab (xs : list X) : list (list Z) :=          (* labels.sum(dim=1) *)
  map (fun t => colsum C (map (fun x => map b2z (pred_row t x)) xs)) T.
Definition vec_fp (xs : list X) : list (list Z) := map2 (map2 Z.sub) (vec_lab xs) (vec_tp xs).
Definition tgt_sum (xs : list X) : list Z := colsum C (map (fun x => map b2z (tgt_row x)) xs).   (* target.sum(dim=0) *)
Definition vec_fn (xs : list X) : list (list Z) := map (fun tp => map2 Z.sub (tgt_sum xs) tp) (vec_tp xs).

(* ---- 'memory': (index, class, target) stored as 2 * (C * index + class) + target ---- *)
Definition cell := (nat * Z * bool)%type.       (* (column, score, target in that column) *)
Definition cells (x : X) : list cell := map (fun k => (k, nth k (scs x) 0, hitf x k)) (seq 0 C).
Definition mcode (cl : cell) : Z :=
  2 * (Z.of_nat C * (Z.of_nat (ss_right T (snd (fst cl))) - 1) + Z.of_nat (fst (fst cl))) + b2z (snd cl).
Definition mem_hist (xs : list X) : list Z :=
  histc (2 * List.length T * C) (map mcode (flat_map cells xs)).
(* hist.reshape(nT, C, 2).transpose(0, 2)[b][c] : the entries 2*(C*i + c) + b, i = 0 .. nT-1 *)
Definition plane (b c : nat) (h : list Z) : list Z :=
  map (fun i => nth (2 * (C * i + c) + b) h 0) (seq 0 (List.length T)).
(* suffix_total[b].T *)
Definition mem_counts (b : nat) (xs : list X) : list (list Z) :=
  transpose (List.length T) (map (fun c => suffix_sum (plane b c (mem_hist xs))) (seq 0 C)).
Definition mem_tp := mem_counts 1.
Definition mem_fp := mem_counts 0.
Definition mem_fn (class_counts : list Z) (xs : list X) : list (list Z) :=
  map (fun tp => map2 Z.sub class_counts tp) (mem_tp xs).

(* ---- spec: per-cell counting ---- *)
Definition mtp_spec (i c : nat) : list X -> Z := cnt (fun x => (nth i T 0 <=? nth c (scs x) 0) && hitf x c).
Definition mfp_spec (i c : nat) : list X -> Z := cnt (fun x => (nth i T 0 <=? nth c (scs x) 0) && negb (hitf x c)).
Definition mpos_spec (c : nat) : list X -> Z := cnt (fun x => hitf x c).
Definition mfn_spec (i c : nat) (xs : list X) : Z := mpos_spec c xs - mtp_spec i c xs.
Definition spec_table (f : nat -> nat -> list X -> Z) (xs : list X) : list (list Z) :=
  map (fun i => map (fun c => f i c xs) (seq 0 C)) (seq 0 (List.length T)).
End MC.

(* multiclass: sample = (row of scores, target class); multilabel: (row of scores, row of targets) *)
Definition mcsample := (list Z * nat)%type.
Definition mc_scs (x : mcsample) := fst x.
Definition mc_hit (x : mcsample) (k : nat) := Nat.eqb (snd x) k.
Definition mc_class_counts (C : nat) (xs : list mcsample) : list Z :=      (* histc(target, bins=C, 0, C) *)
  histc C (map (fun x => Z.of_nat (snd x)) xs).
Definition mlsample := (list Z * list bool)%type.
Definition ml_scs (x : mlsample) := fst x.
Definition ml_hit (x : mlsample) (k : nat) := nth k (snd x) false.

(* input checks (shapes; targets in range) *)
Definition mc_ok (C : nat) (xs : list mcsample) : bool :=
  forallb (fun x => Nat.eqb (List.length (fst x)) C && Nat.ltb (snd x) C) xs.
Definition ml_ok (C : nat) (xs : list mlsample) : bool :=
  forallb (fun x => Nat.eqb (List.length (fst x)) C && Nat.eqb (List.length (snd x)) C) xs.

(* ------------------------------------------------------------------------------------------ *)
(* thresholds and configuration                                                                 *)
(* ------------------------------------------------------------------------------------------ *)
Inductive thr := TInt (n : nat) | TList (l : list Z).
(* bD: grid denominator; bC: num_tasks / num_classes / num_labels; bmem: optimization = "memory";
   bmacro: average = "macro" *)
Record bcfg := { bD : Z; bthr : thr; bmem : bool; bC : nat; bmacro : bool }.
(* torch.linspace(0, 1, n): i/(n-1), exact on the grid when (n-1) | bD *)
Definition linspace (D : Z) (n : nat) : list Z := map (fun i => Z.of_nat i * D / (Z.of_nat n - 1)) (seq 0 n).
Definition thresholds (c : bcfg) : list Z :=
  match bthr c with TInt n => linspace (bD c) n | TList l => l end.
Fixpoint sortedb (l : list Z) : bool :=
  match l with a :: (b :: _) as r => (a <=? b) && sortedb r | _ => true end.
(* _binned_precision_recall_curve_param_check *)
Definition prc_param_ok (D : Z) (T : list Z) : bool :=
  sortedb T && forallb (fun t => (0 <=? t) && (t <=? D)) T.
(* _*_binned_auprc_param_check: additionally first = 0 and last = 1 *)
Definition auprc_param_ok (D : Z) (T : list Z) : bool :=
  prc_param_ok D T && match T with [] => false | t0 :: _ => (t0 =? 0) && (last T 0 =? D) end.

(* ------------------------------------------------------------------------------------------ *)
(* compute functions                                                                            *)
(* ------------------------------------------------------------------------------------------ *)
Definition zq (z : Z) : Qc := mkq z 1.
Definition thr_q (c : bcfg) : list Qc := map (fun t => mkq t (Z.to_pos (bD c))) (thresholds c).
Local Open Scope Qc_scope.
Definition nan_to (d : Qc) (a : xq) : xq := match a with NaN => Fin d | _ => a end.
Definition xneg (a : xq) : xq := match a with Fin q => Fin (- q) | NaN => NaN | PInf => NInf | NInf => PInf end.
Definition xsub (a b : xq) : xq := xadd a (xneg b).
(* precision = nan_to_num(tp / (tp + fp), 1.0) ++ [1];  recall = tp / (tp + fn) ++ [0] *)
Definition precision (tp fp : list Qc) : list xq :=
  map2 (fun a b => nan_to 1 (qdivx a (a + b))) tp fp ++ [Fin 1].
Definition recall (tp fn : list Qc) : list xq :=
  map2 (fun a b => qdivx a (a + b)) tp fn ++ [Fin 0].
(* _riemann_integral(x, y) = -sum((x[1:] - x[:-1]) * y[:-1]) *)
Definition riemann (x y : list xq) : xq := xneg (xsum (map2 xmul (map2 xsub (tl x) x) y)).
Definition auprc_curve (tp fp fn : list Qc) : xq :=
  nan_to_zero (riemann (recall tp fn) (precision tp fp)).
(* torch.trapz(y, x) *)
Definition sumQ (l : list Qc) : Qc := fold_right Qcplus 0 l.
Definition trapz (y x : list Qc) : Qc :=
  sumQ (map2 (fun dx sy => dx * sy / (1 + 1)) (map2 Qcminus (tl x) x) (map2 Qcplus (tl y) y)).
(* cum_tp = pad(rot90(...), (1,0)): zero, then the per-threshold counts from the LAST threshold down;
   auroc = where(factor == 0, 0.5, trapz(cum_tp, cum_fp) / factor),  factor = cum_tp[-1] * cum_fp[-1] *)
Definition auroc_of_counts (tp fp : list Z) : Qc :=
  let ctp := 0 :: rev (map zq tp) in
  let cfp := 0 :: rev (map zq fp) in
  let factor := last ctp 0 * last cfp 0 in
  if qeq factor 0 then 1 / (1 + 1) else trapz ctp cfp / factor.
Local Close Scope Qc_scope.

(* binned AUROC counts: pred_label = input >= threshold[:,None,None]; input_target = pred_label * target;
   tp = input_target.sum(-1); fp = pred_label.sum(-1) - tp *)
Definition broc_tp (T : list Z) (xs : list sample) : list Z :=
  map (fun t => sumZ (map (fun x => b2z (t <=? fst x) * b2z (snd x)) xs)) T.
Definition broc_fp (T : list Z) (xs : list sample) : list Z :=
  map (fun t => sumZ (map (fun x => b2z (t <=? fst x)) xs) - sumZ (map (fun x => b2z (t <=? fst x) * b2z (snd x)) xs)) T.
Definition binary_binned_auroc (T : list Z) (xs : list sample) : Qc :=
  auroc_of_counts (broc_tp T xs) (broc_fp T xs).

(* multiclass binned AUROC AS THE CODE IS: the sums run over the last dimension of a (T, N, C) tensor,
   i.e. over the CLASSES of one sample, so one "AUROC" per SAMPLE comes out *)
Definition mroc_tp (C : nat) (T : list Z) (x : mcsample) : list Z :=
  map (fun t => sumZ (map b2z (map2 andb (pred_row mc_scs t x) (tgt_row mc_hit C x)))) T.
Definition mroc_fp (C : nat) (T : list Z) (x : mcsample) : list Z :=
  map (fun t => sumZ (map b2z (pred_row mc_scs t x)) - sumZ (map b2z (map2 andb (pred_row mc_scs t x) (tgt_row mc_hit C x)))) T.
Definition mc_binned_auroc_algo (C : nat) (T : list Z) (xs : list mcsample) : list Qc :=
  map (fun x => auroc_of_counts (mroc_tp C T x) (mroc_fp C T x)) xs.
(* what the documentation promises: one-vs-rest binned AUROC per class *)
Definition ovr (c : nat) (xs : list mcsample) : list sample := map (fun x => (nth c (fst x) 0, Nat.eqb (snd x) c)) xs.
Definition mc_binned_auroc_spec (C : nat) (T : list Z) (xs : list mcsample) : list Qc :=
  map (fun c => binary_binned_auroc T (ovr c xs)) (seq 0 C).

(* ------------------------------------------------------------------------------------------ *)
(* exact quantities on floored scores (spec side of "binned = exact on floored scores")         *)
(* ------------------------------------------------------------------------------------------ *)
(* the largest threshold <= s (0 when there is none: excluded by the hypothesis T_0 <= s) *)
Definition floorT (T : list Z) (s : Z) : Z := last (filter (fun t => t <=? s) T) 0.
Definition floored (T : list Z) (xs : list sample) : list sample := map (fun x => (floorT T (fst x), snd x)) xs.
(* exact AUROC: P(score of a positive > score of a negative) + 1/2 P(equal); 1/2 when a class is empty.
   twice the pair statistic, as an integer *)
Definition pair2 (xs : list sample) : Z :=
  sumZ (map (fun q : sample => if snd q then 0 else
           sumZ (map (fun p : sample => if snd p then 2 * b2z (fst q <? fst p) + b2z (fst q =? fst p) else 0) xs)) xs).
Definition neg_spec : list sample -> Z := cnt (fun x : sample => negb (snd x)).
Definition auroc_exact (xs : list sample) : Qc :=
  let f := (zq (pos_spec xs) * zq (neg_spec xs))%Qc in
  if qeq f 0 then (1 / (1 + 1))%Qc else (zq (pair2 xs) / (1 + 1) / f)%Qc.
(* exact AUPRC (average precision): over the DISTINCT scores d in ascending order,
   sum of (recall(d) - recall(next d)) * precision(d), recall(beyond the last) = 0; 0 when no positives *)
Fixpoint insertZ (a : Z) (l : list Z) : list Z :=
  match l with [] => [a] | b :: r => if a <? b then a :: l else if a =? b then l else b :: insertZ a r end.
Definition distinct_asc (l : list Z) : list Z := fold_right insertZ [] l.
Definition auprc_exact (xs : list sample) : Qc :=
  let P := pos_spec xs in
  if P =? 0 then 0%Qc else
  let ds := distinct_asc (map fst xs) in
  let tps := map (fun d => tp_spec d xs) ds in
  let fps := map (fun d => fp_spec d xs) ds in
  sumQ (map2 (fun inc pr => (inc * pr)%Qc)
          (map2 (fun a b => (zq (a - b) / zq P)%Qc) tps (tl tps ++ [0]))
          (map2 (fun a b => (zq a / zq (a + b))%Qc) tps fps)).

(* ------------------------------------------------------------------------------------------ *)
(* val plumbing                                                                                 *)
(* ------------------------------------------------------------------------------------------ *)
Definition zvec (l : list Z) : nd := nvec (map zq l).
Definition zmat (m : list (list Z)) : nd := nmat (map (map zq) m).

Definition dec_thr (v : val) : option thr :=
  match v with
  | VZ n => Some (TInt (Z.to_nat n))
  | VL _ => match as_list as_Z v with Some l => Some (TList l) | None => None end
  | _ => None end.
Definition dec_bcfg (v : val) : option bcfg :=
  match v with
  | VL [VZ D; t; m; VZ C; mac] =>
      match dec_thr t, as_B m, as_B mac with
      | Some t, Some m, Some mac => Some {| bD := D; bthr := t; bmem := m; bC := Z.to_nat C; bmacro := mac |}
      | _, _, _ => None end
  | _ => None end.
(* one task row: [scores; labels] *)
Definition dec_row (v : val) : option (list sample) :=
  match v with
  | VL [s; y] => match as_list as_Z s, as_list as_B y with
                 | Some s, Some y => if Nat.eqb (List.length s) (List.length y) then Some (combine s y) else None
                 | _, _ => None end
  | _ => None end.
Definition dec_rows (v : val) : option (list (list sample)) := as_list dec_row v.
Definition dec_mc (v : val) : option (list mcsample) :=
  match v with
  | VL [s; y] => match as_list (as_list as_Z) s, as_list as_nat y with
                 | Some s, Some y => if Nat.eqb (List.length s) (List.length y) then Some (combine s y) else None
                 | _, _ => None end
  | _ => None end.
Definition dec_ml (v : val) : option (list mlsample) :=
  match v with
  | VL [s; y] => match as_list (as_list as_Z) s, as_list (as_list as_B) y with
                 | Some s, Some y => if Nat.eqb (List.length s) (List.length y) then Some (combine s y) else None
                 | _, _ => None end
  | _ => None end.

(* read the three count arrays back from the state  Arr [num_fn; num_fp; num_tp]  (sorted names) *)
Definition st_fn (s : nd) := nget 0 s.
Definition st_fp (s : nd) := nget 1 s.
Definition st_tp (s : nd) := nget 2 s.

(* ------------------------------------------------------------------------------------------ *)
(* 1. BinaryBinnedPrecisionRecallCurve                                                          *)
(* ------------------------------------------------------------------------------------------ *)
Definition bprc_beta (c : bcfg) (xs : list sample) : nd :=
  let T := thresholds c in Arr [zvec (bin_fn T xs); zvec (bin_fp T xs); zvec (bin_tp T xs)].
Definition bprc_zero (c : bcfg) : nd := let n := List.length (thresholds c) in Arr [nzeros n; nzeros n; nzeros n].
Definition prc_out := (list xq * list xq * list Qc)%type.
Definition bprc_gamma (c : bcfg) (s : nd) : prc_out :=
  (precision (nlist (st_tp s)) (nlist (st_fp s)), recall (nlist (st_tp s)) (nlist (st_fn s)), thr_q c).
Lemma is_zero3 a b c : is_zero a = true -> is_zero b = true -> is_zero c = true -> is_zero (Arr [a; b; c]) = true.
Proof. intros Ha Hb Hc. cbn [is_zero forallb]. rewrite Ha, Hb, Hc. reflexivity. Qed.
Definition bprc_spec : AddSpec.
Proof.
  refine (Build_AddSpec bcfg (list sample) prc_out bprc_zero
            (fun c xs => same (bprc_zero c) (bprc_beta c xs)) bprc_beta bprc_gamma _ _).
  - intros c. apply is_zero3; apply is_zero_nzeros.
  - intros c b Hb. exact Hb.
Defined.
Definition enc_prc1 (o : prc_out) : val := VL [vlistX (fst (fst o)); vlistX (snd (fst o)); vlistQ (snd o)].
Definition bprc_metric := add_metric bprc_spec.
Definition bprc_codec : Codec bprc_metric := add_codec bprc_spec dec_bcfg (fun _ => dec_row) (fun _ => enc_prc1).
(* @model binned_bprc run_binned_bprc *)
Definition run_binned_bprc := run_pool bprc_metric bprc_codec.
(* functional form: VL [cfg; batch]; raises when the threshold parameter check fails *)
Definition run_fn {B O} (dec : val -> option B) (ok : bcfg -> bool) (valid : bcfg -> B -> bool)
  (f : bcfg -> B -> O) (enc : O -> val) (v : val) : val :=
  match v with
  | VL [cv; bv] =>
      match dec_bcfg cv, dec bv with
      | Some c, Some b => if ok c then (if valid c b then enc (f c b) else verr "input") else verr "param"
      | _, _ => vbad end
  | _ => vbad end.
Definition prc_ok (c : bcfg) := prc_param_ok (bD c) (thresholds c).
Definition auprc_ok (c : bcfg) := auprc_param_ok (bD c) (thresholds c).
(* @model binned_bprc_fn run_binned_bprc_fn *)
Definition run_binned_bprc_fn :=
  run_fn dec_row prc_ok (avalid bprc_spec) (fun c b => bprc_gamma c (bprc_beta c b)) enc_prc1.

(* ------------------------------------------------------------------------------------------ *)
(* 2. Multiclass / Multilabel BinnedPrecisionRecallCurve and BinnedAUPRC (state (nT, C))        *)
(* ------------------------------------------------------------------------------------------ *)
Definition mc_counts (c : bcfg) (xs : list mcsample) : list (list Z) * list (list Z) * list (list Z) :=
  let T := thresholds c in let C := bC c in
  if bmem c
  then (mem_fn mc_scs mc_hit C T (mc_class_counts C xs) xs, mem_fp mc_scs mc_hit C T xs, mem_tp mc_scs mc_hit C T xs)
  else (vec_fn mc_scs mc_hit C T xs, vec_fp mc_scs mc_hit C T xs, vec_tp mc_scs mc_hit C T xs).
Definition ml_counts (c : bcfg) (xs : list mlsample) : list (list Z) * list (list Z) * list (list Z) :=
  let T := thresholds c in let C := bC c in
  if bmem c
  then (mem_fn ml_scs ml_hit C T (tgt_sum ml_hit C xs) xs, mem_fp ml_scs ml_hit C T xs, mem_tp ml_scs ml_hit C T xs)
  else (vec_fn ml_scs ml_hit C T xs, vec_fp ml_scs ml_hit C T xs, vec_tp ml_scs ml_hit C T xs).
Definition pack3 (t : list (list Z) * list (list Z) * list (list Z)) : nd :=
  Arr [zmat (fst (fst t)); zmat (snd (fst t)); zmat (snd t)].
Definition mc_beta (c : bcfg) (xs : list mcsample) : nd := pack3 (mc_counts c xs).
Definition ml_beta (c : bcfg) (xs : list mlsample) : nd := pack3 (ml_counts c xs).
Definition m_zero (c : bcfg) : nd :=
  let z := nzeros2 (List.length (thresholds c)) (bC c) in Arr [z; z; z].
(* columns of an (nT, C) state matrix: precision.T / recall.T *)
Definition qcols (C : nat) (m : nd) : list (list Qc) :=
  map (fun c => map (fun r => nth c r 0%Qc) (nrows m)) (seq 0 C).
Definition mprc_out := (list (list xq) * list (list xq) * list Qc)%type.
Definition m_gamma_prc (c : bcfg) (s : nd) : mprc_out :=
  let tp := qcols (bC c) (st_tp s) in let fp := qcols (bC c) (st_fp s) in let fn := qcols (bC c) (st_fn s) in
  (map2 precision tp fp, map2 recall tp fn, thr_q c).
(* _compute_riemann_integrals: per class nan_to_num(riemann); macro = mean *)
Inductive auprc_out := AMacro (x : xq) | AEach (l : list xq).
Definition m_gamma_auprc (c : bcfg) (s : nd) : auprc_out :=
  let tp := qcols (bC c) (st_tp s) in let fp := qcols (bC c) (st_fp s) in let fn := qcols (bC c) (st_fn s) in
  let a := map2 (fun tf fn => auprc_curve (fst tf) (snd tf) fn) (combine tp fp) fn in
  if bmacro c then AMacro (xmean a) else AEach a.
Definition enc_mprc (o : mprc_out) : val :=
  VL [VL (map vlistX (fst (fst o))); VL (map vlistX (snd (fst o))); vlistQ (snd o)].
Definition enc_auprc (o : auprc_out) : val := match o with AMacro x => xq_val x | AEach l => vlistX l end.

Definition mk_spec {B O} (beta : bcfg -> B -> nd) (ok : bcfg -> B -> bool) (gamma : bcfg -> nd -> O) : AddSpec.
Proof.
  refine (Build_AddSpec bcfg B O m_zero (fun c b => ok c b && same (m_zero c) (beta c b)) beta gamma _ _).
  - intros c. apply is_zero3; apply is_zero_nzeros2.
  - intros c b Hb. apply andb_prop in Hb. exact (proj2 Hb).
Defined.
Definition mcprc_spec := mk_spec mc_beta (fun c => mc_ok (bC c)) m_gamma_prc.
Definition mlprc_spec := mk_spec ml_beta (fun c => ml_ok (bC c)) m_gamma_prc.
Definition mcauprc_spec := mk_spec mc_beta (fun c => mc_ok (bC c)) m_gamma_auprc.
Definition mlauprc_spec := mk_spec ml_beta (fun c => ml_ok (bC c)) m_gamma_auprc.
Definition mcprc_metric := add_metric mcprc_spec.
Definition mlprc_metric := add_metric mlprc_spec.
Definition mcauprc_metric := add_metric mcauprc_spec.
Definition mlauprc_metric := add_metric mlauprc_spec.
(* @model binned_mcprc run_binned_mcprc *)
Definition run_binned_mcprc := run_pool mcprc_metric (add_codec mcprc_spec dec_bcfg (fun _ => dec_mc) (fun _ => enc_mprc)).
(* @model binned_mlprc run_binned_mlprc *)
Definition run_binned_mlprc := run_pool mlprc_metric (add_codec mlprc_spec dec_bcfg (fun _ => dec_ml) (fun _ => enc_mprc)).
(* @model binned_mcauprc run_binned_mcauprc *)
Definition run_binned_mcauprc := run_pool mcauprc_metric (add_codec mcauprc_spec dec_bcfg (fun _ => dec_mc) (fun _ => enc_auprc)).
(* @model binned_mlauprc run_binned_mlauprc *)
Definition run_binned_mlauprc := run_pool mlauprc_metric (add_codec mlauprc_spec dec_bcfg (fun _ => dec_ml) (fun _ => enc_auprc)).
(* @model binned_mcprc_fn run_binned_mcprc_fn *)
Definition run_binned_mcprc_fn :=
  run_fn dec_mc prc_ok (avalid mcprc_spec) (fun c b => m_gamma_prc c (mc_beta c b)) enc_mprc.
(* @model binned_mlprc_fn run_binned_mlprc_fn *)
Definition run_binned_mlprc_fn :=
  run_fn dec_ml prc_ok (avalid mlprc_spec) (fun c b => m_gamma_prc c (ml_beta c b)) enc_mprc.
(* the AUPRC functionals additionally require num_classes / num_labels >= 2 *)
Definition auprc_ok2 (c : bcfg) := auprc_ok c && Nat.leb 2 (bC c).
(* @model binned_mcauprc_fn run_binned_mcauprc_fn *)
Definition run_binned_mcauprc_fn :=
  run_fn dec_mc auprc_ok2 (avalid mcauprc_spec) (fun c b => m_gamma_auprc c (mc_beta c b)) enc_auprc.
(* @model binned_mlauprc_fn run_binned_mlauprc_fn *)
Definition run_binned_mlauprc_fn :=
  run_fn dec_ml auprc_ok2 (avalid mlauprc_spec) (fun c b => m_gamma_auprc c (ml_beta c b)) enc_auprc.

(* ------------------------------------------------------------------------------------------ *)
(* 3. BinaryBinnedAUPRC (state (num_tasks, nT); per-task loop over _update)                     *)
(* ------------------------------------------------------------------------------------------ *)
Definition bauprc_beta (c : bcfg) (rows : list (list sample)) : nd :=
  let T := thresholds c in
  Arr [zmat (map (bin_fn T) rows); zmat (map (bin_fp T) rows); zmat (map (bin_tp T) rows)].
Definition bauprc_zero (c : bcfg) : nd :=
  let z := nzeros2 (bC c) (List.length (thresholds c)) in Arr [z; z; z].
Definition rect (rows : list (list sample)) : bool :=
  match rows with [] => true | r :: rs => forallb (fun r' => Nat.eqb (List.length r') (List.length r)) rs end.
Definition bauprc_gamma (c : bcfg) (s : nd) : auprc_out :=
  let a := map2 (fun tf fn => auprc_curve (fst tf) (snd tf) fn)
             (combine (nrows (st_tp s)) (nrows (st_fp s))) (nrows (st_fn s)) in
  if Nat.eqb (bC c) 1 then AMacro (nth 0 a NaN) else AEach a.
Definition bauprc_spec : AddSpec.
Proof.
  refine (Build_AddSpec bcfg (list (list sample)) auprc_out bauprc_zero
            (fun c b => Nat.eqb (List.length b) (bC c) && rect b && same (bauprc_zero c) (bauprc_beta c b))
            bauprc_beta bauprc_gamma _ _).
  - intros c. apply is_zero3; apply is_zero_nzeros2.
  - intros c b Hb. apply andb_prop in Hb. exact (proj2 Hb).
Defined.
Definition bauprc_metric := add_metric bauprc_spec.
(* @model binned_bauprc run_binned_bauprc *)
Definition run_binned_bauprc := run_pool bauprc_metric (add_codec bauprc_spec dec_bcfg (fun _ => dec_rows) (fun _ => enc_auprc)).
Definition auprc_ok1 (c : bcfg) := auprc_ok c && Nat.leb 1 (bC c).
(* the functional always returns one value per task (the harness squeezes num_tasks = 1) *)
(* @model binned_bauprc_fn run_binned_bauprc_fn *)
Definition run_binned_bauprc_fn :=
  run_fn dec_rows auprc_ok1 (avalid bauprc_spec) (fun c b => bauprc_gamma c (bauprc_beta c b)) enc_auprc.

(* ------------------------------------------------------------------------------------------ *)
(* 4. BinaryBinnedAUROC, MulticlassBinnedAUROC  (cache family: inputs / targets lists)          *)
(* ------------------------------------------------------------------------------------------ *)
(* binary: a chunk is a list of columns; a column holds one (score, label) per task *)
Definition bcol := list sample.
Definition task_row (t : nat) (cols : list bcol) : list sample := map (fun col => nth t col (0, false)) cols.
Definition broc_out := option (list Qc * list Qc).       (* None: compute() raises (nothing cached) *)
Definition broc_fun (c : bcfg) (cols : list bcol) : broc_out :=
  match cols with
  | [] => None
  | _ => Some (map (fun t => binary_binned_auroc (thresholds c) (task_row t cols)) (seq 0 (bC c)), thr_q c)
  end.
Definition broc_cache : CacheSpec.
Proof.
  refine (Build_CacheSpec bcfg (list bcol) bcol broc_out
            (fun c ch => forallb (fun col => Nat.eqb (List.length col) (bC c)) ch)
            (fun _ l => List.concat l) (fun _ ch => ch) broc_fun _).
  intros c l. rewrite flat_map_concat_map, map_id. reflexivity.
Defined.
Definition broc_metric := cache_metric broc_cache.
(* a chunk as the two cached tensors: 1-D when num_tasks = 1 (the input check demands it), else (tasks, n) *)
Definition sc_q (c : bcfg) (z : Z) : val := vq (mkq z (Z.to_pos (bD c))).
Definition enc_chunk_in (c : bcfg) (ch : list bcol) : val :=
  if Nat.eqb (bC c) 1 then VL (map (fun x => sc_q c (fst x)) (task_row 0 ch))
  else VL (map (fun t => VL (map (fun x => sc_q c (fst x)) (task_row t ch))) (seq 0 (bC c))).
Definition enc_chunk_tg (c : bcfg) (ch : list bcol) : val :=
  if Nat.eqb (bC c) 1 then VL (map (fun x => VZ (b2z (snd x))) (task_row 0 ch))
  else VL (map (fun t => VL (map (fun x => VZ (b2z (snd x))) (task_row t ch))) (seq 0 (bC c))).
Definition enc_broc (o : broc_out) : val :=
  match o with Some (a, t) => VL [vlistQ a; vlistQ t] | None => verr "empty" end.
(* batch = task rows, as for BinaryBinnedAUPRC; stored as columns *)
Definition cols_of (rows : list (list sample)) : list bcol :=
  match rows with
  | [] => []
  | r :: _ => map (fun j => map (fun row => nth j row (0, false)) rows) (seq 0 (List.length r))
  end.
Definition dec_cols (c : bcfg) (v : val) : option (list bcol) :=
  match dec_rows v with
  | Some rows => if Nat.eqb (List.length rows) (bC c) && rect rows then Some (cols_of rows) else None
  | None => None end.
Definition broc_codec : Codec broc_metric :=
  Build_Codec broc_metric dec_bcfg dec_cols
    (fun c s => VL [VL (map (enc_chunk_in c) s); VL (map (enc_chunk_tg c) s)])
    (fun _ => enc_broc).
(* @model binned_broc run_binned_broc *)
Definition run_binned_broc := run_pool broc_metric broc_codec.
Definition broc_ok (c : bcfg) := prc_ok c && Nat.leb 1 (bC c).
(* @model binned_broc_fn run_binned_broc_fn *)
Definition run_binned_broc_fn (v : val) : val :=
  match v with
  | VL [cv; bv] =>
      match dec_bcfg cv with
      | Some c => if broc_ok c then
                    match dec_cols c bv with
                    | Some ch => enc_broc (broc_fun c ch)
                    | None => verr "input" end
                  else verr "param"
      | None => vbad end
  | _ => vbad end.

(* multiclass: a chunk is a list of samples *)
Inductive mroc_res := RMacro (q : xq) | REach (l : list Qc).
Definition mroc_out := option (mroc_res * list Qc).
Definition mroc_fun (c : bcfg) (xs : list mcsample) : mroc_out :=
  match xs with
  | [] => None
  | _ => let a := mc_binned_auroc_algo (bC c) (thresholds c) xs in
         Some (if bmacro c then RMacro (xmean (map Fin a)) else REach a, thr_q c)
  end.
Definition mroc_cache : CacheSpec.
Proof.
  refine (Build_CacheSpec bcfg (list mcsample) mcsample mroc_out
            (fun c ch => mc_ok (bC c) ch)
            (fun _ l => List.concat l) (fun _ ch => ch) mroc_fun _).
  intros c l. rewrite flat_map_concat_map, map_id. reflexivity.
Defined.
Definition mroc_metric := cache_metric mroc_cache.
Definition enc_mroc (o : mroc_out) : val :=
  match o with
  | Some (RMacro q, t) => VL [xq_val q; vlistQ t]
  | Some (REach a, t) => VL [vlistQ a; vlistQ t]
  | None => verr "empty" end.
Definition mroc_codec : Codec mroc_metric :=
  Build_Codec mroc_metric dec_bcfg (fun _ => dec_mc)
    (fun c s => VL [VL (map (fun ch => VL (map (fun x => VL (map (sc_q c) (fst x))) ch)) s);
                    VL (map (fun ch => VL (map (fun x => VZ (Z.of_nat (snd x))) ch)) s)])
    (fun _ => enc_mroc).
(* @model binned_mroc run_binned_mroc *)
Definition run_binned_mroc := run_pool mroc_metric mroc_codec.
Definition mroc_ok (c : bcfg) := prc_ok c && Nat.leb 2 (bC c).
(* @model binned_mroc_fn run_binned_mroc_fn *)
Definition run_binned_mroc_fn :=
  run_fn dec_mc mroc_ok (fun c b => mc_ok (bC c) b) mroc_fun enc_mroc.
(* what the documentation promises (per class, one-vs-rest) -- used by the C06 finding *)
Definition mroc_spec_fun (c : bcfg) (xs : list mcsample) : mroc_out :=
  match xs with
  | [] => None
  | _ => let a := mc_binned_auroc_spec (bC c) (thresholds c) xs in
         Some (if bmacro c then RMacro (xmean (map Fin a)) else REach a, thr_q c)
  end.
(* @model binned_mroc_spec run_binned_mroc_spec *)
Definition run_binned_mroc_spec :=
  run_fn dec_mc mroc_ok (fun c b => mc_ok (bC c) b) mroc_spec_fun enc_mroc.

(* ------------------------------------------------------------------------------------------ *)
(* spec-side entry points for the harness (algo = spec is also checked on every run)            *)
(* ------------------------------------------------------------------------------------------ *)
(* per-threshold counting for one binary row:  [[fn..]; [fp..]; [tp..]] *)
(* @model binned_counts_algo run_binned_counts_algo *)
Definition run_binned_counts_algo :=
  run_fn dec_row (fun _ => true) (fun _ _ => true)
    (fun c xs => let T := thresholds c in [bin_fn T xs; bin_fp T xs; bin_tp T xs])
    (fun o => VL (map vlistZ o)).
(* @model binned_counts_spec run_binned_counts_spec *)
Definition run_binned_counts_spec :=
  run_fn dec_row (fun _ => true) (fun _ _ => true)
    (fun c xs => let T := thresholds c in
                 [map (fun t => fn_spec t xs) T; map (fun t => fp_spec t xs) T; map (fun t => tp_spec t xs) T])
    (fun o => VL (map vlistZ o)).
Definition enc3 (t : list (list Z) * list (list Z) * list (list Z)) : val :=
  VL [VL (map vlistZ (fst (fst t))); VL (map vlistZ (snd (fst t))); VL (map vlistZ (snd t))].
(* multiclass / multilabel count tensors, mode taken from the configuration *)
(* @model binned_mc_counts run_binned_mc_counts *)
Definition run_binned_mc_counts := run_fn dec_mc (fun _ => true) (fun c b => mc_ok (bC c) b) mc_counts enc3.
(* @model binned_ml_counts run_binned_ml_counts *)
Definition run_binned_ml_counts := run_fn dec_ml (fun _ => true) (fun c b => ml_ok (bC c) b) ml_counts enc3.
(* @model binned_mc_counts_spec run_binned_mc_counts_spec *)
Definition run_binned_mc_counts_spec :=
  run_fn dec_mc (fun _ => true) (fun c b => mc_ok (bC c) b)
    (fun c xs => let T := thresholds c in let C := bC c in
       (spec_table C T (mfn_spec mc_scs mc_hit T) xs, spec_table C T (mfp_spec mc_scs mc_hit T) xs,
        spec_table C T (mtp_spec mc_scs mc_hit T) xs)) enc3.
(* @model binned_ml_counts_spec run_binned_ml_counts_spec *)
Definition run_binned_ml_counts_spec :=
  run_fn dec_ml (fun _ => true) (fun c b => ml_ok (bC c) b)
    (fun c xs => let T := thresholds c in let C := bC c in
       (spec_table C T (mfn_spec ml_scs ml_hit T) xs, spec_table C T (mfp_spec ml_scs ml_hit T) xs,
        spec_table C T (mtp_spec ml_scs ml_hit T) xs)) enc3.
(* exact AUROC / AUPRC of the floored scores, one binary row *)
(* @model binned_auroc_floor_spec run_binned_auroc_floor_spec *)
Definition run_binned_auroc_floor_spec :=
  run_fn dec_row (fun _ => true) (fun _ _ => true) (fun c xs => auroc_exact (floored (thresholds c) xs)) vq.
(* @model binned_auroc_row run_binned_auroc_row *)
Definition run_binned_auroc_row :=
  run_fn dec_row (fun _ => true) (fun _ _ => true) (fun c xs => binary_binned_auroc (thresholds c) xs) vq.
(* @model binned_auprc_floor_spec run_binned_auprc_floor_spec *)
Definition run_binned_auprc_floor_spec :=
  run_fn dec_row (fun _ => true) (fun _ _ => true) (fun c xs => Fin (auprc_exact (floored (thresholds c) xs))) xq_val.
(* @model binned_auprc_row run_binned_auprc_row *)
Definition run_binned_auprc_row :=
  run_fn dec_row (fun _ => true) (fun _ _ => true)
    (fun c xs => let T := thresholds c in
       auprc_curve (map zq (bin_tp T xs)) (map zq (bin_fp T xs)) (map zq (bin_fn T xs))) xq_val.
