(* C19, addend paths: the value an update adds does not reach the accumulator directly -- it passes through the
   intermediates of update() (casts, batch sums), each of which stores it in some kind.  An update therefore adds
   round_path path v, not v.  Integer-valued operands, sign-symmetric round-to-nearest-even built on FloatAcc.rne.
   Definitions only. *)
From Coq Require Import ZArith Bool List String.
From TE Require Import Base.Val Models.FloatAcc.
Import ListNotations.
Open Scope Z_scope.

(* RNE is sign-symmetric: extend FloatAcc.rne (non-negative operands) to Z *)
Definition rnes (p z : Z) : Z := if z <? 0 then - rne p (- z) else rne p z.

(* storing an integer value in a kind *)
Definition round_kind (k : kind) (v : Z) : Z :=
  match k with
  | F16 => rnes 11 v
  | BF16 => rnes 8 v
  | F32 => rnes 24 v
  | F64 | PyFloat => rnes 53 v
  | I8 => wrap 8 v
  | U8 => v mod 2 ^ 8
  | I16 => wrap 16 v
  | I32 => wrap 32 v
  | I64 => wrap 64 v
  | PyInt => v
  end.

(* the addend passes through the kinds of the path, first to last *)
Definition round_path (path : list kind) (v : Z) : Z := fold_left (fun x k => round_kind k x) path v.

(* the accumulator add of FloatAcc (the addend is converted to the accumulator's kind, then added and stored),
   on signed operands; acc_add_s k a d = acc_add k a d for 0 <= a, 0 <= d (AccPathP.acc_add_s_nonneg) *)
Definition acc_add_s (k : kind) (a d : Z) : Z := round_kind k (a + round_kind k d).

(* one update: the addend v reaches the accumulator through `path` *)
Definition acc_add_via (path : list kind) (acc : kind) (state v : Z) : Z :=
  acc_add_s acc state (round_path path v).

(* torch computes `state += t` for two tensors of the same dimensionality in the PROMOTED kind and stores the
   result: a float32 0-dim state plus a float64 0-dim addend is rounded once, after the addition *)
Definition acc_add_fused (path : list kind) (acc : kind) (state v : Z) : Z :=
  round_kind acc (state + round_path path v).

Definition acc_run_via (path : list kind) (acc : kind) (a : Z) (vs : list Z) : Z :=
  fold_left (acc_add_via path acc) vs a.
Definition acc_run_fused (path : list kind) (acc : kind) (a : Z) (vs : list Z) : Z :=
  fold_left (acc_add_fused path acc) vs a.

(* where a kind first fails to hold an integer (PyInt has no such edge; it is capped at the int64 edge) *)
Definition edge (k : kind) : Z :=
  match k with
  | BF16 => 2 ^ 8 | F16 => 2 ^ 11 | F32 => 2 ^ 24 | F64 | PyFloat => 2 ^ 53
  | I8 => 2 ^ 7 | U8 => 2 ^ 8 | I16 => 2 ^ 15 | I32 => 2 ^ 31 | I64 | PyInt => 2 ^ 63
  end.
Definition path_edge (path : list kind) : Z := fold_right (fun k m => Z.min (edge k) m) (2 ^ 63) path.

Definition kind_beq (a b : kind) : bool :=
  match a, b with
  | F16, F16 | BF16, BF16 | F32, F32 | F64, F64 | I8, I8 | U8, U8 | I16, I16 | I32, I32 | I64, I64
  | PyInt, PyInt | PyFloat, PyFloat => true
  | _, _ => false
  end.

(* table rows: (class, state, call layout, storage kind, effective path kind) *)
Definition path_row := (string * string * string * kind * kind)%type.
Definition row_class (r : path_row) : string := fst (fst (fst (fst r))).
Definition row_state (r : path_row) : string := snd (fst (fst (fst r))).
Definition row_layout (r : path_row) : string := snd (fst (fst r)).
Definition storage_kind (r : path_row) : kind := snd (fst r).
Definition path_kind (r : path_row) : kind := snd r.

(* a row is excused when a known finding names exactly this (class, state, layout, path kind), or when the path is
   no narrower than a storage kind that is itself a recorded finding (class, state, storage kind) *)
Definition known_row (kp : list (string * string * string * kind)) (ka : list (string * string * kind)) (r : path_row) : bool :=
  existsb (fun e => let '(c, s, l, k) := e in
             String.eqb c (row_class r) && String.eqb s (row_state r) && String.eqb l (row_layout r) && kind_beq k (path_kind r)) kp
  || (kind_beq (storage_kind r) (path_kind r)
      && existsb (fun e => let '(c, s, k) := e in
             String.eqb c (row_class r) && String.eqb s (row_state r) && kind_beq k (storage_kind r)) ka).

(* harness entry:  [conv|fused] (k1 k2 ...) acc state (v1 v2 ...)  ->  final accumulator *)
Definition kinds_of (l : list val) : option (list kind) :=
  omap (fun v => match v with VT s [] => kind_of_string s | _ => None end) l.

(* @model accpath run_accpath *)
Definition run_accpath (v : val) : val :=
  match v with
  | VL [VT mode []; VL ks; VT acc []; VZ a; VL vs] =>
    match kinds_of ks, kind_of_string acc, omap as_Z vs with
    | Some path, Some k, Some vs =>
      if String.eqb mode "fused" then VZ (acc_run_fused path k a vs)
      else if String.eqb mode "conv" then VZ (acc_run_via path k a vs) else vbad
    | _, _, _ => vbad
    end
  | _ => vbad
  end.
