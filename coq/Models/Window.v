(* The four update-granular windowed classes (torcheval/metrics/window/):
     WindowedClickThroughRate, WindowedMeanSquaredError, WindowedBinaryNormalizedEntropy,
     WindowedWeightedCalibration.
   One faithful ring-buffer model, parametrised by the per-update statistic (WinSpec):
     registered states : max_num_updates, total_updates, the (num_tasks x L) buffers, lifetime sums
     PLAIN ATTRIBUTE   : next_inserted (the cursor)  -- not saved, not loaded (D5); since the fix
                       c5ceb09 every class overrides reset() to rewind it.
   merge_state pools the windows into an enlarged buffer WITHOUT enlarging max_num_updates
   (all four classes) -- modelled as it is.
   merge_state variants (orthogonal to the cursor variants below; selected per class by a witness run on
   the tree under test, families/window.py merge_capacity_variant):
              win_metric     = merge keeps max_num_updates (the code as it is: wmrg)
              win_metric_cap = merge sets max_num_updates to the pooled capacity (repaired: wmrg_cap)
   Variants:  V_code  = the code as it is (cursor rewound by reset(), NOT saved / loaded)
              V_fixed = cursor treated like a registered state everywhere (repaired load)
              V_pre   = the tree before c5ceb09 (cursor neither saved, loaded nor reset) *)
From Coq Require Import ZArith List Bool QArith Qcanon String Arith.
From TE Require Import Base.Val Base.Xq Algebra.Metric Algebra.Pool.
Import ListNotations.
Open Scope list_scope.
Open Scope Qc_scope.

(* ---------- generic list helpers ---------- *)
Definition lastn {A} (n : nat) (l : list A) : list A := skipn (List.length l - n) l.
Fixpoint wset {A} (i : nat) (x : A) (l : list A) : list A :=
  match l, i with
  | [], _ => []
  | _ :: r, O => x :: r
  | y :: r, S i' => y :: wset i' x r
  end.
Definition sumQ (l : list Qc) : Qc := fold_right Qcplus 0 l.
Fixpoint zip2 {X Y Z} (f : X -> Y -> Z) (a : list X) (b : list Y) : list Z :=
  match a, b with x :: a', y :: b' => f x y :: zip2 f a' b' | _, _ => [] end.
Definition dot (a b : list Qc) : Qc := sumQ (zip2 Qcmult a b).

Inductive variant := V_pre | V_code | V_fixed.
Definition cur_saved (v : variant) : bool := match v with V_fixed => true | _ => false end.
Definition cur_reset (v : variant) : bool := match v with V_pre => false | _ => true end.

(* ---------- configuration, state, result ---------- *)
Record wcfg := { cT : nat; cN : nat; cLife : bool; cOpt : bool }.
(* cOpt: WindowedMeanSquaredError multioutput = "raw_values"; unused by the other classes *)

Record wst (S : Type) := {
  w_buf : list (list S);     (* one column per slot; a column holds one statistic per task *)
  w_cur : nat;               (* next_inserted  (plain attribute) *)
  w_tot : nat;               (* total_updates *)
  w_max : nat;               (* max_num_updates (a registered state) *)
  w_life : list S }.         (* lifetime sums, one per task *)
Arguments w_buf {S}. Arguments w_cur {S}. Arguments w_tot {S}. Arguments w_max {S}. Arguments w_life {S}.

Inductive wout (R : Type) := WEmpty | WOut (life : option R) (win : R).
Arguments WEmpty {R}. Arguments WOut {R}.

(* a batch of any of the four classes: rows of inputs / targets / weights, one row per task
   (CTR: no targets; MSE: a single weight row, shared by the tasks) *)
Record wbatch := { b_x : list (list Qc); b_y : list (list Qc); b_w : list (list Qc) }.

Record WinSpec := {
  wS : Type; wz : wS; wadd : wS -> wS -> wS;
  wR : Type;
  wvalid : wcfg -> wbatch -> bool;
  wstat : wcfg -> wbatch -> list wS;          (* statistic of one update() call, per task *)
  wgam : wcfg -> list wS -> wR;               (* the NON-windowed metric's compute on per-task sums *)
  wwhole : bool }.                            (* compute() always sums the whole buffer (MSE) *)

Section Ring.
Variable W : WinSpec.
Variable fixed : variant.
Notation S := (wS W).

Definition zcol (c : wcfg) : list S := repeat (wz W) (cT c).
Definition tasks (c : wcfg) : list nat := seq 0 (cT c).
Definition colsum (t : nat) (cols : list (list S)) : S :=
  fold_right (wadd W) (wz W) (map (fun col => nth t col (wz W)) cols).
(* buffer[:, cols].sum(dim=-1) *)
Definition tsum (c : wcfg) (cols : list (list S)) : list S := map (fun t => colsum t cols) (tasks c).
(* lifetime += statistic *)
Definition ladd (c : wcfg) (life col : list S) : list S :=
  map (fun t => wadd W (nth t col (wz W)) (nth t life (wz W))) (tasks c).

Definition winit (c : wcfg) : wst S :=
  {| w_buf := repeat (zcol c) (cN c); w_cur := 0; w_tot := 0; w_max := cN c; w_life := zcol c |}.

Definition wupd (c : wcfg) (s : wst S) (b : wbatch) : wst S :=
  let col := wstat W c b in
  {| w_buf := wset (w_cur s) col (w_buf s);
     w_cur := Nat.modulo (Datatypes.S (w_cur s)) (w_max s);
     w_tot := Datatypes.S (w_tot s);
     w_max := w_max s;
     w_life := if cLife c then ladd c (w_life s) col else w_life s |}.

(* the slots compute() reads *)
Definition wread (s : wst S) : list (list S) :=
  if wwhole W then w_buf s
  else if Nat.leb (w_max s) (w_tot s) then w_buf s else firstn (w_cur s) (w_buf s).

Definition wcmp (c : wcfg) (s : wst S) : wout (wR W) :=
  if Nat.eqb (w_tot s) 0 then WEmpty
  else WOut (if cLife c then Some (wgam W c (w_life s)) else None) (wgam W c (tsum c (wread s))).

(* merge_state: windows pooled into a buffer of size sum of max_num_updates; max_num_updates kept *)
Definition wfilled (m : wst S) : list (list S) := firstn (Nat.min (w_tot m) (w_max m)) (w_buf m).
Definition wmrg (c : wcfg) (s : wst S) (ms : list (wst S)) : wst S :=
  let newlen := fold_left (fun a m => a + w_max m)%nat ms (w_max s) in
  let parts := wfilled s ++ flat_map wfilled ms in
  let idx := List.length parts in
  {| w_buf := parts ++ repeat (zcol c) (newlen - idx);
     w_cur := Nat.modulo idx (w_max s);
     w_tot := fold_left (fun a m => a + w_tot m)%nat ms (w_tot s);
     w_max := w_max s;
     w_life := if cLife c then fold_left (fun l m => ladd c l (w_life m)) ms (w_life s) else w_life s |}.

(* REPAIRED merge_state (fixes/window-merge-capacity.patch: `self.max_num_updates = merge_max_num_updates`
   just before the cursor is set, as WindowedBinaryAUROC.merge_state always did): the same pooled buffers,
   max_num_updates becomes the pooled capacity and the cursor is reduced modulo THAT *)
Definition wmrg_cap (c : wcfg) (s : wst S) (ms : list (wst S)) : wst S :=
  let newlen := fold_left (fun a m => a + w_max m)%nat ms (w_max s) in
  let parts := wfilled s ++ flat_map wfilled ms in
  let idx := List.length parts in
  {| w_buf := parts ++ repeat (zcol c) (newlen - idx);
     w_cur := Nat.modulo idx newlen;
     w_tot := fold_left (fun a m => a + w_tot m)%nat ms (w_tot s);
     w_max := newlen;
     w_life := if cLife c then fold_left (fun l m => ladd c l (w_life m)) ms (w_life s) else w_life s |}.

Definition with_cur (k : nat) (s : wst S) : wst S :=
  {| w_buf := w_buf s; w_cur := k; w_tot := w_tot s; w_max := w_max s; w_life := w_life s |}.

Definition win_metric : Metric :=
  {| cfg := wcfg; st := wst S; batch := wbatch; out := wout (wR W);
     init := winit; valid := wvalid W; upd := wupd; mrg := wmrg; cmp := wcmp;
     prep := fun _ s => s;
     (* state_dict(): registered states only -- the cursor is not among them *)
     save := fun _ s => if cur_saved fixed then s else with_cur 0 s;
     (* load_state_dict(): registered states overwritten, the target keeps ITS cursor *)
     load := fun _ tgt d => if cur_saved fixed then d else with_cur (w_cur tgt) d;
     (* reset(): registered states back to their defaults; the override rewinds the cursor
        (before c5ceb09 the cursor stayed) *)
     rst := fun c s => if cur_reset fixed then winit c else with_cur (w_cur s) (winit c) |}.
(* the same class with the repaired merge_state (nothing else differs) *)
Definition win_metric_cap : Metric :=
  {| cfg := wcfg; st := wst S; batch := wbatch; out := wout (wR W);
     init := winit; valid := wvalid W; upd := wupd; mrg := wmrg_cap; cmp := wcmp;
     prep := fun _ s => s;
     save := fun _ s => if cur_saved fixed then s else with_cur 0 s;
     load := fun _ tgt d => if cur_saved fixed then d else with_cur (w_cur tgt) d;
     rst := fun c s => if cur_reset fixed then winit c else with_cur (w_cur s) (winit c) |}.
End Ring.

(* ---------- decoding ---------- *)
Definition dec_wcfg (v : val) : option wcfg :=
  match v with
  | VL [t; n; l; o] =>
      match as_nat t, as_nat n, as_B l, as_B o with
      | Some t, Some n, Some l, Some o => Some {| cT := t; cN := n; cLife := l; cOpt := o |}
      | _, _, _, _ => None end
  | _ => None end.
Definition dec_rows (v : val) : option (list (list Qc)) := as_list (as_list as_Q) v.
Definition dec_wb (_ : wcfg) (v : val) : option wbatch :=
  match v with
  | VL [x; y; w] =>
      match dec_rows x, dec_rows y, dec_rows w with
      | Some x, Some y, Some w => Some {| b_x := x; b_y := y; b_w := w |}
      | _, _, _ => None end
  | _ => None end.

Definition vnat (n : nat) : val := VZ (Z.of_nat n).
Definition row (k : nat) (m : list (list Qc)) : list Qc := nth k m [].
Definition nonneg (l : list Qc) : bool := forallb (fun w => qle 0 w) l.
Definition pos (l : list Qc) : bool := forallb (fun w => qlt 0 w) l.
Definition same_len {X Y} (a : list X) (b : list Y) : bool := Nat.eqb (List.length a) (List.length b).
Definition rows_ok (c : wcfg) (m : list (list Qc)) : bool := Nat.eqb (List.length m) (cT c).

(* encoders: (T x L) matrix of one field, (T) vector of one field *)
Section Enc.
Variable S : Type. Variable z : S.
Definition emat (f : S -> val) (c : wcfg) (buf : list (list S)) : val :=
  VL (map (fun t => VL (map (fun col => f (nth t col z)) buf)) (seq 0 (cT c))).
Definition evec (f : S -> val) (c : wcfg) (l : list S) : val :=
  VL (map (fun t => f (nth t l z)) (seq 0 (cT c))).
End Enc.

Definition enc_wout {R} (f : R -> val) (c : wcfg) (o : wout R) : val :=
  match o with
  | WEmpty => if cLife c then VL [VL []; VL []] else VL []
  | WOut (Some l) w => VL [f l; f w]
  | WOut None w => f w
  end.

(* =====================================================================================
   WindowedClickThroughRate   (reference: ClickThroughRate = click_total / (weight_total + tiny))
   ===================================================================================== *)
Definition q2 := (Qc * Qc)%type.
Definition q2add (a b : q2) : q2 := (fst a + fst b, snd a + snd b).
Definition q2z : q2 := (0, 0).

Definition ctr_valid (c : wcfg) (b : wbatch) : bool :=
  rows_ok c (b_x b) && rows_ok c (b_w b)
  && forallb (fun t => same_len (row t (b_x b)) (row t (b_w b)) && nonneg (row t (b_w b))) (seq 0 (cT c)).
Definition ctr_stat (c : wcfg) (b : wbatch) : list q2 :=
  map (fun t => (dot (row t (b_x b)) (row t (b_w b)), sumQ (row t (b_w b)))) (seq 0 (cT c)).
(* click_total / (weight_total + tiny): weights are >= 0, so weight_total = 0 forces click_total = 0 *)
Definition ctr_one (s : q2) : Qc := if qeq (snd s) 0 then 0 else fst s / snd s.
Definition ctr_gam (_ : wcfg) (l : list q2) : list Qc := map ctr_one l.
Definition ctr_spec : WinSpec :=
  {| wS := q2; wz := q2z; wadd := q2add; wR := list Qc; wvalid := ctr_valid; wstat := ctr_stat;
     wgam := ctr_gam; wwhole := false |}.
Definition wctr (fixed : variant) : Metric := win_metric ctr_spec fixed.

Definition wctr_enc_st (c : wcfg) (s : wst q2) : val :=
  (* sorted names: [life1] max_num_updates total_updates [life2] windowed1 windowed2 ; + next_inserted *)
  VL ((if cLife c then [evec q2 q2z (fun x => vq (fst x)) c (w_life s)] else [])
      ++ [vnat (w_max s); vnat (w_tot s)]
      ++ (if cLife c then [evec q2 q2z (fun x => vq (snd x)) c (w_life s)] else [])
      ++ [emat q2 q2z (fun x => vq (fst x)) c (w_buf s); emat q2 q2z (fun x => vq (snd x)) c (w_buf s);
          vnat (w_cur s)]).
(* click_total max_num_updates total_updates weight_total windowed_click_total windowed_weight_total *)
Definition wctr_codec (fixed : variant) : Codec (wctr fixed) :=
  Build_Codec (wctr fixed) dec_wcfg dec_wb wctr_enc_st (enc_wout vlistQ).
(* @model wctr run_wctr *)
Definition run_wctr := run_pool (wctr V_code) (wctr_codec V_code).
(* @model wctr_fixed run_wctr_fixed *)
Definition run_wctr_fixed := run_pool (wctr V_fixed) (wctr_codec V_fixed).

(* =====================================================================================
   WindowedWeightedCalibration   (reference: sum(w*input) / sum(w*target), clamped at eps here)
   ===================================================================================== *)
Definition eps64 : Qc := mkq 1 (2 ^ 52).
Definition wcal_valid (c : wcfg) (b : wbatch) : bool :=
  rows_ok c (b_x b) && rows_ok c (b_y b) && rows_ok c (b_w b)
  && forallb (fun t => same_len (row t (b_x b)) (row t (b_y b)) && same_len (row t (b_x b)) (row t (b_w b)))
       (seq 0 (cT c)).
Definition wcal_stat (c : wcfg) (b : wbatch) : list q2 :=
  map (fun t => (dot (row t (b_w b)) (row t (b_x b)), dot (row t (b_w b)) (row t (b_y b)))) (seq 0 (cT c)).
Definition wcal_one (s : q2) : Qc := fst s / qmax (snd s) eps64.      (* torch.clamp(target_sum, min=eps) *)
Definition wcal_gam (_ : wcfg) (l : list q2) : list Qc := map wcal_one l.
Definition wcal_spec : WinSpec :=
  {| wS := q2; wz := q2z; wadd := q2add; wR := list Qc; wvalid := wcal_valid; wstat := wcal_stat;
     wgam := wcal_gam; wwhole := false |}.
Definition wcal (fixed : variant) : Metric := win_metric wcal_spec fixed.
(* max_num_updates total_updates weighted_input_sum weighted_target_sum windowed_... windowed_... *)
Definition wcal_enc_st (c : wcfg) (s : wst q2) : val :=
  VL ([vnat (w_max s); vnat (w_tot s)]
      ++ (if cLife c then [evec q2 q2z (fun x => vq (fst x)) c (w_life s); evec q2 q2z (fun x => vq (snd x)) c (w_life s)] else [])
      ++ [emat q2 q2z (fun x => vq (fst x)) c (w_buf s); emat q2 q2z (fun x => vq (snd x)) c (w_buf s);
          vnat (w_cur s)]).
Definition wcal_codec (fixed : variant) : Codec (wcal fixed) :=
  Build_Codec (wcal fixed) dec_wcfg dec_wb wcal_enc_st (enc_wout vlistQ).
(* @model wcal run_wcal *)
Definition run_wcal := run_pool (wcal V_code) (wcal_codec V_code).
(* @model wcal_fixed run_wcal_fixed *)
Definition run_wcal_fixed := run_pool (wcal V_fixed) (wcal_codec V_fixed).

(* =====================================================================================
   WindowedMeanSquaredError   (reference: MeanSquaredError; IEEE division made explicit)
   batch: b_x / b_y = one row per task (the columns of the (n_sample, n_output) tensors),
          b_w = [sample weights] (one row, shared)
   ===================================================================================== *)
Definition mse_valid (c : wcfg) (b : wbatch) : bool :=
  rows_ok c (b_x b) && rows_ok c (b_y b) && Nat.eqb (List.length (b_w b)) 1
  && forallb (fun t => same_len (row t (b_x b)) (row t (b_y b)) && same_len (row t (b_x b)) (row 0 (b_w b)))
       (seq 0 (cT c)).
Definition sqerr (x y : list Qc) : list Qc := zip2 (fun a b => (b - a) * (b - a)) x y.
Definition mse_stat (c : wcfg) (b : wbatch) : list q2 :=
  map (fun t => (dot (sqerr (row t (b_x b)) (row t (b_y b))) (row 0 (b_w b)), sumQ (row 0 (b_w b)))) (seq 0 (cT c)).
(* sum_squared_error / (|w|.clamp(min=eps) * sign(w)) : w = 0 divides by zero *)
Definition mse_raw (s : q2) : xq := qdivx (fst s) (snd s).
Inductive mse_out := MScalar (x : xq) | MVec (l : list xq).
(* raw_values: shape (T) squeezed; uniform_average: mean over tasks *)
Definition mse_gam (c : wcfg) (l : list q2) : mse_out :=
  let raw := map mse_raw l in
  if cOpt c then (match raw with [x] => MScalar x | _ => MVec raw end) else MScalar (xmean raw).
Definition mse_spec : WinSpec :=
  {| wS := q2; wz := q2z; wadd := q2add; wR := mse_out; wvalid := mse_valid; wstat := mse_stat;
     wgam := mse_gam; wwhole := true |}.
Definition wmse (fixed : variant) : Metric := win_metric mse_spec fixed.
Definition mse_out_val (o : mse_out) : val := match o with MScalar x => xq_val x | MVec l => vlistX l end.
(* max_num_updates sum_squared_error sum_weight total_updates windowed_sse windowed_sum_weight.
   Lifetime sum_squared_error is a 0-dim tensor until the first multi-task statistic is adopted;
   sum_weight is always 0-dim (shared by the tasks). *)
Definition wmse_enc_st (c : wcfg) (s : wst q2) : val :=
  VL ([vnat (w_max s)]
      ++ (if cLife c then
            [ (if Nat.eqb (cT c) 1 then vq (fst (nth 0 (w_life s) q2z))
               else if Nat.eqb (w_tot s) 0 then vq 0
               else evec q2 q2z (fun x => vq (fst x)) c (w_life s));
              vq (snd (nth 0 (w_life s) q2z)) ] else [])
      ++ [vnat (w_tot s)]
      ++ [emat q2 q2z (fun x => vq (fst x)) c (w_buf s); emat q2 q2z (fun x => vq (snd x)) c (w_buf s);
          vnat (w_cur s)]).
Definition wmse_codec (fixed : variant) : Codec (wmse fixed) :=
  Build_Codec (wmse fixed) dec_wcfg dec_wb wmse_enc_st (enc_wout mse_out_val).
(* @model wmse run_wmse *)
Definition run_wmse := run_pool (wmse V_code) (wmse_codec V_code).
(* @model wmse_fixed run_wmse_fixed *)
Definition run_wmse_fixed := run_pool (wmse V_fixed) (wmse_codec V_fixed).

(* =====================================================================================
   WindowedBinaryNormalizedEntropy  (from_logits = False)
   The cross entropy is a formal sum of  coefficient * ln(argument)  terms (symbolic log).
   ===================================================================================== *)
Definition sym := list (Qc * Qc).                     (* sum of  c * ln a *)
Record ne3 := { ne_ent : sym; ne_n : Qc; ne_pos : Qc }.
Definition ne3z : ne3 := {| ne_ent := []; ne_n := 0; ne_pos := 0 |}.
Definition ne3add (a b : ne3) : ne3 :=
  {| ne_ent := ne_ent a ++ ne_ent b; ne_n := ne_n a + ne_n b; ne_pos := ne_pos a + ne_pos b |}.
Definition in01 (l : list Qc) : bool := forallb (fun p => qlt 0 p && qlt p 1) l.
Definition ne_valid (c : wcfg) (b : wbatch) : bool :=
  rows_ok c (b_x b) && rows_ok c (b_y b) && rows_ok c (b_w b)
  && forallb (fun t => same_len (row t (b_x b)) (row t (b_y b)) && same_len (row t (b_x b)) (row t (b_w b))
                       && in01 (row t (b_x b)) && nonneg (row t (b_w b))) (seq 0 (cT c)).
(* -w (t ln p + (1-t) ln (1-p)) *)
Fixpoint ne_terms (ps ts ws : list Qc) : sym :=
  match ps, ts, ws with
  | p :: ps', t :: ts', w :: ws' => (- (w * t), p) :: (- (w * (1 - t)), 1 - p) :: ne_terms ps' ts' ws'
  | _, _, _ => []
  end.
Definition ne_stat (c : wcfg) (b : wbatch) : list ne3 :=
  map (fun t => {| ne_ent := ne_terms (row t (b_x b)) (row t (b_y b)) (row t (b_w b));
                   ne_n := sumQ (row t (b_w b));
                   ne_pos := dot (row t (b_w b)) (row t (b_y b)) |}) (seq 0 (cT c)).
Definition ne_spec : WinSpec :=
  {| wS := ne3; wz := ne3z; wadd := ne3add; wR := list ne3; wvalid := ne_valid; wstat := ne_stat;
     wgam := fun _ l => l; wwhole := false |}.
Definition wne (fixed : variant) : Metric := win_metric ne_spec fixed.

Definition sym_val (e : sym) : val :=
  fold_right (fun t acc => radd (rmul (vq (fst t)) (rln (vq (snd t)))) acc) (vq 0) e.
(* a window (or lifetime) whose weights are all zero: 0/0 = NaN for that task, as the code computes.
   (cross_entropy / num_examples) / baseline,  baseline = -r ln r - (1-r) ln(1-r),
   r = clamp(num_positive / num_examples, eps, 1 - eps) *)
Definition ne_val (s : ne3) : val :=
  if qeq (ne_n s) 0 then VT "nan" [] else
  let r := qmin (qmax (ne_pos s / ne_n s) eps64) (1 - eps64) in
  let base := rsub (rneg (rmul (vq r) (rln (vq r)))) (rmul (vq (1 - r)) (rln (vq (1 - r)))) in
  rdiv (rdiv (sym_val (ne_ent s)) (vq (ne_n s))) base.
(* max_num_updates num_examples num_positive total_entropy total_updates
   windowed_num_examples windowed_num_positive windowed_total_entropy *)
Definition wne_enc_st (c : wcfg) (s : wst ne3) : val :=
  VL ([vnat (w_max s)]
      ++ (if cLife c then [evec ne3 ne3z (fun x => vq (ne_n x)) c (w_life s);
                           evec ne3 ne3z (fun x => vq (ne_pos x)) c (w_life s);
                           evec ne3 ne3z (fun x => sym_val (ne_ent x)) c (w_life s)] else [])
      ++ [vnat (w_tot s)]
      ++ [emat ne3 ne3z (fun x => vq (ne_n x)) c (w_buf s); emat ne3 ne3z (fun x => vq (ne_pos x)) c (w_buf s);
          emat ne3 ne3z (fun x => sym_val (ne_ent x)) c (w_buf s);
          vnat (w_cur s)]).
Definition wne_codec (fixed : variant) : Codec (wne fixed) :=
  Build_Codec (wne fixed) dec_wcfg dec_wb wne_enc_st (enc_wout (fun l => VL (map ne_val l))).
(* @model wne run_wne *)
Definition run_wne := run_pool (wne V_code) (wne_codec V_code).
(* @model wne_fixed run_wne_fixed *)
Definition run_wne_fixed := run_pool (wne V_fixed) (wne_codec V_fixed).

(* ---------- references: the NON-windowed metric over a list of updates ---------- *)
Definition win_ref (W : WinSpec) (c : wcfg) (us : list wbatch) : wR W :=
  wgam W c (tsum W c (map (wstat W c) us)).

(* ---------- the four classes with the REPAIRED merge_state (fixes/window-merge-capacity.patch) ---------- *)
Definition wctr_cap (fixed : variant) : Metric := win_metric_cap ctr_spec fixed.
Definition wctr_cap_codec (fixed : variant) : Codec (wctr_cap fixed) :=
  Build_Codec (wctr_cap fixed) dec_wcfg dec_wb wctr_enc_st (enc_wout vlistQ).
(* @model wctr_cap run_wctr_cap *)
Definition run_wctr_cap := run_pool (wctr_cap V_code) (wctr_cap_codec V_code).
(* @model wctr_cap_fixed run_wctr_cap_fixed *)
Definition run_wctr_cap_fixed := run_pool (wctr_cap V_fixed) (wctr_cap_codec V_fixed).

Definition wcal_cap (fixed : variant) : Metric := win_metric_cap wcal_spec fixed.
Definition wcal_cap_codec (fixed : variant) : Codec (wcal_cap fixed) :=
  Build_Codec (wcal_cap fixed) dec_wcfg dec_wb wcal_enc_st (enc_wout vlistQ).
(* @model wcal_cap run_wcal_cap *)
Definition run_wcal_cap := run_pool (wcal_cap V_code) (wcal_cap_codec V_code).
(* @model wcal_cap_fixed run_wcal_cap_fixed *)
Definition run_wcal_cap_fixed := run_pool (wcal_cap V_fixed) (wcal_cap_codec V_fixed).

Definition wmse_cap (fixed : variant) : Metric := win_metric_cap mse_spec fixed.
Definition wmse_cap_codec (fixed : variant) : Codec (wmse_cap fixed) :=
  Build_Codec (wmse_cap fixed) dec_wcfg dec_wb wmse_enc_st (enc_wout mse_out_val).
(* @model wmse_cap run_wmse_cap *)
Definition run_wmse_cap := run_pool (wmse_cap V_code) (wmse_cap_codec V_code).
(* @model wmse_cap_fixed run_wmse_cap_fixed *)
Definition run_wmse_cap_fixed := run_pool (wmse_cap V_fixed) (wmse_cap_codec V_fixed).

Definition wne_cap (fixed : variant) : Metric := win_metric_cap ne_spec fixed.
Definition wne_cap_codec (fixed : variant) : Codec (wne_cap fixed) :=
  Build_Codec (wne_cap fixed) dec_wcfg dec_wb wne_enc_st (enc_wout (fun l => VL (map ne_val l))).
(* @model wne_cap run_wne_cap *)
Definition run_wne_cap := run_pool (wne_cap V_code) (wne_cap_codec V_code).
(* @model wne_cap_fixed run_wne_cap_fixed *)
Definition run_wne_cap_fixed := run_pool (wne_cap V_fixed) (wne_cap_codec V_fixed).
