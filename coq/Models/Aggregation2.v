(* Max, Min, Throughput, Cat, AUC  (torcheval/metrics/aggregation/{max,min,throughput,cat,auc}.py).
   Definitions only; lemmas are in Proofs/RegressionP.v. *)
From Coq Require Import ZArith List Bool QArith Qcanon String.
From TE Require Import Base.Val Base.Nd Base.Xq Algebra.Metric Algebra.MergeTree Algebra.Pool Algebra.Cache
  Models.Aggregation.
Import ListNotations.
Open Scope list_scope.
Open Scope Qc_scope.

(* ------------------------------------------------------------------------------------------ *)
(* Max / Min: state starts at -inf / +inf; update folds torch.max(input) in; merge folds sources *)

Definition xmax (a b : xq) : xq :=
  match a with
  | NaN => NaN
  | PInf => match b with NaN => NaN | _ => PInf end
  | NInf => b
  | Fin p => match b with NaN => NaN | PInf => PInf | NInf => Fin p | Fin q => Fin (qmax p q) end
  end.
Definition xmin (a b : xq) : xq :=
  match a with
  | NaN => NaN
  | NInf => match b with NaN => NaN | _ => NInf end
  | PInf => b
  | Fin p => match b with NaN => NaN | NInf => NInf | PInf => Fin p | Fin q => Fin (qmin p q) end
  end.

(* torch.max(input) / torch.min(input) of a non-empty tensor (flattened) *)
Definition bmax (b : list Qc) : xq := match b with [] => NInf | x :: r => Fin (fold_left qmax r x) end.
Definition bmin (b : list Qc) : xq := match b with [] => PInf | x :: r => Fin (fold_left qmin r x) end.
Definition nonnil {X} (l : list X) : bool := negb (is_nil l).

Definition max_metric : Metric :=
  plain unit xq (list Qc) xq (fun _ => NInf) (fun _ b => nonnil b)
    (fun _ s b => xmax s (bmax b)) (fun _ s ms => fold_left xmax ms s) (fun _ s => s) (fun _ s => s).
Definition min_metric : Metric :=
  plain unit xq (list Qc) xq (fun _ => PInf) (fun _ b => nonnil b)
    (fun _ s b => xmin s (bmin b)) (fun _ s ms => fold_left xmin ms s) (fun _ s => s) (fun _ s => s).
Definition max_codec : Codec max_metric :=
  Build_Codec max_metric dec_unit (fun _ => as_list as_Q) (fun _ s => VL [xq_val s]) (fun _ => xq_val).
Definition min_codec : Codec min_metric :=
  Build_Codec min_metric dec_unit (fun _ => as_list as_Q) (fun _ s => VL [xq_val s]) (fun _ => xq_val).
(* @model agg2_max run_max *)
Definition run_max := run_pool max_metric max_codec.
(* @model agg2_min run_min *)
Definition run_min := run_pool min_metric min_codec.

(* ------------------------------------------------------------------------------------------ *)
(* Throughput: update adds both; merge adds num_total and takes the MAX of elapsed (documented) *)

Definition tp_valid (b : Qc * Qc) : bool := qle 0 (fst b) && qlt 0 (snd b).
Definition tp_upd (s b : Qc * Qc) : Qc * Qc := (fst s + fst b, snd s + snd b).
Definition tp_mrg1 (s m : Qc * Qc) : Qc * Qc := (fst s + fst m, qmax (snd s) (snd m)).
Definition tp_cmp (s : Qc * Qc) : Qc := if qeq (snd s) 0 then 0 else fst s / snd s.
Definition tp_metric : Metric :=
  plain unit (Qc * Qc) (Qc * Qc) Qc (fun _ => (0, 0)) (fun _ => tp_valid)
    (fun _ => tp_upd) (fun _ s ms => fold_left tp_mrg1 ms s) (fun _ => tp_cmp) (fun _ s => s).
Definition tp_codec : Codec tp_metric :=
  Build_Codec tp_metric dec_unit (fun _ => as_pair as_Q as_Q)
    (fun _ s => VL [vq (snd s); vq (fst s)])      (* sorted names: elapsed_time_sec, num_total *)
    (fun _ => vq).
(* @model agg2_throughput run_throughput *)
Definition run_throughput := run_pool tp_metric tp_codec.
(* @model agg2_throughput_fn run_throughput_fn *)
Definition run_throughput_fn (v : val) : val :=
  match v with
  | VL [_; bv] => match as_pair as_Q as_Q bv with
                  | Some b => if tp_valid b then vq (fst b / snd b) else verr "ValueError"
                  | None => vbad end
  | _ => vbad end.

(* ------------------------------------------------------------------------------------------ *)
(* Cat(dim): a chunk is the list of slices of an input tensor along [dim] (rows for dim=0 of a 2-D
   input, scalars for a 1-D input, columns for dim=1); torch.cat along [dim] is list append of
   slices.  The codec converts between the natural row layout and slices. *)

Record cat_cfg := { cat_dim : nat; cat_k : nat }.   (* cat_k: extent of the other dimension (0: 1-D inputs) *)

Definition slice_ok (k : nat) (x : nd) : bool :=
  match k, x with
  | O, Sc _ => true
  | S _, Arr l => Nat.eqb (List.length l) k && forallb (fun y => match y with Sc _ => true | _ => false end) l
  | _, _ => false
  end.
Definition cat_valid (c : cat_cfg) (b : list nd) : bool := nonnil b && forallb (slice_ok (cat_k c)) b.

Definition cat_spec : CacheSpec.
Proof.
  refine (Build_CacheSpec cat_cfg (list nd) nd (list nd) cat_valid (fun _ l => List.concat l) (fun _ b => b)
            (fun _ l => l) _).
  intros c l. induction l as [|x l IH]; [reflexivity|]. cbn [List.concat flat_map]. rewrite IH. reflexivity.
Defined.
Definition cat_metric := cache_metric cat_spec.

Definition transp (n : nat) (rows : list (list Qc)) : list (list Qc) :=
  map (fun i => map (fun r => nth i r 0) rows) (seq 0 n).
Fixpoint dec_nd (fuel : nat) (v : val) : option nd :=
  match v with
  | VL l => match fuel with
            | O => None
            | S f => match omap (dec_nd f) l with Some xs => Some (Arr xs) | None => None end
            end
  | _ => match as_Q v with Some q => Some (Sc q) | None => None end
  end.
Definition dec_mat (v : val) : option (list (list Qc)) := as_list (as_list as_Q) v.
Definition dec_cat_cfg (v : val) : option cat_cfg :=
  match v with VL [VZ d; VZ k] => Some {| cat_dim := Z.to_nat d; cat_k := Z.to_nat k |} | _ => None end.
Definition dec_cat_batch (c : cat_cfg) (v : val) : option (list nd) :=
  match cat_dim c with
  | O => match dec_nd 3 v with Some (Arr l) => Some l | _ => None end
  | _ => match dec_mat v with
         | Some rows => Some (map nvec (transp (List.length (hd [] rows)) rows))
         | None => None end
  end.
Definition enc_slices (c : cat_cfg) (sl : list nd) : val :=
  match cat_dim c with
  | O => VL (map nd_val sl)
  | _ => if is_nil sl then VL [] else VL (map vlistQ (transp (cat_k c) (map nlist sl)))
  end.
Definition cat_codec : Codec cat_metric :=
  Build_Codec cat_metric dec_cat_cfg dec_cat_batch
    (fun c s => VL [VZ (Z.of_nat (cat_dim c)); VL (map (enc_slices c) s)])    (* sorted names: dim, inputs *)
    enc_slices.
(* @model agg2_cat run_cat *)
Definition run_cat := run_pool cat_metric cat_codec.

(* ------------------------------------------------------------------------------------------ *)
(* AUC(reorder, n_tasks): states x, y = lists of (n_tasks x n) chunks.  merge_state first collapses
   the target's own list, then appends one concatenated chunk per non-empty source. *)

Definition mat := list (list Qc).
Definition catrows (l : list mat) : mat :=
  match l with [] => [] | m :: r => fold_left (map2 (@app Qc)) r m end.

(* stable insertion sort of (x, y) pairs by x -- torch.sort(x, stable=True) + gather *)
Fixpoint ins_pair (p : Qc * Qc) (l : list (Qc * Qc)) : list (Qc * Qc) :=
  match l with
  | [] => [p]
  | q :: r => if qlt (fst q) (fst p) then q :: ins_pair p r else p :: q :: r
  end.
Definition sort_pairs (l : list (Qc * Qc)) : list (Qc * Qc) := fold_right ins_pair [] l.

Definition half : Qc := mkq 1 2.
Fixpoint trapz (p : list (Qc * Qc)) : Qc :=
  match p with
  | a :: r => match r with
              | b :: _ => (fst b - fst a) * (snd a + snd b) * half + trapz r
              | [] => 0 end
  | [] => 0
  end.
Definition auc_row (reorder : bool) (xs ys : list Qc) : Qc :=
  let p := combine xs ys in trapz (if reorder then sort_pairs p else p).
Definition numel (m : mat) : nat := List.length (List.concat m).
(* _auc_compute on (n_tasks x n) x and y *)
Definition auc_compute (reorder : bool) (x y : mat) : list Qc :=
  if Nat.eqb (numel x) 0 || Nat.eqb (numel y) 0 then [] else map2 (auc_row reorder) x y.

Record auc_cfg := { auc_reorder : bool; auc_tasks : nat }.
Definition auc_st := (list mat * list mat)%type.
Definition row_lens (m : mat) : list nat := map (@List.length Qc) m.
Definition auc_valid (c : auc_cfg) (b : mat * mat) : bool :=
  negb (Nat.eqb (numel (fst b)) 0) && negb (Nat.eqb (numel (snd b)) 0)
  && Nat.eqb (List.length (fst b)) (auc_tasks c)
  && forallb (fun r => Nat.eqb (List.length r) (List.length (hd [] (fst b)))) (fst b)
  && (if list_eq_dec Nat.eq_dec (row_lens (fst b)) (row_lens (snd b)) then true else false).
Definition auc_prep (s : auc_st) : auc_st :=
  if nonnil (fst s) && nonnil (snd s) then ([catrows (fst s)], [catrows (snd s)]) else s.
Definition auc_mrg1 (s m : auc_st) : auc_st :=
  if nonnil (fst m) then (fst s ++ [catrows (fst m)], snd s ++ [catrows (snd m)]) else s.
Definition auc_cmp (c : auc_cfg) (s : auc_st) : list Qc :=
  if is_nil (fst s) || is_nil (snd s) then [] else auc_compute (auc_reorder c) (catrows (fst s)) (catrows (snd s)).
Definition auc_metric : Metric :=
  plain auc_cfg auc_st (mat * mat) (list Qc) (fun _ => ([], [])) auc_valid
    (fun _ s b => (fst s ++ [fst b], snd s ++ [snd b]))
    (fun _ s ms => fold_left auc_mrg1 ms (auc_prep s))
    auc_cmp (fun _ => auc_prep).
Definition dec_auc_cfg (v : val) : option auc_cfg :=
  match v with VL [r; VZ t] => match as_B r with Some r => Some {| auc_reorder := r; auc_tasks := Z.to_nat t |} | None => None end
          | _ => None end.
Definition vmat (m : mat) : val := VL (map vlistQ m).
Definition auc_codec : Codec auc_metric :=
  Build_Codec auc_metric dec_auc_cfg (fun _ => as_pair dec_mat dec_mat)
    (fun _ s => VL [VL (map vmat (fst s)); VL (map vmat (snd s))]) (fun _ => vlistQ).
(* @model agg2_auc run_auc *)
Definition run_auc := run_pool auc_metric auc_codec.
(* functional auc(x, y, reorder): n_tasks is read off x *)
(* @model agg2_auc_fn run_auc_fn *)
Definition run_auc_fn (v : val) : val :=
  match v with
  | VL [cv; bv] =>
    match dec_auc_cfg cv, as_pair dec_mat dec_mat bv with
    | Some c, Some b => if auc_valid c b then vlistQ (auc_compute (auc_reorder c) (fst b) (snd b)) else verr "ValueError"
    | _, _ => vbad end
  | _ => vbad end.
