(* Wasserstein1D (cache of four lists), PeakSignalNoiseRatio (sums + range semilattice),
   BinaryNormalizedEntropy and Perplexity (sums whose entropy part is a symbolic log-linear form).
   Definitions only; lemmas in Proofs/RegressionP.v. *)
From Coq Require Import ZArith List Bool QArith Qcanon String.
From TE Require Import Base.Val Base.Nd Base.Xq Algebra.Metric Algebra.MergeTree Algebra.Pool Algebra.Cache
  Models.Aggregation Models.Aggregation2 Models.Regression.
Import ListNotations.
Open Scope list_scope.
Open Scope Qc_scope.

(* ------------------------------------------------------------------------------------------ *)
(* Wasserstein1D *)

Record w_st := { w_x : list (list Qc); w_xw : list (list Qc); w_y : list (list Qc); w_yw : list (list Qc) }.
Record w_batch := { wb_x : list Qc; wb_xw : option (list Qc); wb_y : list Qc; wb_yw : option (list Qc) }.
Definition ones (n : nat) : list Qc := repeat 1 n.
Definition wts (x : list Qc) (w : option (list Qc)) : list Qc := match w with Some w => w | None => ones (List.length x) end.
Definition w_ok (x : list Qc) (w : option (list Qc)) : bool :=
  match w with
  | None => true
  | Some w => nonnil w && forallb (fun a => qlt 0 a) w && Nat.eqb (List.length w) (List.length x)
  end.
Definition w_valid (b : w_batch) : bool :=
  nonnil (wb_x b) && nonnil (wb_y b) && w_ok (wb_x b) (wb_xw b) && w_ok (wb_y b) (wb_yw b).

Fixpoint ins_q (p : Qc) (l : list Qc) : list Qc :=
  match l with [] => [p] | q :: r => if qlt q p then q :: ins_q p r else p :: q :: r end.
Definition sort_q (l : list Qc) : list Qc := fold_right ins_q [] l.
(* torch.searchsorted(sorted, v, right=True): index of the first element > v *)
Fixpoint ss_right (l : list Qc) (v : Qc) : nat :=
  match l with [] => O | a :: r => if qle a v then S (ss_right r v) else O end.
(* [0] ++ cumsum *)
Fixpoint cum0 (acc : Qc) (l : list Qc) : list Qc :=
  match l with [] => [acc] | a :: r => acc :: cum0 (acc + a) r end.
Definition cdf_at (sp : list (Qc * Qc)) (v : Qc) : Qc :=
  let cw := cum0 0 (map snd sp) in
  nth (ss_right (map fst sp) v) cw 0 / last cw 0.
Fixpoint w_terms (sx sy : list (Qc * Qc)) (all : list Qc) : list Qc :=
  match all with
  | v :: r => match r with
              | v' :: _ => qabs (cdf_at sx v - cdf_at sy v) * (v' - v) :: w_terms sx sy r
              | [] => [] end
  | [] => []
  end.
(* _wasserstein_compute *)
Definition wass (x xw y yw : list Qc) : Qc :=
  sumQ (w_terms (sort_pairs (combine x xw)) (sort_pairs (combine y yw)) (sort_q (x ++ y))).

Definition w_upd (s : w_st) (b : w_batch) : w_st :=
  {| w_x := w_x s ++ [wb_x b]; w_xw := w_xw s ++ [wts (wb_x b) (wb_xw b)];
     w_y := w_y s ++ [wb_y b]; w_yw := w_yw s ++ [wts (wb_y b) (wb_yw b)] |}.
Definition w_mrg1 (s m : w_st) : w_st :=
  if nonnil (w_x m)
  then {| w_x := w_x s ++ [List.concat (w_x m)]; w_xw := w_xw s ++ [List.concat (w_xw m)];
          w_y := w_y s ++ [List.concat (w_y m)]; w_yw := w_yw s ++ [List.concat (w_yw m)] |}
  else s.
(* torch.cat of an empty list raises *)
Definition w_cmp (s : w_st) : option Qc :=
  if is_nil (w_x s) || is_nil (w_y s) || is_nil (w_xw s) || is_nil (w_yw s) then None
  else Some (wass (List.concat (w_x s)) (List.concat (w_xw s)) (List.concat (w_y s)) (List.concat (w_yw s))).
Definition w_metric : Metric :=
  plain unit w_st w_batch (option Qc) (fun _ => {| w_x := []; w_xw := []; w_y := []; w_yw := [] |})
    (fun _ => w_valid) (fun _ => w_upd) (fun _ s ms => fold_left w_mrg1 ms s) (fun _ => w_cmp) (fun _ s => s).
Definition dec_w_batch (v : val) : option w_batch :=
  match v with
  | VL [x; xw; y; yw] =>
    match as_list as_Q x, as_opt (as_list as_Q) xw, as_list as_Q y, as_opt (as_list as_Q) yw with
    | Some x, Some xw, Some y, Some yw => Some {| wb_x := x; wb_xw := xw; wb_y := y; wb_yw := yw |}
    | _, _, _, _ => None end
  | _ => None end.
Definition w_out_val (o : option Qc) : val := match o with Some q => VL [vq q] | None => verr "RuntimeError" end.
Definition w_codec : Codec w_metric :=
  Build_Codec w_metric dec_unit (fun _ => dec_w_batch)
    (* sorted names: dist_1_samples, dist_1_weights, dist_2_samples, dist_2_weights *)
    (fun _ s => VL [VL (map vlistQ (w_x s)); VL (map vlistQ (w_xw s)); VL (map vlistQ (w_y s)); VL (map vlistQ (w_yw s))])
    (fun _ => w_out_val).
(* @model stat_wasserstein run_wasserstein *)
Definition run_wasserstein := run_pool w_metric w_codec.
(* @model stat_wasserstein_fn run_wasserstein_fn *)
Definition run_wasserstein_fn (v : val) : val :=
  match v with
  | VL [_; bv] =>
    match dec_w_batch bv with
    | Some b => if w_valid b
                then VL [vq (wass (wb_x b) (wts (wb_x b) (wb_xw b)) (wb_y b) (wts (wb_y b) (wb_yw b)))]
                else verr "ValueError"
    | None => vbad end
  | _ => vbad end.

(* ------------------------------------------------------------------------------------------ *)
(* PeakSignalNoiseRatio(data_range) *)

Record p_st := { p_dr : xq; p_mx : xq; p_mn : xq; p_n : Qc; p_sse : Qc }.
Definition p_auto (c : option Qc) : bool := match c with None => true | Some _ => false end.
Definition p_init (c : option Qc) : p_st :=
  {| p_dr := Fin (match c with None => 0 | Some r => r end); p_mx := NInf; p_mn := PInf; p_n := 0; p_sse := 0 |}.
Definition p_valid (c : option Qc) (b : list Qc * list Qc) : bool :=
  Nat.eqb (List.length (fst b)) (List.length (snd b)) && (nonnil (snd b) || negb (p_auto c)).
Definition p_sse_of (b : list Qc * list Qc) : Qc := sumQ (map2 (fun x t => sq (x - t)) (fst b) (snd b)).
Definition p_upd (c : option Qc) (s : p_st) (b : list Qc * list Qc) : p_st :=
  let sse := p_sse s + p_sse_of b in
  let n := p_n s + qofnat (List.length (snd b)) in
  if p_auto c then
    let mn := xmin (bmin (snd b)) (p_mn s) in
    let mx := xmax (bmax (snd b)) (p_mx s) in
    {| p_dr := xsub mx mn; p_mx := mx; p_mn := mn; p_n := n; p_sse := sse |}
  else {| p_dr := p_dr s; p_mx := p_mx s; p_mn := p_mn s; p_n := n; p_sse := sse |}.
Definition p_mrg1 (c : option Qc) (s m : p_st) : p_st :=
  {| p_dr := p_dr s;
     p_mx := if p_auto c then xmax (p_mx s) (p_mx m) else p_mx s;
     p_mn := if p_auto c then xmin (p_mn s) (p_mn m) else p_mn s;
     p_n := p_n s + p_n m; p_sse := p_sse s + p_sse m |}.
Definition p_mrg (c : option Qc) (s : p_st) (ms : list p_st) : p_st :=
  let r := fold_left (p_mrg1 c) ms s in
  if p_auto c then {| p_dr := xsub (p_mx r) (p_mn r); p_mx := p_mx r; p_mn := p_mn r; p_n := p_n r; p_sse := p_sse r |}
  else r.
(* 10 * log10(x) for an extended non-negative x: symbolic when finite positive *)
Definition ten_log10 (x : xq) : val :=
  match x with
  | Fin q => if qeq q 0 then xq_val NInf else if qlt q 0 then xq_val NaN else rmul (VZ 10) (rlog10 (vq q))
  | other => xq_val other
  end.
(* the exact argument of the logarithm: data_range^2 / (sse / n) *)
Definition psnr_ratio (dr : xq) (sse n : Qc) : xq := xdivx (xmul dr dr) (qdivx sse n).
Definition p_cmp (s : p_st) : val := ten_log10 (psnr_ratio (p_dr s) (p_sse s) (p_n s)).
Definition p_metric : Metric :=
  plain (option Qc) p_st (list Qc * list Qc) val p_init p_valid p_upd p_mrg (fun _ => p_cmp) (fun _ s => s).
Definition p_codec : Codec p_metric :=
  Build_Codec p_metric (as_opt as_Q) (fun _ => as_pair (as_list as_Q) (as_list as_Q))
    (* sorted names: data_range, max_target, min_target, num_observations, sum_squared_error *)
    (fun _ s => VL [xq_val (p_dr s); xq_val (p_mx s); xq_val (p_mn s); vq (p_n s); vq (p_sse s)])
    (fun _ v => v).
(* @model stat_psnr run_psnr *)
Definition run_psnr := run_pool p_metric p_codec.
(* @model stat_psnr_fn run_psnr_fn *)
Definition run_psnr_fn (v : val) : val :=
  match v with
  | VL [cv; bv] =>
    match as_opt as_Q cv, as_pair (as_list as_Q) (as_list as_Q) bv with
    | Some c, Some b =>
      if p_valid c b && nonnil (snd b) then
        let dr := match c with None => xsub (bmax (snd b)) (bmin (snd b)) | Some r => Fin r end in
        ten_log10 (psnr_ratio dr (p_sse_of b) (qofnat (List.length (snd b))))
      else verr "error"
    | _, _ => vbad end
  | _ => vbad end.

(* ------------------------------------------------------------------------------------------ *)
(* symbolic log-linear forms  k + sum_i c_i * ln(a_i)  (a_i: exact rational or symbolic tree) *)

Record form := { f_k : Qc; f_logs : list (Qc * val) }.
Definition f0 : form := {| f_k := 0; f_logs := [] |}.
Definition fadd (f g : form) : form := {| f_k := f_k f + f_k g; f_logs := f_logs f ++ f_logs g |}.
Definition form_val (f : form) : val :=
  fold_left (fun acc ca => radd acc (rmul (vq (fst ca)) (rln (snd ca)))) (f_logs f) (vq (f_k f)).

(* ------------------------------------------------------------------------------------------ *)
(* BinaryNormalizedEntropy(from_logits, num_tasks) *)

Record ne_cfg := { ne_logits : bool; ne_tasks : nat }.
Record ne_batch := { nb_x : mat; nb_t : mat; nb_w : option mat }.
Definition ne_task := (form * Qc * Qc)%type.       (* total_entropy, num_examples, num_positive *)
(* -c * max(ln a, -100): F.binary_cross_entropy clamps the logarithm *)
Definition clamp_log (c a : Qc) : form :=
  if qeq c 0 then f0
  else if qeq a 0 then {| f_k := c * mkq (-100) 1; f_logs := [] |}
  else {| f_k := 0; f_logs := [(c, vq a)] |}.
(* one sample's weighted cross entropy *)
Definition ne_term (logits : bool) (x t w : Qc) : form :=
  if logits
  then {| f_k := w * (1 - t) * x; f_logs := [(w, radd (VZ 1) (rexp (vq (- x))))] |}
  else fadd (clamp_log (- (w * t)) x) (clamp_log (- (w * (1 - t))) (1 - x)).
Fixpoint map3 {X Y Z W} (f : X -> Y -> Z -> W) (a : list X) (b : list Y) (c : list Z) : list W :=
  match a, b, c with x :: a', y :: b', z :: c' => f x y z :: map3 f a' b' c' | _, _, _ => [] end.
Definition ne_row (logits : bool) (xs ts ws : list Qc) : ne_task :=
  (fold_left fadd (map3 (ne_term logits) xs ts ws) f0, sumQ ws, sumQ (map2 Qcmult ws ts)).
Definition ne_wrows (b : ne_batch) : mat :=
  match nb_w b with Some w => w | None => map (fun r => ones (List.length r)) (nb_t b) end.
Definition ne_stat (c : ne_cfg) (b : ne_batch) : list ne_task :=
  map3 (ne_row (ne_logits c)) (nb_x b) (nb_t b) (ne_wrows b).
Definition in01 (x : Qc) : bool := qle 0 x && qle x 1.
Definition ne_valid (c : ne_cfg) (b : ne_batch) : bool :=
  Nat.eqb (List.length (nb_x b)) (ne_tasks c)
  && negb (Nat.eqb (numel (nb_x b)) 0)
  && (if list_eq_dec Nat.eq_dec (row_lens (nb_x b)) (row_lens (nb_t b)) then true else false)
  && (if list_eq_dec Nat.eq_dec (row_lens (nb_x b)) (row_lens (ne_wrows b)) then true else false)
  && forallb (fun r => Nat.eqb (List.length r) (List.length (hd [] (nb_x b)))) (nb_x b)
  && (ne_logits c || forallb (forallb in01) (nb_x b)).
Definition ne_add (a b : ne_task) : ne_task :=
  (fadd (fst (fst a)) (fst (fst b)), snd (fst a) + snd (fst b), snd a + snd b).
Definition ne_init (c : ne_cfg) : list ne_task := repeat (f0, 0, 0) (ne_tasks c).
Definition clampq (lo hi x : Qc) : Qc := qmin (qmax x lo) hi.
(* _baseline_update: entropy of the clamped base rate *)
Definition ne_baseline (npos nex : Qc) : val :=
  let r := clampq eps64 (1 - eps64) (npos / nex) in
  rsub (rmul (vq (- r)) (rln (vq r))) (rmul (vq (1 - r)) (rln (vq (1 - r)))).
Definition ne_value (t : ne_task) : val :=
  rdiv (rdiv (form_val (fst (fst t))) (vq (snd (fst t)))) (ne_baseline (snd t) (snd (fst t))).
Definition ne_cmp (s : list ne_task) : val :=
  if existsb (fun t => qeq (snd (fst t)) 0) s then VL [] else VL (map ne_value s).
Definition ne_metric : Metric :=
  plain ne_cfg (list ne_task) ne_batch val ne_init ne_valid
    (fun c s b => map2 ne_add s (ne_stat c b))
    (fun _ s ms => fold_left (map2 ne_add) ms s)
    (fun _ => ne_cmp) (fun _ s => s).
Definition dec_ne_cfg (v : val) : option ne_cfg :=
  match v with VL [l; VZ t] => match as_B l with Some l => Some {| ne_logits := l; ne_tasks := Z.to_nat t |} | None => None end
          | _ => None end.
Definition dec_ne_batch (v : val) : option ne_batch :=
  match v with
  | VL [x; t; w] => match dec_mat x, dec_mat t, as_opt dec_mat w with
                    | Some x, Some t, Some w => Some {| nb_x := x; nb_t := t; nb_w := w |}
                    | _, _, _ => None end
  | _ => None end.
Definition ne_codec : Codec ne_metric :=
  Build_Codec ne_metric dec_ne_cfg (fun _ => dec_ne_batch)
    (* sorted names: num_examples, num_positive, total_entropy *)
    (fun _ s => VL [vlistQ (map (fun t => snd (fst t)) s); vlistQ (map (fun t => snd t) s);
                    VL (map (fun t => form_val (fst (fst t))) s)])
    (fun _ v => v).
(* @model stat_ne run_ne *)
Definition run_ne := run_pool ne_metric ne_codec.
(* @model stat_ne_fn run_ne_fn *)
Definition run_ne_fn (v : val) : val :=
  match v with
  | VL [cv; bv] =>
    match dec_ne_cfg cv, dec_ne_batch bv with
    | Some c, Some b => if ne_valid c b then VL (map ne_value (ne_stat c b)) else verr "ValueError"
    | _, _ => vbad end
  | _ => vbad end.

(* ------------------------------------------------------------------------------------------ *)
(* Perplexity(ignore_index): states num_total, sum_log_probs *)

Record px_batch := { px_rows : mat; px_tgt : list Z }.
Definition px_st := (form * Qc)%type.
Definition ignored (ig : option Z) (t : Z) : bool := match ig with Some i => Z.eqb i t | None => false end.
(* -ln softmax(row)[t]  =  ln (sum_j exp x_j)  -  x_t *)
Definition sumexp (row : list Qc) : val :=
  match row with [] => VZ 0 | x :: r => fold_left (fun acc y => radd acc (rexp (vq y))) r (rexp (vq x)) end.
Definition px_term (row : list Qc) (t : Z) : form :=
  {| f_k := - nth (Z.to_nat t) row 0; f_logs := [(1, sumexp row)] |}.
Fixpoint px_stat (ig : option Z) (rows : mat) (ts : list Z) : px_st :=
  match rows, ts with
  | r :: rows', t :: ts' =>
      let acc := px_stat ig rows' ts' in
      if ignored ig t then acc else (fadd (px_term r t) (fst acc), 1 + snd acc)
  | _, _ => (f0, 0)
  end.
Definition truthy (ig : option Z) : bool := match ig with Some i => negb (Z.eqb i 0) | None => false end.
Definition px_valid (ig : option Z) (b : px_batch) : bool :=
  let v := List.length (hd [] (px_rows b)) in
  Nat.eqb (List.length (px_rows b)) (List.length (px_tgt b)) && nonnil (px_tgt b)
  && rows_ok v (px_rows b)
  && forallb (fun t => ignored ig t || (Z.leb 0 t && Z.ltb t (Z.of_nat v))) (px_tgt b).
(* _perplexity_input_check: `if ignore_index:` filters; since /repo 54e61cf an all-ignored batch is accepted *)
Definition px_add (a b : px_st) : px_st := (fadd (fst a) (fst b), snd a + snd b).
Definition px_value (s : px_st) : val := rexp (rdiv (form_val (fst s)) (vq (snd s))).
Definition px_cmp (s : px_st) : val := if qeq (snd s) 0 then VL [] else px_value s.
Definition px_metric : Metric :=
  plain (option Z) px_st px_batch val (fun _ => (f0, 0)) px_valid
    (fun ig s b => px_add s (px_stat ig (px_rows b) (px_tgt b)))
    (fun _ s ms => fold_left px_add ms s) (fun _ => px_cmp) (fun _ s => s).
Definition dec_px_batch (v : val) : option px_batch :=
  match v with
  | VL [r; t] => match dec_mat r, as_list as_Z t with
                 | Some r, Some t => Some {| px_rows := r; px_tgt := t |} | _, _ => None end
  | _ => None end.
Definition px_codec : Codec px_metric :=
  Build_Codec px_metric (as_opt as_Z) (fun _ => dec_px_batch)
    (fun _ s => VL [vq (snd s); form_val (fst s)])      (* num_total, sum_log_probs *)
    (fun _ v => v).
(* @model stat_perplexity run_perplexity *)
Definition run_perplexity := run_pool px_metric px_codec.
(* @model stat_perplexity_fn run_perplexity_fn *)
Definition run_perplexity_fn (v : val) : val :=
  match v with
  | VL [cv; bv] =>
    match as_opt as_Z cv, dec_px_batch bv with
    | Some ig, Some b =>
      if px_valid ig b then let s := px_stat ig (px_rows b) (px_tgt b) in
                            if qeq (snd s) 0 then vnone else px_value s
      else verr "ValueError"
    | _, _ => vbad end
  | _ => vbad end.
