(* Hand-written side tables of the L-eff table checks (the generated tables are in Generated/). *)
From Coq Require Import List String.
From TE Require Import Models.Effects.
Import ListNotations.
Open Scope string_scope.

(* C14 discharge list: (class, callee label) of calls inside update() that run after a state write
   but are total on every input that passed the whole-tensor validation at the top of update():
   - BinaryBinnedAUPRC: per-task loop; `_update(input[i], target[i], threshold)` re-runs, on row i, the
     searchsorted/histc kernel whose shape contract was checked on the whole (num_tasks, n) tensor;
   - RetrievalPrecision / RetrievalRecall: per-query loop; cat / get_topk / gather of 1-D tensors of
     equal length (`_retrieval_*_update_input_check` checked input.shape == target.shape, 1-D);
   - PeakSignalNoiseRatio: `target.min()/max()` raise only on an empty target, for which the sums bound
     before are bound to values equal to the old ones (adding an empty sum): value-preserving.
   - R2Score, Covariance: in-place accumulation onto DATA-SHAPED fields (shape adopted from the first
     batch; the translator emits `MayRaise "inplace:f"` before such a write).  R2Score adopts
     sum_squared_obs / sum_obs / sum_squared_residual together from statistics of one common shape
     (n_output,), and `sum_squared_obs +=` is the first write of the path: if it passes, the other two
     have the same shapes on both sides.  Covariance: `ss_sum (d,d) += (d',d')` is the first write and
     passes only if d' = d or d' = 1, for which `sum (d) += (d')` passes too.
   These are assumptions of the C14 theorem for these four classes (listed in the evidence); they are
   exercised by the C14 fault-injection stream.  A new call label after a write is NOT discharged. *)
Definition commit_discharge : list (string * string) := [
  ("BinaryBinnedAUPRC", "_update");
  ("RetrievalPrecision", "torch.cat"); ("RetrievalPrecision", "get_topk"); ("RetrievalPrecision", "batch_targets.gather");
  ("RetrievalRecall", "torch.cat"); ("RetrievalRecall", "get_topk"); ("RetrievalRecall", "batch_targets.gather");
  (* since /repo d719b1e / 4c57037: per query, everything is computed into locals before the writes; in the
     per-query loop the next query's `target.sum()` / `torch.where(..).argmax()` (argmax of a non-empty 1-D
     tensor: the branch is guarded by `1 in batch_targets`) run after the previous query's writes *)
  ("RetrievalRecall", "target.sum");
  ("RetrievalPrecision", "torch.where"); ("RetrievalPrecision", "torch.where(batch_targets == 1, batch_preds, -torch.inf).arg");
  ("PeakSignalNoiseRatio", "target.min"); ("PeakSignalNoiseRatio", "torch.minimum");
  ("PeakSignalNoiseRatio", "target.max"); ("PeakSignalNoiseRatio", "torch.maximum");
  ("R2Score", "inplace:sum_obs"); ("R2Score", "inplace:sum_squared_residual");
  ("Covariance", "inplace:sum")].

(* C09/C10: attributes written outside __init__ that are functions of registered state (none today) *)
Definition derived_attrs : list (string * fld) := [].
