(* FrechetAudioDistance (torcheval/metrics/audio/fad.py) and gaussian_frechet_distance
   (functional/frechet.py).  The model receives the EMBEDDED frames (the embedding network is outside
   the model): it is about the accumulation of partial sums and the distance formula.
   Registered states (sorted): pred_cov_partial (D x D), pred_mean_partial (1 x D), pred_n,
   target_cov_partial, target_mean_partial, target_n -- an additive state.
   Definitions only; lemmas in Proofs/FadP.v. *)
From Coq Require Import ZArith List Bool QArith Qcanon String.
From TE Require Import Base.Val Base.Nd Base.Xq Algebra.Metric Algebra.MergeTree Algebra.Pool
  Models.Aggregation Models.Aggregation2 Models.Regression.
Import ListNotations.
Open Scope list_scope.
Open Scope Qc_scope.

Definition tab1 (d : nat) (f : nat -> Qc) : vecq := map f (seq 0 d).
Definition tab2 (d : nat) (f : nat -> nat -> Qc) : matq := map (fun i => tab1 d (f i)) (seq 0 d).
Fixpoint dotq (a b : list Qc) : Qc := match a, b with x :: a', y :: b' => x * y + dotq a' b' | _, _ => 0 end.
(* embedding.T @ embedding, embedding.sum(0).unsqueeze(0), embedding.size(0), for N rows of width d *)
Definition gram (d : nat) (rows : matq) : matq := tab2 d (fun i j => dotq (col i rows) (col j rows)).
Definition fad_side (d : nat) (rows : matq) : list nd :=
  [nmat (gram d rows); nmat [colsums d rows]; Sc (qofnat (List.length rows))].
Definition fad_beta (d : nat) (b : matq * matq) : nd := Arr (fad_side d (fst b) ++ fad_side d (snd b)).
Definition fad_zero (d : nat) : nd :=
  Arr [nzeros2 d d; nzeros2 1 d; Sc 0; nzeros2 d d; nzeros2 1 d; Sc 0].
Definition fad_valid (d : nat) (b : matq * matq) : bool := rows_ok d (fst b) && rows_ok d (snd b).

(* moments from the partial sums, as compute() does: mean = s / n,
   cov = cov_partial / (n - 1) - mean^T mean * n / (n - 1) *)
Definition fad_mean (n : Qc) (s : vecq) : vecq := vdivn s n.
Definition fad_cov (n : Qc) (s : vecq) (cp : matq) : matq :=
  map2 (map2 (fun a b => a / (n - 1) - b * n / (n - 1))) cp (outer (fad_mean n s) (fad_mean n s)).
Definition trace (m : matq) : Qc := sumQ (map (fun i => nth i (nth i m []) 0) (seq 0 (List.length m))).
(* the uninterpreted part: sum of sqrt of the eigenvalues of cov_x @ cov_y (evaluated by the harness) *)
Definition sqrt_eig_sum (cx cy : matq) : val := VT "trsqrtprod" [vmat cx; vmat cy].
(* gaussian_frechet_distance on finite inputs: |mu_x - mu_y|^2 + tr cov_x + tr cov_y - 2 c *)
Definition frechet_a (mx my : vecq) : Qc := sumQ (map sq (vsub mx my)).
Definition frechet_b (cx cy : matq) : Qc := trace cx + trace cy.
Definition frechet (mx : vecq) (cx : matq) (my : vecq) (cy : matq) : val :=
  rsub (radd (vq (frechet_a mx my)) (vq (frechet_b cx cy))) (rmul (VZ 2) (sqrt_eig_sum cx cy)).
Definition fad_cmp (d : nat) (s : nd) : val :=
  let pc := nrows (nget 0 s) in let pm := hd [] (nrows (nget 1 s)) in let pn := nsc (nget 2 s) in
  let tc := nrows (nget 3 s) in let tm := hd [] (nrows (nget 4 s)) in let tn := nsc (nget 5 s) in
  (* n = 0: 0/0 = nan, n = 1: x/0 = inf or nan -> non-finite covariance -> ValueError *)
  if qlt pn (mkq 2 1) || qlt tn (mkq 2 1) then verr "ValueError"
  else frechet (fad_mean pn pm) (fad_cov pn pm pc) (fad_mean tn tm) (fad_cov tn tm tc).
Definition fad_metric : Metric :=
  plain nat nd (matq * matq) val fad_zero fad_valid
    (fun d s b => nadd s (fad_beta d b)) (fun _ s ms => fold_left nadd ms s) fad_cmp (fun _ s => s).
Definition fad_codec : Codec fad_metric :=
  Build_Codec fad_metric as_nat (fun _ => as_pair dec_mat dec_mat) (fun _ s => nd_val s) (fun _ v => v).
(* @model fad run_fad *)
Definition run_fad := run_pool fad_metric fad_codec.

(* functional gaussian_frechet_distance(mu_x, cov_x, mu_y, cov_y) on exact finite inputs *)
Definition square_ok (d : nat) (m : matq) : bool := Nat.eqb (List.length m) d && rows_ok d m.
(* @model fad_frechet_fn run_frechet_fn *)
Definition run_frechet_fn (v : val) : val :=
  match v with
  | VL [_; VL [mx; cx; my; cy]] =>
    match as_list as_Q mx, dec_mat cx, as_list as_Q my, dec_mat cy with
    | Some mx, Some cx, Some my, Some cy =>
      let d := List.length mx in
      if Nat.eqb (List.length my) d && square_ok d cx && square_ok d cy then frechet mx cx my cy else verr "ValueError"
    | _, _, _, _ => vbad end
  | _ => vbad end.
