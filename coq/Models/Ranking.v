(* Ranking / retrieval metrics (torcheval/metrics/ranking/*.py, functional/ranking/*.py).
   - HitRate, ReciprocalRank : ordered cache of per-sample results (state = list of result chunks)
   - ClickThroughRate, WeightedCalibration : additive (AddSpec)
   - RetrievalPrecision, RetrievalRecall : PRUNED cache: per query the retained (score,label) items;
     update re-prunes to the top-k, merge_state only concatenates, compute() runs the functional on
     the retained items.  The model mirrors the code as it is (incl. its defects D3/D4).
   - num_collisions, frequency_at_k : functionals only.
   Scores are integers on a grid (harness feeds z/den to torch); labels are integers.
   torch.topk: the order among EQUAL scores is unspecified by torch (and observably not stable);
   the model sorts by (score desc, label desc), a canonical choice -- every statement that is to be
   read as a statement about torcheval carries the proviso "scores without ties". *)
From Coq Require Import ZArith List Bool QArith Qcanon String Lia.
From TE Require Import Base.Val Base.Nd Base.Xq Algebra.Metric Algebra.MergeTree Algebra.Pool
  Algebra.Additive Algebra.Cache.
Import ListNotations.
Open Scope list_scope.
Open Scope Qc_scope.

Definition zq (z : Z) : Qc := mkq z 1.
Definition rk_sumQ (l : list Qc) : Qc := fold_right Qcplus 0 l.
Definition rk_sumZ (l : list Z) : Z := fold_right Z.add 0%Z l.
Definition dec_onat (v : val) : option (option nat) := as_opt as_nat v.
Definition dec_oZ (v : val) : option (option Z) := as_opt as_Z v.

(* ------------------------------------------------------------------------------------------
   1. HitRate / ReciprocalRank
   ------------------------------------------------------------------------------------------ *)
Definition hr_sample := (list Z * Z)%type.          (* one row of scores, target class index *)
Definition hr_batch := list hr_sample.

(* torch.gt(input, y_score).sum(-1): number of candidates scoring strictly more than the target *)
Definition rk_rank (row : list Z) (t : Z) : Z :=
  let y := nth (Z.to_nat t) row 0%Z in Z.of_nat (List.length (filter (fun x => Z.gtb x y) row)).
Definition in_range (smp : hr_sample) : bool :=
  (0 <=? snd smp)%Z && (snd smp <? Z.of_nat (List.length (fst smp)))%Z.

(* hit_rate: k None or k >= num_classes short-circuits to ones BEFORE the gather *)
Definition hit_short (k : option Z) (smp : hr_sample) : bool :=
  match k with None => true | Some k => (Z.of_nat (List.length (fst smp)) <=? k)%Z end.
Definition hit_one (k : option Z) (smp : hr_sample) : Qc :=
  if hit_short k smp then 1
  else match k with
       | None => 1
       | Some k => if (rk_rank (fst smp) (snd smp) <? k)%Z then 1 else 0
       end.
Definition hit_valid (k : option Z) (b : hr_batch) : bool :=
  match k with Some k => (0 <? k)%Z | None => true end
  && forallb (fun s => hit_short k s || in_range s) b.
Definition hit_fn (k : option Z) (b : hr_batch) : list Qc := map (hit_one k) b.

(* reciprocal_rank: no check of k; score[rank >= k] = 0 *)
Definition rr_one (k : option Z) (smp : hr_sample) : Qc :=
  let r := rk_rank (fst smp) (snd smp) in
  match k with
  | Some k => if (k <=? r)%Z then 0 else 1 / zq (r + 1)
  | None => 1 / zq (r + 1)
  end.
Definition rr_valid (k : option Z) (b : hr_batch) : bool := forallb in_range b.
Definition rr_fn (k : option Z) (b : hr_batch) : list Qc := map (rr_one k) b.

(* generic ordered cache of computed per-sample results:
   update appends f(batch); merge_state appends cat(source.scores) for every source whose list is
   non-empty; _prepare_for_merge_state collapses the list; compute = cat (empty tensor if none) *)
Section ScoreCache.
Variables (C B : Type) (fvalid : C -> B -> bool) (f : C -> B -> list Qc).
Definition sc_merge (s : list (list Qc)) (ms : list (list (list Qc))) : list (list Qc) :=
  fold_left (fun s m => if is_nil m then s else s ++ [List.concat m]) ms s.
Definition sc_metric : Metric :=
  plain C (list (list Qc)) B (list Qc) (fun _ => []) fvalid
    (fun c s b => s ++ [f c b])
    (fun _ s ms => sc_merge s ms)
    (fun _ s => List.concat s)
    (fun _ s => if is_nil s then s else [List.concat s]).
End ScoreCache.

Definition dec_hr_sample (v : val) : option hr_sample := as_pair (as_list as_Z) as_Z v.
Definition dec_hr_batch (v : val) : option hr_batch := as_list dec_hr_sample v.
Definition enc_chunks (s : list (list Qc)) : val := VL [VL (map vlistQ s)].

Definition hitrate_metric := sc_metric (option Z) hr_batch hit_valid hit_fn.
Definition hitrate_codec : Codec hitrate_metric :=
  Build_Codec hitrate_metric dec_oZ (fun _ => dec_hr_batch) (fun _ => enc_chunks) (fun _ => vlistQ).
(* @model rk_hitrate run_hitrate *)
Definition run_hitrate := run_pool hitrate_metric hitrate_codec.
(* @model rk_hitrate_fn run_hitrate_fn *)
Definition run_hitrate_fn (v : val) : val :=
  match v with
  | VL [kv; bv] => match dec_oZ kv, dec_hr_batch bv with
                   | Some k, Some b => if hit_valid k b then vlistQ (hit_fn k b) else verr "invalid"
                   | _, _ => vbad end
  | _ => vbad end.

Definition rrank_metric := sc_metric (option Z) hr_batch rr_valid rr_fn.
Definition rrank_codec : Codec rrank_metric :=
  Build_Codec rrank_metric dec_oZ (fun _ => dec_hr_batch) (fun _ => enc_chunks) (fun _ => vlistQ).
(* @model rk_rrank run_rrank *)
Definition run_rrank := run_pool rrank_metric rrank_codec.
(* @model rk_rrank_fn run_rrank_fn *)
Definition run_rrank_fn (v : val) : val :=
  match v with
  | VL [kv; bv] => match dec_oZ kv, dec_hr_batch bv with
                   | Some k, Some b => if rr_valid k b then vlistQ (rr_fn k b) else verr "invalid"
                   | _, _ => vbad end
  | _ => vbad end.

(* "explicit ranking" specification: sort the row in descending order (any such order: ties do not
   matter for the position of the first element equal to the target's score); the target's rank is
   the position of the first element with the target's score. *)
Fixpoint ins_desc (x : Z) (l : list Z) : list Z :=
  match l with [] => [x] | y :: r => if (y <=? x)%Z then x :: l else y :: ins_desc x r end.
Definition sort_desc (l : list Z) : list Z := fold_right ins_desc [] l.
Fixpoint first_pos (y : Z) (l : list Z) : Z :=
  match l with [] => 0%Z | x :: r => if (x =? y)%Z then 0%Z else (1 + first_pos y r)%Z end.
Definition rank_by_sorting (row : list Z) (t : Z) : Z :=
  first_pos (nth (Z.to_nat t) row 0%Z) (sort_desc row).
Definition hit_spec_one (k : option Z) (smp : hr_sample) : Qc :=
  match k with
  | None => 1
  | Some k => if (rank_by_sorting (fst smp) (snd smp) <? k)%Z then 1 else 0
  end.
Definition rr_spec_one (k : option Z) (smp : hr_sample) : Qc :=
  let r := rank_by_sorting (fst smp) (snd smp) in
  match k with
  | Some k => if (r <? k)%Z then 1 / zq (r + 1) else 0
  | None => 1 / zq (r + 1)
  end.
(* @model rk_hitrate_spec run_hitrate_spec *)
Definition run_hitrate_spec (v : val) : val :=
  match v with
  | VL [kv; bv] => match dec_oZ kv, dec_hr_batch bv with
                   | Some k, Some b => if hit_valid k b then vlistQ (map (hit_spec_one k) b) else verr "invalid"
                   | _, _ => vbad end
  | _ => vbad end.
(* @model rk_rrank_spec run_rrank_spec *)
Definition run_rrank_spec (v : val) : val :=
  match v with
  | VL [kv; bv] => match dec_oZ kv, dec_hr_batch bv with
                   | Some k, Some b => if rr_valid k b then vlistQ (map (rr_spec_one k) b) else verr "invalid"
                   | _, _ => vbad end
  | _ => vbad end.

(* ------------------------------------------------------------------------------------------
   2. ClickThroughRate / WeightedCalibration (additive)
   ------------------------------------------------------------------------------------------ *)
Inductive rk_w := WSc (w : Qc) | WTen (ws : list (list Qc)).
Definition rows_ok (nt : nat) (rows : list (list Qc)) : bool :=
  Nat.eqb (List.length rows) nt &&
  match rows with [] => true | r :: _ => forallb (fun r' => Nat.eqb (List.length r') (List.length r)) rows end.
Definition shape_eq (a b : list (list Qc)) : bool :=
  Nat.eqb (List.length a) (List.length b) && forallb (fun p => Nat.eqb (List.length (fst p)) (List.length (snd p))) (combine a b).
Definition w_ok (rows : list (list Qc)) (w : rk_w) : bool :=
  match w with WSc _ => true | WTen ws => shape_eq ws rows end.
(* per-row weighted sum of xs, and weight total *)
Definition wdot (w : rk_w) (i : nat) (xs : list Qc) : Qc :=
  match w with
  | WSc w => w * rk_sumQ xs
  | WTen ws => rk_sumQ (map2 Qcmult (nth i ws []) xs)
  end.
Definition wtotal (w : rk_w) (i : nat) (xs : list Qc) : Qc :=
  match w with
  | WSc w => w * zq (Z.of_nat (List.length xs))
  | WTen ws => rk_sumQ (nth i ws [])
  end.
Fixpoint mapi_from {X Y} (i : nat) (f : nat -> X -> Y) (l : list X) : list Y :=
  match l with [] => [] | x :: r => f i x :: mapi_from (S i) f r end.
Definition mapi {X Y} := @mapi_from X Y 0.
Lemma mapi_from_length {X Y} (f : nat -> X -> Y) : forall l i, List.length (mapi_from i f l) = List.length l.
Proof. induction l as [|x l IH]; intros i; cbn; [reflexivity|]. rewrite IH. reflexivity. Qed.

Definition dec_rows (v : val) : option (list (list Qc)) := as_list (as_list as_Q) v.
Definition dec_w (v : val) : option rk_w :=
  match v with
  | VL _ => match dec_rows v with Some ws => Some (WTen ws) | None => None end
  | _ => match as_Q v with Some w => Some (WSc w) | None => None end
  end.

Lemma same_nzeros_nvec : forall l n, List.length l = n -> same (nzeros n) (nvec l) = true.
Proof.
  unfold nzeros, nvec. intros l n <-. rewrite same_arr.
  induction l as [|x l IH]; cbn; [reflexivity|exact IH].
Qed.

(* presentation: a leading singleton task dimension is squeezed (class (1,) vs functional 0-dim) *)
Definition squeeze1 (nt : nat) (l : list val) : val :=
  match nt, l with 1%nat, [x] => x | _, _ => VL l end.

(* ---- CTR: states click_total, weight_total (float64, shape (num_tasks,)) ---- *)
Definition ctr_batch := (list (list Qc) * rk_w)%type.
Definition ctr_valid (nt : nat) (b : ctr_batch) : bool := rows_ok nt (fst b) && w_ok (fst b) (snd b).
Definition ctr_beta (nt : nat) (b : ctr_batch) : nd :=
  Arr [nvec (mapi (wdot (snd b)) (fst b)); nvec (mapi (wtotal (snd b)) (fst b))].
Definition tiny64 : Qc := mkq 1 (Pos.pow 2 1022).     (* torch.finfo(float64).tiny *)
Definition tiny32 : Qc := mkq 1 (Pos.pow 2 126).      (* torch.finfo(float32).tiny *)
Definition ctr_ratio (eps : Qc) (c w : Qc) : Qc := c / (w + eps).
Definition ctr_gamma (nt : nat) (s : nd) : list Qc :=
  map2 (ctr_ratio tiny64) (nlist (nget 0 s)) (nlist (nget 1 s)).
Definition ctr_spec : AddSpec.
Proof.
  refine (Build_AddSpec nat ctr_batch (list Qc) (fun nt => Arr [nzeros nt; nzeros nt]) ctr_valid ctr_beta ctr_gamma _ _).
  - intros c. cbn [is_zero forallb]. rewrite is_zero_nzeros. reflexivity.
  - intros c b Hb. unfold ctr_valid, rows_ok in Hb.
    apply andb_prop in Hb as [Hb _]. apply andb_prop in Hb as [Hl _]. apply Nat.eqb_eq in Hl.
    unfold ctr_beta. rewrite same_arr. cbn [all2].
    rewrite !same_nzeros_nvec by (unfold mapi; rewrite mapi_from_length; exact Hl). reflexivity.
Defined.
Definition ctr_metric := add_metric ctr_spec.
Definition dec_ctr_batch (_ : nat) (v : val) : option ctr_batch := as_pair dec_rows dec_w v.
Definition ctr_codec : Codec ctr_metric := add_codec ctr_spec as_nat dec_ctr_batch (fun nt l => squeeze1 nt (map vq l)).
(* @model rk_ctr run_ctr *)
Definition run_ctr := run_pool ctr_metric ctr_codec.
(* functional: float32 eps; 0-dim result when num_tasks = 1 *)
Definition ctr_fn (nt : nat) (b : ctr_batch) : list Qc :=
  map2 (ctr_ratio tiny32) (mapi (wdot (snd b)) (fst b)) (mapi (wtotal (snd b)) (fst b)).
(* @model rk_ctr_fn run_ctr_fn *)
Definition run_ctr_fn (v : val) : val :=
  match v with
  | VL [cv; bv] => match as_nat cv with
                   | Some nt => match dec_ctr_batch nt bv with
                                | Some b => if ctr_valid nt b then squeeze1 nt (map vq (ctr_fn nt b)) else verr "invalid"
                                | None => vbad end
                   | None => vbad end
  | _ => vbad end.

(* ---- WeightedCalibration: states weighted_input_sum, weighted_target_sum ---- *)
Definition wc_batch := (list (list Qc) * list (list Qc) * rk_w)%type.
Definition wc_in (b : wc_batch) := fst (fst b).
Definition wc_tg (b : wc_batch) := snd (fst b).
Definition wc_valid (nt : nat) (b : wc_batch) : bool :=
  rows_ok nt (wc_in b) && shape_eq (wc_tg b) (wc_in b) && w_ok (wc_in b) (snd b).
Definition wc_beta (nt : nat) (b : wc_batch) : nd :=
  Arr [nvec (mapi (wdot (snd b)) (wc_in b)); nvec (mapi (wdot (snd b)) (wc_tg b))].
(* compute() (after fixes 7c618c5 + ae13937): torch.empty(0) only when nothing was accumulated (all
   weighted_target_sum == 0 AND all weighted_input_sum == 0); otherwise the IEEE quotient per task
   (a task with zero target sum yields nan / +-inf, as in the functional) *)
Definition wc_gamma (nt : nat) (s : nd) : list xq :=
  let i := nlist (nget 0 s) in let t := nlist (nget 1 s) in
  if forallb (fun x => qeq x 0) t && forallb (fun x => qeq x 0) i then [] else map2 qdivx i t.
Lemma shape_eq_length a b : shape_eq a b = true -> List.length a = List.length b.
Proof. unfold shape_eq. intros H. apply andb_prop in H as [H _]. apply Nat.eqb_eq, H. Qed.
Definition wc_spec : AddSpec.
Proof.
  refine (Build_AddSpec nat wc_batch (list xq) (fun nt => Arr [nzeros nt; nzeros nt]) wc_valid wc_beta wc_gamma _ _).
  - intros c. cbn [is_zero forallb]. rewrite is_zero_nzeros. reflexivity.
  - intros c b Hb. unfold wc_valid, rows_ok in Hb.
    apply andb_prop in Hb as [Hb _]. apply andb_prop in Hb as [Hb Hs]. apply andb_prop in Hb as [Hl _].
    apply Nat.eqb_eq in Hl. apply shape_eq_length in Hs.
    unfold wc_beta. rewrite same_arr. cbn [all2].
    rewrite !same_nzeros_nvec by (unfold mapi; rewrite mapi_from_length; congruence). reflexivity.
Defined.
Definition wc_metric := add_metric wc_spec.
Definition dec_wc_batch (_ : nat) (v : val) : option wc_batch :=
  match v with
  | VL [i; t; w] => match dec_rows i, dec_rows t, dec_w w with
                    | Some i, Some t, Some w => Some (i, t, w) | _, _, _ => None end
  | _ => None end.
Definition wc_codec : Codec wc_metric := add_codec wc_spec as_nat dec_wc_batch (fun nt l => squeeze1 nt (map xq_val l)).
(* @model rk_wcal run_wcal *)
Definition run_wcal := run_pool wc_metric wc_codec.
(* functional: plain IEEE division, no empty-result convention *)
Definition wc_fn (nt : nat) (b : wc_batch) : list xq :=
  map2 qdivx (mapi (wdot (snd b)) (wc_in b)) (mapi (wdot (snd b)) (wc_tg b)).
(* @model rk_wcal_fn run_wcal_fn *)
Definition run_wcal_fn (v : val) : val :=
  match v with
  | VL [cv; bv] => match as_nat cv with
                   | Some nt => match dec_wc_batch nt bv with
                                | Some b => if wc_valid nt b then squeeze1 nt (map xq_val (wc_fn nt b)) else verr "invalid"
                                | None => vbad end
                   | None => vbad end
  | _ => vbad end.

(* ------------------------------------------------------------------------------------------
   3. num_collisions, frequency_at_k (functionals)
   ------------------------------------------------------------------------------------------ *)
(* (input.view(1,-1).repeat(n) == input.view(-1,1)).sum(1) - 1 *)
Definition collisions_fn (l : list Z) : list Z :=
  map (fun x => (Z.of_nat (List.length (filter (fun y => Z.eqb y x) l)) - 1)%Z) l.
Definition collisions_spec (l : list Z) : list Z :=
  map (fun x => (Z.of_nat (count_occ Z.eq_dec l x) - 1)%Z) l.
(* @model rk_collisions_fn run_collisions_fn *)
Definition run_collisions_fn (v : val) : val :=
  match v with
  | VL [_; bv] => match as_list as_Z bv with Some l => vlistZ (collisions_fn l) | None => vbad end
  | _ => vbad end.
(* @model rk_collisions_spec run_collisions_spec *)
Definition run_collisions_spec (v : val) : val :=
  match v with
  | VL [_; bv] => match as_list as_Z bv with Some l => vlistZ (collisions_spec l) | None => vbad end
  | _ => vbad end.

(* (input < k).float(); raises for k < 0 *)
Definition frequency_fn (k : Qc) (l : list Qc) : list Qc := map (fun x => if qlt x k then 1 else 0) l.
(* @model rk_frequency_fn run_frequency_fn *)
Definition run_frequency_fn (v : val) : val :=
  match v with
  | VL [kv; bv] => match as_Q kv, as_list as_Q bv with
                   | Some k, Some l => if qlt k 0 then verr "k" else vlistQ (frequency_fn k l)
                   | _, _ => vbad end
  | _ => vbad end.

(* ------------------------------------------------------------------------------------------
   4. RetrievalPrecision / RetrievalRecall
   ------------------------------------------------------------------------------------------ *)
Definition item := (Z * Z)%type.                     (* score on the grid, label *)
(* a comes before (or is interchangeable with) b in the descending order *)
Definition ge2 (a b : item) : bool :=
  (fst b <? fst a)%Z || ((fst a =? fst b)%Z && (snd b <=? snd a)%Z).
Fixpoint ins (x : item) (l : list item) : list item :=
  match l with [] => [x] | y :: r => if ge2 x y then x :: l else y :: ins x r end.
Definition sortd (l : list item) : list item := fold_right ins [] l.
(* get_topk(t, k): t.topk(min(k, n)), k None -> n: values sorted in descending order *)
Definition topk (k : option nat) (l : list item) : list item :=
  match k with None => sortd l | Some k => firstn k (sortd l) end.

Definition sumlab (l : list item) : Z := rk_sumZ (map snd l).
(* retrieval_precision / retrieval_recall functionals on one row *)
Definition nb_retrieved (k : option nat) (lim : bool) (n : nat) : nat :=
  match k with None => n | Some k => if lim then Nat.min k n else k end.
Definition prec_fn (k : option nat) (lim : bool) (l : list item) : xq :=
  qdivx (zq (sumlab (topk k l))) (zq (Z.of_nat (nb_retrieved k lim (List.length l)))).
Definition rec_fn (k : option nat) (l : list item) : xq :=
  qdivx (zq (sumlab (topk k l))) (zq (sumlab l)).

(* specification by explicit ranking: rank = number of strictly greater scores; an item is
   retrieved iff its rank is below k *)
Definition irank (z : Z) (l : list item) : nat := List.length (filter (fun y => (z <? fst y)%Z) l).
Definition retrieved (k : option nat) (l : list item) : list item :=
  match k with None => l | Some k => filter (fun x => Nat.ltb (irank (fst x) l) k) l end.
Definition prec_spec (k : option nat) (lim : bool) (l : list item) : xq :=
  qdivx (zq (sumlab (retrieved k l))) (zq (Z.of_nat (nb_retrieved k lim (List.length l)))).
Definition rec_spec (k : option nat) (l : list item) : xq :=
  qdivx (zq (sumlab (retrieved k l))) (zq (sumlab l)).

Inductive action := ANeg | APos | ASkip | AErr.
Record rcfg := { r_act : action; r_k : option nat; r_lim : bool; r_nq : nat; r_macro : bool; r_den : positive }.
Definition rbatch := (list Z * list Z * option (list Z))%type.   (* input, target, indexes *)
Definition rb_in (b : rbatch) := fst (fst b).
Definition rb_tg (b : rbatch) := snd (fst b).
Definition rb_ix (b : rbatch) := snd b.
Definition rstate := list (list item).                (* per query: retained items, in state order *)

Definition rvalid (c : rcfg) (b : rbatch) : bool :=
  Nat.eqb (List.length (rb_in b)) (List.length (rb_tg b)) &&
  (Nat.eqb (r_nq c) 1 ||
   match rb_ix b with Some ix => Nat.eqb (List.length ix) (List.length (rb_in b)) | None => false end).

(* items of a batch that belong to query i; None = update_single_query is not called for i *)
Definition rsel (nq i : nat) (b : rbatch) : option (list item) :=
  let its := combine (rb_in b) (rb_tg b) in
  if Nat.eqb nq 1 then Some its
  else match rb_ix b with
       | None => None
       | Some ix => if existsb (Z.eqb (Z.of_nat i)) ix
                    then Some (map fst (filter (fun p => Z.eqb (snd p) (Z.of_nat i)) (combine its ix)))
                    else None
       end.
(* update_single_query: cat, topk, gather *)
Definition rupd1 (c : rcfg) (i : nat) (b : rbatch) (si : list item) : list item :=
  match rsel (r_nq c) i b with Some its => topk (r_k c) (si ++ its) | None => si end.
Definition rupd (c : rcfg) (s : rstate) (b : rbatch) : rstate := mapi (fun i si => rupd1 c i b si) s.
(* merge_state: per query, cat of own and the sources' tensors (NOT re-pruned) *)
Definition rmrg (c : rcfg) (s : rstate) (ms : list rstate) : rstate :=
  mapi (fun i si => si ++ flat_map (fun m => nth i m []) ms) s.

Definition has1 (l : list item) : bool := existsb (fun p => Z.eqb (snd p) 1) l.
Definition act_val (a : action) : option xq :=
  match a with ANeg => Some (Fin 0) | APos => Some (Fin 1) | ASkip => Some NaN | AErr => None end.
(* one query of compute(): None = raises *)
Definition rquery (recall : bool) (c : rcfg) (l : list item) : option xq :=
  if is_nil l then Some NaN
  else if negb (has1 l) then act_val (r_act c)
  else Some (if recall then rec_fn (r_k c) l else prec_fn (r_k c) (r_lim c) l).
Inductive rout := RErr | RVec (l : list xq) | RAvg (x : xq).
Definition nanmean (l : list xq) : xq := xmean (filter (fun x => negb (is_nan x)) l).
Definition rfinish (c : rcfg) (qs : list (option xq)) : rout :=
  match omap (fun x => x) qs with
  | None => RErr
  | Some l => if r_macro c then RAvg (nanmean l) else RVec l
  end.
Definition rcmp (recall : bool) (c : rcfg) (s : rstate) : rout := rfinish c (map (rquery recall c) s).

Definition retr_metric (recall : bool) : Metric :=
  plain rcfg rstate rbatch rout (fun c => repeat [] (r_nq c)) rvalid rupd rmrg (rcmp recall) (fun _ s => s).

(* the definition applied to ALL data seen for a query: empty-target policy only when there is no
   relevant item at all *)
Definition rquery_spec (recall : bool) (c : rcfg) (l : list item) : option xq :=
  if is_nil l then Some NaN
  else if negb (has1 l) then act_val (r_act c)
  else Some (if recall then rec_spec (r_k c) l else prec_spec (r_k c) (r_lim c) l).
Definition rdata (c : rcfg) (i : nat) (bs : list rbatch) : list item :=
  flat_map (fun b => match rsel (r_nq c) i b with Some its => its | None => [] end) bs.
Definition rclass_spec (recall : bool) (c : rcfg) (bs : list rbatch) : rout :=
  rfinish c (map (fun i => rquery_spec recall c (rdata c i bs)) (seq 0 (r_nq c))).

(* codecs *)
Definition dec_action (v : val) : option action :=
  match v with
  | VZ 0 => Some ANeg | VZ 1 => Some APos | VZ 2 => Some ASkip | VZ 3 => Some AErr | _ => None end.
Definition dec_pos (v : val) : option positive :=
  match v with VZ (Zpos p) => Some p | _ => None end.
(* cfg = [action; k|none; limit; num_queries; macro; den] *)
Definition dec_rcfg (v : val) : option rcfg :=
  match v with
  | VL [a; k; lim; nq; mac; den] =>
      match dec_action a, dec_onat k, as_B lim, as_nat nq, as_B mac, dec_pos den with
      | Some a, Some k, Some lim, Some nq, Some mac, Some den =>
          match k with
          | Some O => None
          | None => if lim then None else Some (Build_rcfg a k lim nq mac den)
          | _ => Some (Build_rcfg a k lim nq mac den)
          end
      | _, _, _, _, _, _ => None end
  | _ => None end.
Definition dec_rbatch (_ : rcfg) (v : val) : option rbatch :=
  match v with
  | VL [i; t; ix] => match as_list as_Z i, as_list as_Z t, as_opt (as_list as_Z) ix with
                     | Some i, Some t, Some ix => Some (i, t, ix) | _, _, _ => None end
  | _ => None end.
(* registered states in sorted-name order: target, topk; each a list (per query) of 1-D tensors *)
Definition enc_rstate (c : rcfg) (s : rstate) : val :=
  VL [VL (map (fun q => vlistZ (map snd q)) s);
      VL (map (fun q => VL (map (fun it => vq (mkq (fst it) (r_den c))) q)) s)].
Definition enc_rout (_ : rcfg) (o : rout) : val :=
  match o with RErr => verr "empty-target" | RVec l => vlistX l | RAvg x => xq_val x end.
Definition retr_codec (recall : bool) : Codec (retr_metric recall) :=
  Build_Codec (retr_metric recall) dec_rcfg dec_rbatch enc_rstate enc_rout.

(* @model rk_rprec run_rprec *)
Definition run_rprec := run_pool (retr_metric false) (retr_codec false).
(* @model rk_rrecall run_rrecall *)
Definition run_rrecall := run_pool (retr_metric true) (retr_codec true).

(* class-level definition on all data: input VL [cfg; VL batches] *)
Definition run_rclass_spec (recall : bool) (v : val) : val :=
  match v with
  | VL [cv; VL bvs] =>
      match dec_rcfg cv with
      | Some c => match omap (dec_rbatch c) bvs with
                  | Some bs => if forallb (rvalid c) bs then enc_rout c (rclass_spec recall c bs) else verr "invalid"
                  | None => vbad end
      | None => VT "badcfg" [] end
  | _ => vbad end.
(* @model rk_rprec_class_spec run_rprec_class_spec *)
Definition run_rprec_class_spec := run_rclass_spec false.
(* @model rk_rrecall_class_spec run_rrecall_class_spec *)
Definition run_rrecall_class_spec := run_rclass_spec true.

(* functionals: cfg = [k|none (any integer); limit; num_tasks; den], batch = [rows of scores; rows of labels] *)
Definition dec_zrows (v : val) : option (list (list Z)) := as_list (as_list as_Z) v.
Definition zrows_ok (nt : nat) (a b : list (list Z)) : bool :=
  Nat.eqb (List.length a) nt && Nat.eqb (List.length b) nt &&
  forallb (fun p => Nat.eqb (List.length (fst p)) (List.length (snd p))) (combine a b) &&
  match a with [] => true | r :: _ => forallb (fun r' => Nat.eqb (List.length r') (List.length r)) a end.
Definition run_retr_fn (f : option nat -> bool -> list item -> xq) (v : val) : val :=
  match v with
  | VL [VL [kv; limv; ntv; _]; VL [iv; tv]] =>
      match dec_oZ kv, as_B limv, as_nat ntv, dec_zrows iv, dec_zrows tv with
      | Some k, Some lim, Some nt, Some ins, Some tgs =>
          if match k with Some k => (k <=? 0)%Z | None => lim end then verr "param"
          else if negb (zrows_ok nt ins tgs) then verr "invalid"
          else squeeze1 nt (map (fun p => xq_val (f (option_map Z.to_nat k) lim (combine (fst p) (snd p)))) (combine ins tgs))
      | _, _, _, _, _ => vbad end
  | _ => vbad end.
(* @model rk_rprec_fn run_rprec_fn *)
Definition run_rprec_fn := run_retr_fn prec_fn.
(* @model rk_rprec_spec run_rprec_spec *)
Definition run_rprec_spec := run_retr_fn prec_spec.
(* @model rk_rrecall_fn run_rrecall_fn *)
Definition run_rrecall_fn := run_retr_fn (fun k _ => rec_fn k).
(* @model rk_rrecall_spec run_rrecall_spec *)
Definition run_rrecall_spec := run_retr_fn (fun k _ => rec_spec k).
