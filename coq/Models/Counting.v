(* Count-based classification metrics (C04): accuracy (multiclass incl. top-k, binary, multilabel,
   top-k multilabel), precision, recall, F1 (binary / multiclass, every average), confusion matrices
   (every normalisation).  Each class is an AddSpec: state = sums of per-batch counts.

   algo  : mirrors torcheval/metrics/functional/classification/*.py step by step
           (where(input < t, 0, 1); argmax = first maximal index; gather + "strictly greater" rank;
           boolean-mask indexing; scatter_(reduce="add"); sparse-COO accumulation; masks, nan_to_num,
           F.normalize with its max(norm, eps) denominator) -- bugs included;
   spec  : counts tp / fp / fn per class directly and applies the textbook ratio with the documented
           convention for undefined ratios.
   Scores, thresholds and labels are integers (scores: numerators on a dyadic grid).  Elementwise
   operations on two aligned tensors are modelled as maps over the zipped per-sample list ([valid]
   guarantees equal lengths, as the input checks of the code do). *)
From Coq Require Import ZArith List Bool QArith Qcanon String Lia.
From TE Require Import Base.Val Base.Nd Base.Xq Algebra.Metric Algebra.MergeTree Algebra.Pool Algebra.Additive.
Import ListNotations.
Open Scope Z_scope.

(* ------------------------------------------------------------------------------------------ *)
(* basics                                                                                      *)
(* ------------------------------------------------------------------------------------------ *)
Definition z2q (z : Z) : Qc := mkq z 1.
Definition zsc (z : Z) : nd := Sc (z2q z).
Definition zvec (l : list Z) : nd := nvec (map z2q l).
Definition zmat (m : list (list Z)) : nd := Arr (map zvec m).
Definition sumZ (l : list Z) : Z := fold_right Z.add 0 l.
Definition b2z (b : bool) : Z := if b then 1 else 0.
Definition cnt {X} (P : X -> bool) (l : list X) : Z := Z.of_nat (List.length (filter P l)).
Definition lenZ {X} (l : list X) : Z := Z.of_nat (List.length l).
Definition classes (n : nat) : list Z := map Z.of_nat (seq 0 n).
Definition inrange (n : nat) (z : Z) : bool := (0 <=? z) && (z <? Z.of_nat n).
Definition is01 (z : Z) : bool := (z =? 0) || (z =? 1).

(* torch.where(input < threshold, 0, 1) *)
Definition thresh (t s : Z) : Z := if s <? t then 0 else 1.

(* torch.argmax(dim=1) on one row: the first maximal index *)
Fixpoint argmax_go (best bi i : Z) (l : list Z) : Z :=
  match l with
  | [] => bi
  | x :: r => if best <? x then argmax_go x i (i + 1) r else argmax_go best bi (i + 1) r
  end.
Definition argmax (row : list Z) : Z := match row with [] => 0 | x :: r => argmax_go x 0 1 r end.
(* spec: the least index whose entry is >= every entry *)
Definition first_max (row : list Z) : Z :=
  match find (fun i => forallb (fun x => x <=? nth i row 0) row) (seq 0 (List.length row)) with
  | Some i => Z.of_nat i | None => 0 end.

(* in-place update of one position (negative / out-of-range index: invalid input, left unchanged) *)
Fixpoint upd_nth {X} (n : nat) (f : X -> X) (l : list X) : list X :=
  match l, n with
  | [], _ => []
  | x :: r, O => f x :: r
  | x :: r, S n => x :: upd_nth n f r
  end.
Definition upd_at {X} (i : Z) (f : X -> X) (l : list X) : list X :=
  if i <? 0 then l else upd_nth (Z.to_nat i) f l.

(* zeros(n).scatter_(0, idx, src, reduce="add") : sequential accumulation *)
Definition scatter_add (n : nat) (idx src : list Z) : list Z :=
  fold_left (fun acc p => upd_at (fst p) (Z.add (snd p)) acc) (combine idx src) (repeat 0 n).
Definition scatter_ones (n : nat) (idx : list Z) : list Z := scatter_add n idx (map (fun _ => 1) idx).

(* sparse_coo_tensor(vstack(target, input), ones, (n, n)).to_dense(): duplicates are summed.
   a sample is (prediction, target); row = target, column = prediction *)
Definition coo_dense (n : nat) (ps : list (Z * Z)) : list (list Z) :=
  fold_left (fun m p => upd_at (snd p) (upd_at (fst p) (Z.add 1)) m) ps (repeat (repeat 0 n) n).

(* multiclass input: predicted labels (1-D) or scores / logits (2-D) *)
Inductive mcin := Labels (l : list Z) | Logits (rows : list (list Z)).
Definition mc_len (i : mcin) : nat := match i with Labels l => List.length l | Logits r => List.length r end.
Definition preds (i : mcin) : list Z := match i with Labels l => l | Logits rows => map argmax rows end.
Definition preds_spec (i : mcin) : list Z := match i with Labels l => l | Logits rows => map first_max rows end.
Definition mcbatch := (mcin * list Z)%type.
(* per-sample (prediction, target) *)
Definition pairs (b : mcbatch) : list (Z * Z) := combine (preds (fst b)) (snd b).
Definition pairs_spec (b : mcbatch) : list (Z * Z) := combine (preds_spec (fst b)) (snd b).

Definition width (rows : list (list Z)) : nat := match rows with r :: _ => List.length r | [] => 0%nat end.
Definition rect (w : nat) (rows : list (list Z)) : bool := forallb (fun r => Nat.eqb (List.length r) w) rows.
(* the shape part of _*_update_input_check *)
Definition mc_shape_ok (nc : option nat) (b : mcbatch) : bool :=
  Nat.eqb (mc_len (fst b)) (List.length (snd b)) &&
  match fst b with
  | Labels _ => true
  | Logits rows => let w := width rows in
      Nat.leb 1 w && rect w rows && match nc with Some n => Nat.eqb w n | None => true end
  end.
Definition ncls (nc : option nat) : nat := match nc with Some n => n | None => 0%nat end.

Inductive avg := Micro | Macro | Weighted | NoAvg.
Definition is_micro (a : avg) : bool := match a with Micro => true | _ => false end.

(* results: scalar / vector / matrix of extended rationals, or a raised exception *)
Inductive res := RS (x : xq) | RV (l : list xq) | RM (m : list (list xq)) | RErr (k : string).
Definition res_val (r : res) : val :=
  match r with RS x => xq_val x | RV l => vlistX l | RM m => VL (map vlistX m) | RErr k => verr k end.
Definition is_err (r : res) : bool := match r with RErr _ => true | _ => false end.

(* state field access (fields in sorted-name order) *)
Definition fld (i : nat) (s : nd) : list Qc := nlist (nget i s).
Definition fsc (i : nat) (s : nd) : Qc := nsc (nget i s).
Definition nz (q : Qc) : bool := negb (qeq q 0).
Definition qsum (l : list Qc) : Qc := fold_right Qcplus 0%Qc l.

(* shapes *)
Lemma same_nvec a b : List.length a = List.length b -> same (nvec a) (nvec b) = true.
Proof.
  unfold nvec. rewrite same_arr. revert b. induction a as [|x a IH]; intros [|y b] H; cbn in *; try discriminate; [reflexivity|].
  apply IH. lia.
Qed.
Lemma same_nzeros_zvec n l : List.length l = n -> same (nzeros n) (zvec l) = true.
Proof. intros H. apply same_nvec. rewrite repeat_length, map_length. lia. Qed.
Lemma upd_nth_length {X} (f : X -> X) : forall l n, List.length (upd_nth n f l) = List.length l.
Proof. induction l as [|x l IH]; intros [|n]; cbn; try reflexivity. rewrite IH. reflexivity. Qed.
Lemma upd_at_length {X} i (f : X -> X) l : List.length (upd_at i f l) = List.length l.
Proof. unfold upd_at. destruct (i <? 0); [reflexivity|apply upd_nth_length]. Qed.
Lemma scatter_add_length n idx src : List.length (scatter_add n idx src) = n.
Proof.
  unfold scatter_add. generalize (combine idx src) as ps. intros ps.
  assert (H : forall ps acc, List.length (fold_left (fun acc p => upd_at (fst p) (Z.add (snd p)) acc) ps acc) = List.length acc).
  { induction ps0 as [|p ps0 IH]; intros acc; cbn [fold_left]; [reflexivity|]. rewrite IH. apply upd_at_length. }
  rewrite H. apply repeat_length.
Qed.
Lemma same2 a b c d : same a c = true -> same b d = true -> same (Arr [a; b]) (Arr [c; d]) = true.
Proof. intros H1 H2. rewrite same_arr. cbn [all2]. rewrite H1, H2. reflexivity. Qed.
Lemma same3 a b c a' b' c' : same a a' = true -> same b b' = true -> same c c' = true ->
  same (Arr [a; b; c]) (Arr [a'; b'; c']) = true.
Proof. intros H1 H2 H3. rewrite same_arr. cbn [all2]. rewrite H1, H2, H3. reflexivity. Qed.
Lemma is_zero_arr2 a b : is_zero a = true -> is_zero b = true -> is_zero (Arr [a; b]) = true.
Proof. intros H1 H2. cbn [is_zero forallb]. rewrite H1, H2. reflexivity. Qed.
Lemma is_zero_arr3 a b c : is_zero a = true -> is_zero b = true -> is_zero c = true -> is_zero (Arr [a; b; c]) = true.
Proof. intros H1 H2 H3. cbn [is_zero forallb]. rewrite H1, H2, H3. reflexivity. Qed.
Lemma is_zero_sc0 : is_zero (Sc 0%Qc) = true.
Proof. cbn. destruct (Qc_eq_dec 0 0); congruence. Qed.

Definition zeros2v (n : nat) : nd := Arr [nzeros n; nzeros n].
Definition zeros3v (n : nat) : nd := Arr [nzeros n; nzeros n; nzeros n].
Definition zeros2s : nd := Arr [Sc 0%Qc; Sc 0%Qc].
Definition zeros3s : nd := Arr [Sc 0%Qc; Sc 0%Qc; Sc 0%Qc].

(* ------------------------------------------------------------------------------------------ *)
(* Accuracy                                                                                    *)
(* ------------------------------------------------------------------------------------------ *)
(* --- MulticlassAccuracy: cfg = (average, num_classes, k); states num_correct, num_total --- *)
Definition acc_cfg := (avg * option nat * nat)%type.
Definition acc_avg (c : acc_cfg) := fst (fst c).
Definition acc_nc (c : acc_cfg) := snd (fst c).
Definition acc_k (c : acc_cfg) := snd c.

Definition gather (row : list Z) (y : Z) : Z := nth (Z.to_nat y) row 0.
(* per-sample (mask, target):
   k = 1: mask = (argmax(input) == target);  k > 1: rank = (input > input[target]).sum(); mask = rank < k *)
Definition acc_mask (c : acc_cfg) (b : mcbatch) : list (Z * Z) :=
  if Nat.eqb (acc_k c) 1 then map (fun py => (b2z (fst py =? snd py), snd py)) (pairs b)
  else match fst b with
       | Logits rows =>
           map (fun ry => let ys := gather (fst ry) (snd ry) in
                          let rank := sumZ (map (fun s => b2z (ys <? s)) (fst ry)) in
                          (b2z (rank <? Z.of_nat (acc_k c)), snd ry)) (combine rows (snd b))
       | Labels _ => []
       end.
Definition acc_beta (c : acc_cfg) (b : mcbatch) : nd :=
  let ms := acc_mask c b in
  if is_micro (acc_avg c) then Arr [zsc (sumZ (map fst ms)); zsc (lenZ (snd b))]
  else let n := ncls (acc_nc c) in
       Arr [zvec (scatter_add n (map snd ms) (map fst ms)); zvec (scatter_ones n (snd b))].
Definition acc_valid (c : acc_cfg) (b : mcbatch) : bool :=
  mc_shape_ok (acc_nc c) b &&
  (if Nat.eqb (acc_k c) 1 then true
   else match fst b with Logits rows => forallb (inrange (width rows)) (snd b) | Labels _ => false end) &&
  (if is_micro (acc_avg c) then true else forallb (inrange (ncls (acc_nc c))) (snd b)).

(* _accuracy_compute *)
Definition acc_gamma_avg (a : avg) (s : nd) : res :=
  match a with
  | Micro => RS (qdivx (fsc 0 s) (fsc 1 s))
  | Macro => let kept := filter (fun ct => nz (snd ct)) (combine (fld 0 s) (fld 1 s)) in
             RS (xmean (map (fun ct => qdivx (fst ct) (snd ct)) kept))
  | _ => RV (map (fun ct => qdivx (fst ct) (snd ct)) (combine (fld 0 s) (fld 1 s)))
  end.
Definition acc_zero (a : avg) (nc : option nat) : nd := if is_micro a then zeros2s else zeros2v (ncls nc).
Lemma acc_zero_zero a nc : is_zero (acc_zero a nc) = true.
Proof.
  unfold acc_zero. destruct (is_micro a).
  - apply is_zero_arr2; apply is_zero_sc0.
  - apply is_zero_arr2; apply is_zero_nzeros.
Qed.

Definition mcacc_spec : AddSpec.
Proof.
  refine (Build_AddSpec acc_cfg mcbatch res (fun c => acc_zero (acc_avg c) (acc_nc c)) acc_valid acc_beta
            (fun c => acc_gamma_avg (acc_avg c)) _ _).
  - intros c. apply acc_zero_zero.
  - intros c b _. unfold acc_zero, acc_beta. destruct (is_micro (acc_avg c)); [reflexivity|].
    apply same2; apply same_nzeros_zvec; apply scatter_add_length.
Defined.

(* --- Binary / Multilabel / TopKMultilabel accuracy: scalar states, micro compute --- *)
Definition binbatch := (list Z * list Z)%type.           (* scores, targets *)
Definition bin_valid (b : binbatch) : bool :=
  Nat.eqb (List.length (fst b)) (List.length (snd b)) && forallb is01 (snd b).
(* per-sample (thresholded prediction, target) *)
Definition bin_pairs (t : Z) (b : binbatch) : list (Z * Z) := combine (map (thresh t) (fst b)) (snd b).

Definition binacc_beta (t : Z) (b : binbatch) : nd :=
  Arr [zsc (sumZ (map (fun py => b2z (fst py =? snd py)) (bin_pairs t b))); zsc (lenZ (snd b))].
Definition binacc_spec : AddSpec.
Proof.
  refine (Build_AddSpec Z binbatch res (fun _ => zeros2s) (fun _ => bin_valid) binacc_beta
            (fun _ => acc_gamma_avg Micro) _ _).
  - intros c. apply acc_zero_zero with (a := Micro) (nc := None).
  - intros c b _. reflexivity.
Defined.

Inductive crit := ExactMatch | Hamming | Overlap | Contain | Belong.
Definition mlbatch := (list (list Z) * list (list Z))%type.    (* score rows, target rows *)
Definition ml_shape_ok (b : mlbatch) : bool :=
  let w := width (fst b) in
  Nat.eqb (List.length (fst b)) (List.length (snd b)) && Nat.leb 1 w && rect w (fst b) && rect w (snd b)
  && forallb (forallb is01) (snd b).
(* _multilabel_update on rows of (input_label, target) pairs: (num_correct, num_total) *)
Definition ml_update (cr : crit) (rows : list (list (Z * Z))) : Z * Z :=
  match cr with
  | ExactMatch => (sumZ (map (fun r => b2z (forallb (fun py => fst py =? snd py) r)) rows), lenZ rows)
  | Hamming => (sumZ (map (fun r => sumZ (map (fun py => b2z (fst py =? snd py)) r)) rows), sumZ (map lenZ rows))
  | Overlap => (sumZ (map (fun r => b2z (existsb (fun py => (fst py =? snd py) && (fst py =? 1)) r)) rows)
                + sumZ (map (fun r => b2z (forallb (fun py => (fst py =? 0) && (snd py =? 0)) r)) rows), lenZ rows)
  | Contain => (sumZ (map (fun r => b2z (forallb (fun py => 0 <=? fst py - snd py) r)) rows), lenZ rows)
  | Belong => (sumZ (map (fun r => b2z (forallb (fun py => fst py - snd py <=? 0) r)) rows), lenZ rows)
  end.
Definition ml_rows (t : Z) (b : mlbatch) : list (list (Z * Z)) :=
  map (fun rr => combine (map (thresh t) (fst rr)) (snd rr)) (combine (fst b) (snd b)).
Definition ml_cfg := (Z * crit)%type.
Definition mlacc_beta (c : ml_cfg) (b : mlbatch) : nd :=
  let r := ml_update (snd c) (ml_rows (fst c) b) in Arr [zsc (fst r); zsc (snd r)].
Definition mlacc_spec : AddSpec.
Proof.
  refine (Build_AddSpec ml_cfg mlbatch res (fun _ => zeros2s) (fun _ => ml_shape_ok) mlacc_beta
            (fun _ => acc_gamma_avg Micro) _ _).
  - intros c. apply acc_zero_zero with (a := Micro) (nc := None).
  - intros c b _. reflexivity.
Defined.

(* TopKMultilabelAccuracy.  torch.topk leaves the choice among tied scores unspecified (and the CPU
   kernel does not pick the first indices), so the indices returned by topk are part of the batch
   ([sel], one index list per row, supplied by the harness from the same torch call) and [valid]
   checks that they are ADMISSIBLE: k distinct in-range indices, none of whose scores is below the
   score of an unselected index.  Theorems quantify over every admissible selection. *)
Definition tkbatch := (list (list Z) * list (list Z) * list (list Z))%type.   (* score rows, target rows, topk indices *)
Definition tk_scores (b : tkbatch) := fst (fst b).
Definition tk_targets (b : tkbatch) := snd (fst b).
Definition tk_sel (b : tkbatch) := snd b.
Definition memZ (i : Z) (l : list Z) : bool := existsb (Z.eqb i) l.
Fixpoint nodupZ (l : list Z) : bool := match l with [] => true | x :: r => negb (memZ x r) && nodupZ r end.
Definition admissible (k : nat) (row sel : list Z) : bool :=
  Nat.eqb (List.length sel) k && nodupZ sel && forallb (inrange (List.length row)) sel &&
  forallb (fun i => forallb (fun j => memZ j sel || (gather row j <=? gather row i)) (classes (List.length row))) sel.
(* zeros(input.size()).scatter_(-1, topk.indices, 1.0) *)
Definition tk_label (row sel : list Z) : list Z :=
  fold_left (fun acc i => upd_at i (fun _ => 1) acc) sel (repeat 0 (List.length row)).
Definition tk_rows (b : tkbatch) : list (list (Z * Z)) :=
  map (fun rst => combine (tk_label (fst (fst rst)) (snd rst)) (snd (fst rst)))
      (combine (combine (tk_scores b) (tk_targets b)) (tk_sel b)).
Definition tk_cfg := (crit * nat)%type.
Definition tk_valid (c : tk_cfg) (b : tkbatch) : bool :=
  ml_shape_ok (tk_scores b, tk_targets b) && Nat.leb (snd c) (width (tk_scores b)) &&
  Nat.eqb (List.length (tk_sel b)) (List.length (tk_scores b)) &&
  forallb (fun rs => admissible (snd c) (fst rs) (snd rs)) (combine (tk_scores b) (tk_sel b)).
Definition tkacc_beta (c : tk_cfg) (b : tkbatch) : nd :=
  let r := ml_update (fst c) (tk_rows b) in Arr [zsc (fst r); zsc (snd r)].
Definition tkacc_spec : AddSpec.
Proof.
  refine (Build_AddSpec tk_cfg tkbatch res (fun _ => zeros2s) tk_valid tkacc_beta
            (fun _ => acc_gamma_avg Micro) _ _).
  - intros c. apply acc_zero_zero with (a := Micro) (nc := None).
  - intros c b _. reflexivity.
Defined.

(* ------------------------------------------------------------------------------------------ *)
(* Precision: states num_fp, num_label, num_tp (sorted-name order)                             *)
(* ------------------------------------------------------------------------------------------ *)
Definition prf_cfg := (avg * option nat)%type.
Definition sel_eq (ps : list (Z * Z)) := filter (fun py => fst py =? snd py) ps.       (* input == target *)
Definition sel_ne (ps : list (Z * Z)) := filter (fun py => negb (fst py =? snd py)) ps. (* input != target *)
Definition prf_zero (c : prf_cfg) : nd := if is_micro (fst c) then zeros3s else zeros3v (ncls (snd c)).
Lemma prf_zero_zero c : is_zero (prf_zero c) = true.
Proof.
  unfold prf_zero. destruct (is_micro (fst c)).
  - apply is_zero_arr3; apply is_zero_sc0.
  - apply is_zero_arr3; apply is_zero_nzeros.
Qed.
(* labels (targets, and predictions when they are scattered) must be class indices when per-class
   states are used *)
Definition prf_valid (c : prf_cfg) (b : mcbatch) : bool :=
  mc_shape_ok (snd c) b &&
  (if is_micro (fst c) then true
   else forallb (inrange (ncls (snd c))) (snd b) && forallb (inrange (ncls (snd c))) (preds (fst b))).

Definition prec_beta (c : prf_cfg) (b : mcbatch) : nd :=
  let ps := pairs b in
  if is_micro (fst c) then Arr [zsc (lenZ (sel_ne ps)); zsc 0; zsc (lenZ (sel_eq ps))]
  else let n := ncls (snd c) in
       Arr [zvec (scatter_ones n (map fst (sel_ne ps)));       (* num_fp: input[input != target] *)
            zvec (scatter_ones n (map snd ps));                 (* num_label *)
            zvec (scatter_ones n (map snd (sel_eq ps)))].       (* num_tp: target[input == target] *)

Local Open Scope Qc_scope.
Definition prec1 (t f : Qc) : xq := nan_to_zero (qdivx t (t + f)).
(* _precision_compute; a row is (fp, (label, tp)) *)
Definition prec_gamma (c : prf_cfg) (s : nd) : res :=
  match fst c with
  | Micro => RS (prec1 (fsc 2 s) (fsc 0 s))
  | NoAvg => RV (map (fun ft => prec1 (snd ft) (fst ft)) (combine (fld 0 s) (fld 2 s)))
  | a =>
      let rows := combine (fld 0 s) (combine (fld 1 s) (fld 2 s)) in
      let kept := filter (fun r => nz (fst (snd r)) || nz (snd (snd r) + fst r)) rows in
      let prec := map (fun r => prec1 (snd (snd r)) (fst r)) kept in
      match a with
      | Macro => RS (xmean prec)
      | _ => RS (xsum (map2 xmul prec (map (fun r => qdivx (fst (snd r)) (qsum (fld 1 s))) kept)))
      end
  end.
Local Close Scope Qc_scope.

Definition mcprec_spec : AddSpec.
Proof.
  refine (Build_AddSpec prf_cfg mcbatch res prf_zero prf_valid prec_beta prec_gamma _ _).
  - exact prf_zero_zero.
  - intros c b _. unfold prf_zero, prec_beta. destruct (is_micro (fst c)); [reflexivity|].
    apply same3; apply same_nzeros_zvec; apply scatter_add_length.
Defined.

(* BinaryPrecision: super().__init__(num_classes=2) keeps average="micro": scalar states *)
Definition binprec_beta (t : Z) (b : binbatch) : nd :=
  let ps := bin_pairs t b in
  let tp := sumZ (map (fun py => fst py * snd py) ps) in
  Arr [zsc (sumZ (map fst ps) - tp); zsc 0; zsc tp].
Definition binprec_spec : AddSpec.
Proof.
  refine (Build_AddSpec Z binbatch res (fun _ => zeros3s) (fun _ => bin_valid) binprec_beta
            (fun _ => prec_gamma (Micro, None)) _ _).
  - intros c. apply (prf_zero_zero (Micro, None)).
  - intros c b _. reflexivity.
Defined.

(* ------------------------------------------------------------------------------------------ *)
(* Recall: states num_labels, num_predictions, num_tp;  BinaryRecall: num_tp, num_true_labels   *)
(* ------------------------------------------------------------------------------------------ *)
Definition rec_beta (c : prf_cfg) (b : mcbatch) : nd :=
  let ps := pairs b in
  if is_micro (fst c) then Arr [zsc (lenZ (snd b)); zsc (lenZ (snd b)); zsc (lenZ (sel_eq ps))]
  else let n := ncls (snd c) in
       Arr [zvec (scatter_ones n (map snd ps)); zvec (scatter_ones n (map fst ps));
            zvec (scatter_ones n (map snd (sel_eq ps)))].

Local Open Scope Qc_scope.
Definition rec1 (t l : Qc) : xq := nan_to_zero (qdivx t l).
(* _recall_compute; a row is (labels, (predictions, tp)).  average="weighted": num_labels has already been
   restricted to the kept classes, weights = num_labels / num_labels.sum()  (repo fix df6abea; before it the
   masked tensor was indexed with the full-size mask and raised IndexError when a class was absent) *)
Definition rec_gamma (c : prf_cfg) (s : nd) : res :=
  match fst c with
  | Micro => RS (rec1 (fsc 2 s) (fsc 0 s))
  | NoAvg => RV (map (fun lt => rec1 (snd lt) (fst lt)) (combine (fld 0 s) (fld 2 s)))
  | a =>
      let rows := combine (fld 0 s) (combine (fld 1 s) (fld 2 s)) in
      let mask := fun r : Qc * (Qc * Qc) => nz (fst r) || nz (fst (snd r)) in
      let kept := filter mask rows in
      let rc := map (fun r => rec1 (snd (snd r)) (fst r)) kept in
      match a with
      | Macro => RS (xmean rc)
      | _ => RS (xsum (map2 xmul rc (map (fun r => qdivx (fst r) (qsum (map fst kept))) kept)))
      end
  end.
Local Close Scope Qc_scope.

Definition mcrec_spec : AddSpec.
Proof.
  refine (Build_AddSpec prf_cfg mcbatch res prf_zero prf_valid rec_beta rec_gamma _ _).
  - exact prf_zero_zero.
  - intros c b _. unfold prf_zero, rec_beta. destruct (is_micro (fst c)); [reflexivity|].
    apply same3; apply same_nzeros_zvec; apply scatter_add_length.
Defined.

(* BinaryRecall: num_tp = (input & target).sum(), num_true_labels = target.sum() *)
Definition binrec_beta (t : Z) (b : binbatch) : nd :=
  let ps := bin_pairs t b in
  Arr [zsc (sumZ (map (fun py => Z.land (fst py) (snd py)) ps)); zsc (sumZ (map snd ps))].
Definition binrec_gamma (_ : Z) (s : nd) : res := RS (rec1 (fsc 0 s) (fsc 1 s)).
Definition binrec_spec : AddSpec.
Proof.
  refine (Build_AddSpec Z binbatch res (fun _ => zeros2s) (fun _ => bin_valid) binrec_beta binrec_gamma _ _).
  - intros c. apply acc_zero_zero with (a := Micro) (nc := None).
  - intros c b _. reflexivity.
Defined.

(* ------------------------------------------------------------------------------------------ *)
(* F1: states num_label, num_prediction, num_tp                                                *)
(* ------------------------------------------------------------------------------------------ *)
Definition f1_beta (c : prf_cfg) (b : mcbatch) : nd :=
  let ps := pairs b in
  if is_micro (fst c) then Arr [zsc (lenZ (snd b)); zsc (lenZ (snd b)); zsc (lenZ (sel_eq ps))]
  else let n := ncls (snd c) in
       Arr [zvec (scatter_ones n (map snd ps)); zvec (scatter_ones n (map fst ps));
            zvec (scatter_ones n (map snd (sel_eq ps)))].

Local Open Scope Qc_scope.
(* precision = tp / prediction; recall = tp / label; f1 = 2 * precision * recall / (precision + recall); nan_to_num *)
Definition f1c (t l p : Qc) : xq :=
  let pr := qdivx t p in let rc := qdivx t l in
  nan_to_zero (xdiv (xmul (xmul (Fin (mkq 2 1)) pr) rc) (xadd pr rc)).
(* a row is (label, (prediction, tp)) *)
Definition f1_gamma (c : prf_cfg) (s : nd) : res :=
  match fst c with
  | Micro => RS (f1c (fsc 2 s) (fsc 0 s) (fsc 1 s))
  | NoAvg => RV (map (fun r => f1c (snd (snd r)) (fst r) (fst (snd r))) (combine (fld 0 s) (combine (fld 1 s) (fld 2 s))))
  | a =>
      let rows := combine (fld 0 s) (combine (fld 1 s) (fld 2 s)) in
      let kept := filter (fun r => nz (fst r) || nz (fst (snd r))) rows in
      let f1 := map (fun r => f1c (snd (snd r)) (fst r) (fst (snd r))) kept in
      match a with
      | Macro => RS (xmean f1)
      | _ => RS (xsum (map2 xmul f1 (map (fun r => qdivx (fst r) (qsum (map fst kept))) kept)))
      end
  end.
Local Close Scope Qc_scope.

Definition mcf1_spec : AddSpec.
Proof.
  refine (Build_AddSpec prf_cfg mcbatch res prf_zero prf_valid f1_beta f1_gamma _ _).
  - exact prf_zero_zero.
  - intros c b _. unfold prf_zero, f1_beta. destruct (is_micro (fst c)); [reflexivity|].
    apply same3; apply same_nzeros_zvec; apply scatter_add_length.
Defined.

(* BinaryF1Score: average="micro" scalar states; tp = (input*target).sum(), label = target.sum(), prediction = input.sum() *)
Definition binf1_beta (t : Z) (b : binbatch) : nd :=
  let ps := bin_pairs t b in
  Arr [zsc (sumZ (map snd ps)); zsc (sumZ (map fst ps)); zsc (sumZ (map (fun py => fst py * snd py) ps))].
Definition binf1_spec : AddSpec.
Proof.
  refine (Build_AddSpec Z binbatch res (fun _ => zeros3s) (fun _ => bin_valid) binf1_beta
            (fun _ => f1_gamma (Micro, None)) _ _).
  - intros c. apply (prf_zero_zero (Micro, None)).
  - intros c b _. reflexivity.
Defined.

(* ------------------------------------------------------------------------------------------ *)
(* Confusion matrices: state confusion_matrix (n x n)                                          *)
(* ------------------------------------------------------------------------------------------ *)
Inductive cmnorm := NNone | NAll | NPred | NTrue.
Definition cm_cfg := (nat * cmnorm)%type.
(* _confusion_matrix_update_input_check: torch.max / torch.min raise on empty tensors; class indices of
   `target` and of a 1-D `input` must lie in [0, num_classes) (negative ones rejected since repo fix 9d92fa8) *)
Definition cm_valid (c : cm_cfg) (b : mcbatch) : bool :=
  mc_shape_ok (Some (fst c)) b && Nat.leb 1 (List.length (snd b)) &&
  forallb (inrange (fst c)) (snd b) && forallb (inrange (fst c)) (preds (fst b)).
Definition cm_beta (c : cm_cfg) (b : mcbatch) : nd := Arr [zmat (coo_dense (fst c) (pairs b))].

Local Open Scope Qc_scope.
Definition norm_eps : Qc := mkq 1 1000000000000.          (* F.normalize eps = 1e-12 *)
(* F.normalize(p=1): v / max(||v||_1, eps) *)
Definition l1div (v nrm : Qc) : xq := Fin (v / qmax nrm norm_eps).
Definition width_q (m : list (list Qc)) : nat := match m with r :: _ => List.length r | [] => 0%nat end.
Definition col_norms (m : list (list Qc)) : list Qc :=
  map (fun j => qsum (map (fun row => qabs (nth j row 0)) m)) (seq 0 (width_q m)).
Definition cm_compute (nm : cmnorm) (m : list (list Qc)) : res :=
  match nm with
  | NNone => RM (map (map Fin) m)
  | NAll => let tot := qsum (map qsum m) in RM (map (map (fun v => qdivx v tot)) m)
  | NPred => let cn := col_norms m in RM (map (fun row => map2 l1div row cn) m)          (* dim=0: columns *)
  | NTrue => RM (map (fun row => let nrm := qsum (map qabs row) in map (fun v => l1div v nrm) row) m)   (* dim=1: rows *)
  end.
Local Close Scope Qc_scope.
Definition cm_gamma (c : cm_cfg) (s : nd) : res := cm_compute (snd c) (nrows (nget 0 s)).

Lemma coo_dense_shape n ps : List.length (coo_dense n ps) = n /\ Forall (fun r => List.length r = n) (coo_dense n ps).
Proof.
  unfold coo_dense.
  assert (H : forall ps m, List.length m = n /\ Forall (fun r : list Z => List.length r = n) m ->
     let m' := fold_left (fun m p => upd_at (snd p) (upd_at (fst p) (Z.add 1)) m) ps m in
     List.length m' = n /\ Forall (fun r : list Z => List.length r = n) m').
  { induction ps0 as [|p ps0 IH]; intros m Hm; cbn [fold_left]; [exact Hm|].
    apply IH. destruct Hm as [H1 H2]. split; [rewrite upd_at_length; exact H1|].
    unfold upd_at at 1. destruct (snd p <? 0); [exact H2|].
    generalize (Z.to_nat (snd p)) as k. clear -H2. induction H2 as [|r m Hr Hm IHm]; intros [|k]; cbn [upd_nth]; constructor; auto.
    rewrite upd_at_length. exact Hr. }
  apply H. split; [apply repeat_length|]. apply Forall_forall. intros r Hr. apply repeat_spec in Hr. subst. apply repeat_length.
Qed.
Lemma same_zmat n m : List.length m = n -> Forall (fun r => List.length r = n) m -> same (nzeros2 n n) (zmat m) = true.
Proof.
  unfold nzeros2, zmat. rewrite same_arr. intros Hl Hf. revert Hl.
  generalize n at 1 3 as k. induction Hf as [|r m Hr Hm IH]; intros [|k] Hl; cbn in Hl; try discriminate; cbn [repeat map all2]; [reflexivity|].
  rewrite (same_nzeros_zvec n r Hr). apply IH. lia.
Qed.
Definition cm_zero (c : cm_cfg) : nd := Arr [nzeros2 (fst c) (fst c)].
Definition mccm_spec : AddSpec.
Proof.
  refine (Build_AddSpec cm_cfg mcbatch res cm_zero cm_valid cm_beta cm_gamma _ _).
  - intros c. unfold cm_zero. cbn [is_zero forallb]. rewrite is_zero_nzeros2. reflexivity.
  - intros c b _. unfold cm_zero, cm_beta. rewrite same_arr. cbn [all2].
    destruct (coo_dense_shape (fst c) (pairs b)) as [H1 H2]. rewrite (same_zmat _ _ H1 H2). reflexivity.
Defined.

(* BinaryConfusionMatrix: threshold, then the same _update with num_classes = 2 *)
Definition bincm_cfg := (Z * cmnorm)%type.
Definition bincm_beta (c : bincm_cfg) (b : binbatch) : nd := Arr [zmat (coo_dense 2 (bin_pairs (fst c) b))].
Definition bincm_spec : AddSpec.
Proof.
  refine (Build_AddSpec bincm_cfg binbatch res (fun _ => cm_zero (2%nat, NNone)) (fun _ => bin_valid) bincm_beta
            (fun c s => cm_compute (snd c) (nrows (nget 0 s))) _ _).
  - intros c. unfold cm_zero. cbn [is_zero forallb]. rewrite is_zero_nzeros2. reflexivity.
  - intros c b _. unfold cm_zero, bincm_beta. rewrite same_arr. cbn [all2 fst].
    destruct (coo_dense_shape 2 (bin_pairs (fst c) b)) as [H1 H2]. rewrite (same_zmat _ _ H1 H2). reflexivity.
Defined.

(* ------------------------------------------------------------------------------------------ *)
(* SPEC: textbook definitions by direct counting                                               *)
(* ------------------------------------------------------------------------------------------ *)
(* a sample is (prediction, target) *)
Definition tp (c : Z) (ps : list (Z * Z)) : Z := cnt (fun py => (fst py =? c) && (snd py =? c)) ps.
Definition fp (c : Z) (ps : list (Z * Z)) : Z := cnt (fun py => (fst py =? c) && negb (snd py =? c)) ps.
Definition fn (c : Z) (ps : list (Z * Z)) : Z := cnt (fun py => negb (fst py =? c) && (snd py =? c)) ps.
Definition tn (c : Z) (ps : list (Z * Z)) : Z := cnt (fun py => negb (fst py =? c) && negb (snd py =? c)) ps.
Definition n_correct (ps : list (Z * Z)) : Z := cnt (fun py => fst py =? snd py) ps.

Definition zdiv (a b : Z) : Qc := (z2q a / z2q b)%Qc.
(* a / b with the convention for b = 0 *)
Definition ratio0 (a b : Z) : xq := if b =? 0 then Fin 0%Qc else Fin (zdiv a b).
Definition ratioN (a b : Z) : xq := if b =? 0 then NaN else Fin (zdiv a b).

Definition precision_c (ps : list (Z * Z)) (c : Z) : xq := ratio0 (tp c ps) (tp c ps + fp c ps).
Definition recall_c (ps : list (Z * Z)) (c : Z) : xq := ratio0 (tp c ps) (tp c ps + fn c ps).
Definition f1_c (ps : list (Z * Z)) (c : Z) : xq := ratio0 (2 * tp c ps) (2 * tp c ps + fp c ps + fn c ps).
Definition support (ps : list (Z * Z)) (c : Z) : Z := tp c ps + fn c ps.
(* class occurs among the predictions or the labels *)
Definition present (ps : list (Z * Z)) (c : Z) : bool := negb (tp c ps + fp c ps + fn c ps =? 0).

(* macro: unweighted mean over present classes; weighted: support-weighted sum over present classes *)
Definition macro_of (m : Z -> xq) (ps : list (Z * Z)) (n : nat) : xq := xmean (map m (filter (present ps) (classes n))).
Definition weighted_of (m : Z -> xq) (ps : list (Z * Z)) (n : nat) : xq :=
  xsum (map (fun c => xmul (m c) (ratioN (support ps c) (lenZ ps))) (filter (present ps) (classes n))).
Definition prf_spec_of (m : list (Z * Z) -> Z -> xq) (micro : list (Z * Z) -> xq) (c : prf_cfg) (b : mcbatch) : res :=
  let ps := pairs_spec b in
  match fst c with
  | Micro => RS (micro ps)
  | Macro => RS (macro_of (m ps) ps (ncls (snd c)))
  | Weighted => RS (weighted_of (m ps) ps (ncls (snd c)))
  | NoAvg => RV (map (m ps) (classes (ncls (snd c))))
  end.
(* micro-averages of single-label classification all equal the fraction of correct samples; undefined -> 0 *)
Definition micro_spec (ps : list (Z * Z)) : xq := ratio0 (n_correct ps) (lenZ ps).
Definition mcprec_textbook := prf_spec_of precision_c micro_spec.
Definition mcrec_textbook := prf_spec_of recall_c micro_spec.
Definition mcf1_textbook := prf_spec_of f1_c micro_spec.

(* accuracy: a sample is (correct?, target) *)
Definition correct_topk (k : nat) (row : list Z) (y : Z) : bool := cnt (fun s => gather row y <? s) row <? Z.of_nat k.
Definition acc_samples (c : acc_cfg) (b : mcbatch) : list (bool * Z) :=
  if Nat.eqb (acc_k c) 1 then map (fun py => (fst py =? snd py, snd py)) (pairs_spec b)
  else match fst b with
       | Logits rows => map (fun ry => (correct_topk (acc_k c) (fst ry) (snd ry), snd ry)) (combine rows (snd b))
       | Labels _ => [] end.
Definition acc_c (cs : list (bool * Z)) (c : Z) : xq :=
  ratioN (cnt (fun s => fst s && (snd s =? c)) cs) (cnt (fun s => snd s =? c) cs).
Definition mcacc_textbook (c : acc_cfg) (b : mcbatch) : res :=
  let cs := acc_samples c b in
  match acc_avg c with
  | Micro => RS (ratioN (cnt fst cs) (lenZ cs))
  | Macro => RS (xmean (map (acc_c cs) (filter (fun c => negb (cnt (fun s => snd s =? c) cs =? 0)) (classes (ncls (acc_nc c))))))
  | _ => RV (map (acc_c cs) (classes (ncls (acc_nc c))))
  end.

(* binary: prediction is positive iff score >= threshold *)
Definition bin_pairs_spec (t : Z) (b : binbatch) : list (Z * Z) := combine (map (fun s => b2z (t <=? s)) (fst b)) (snd b).
Definition binacc_textbook (t : Z) (b : binbatch) : res :=
  let ps := bin_pairs_spec t b in RS (ratioN (tp 1 ps + tn 1 ps) (lenZ ps)).
Definition binprec_textbook (t : Z) (b : binbatch) : res := RS (precision_c (bin_pairs_spec t b) 1).
Definition binrec_textbook (t : Z) (b : binbatch) : res := RS (recall_c (bin_pairs_spec t b) 1).
Definition binf1_textbook (t : Z) (b : binbatch) : res := RS (f1_c (bin_pairs_spec t b) 1).

(* multilabel: per sample, P = set of predicted labels, T = set of true labels (as aligned membership bits) *)
Definition ml_sample_ok (cr : crit) (r : list (bool * bool)) : bool :=
  match cr with
  | ExactMatch => forallb (fun pt => Bool.eqb (fst pt) (snd pt)) r                       (* P = T *)
  | Hamming => false
  | Overlap => existsb (fun pt => fst pt && snd pt) r                                    (* P cap T nonempty ... *)
               || forallb (fun pt => negb (fst pt) && negb (snd pt)) r                   (* ... or both empty *)
  | Contain => forallb (fun pt => implb (snd pt) (fst pt)) r                             (* T subseteq P *)
  | Belong => forallb (fun pt => implb (fst pt) (snd pt)) r                              (* P subseteq T *)
  end.
Definition ml_textbook_rows (cr : crit) (rows : list (list (bool * bool))) : res :=
  match cr with
  | Hamming => RS (ratioN (sumZ (map (cnt (fun pt => Bool.eqb (fst pt) (snd pt))) rows)) (sumZ (map lenZ rows)))
  | _ => RS (ratioN (cnt (ml_sample_ok cr) rows) (lenZ rows))
  end.
Definition ml_bits (t : Z) (b : mlbatch) : list (list (bool * bool)) :=
  map (fun rr => combine (map (fun s => t <=? s) (fst rr)) (map (Z.eqb 1) (snd rr))) (combine (fst b) (snd b)).
Definition mlacc_textbook (c : ml_cfg) (b : mlbatch) : res := ml_textbook_rows (snd c) (ml_bits (fst c) b).
(* top-k multilabel: P = the selected index set *)
Definition tk_bits (b : tkbatch) : list (list (bool * bool)) :=
  map (fun rst => combine (map (fun j => memZ j (snd rst)) (classes (List.length (fst (fst rst))))) (map (Z.eqb 1) (snd (fst rst))))
      (combine (combine (tk_scores b) (tk_targets b)) (tk_sel b)).
Definition tkacc_textbook (c : tk_cfg) (b : tkbatch) : res := ml_textbook_rows (fst c) (tk_bits b).

(* confusion matrix: cell (i, j) = number of samples with target i and prediction j *)
Definition cm_cell (ps : list (Z * Z)) (i j : Z) : Z := cnt (fun py => (snd py =? i) && (fst py =? j)) ps.
Definition cm_textbook_ps (n : nat) (nm : cmnorm) (ps : list (Z * Z)) : res :=
  RM (map (fun i => map (fun j =>
        match nm with
        | NNone => Fin (z2q (cm_cell ps i j))
        | NAll => ratioN (cm_cell ps i j) (lenZ ps)
        | NPred => ratio0 (cm_cell ps i j) (cnt (fun py => fst py =? j) ps)
        | NTrue => ratio0 (cm_cell ps i j) (cnt (fun py => snd py =? i) ps)
        end) (classes n)) (classes n)).
Definition mccm_textbook (c : cm_cfg) (b : mcbatch) : res := cm_textbook_ps (fst c) (snd c) (pairs_spec b).
Definition bincm_textbook (c : bincm_cfg) (b : binbatch) : res := cm_textbook_ps 2 (snd c) (bin_pairs_spec (fst c) b).

(* ------------------------------------------------------------------------------------------ *)
(* Metrics, codecs, harness entry points                                                       *)
(* ------------------------------------------------------------------------------------------ *)
Definition dec_avg (z : Z) : option avg :=
  if z =? 0 then Some Micro else if z =? 1 then Some Macro else if z =? 2 then Some Weighted else if z =? 3 then Some NoAvg else None.
Definition dec_nc (z : Z) : option nat := if z <? 0 then None else Some (Z.to_nat z).
Definition dec_crit (z : Z) : option crit :=
  if z =? 0 then Some ExactMatch else if z =? 1 then Some Hamming else if z =? 2 then Some Overlap
  else if z =? 3 then Some Contain else if z =? 4 then Some Belong else None.
Definition dec_norm (z : Z) : option cmnorm :=
  if z =? 0 then Some NNone else if z =? 1 then Some NAll else if z =? 2 then Some NPred else if z =? 3 then Some NTrue else None.

(* average in {micro, macro, none}: "weighted" is rejected by _accuracy_param_check;
   average != micro requires num_classes > 0; k >= 1 *)
Definition dec_acc_cfg (v : val) : option acc_cfg :=
  match v with
  | VL [VZ a; VZ n; VZ k] =>
      match dec_avg a with
      | Some Weighted | None => None
      | Some a => if (negb (is_micro a) && (n <=? 0)) || (k <? 1) then None else Some (a, dec_nc n, Z.to_nat k)
      end
  | _ => None end.
Definition dec_prf_cfg (v : val) : option prf_cfg :=
  match v with
  | VL [VZ a; VZ n] =>
      match dec_avg a with
      | Some a => if negb (is_micro a) && (n <=? 0) then None else Some (a, dec_nc n)
      | None => None end
  | _ => None end.
Definition dec_thr (v : val) : option Z := match v with VL [VZ t] => Some t | _ => None end.
Definition dec_ml_cfg (v : val) : option ml_cfg :=
  match v with VL [VZ t; VZ c] => match dec_crit c with Some c => Some (t, c) | None => None end | _ => None end.
Definition dec_tk_cfg (v : val) : option tk_cfg :=
  match v with VL [VZ c; VZ k] => match dec_crit c with Some c => if k <? 2 then None else Some (c, Z.to_nat k) | None => None end | _ => None end.
Definition dec_cm_cfg (v : val) : option cm_cfg :=
  match v with VL [VZ n; VZ m] => match dec_norm m with Some m => if n <? 2 then None else Some (Z.to_nat n, m) | None => None end | _ => None end.
Definition dec_bincm_cfg (v : val) : option bincm_cfg :=
  match v with VL [VZ t; VZ m] => match dec_norm m with Some m => Some (t, m) | None => None end | _ => None end.

Definition dec_mcin (v : val) : option mcin :=
  match v with
  | VL (VL _ :: _) => match as_list (as_list as_Z) v with Some r => Some (Logits r) | None => None end
  | _ => match as_list as_Z v with Some l => Some (Labels l) | None => None end
  end.
Definition dec_mcbatch (v : val) : option mcbatch :=
  match v with
  | VL [i; t] => match dec_mcin i, as_list as_Z t with Some i, Some t => Some (i, t) | _, _ => None end
  | _ => None end.
Definition dec_binbatch (v : val) : option binbatch := as_pair (as_list as_Z) (as_list as_Z) v.
Definition dec_mlbatch (v : val) : option mlbatch := as_pair (as_list (as_list as_Z)) (as_list (as_list as_Z)) v.
Definition dec_tkbatch (v : val) : option tkbatch :=
  match v with
  | VL [s; t; k] => match as_list (as_list as_Z) s, as_list (as_list as_Z) t, as_list (as_list as_Z) k with
                    | Some s, Some t, Some k => Some (s, t, k) | _, _, _ => None end
  | _ => None end.

(* functional form on one batch: compute(update(batch)); spec form on the same batch *)
Definition run_fn (S : AddSpec) (dc : val -> option (acfg S)) (db : val -> option (abatch S))
    (f : acfg S -> abatch S -> res) (v : val) : val :=
  match v with
  | VL [cv; bv] =>
      match dc cv with
      | Some c => match db bv with
                  | Some b => if avalid S c b then res_val (f c b) else verr "invalid"
                  | None => vbad end
      | None => VT "badcfg" [] end
  | _ => vbad end.
Definition fn_of (S : AddSpec) (c : acfg S) (b : abatch S) : aout S := agamma S c (abeta S c b).
Definition codec_of (S : AddSpec) (dc : val -> option (acfg S)) (db : val -> option (abatch S)) (eo : aout S -> val) :=
  add_codec S dc (fun _ => db) (fun _ => eo).

(* @model mcacc run_mcacc *)
Definition run_mcacc := run_pool (add_metric mcacc_spec) (codec_of mcacc_spec dec_acc_cfg dec_mcbatch res_val).
(* @model mcacc_fn run_mcacc_fn *)
Definition run_mcacc_fn := run_fn mcacc_spec dec_acc_cfg dec_mcbatch (fn_of mcacc_spec).
(* @model mcacc_spec run_mcacc_spec *)
Definition run_mcacc_spec := run_fn mcacc_spec dec_acc_cfg dec_mcbatch mcacc_textbook.

(* @model binacc run_binacc *)
Definition run_binacc := run_pool (add_metric binacc_spec) (codec_of binacc_spec dec_thr dec_binbatch res_val).
(* @model binacc_fn run_binacc_fn *)
Definition run_binacc_fn := run_fn binacc_spec dec_thr dec_binbatch (fn_of binacc_spec).
(* @model binacc_spec run_binacc_spec *)
Definition run_binacc_spec := run_fn binacc_spec dec_thr dec_binbatch binacc_textbook.

(* @model mlacc run_mlacc *)
Definition run_mlacc := run_pool (add_metric mlacc_spec) (codec_of mlacc_spec dec_ml_cfg dec_mlbatch res_val).
(* @model mlacc_fn run_mlacc_fn *)
Definition run_mlacc_fn := run_fn mlacc_spec dec_ml_cfg dec_mlbatch (fn_of mlacc_spec).
(* @model mlacc_spec run_mlacc_spec *)
Definition run_mlacc_spec := run_fn mlacc_spec dec_ml_cfg dec_mlbatch mlacc_textbook.

(* @model tkacc run_tkacc *)
Definition run_tkacc := run_pool (add_metric tkacc_spec) (codec_of tkacc_spec dec_tk_cfg dec_tkbatch res_val).
(* @model tkacc_fn run_tkacc_fn *)
Definition run_tkacc_fn := run_fn tkacc_spec dec_tk_cfg dec_tkbatch (fn_of tkacc_spec).
(* @model tkacc_spec run_tkacc_spec *)
Definition run_tkacc_spec := run_fn tkacc_spec dec_tk_cfg dec_tkbatch tkacc_textbook.

(* @model mcprec run_mcprec *)
Definition run_mcprec := run_pool (add_metric mcprec_spec) (codec_of mcprec_spec dec_prf_cfg dec_mcbatch res_val).
(* @model mcprec_fn run_mcprec_fn *)
Definition run_mcprec_fn := run_fn mcprec_spec dec_prf_cfg dec_mcbatch (fn_of mcprec_spec).
(* @model mcprec_spec run_mcprec_spec *)
Definition run_mcprec_spec := run_fn mcprec_spec dec_prf_cfg dec_mcbatch mcprec_textbook.

(* @model binprec run_binprec *)
Definition run_binprec := run_pool (add_metric binprec_spec) (codec_of binprec_spec dec_thr dec_binbatch res_val).
(* @model binprec_fn run_binprec_fn *)
Definition run_binprec_fn := run_fn binprec_spec dec_thr dec_binbatch (fn_of binprec_spec).
(* @model binprec_spec run_binprec_spec *)
Definition run_binprec_spec := run_fn binprec_spec dec_thr dec_binbatch binprec_textbook.

(* @model mcrec run_mcrec *)
Definition run_mcrec := run_pool (add_metric mcrec_spec) (codec_of mcrec_spec dec_prf_cfg dec_mcbatch res_val).
(* @model mcrec_fn run_mcrec_fn *)
Definition run_mcrec_fn := run_fn mcrec_spec dec_prf_cfg dec_mcbatch (fn_of mcrec_spec).
(* @model mcrec_spec run_mcrec_spec *)
Definition run_mcrec_spec := run_fn mcrec_spec dec_prf_cfg dec_mcbatch mcrec_textbook.

(* @model binrec run_binrec *)
Definition run_binrec := run_pool (add_metric binrec_spec) (codec_of binrec_spec dec_thr dec_binbatch res_val).
(* @model binrec_fn run_binrec_fn *)
Definition run_binrec_fn := run_fn binrec_spec dec_thr dec_binbatch (fn_of binrec_spec).
(* @model binrec_spec run_binrec_spec *)
Definition run_binrec_spec := run_fn binrec_spec dec_thr dec_binbatch binrec_textbook.

(* @model mcf1 run_mcf1 *)
Definition run_mcf1 := run_pool (add_metric mcf1_spec) (codec_of mcf1_spec dec_prf_cfg dec_mcbatch res_val).
(* @model mcf1_fn run_mcf1_fn *)
Definition run_mcf1_fn := run_fn mcf1_spec dec_prf_cfg dec_mcbatch (fn_of mcf1_spec).
(* @model mcf1_spec run_mcf1_spec *)
Definition run_mcf1_spec := run_fn mcf1_spec dec_prf_cfg dec_mcbatch mcf1_textbook.

(* @model binf1 run_binf1 *)
Definition run_binf1 := run_pool (add_metric binf1_spec) (codec_of binf1_spec dec_thr dec_binbatch res_val).
(* @model binf1_fn run_binf1_fn *)
Definition run_binf1_fn := run_fn binf1_spec dec_thr dec_binbatch (fn_of binf1_spec).
(* @model binf1_spec run_binf1_spec *)
Definition run_binf1_spec := run_fn binf1_spec dec_thr dec_binbatch binf1_textbook.

(* @model mccm run_mccm *)
Definition run_mccm := run_pool (add_metric mccm_spec) (codec_of mccm_spec dec_cm_cfg dec_mcbatch res_val).
(* @model mccm_fn run_mccm_fn *)
Definition run_mccm_fn := run_fn mccm_spec dec_cm_cfg dec_mcbatch (fn_of mccm_spec).
(* @model mccm_spec run_mccm_spec *)
Definition run_mccm_spec := run_fn mccm_spec dec_cm_cfg dec_mcbatch mccm_textbook.

(* @model bincm run_bincm *)
Definition run_bincm := run_pool (add_metric bincm_spec) (codec_of bincm_spec dec_bincm_cfg dec_binbatch res_val).
(* @model bincm_fn run_bincm_fn *)
Definition run_bincm_fn := run_fn bincm_spec dec_bincm_cfg dec_binbatch (fn_of bincm_spec).
(* @model bincm_spec run_bincm_spec *)
Definition run_bincm_spec := run_fn bincm_spec dec_bincm_cfg dec_binbatch bincm_textbook.
