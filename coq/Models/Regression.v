(* MeanSquaredError, R2Score (additive sufficient statistics whose registered states start
   0-dimensional and ADOPT the shape of the first update / first merged shard) and Covariance
   (streaming moments with Chan's combine).  Definitions only; lemmas in Proofs/RegressionP.v.
   Value semantics: adopting a source tensor is modelled as a copy (the code aliases it: C11). *)
From Coq Require Import ZArith List Bool QArith Qcanon String.
From TE Require Import Base.Val Base.Nd Base.Xq Algebra.Metric Algebra.MergeTree Algebra.Pool
  Models.Aggregation Models.Aggregation2.
Import ListNotations.
Open Scope list_scope.
Open Scope Qc_scope.

Definition qofnat (n : nat) : Qc := mkq (Z.of_nat n) 1.
Definition sq (x : Qc) : Qc := x * x.
Definition eps64 : Qc := mkq 1 4503599627370496.        (* torch.finfo(float64).eps = 2^-52 *)

(* column j of a list of rows, column sums of an N x d matrix (d given: N may be 0) *)
Definition col (j : nat) (rows : list (list Qc)) : list Qc := map (fun r => nth j r 0) rows.
Definition colsums (d : nat) (rows : list (list Qc)) : list Qc := map (fun j => sumQ (col j rows)) (seq 0 d).
Definition rows_ok (d : nat) (rows : list (list Qc)) : bool := forallb (fun r => Nat.eqb (List.length r) d) rows.

(* ------------------------------------------------------------------------------------------ *)
(* shape-adopting additive states *)

Record astat := { a_sc : list Qc;        (* always-scalar accumulators (added) *)
                  a_vs : list nd }.      (* adopting accumulators: each Sc q (0-dim) or a vector *)
Definition is_sc (x : nd) : bool := match x with Sc _ => true | Arr _ => false end.
(* in-place  x += y  where a 0-dim y broadcasts over a vector x *)
Definition badd (x y : nd) : nd :=
  match x, y with
  | Arr l, Sc b => Arr (map (fun e => nadd e (Sc b)) l)
  | _, _ => nadd x y
  end.
(* the common body of update() and of one merge_state() iteration; [key] is the state whose ndim is tested *)
Definition adopt_step (key : nat) (s t : astat) : astat :=
  {| a_sc := map2 Qcplus (a_sc s) (a_sc t);
     a_vs := if is_sc (nth key (a_vs s) (Sc 0)) && negb (is_sc (nth key (a_vs t) (Sc 0)))
             then a_vs t else map2 badd (a_vs s) (a_vs t) |}.

(* a regression batch: N rows of width d (1-D inputs: rows of width 1 and rb_1d = true) *)
Record rbatch := { rb_x : list (list Qc); rb_t : list (list Qc); rb_w : option (list Qc); rb_1d : bool }.
Definition width_of (w : option nat) : nat := match w with None => 1%nat | Some d => d end.
Definition rb_valid (w : option nat) (b : rbatch) : bool :=
  Bool.eqb (rb_1d b) (match w with None => true | Some _ => false end)
  && rows_ok (width_of w) (rb_x b) && rows_ok (width_of w) (rb_t b)
  && Nat.eqb (List.length (rb_x b)) (List.length (rb_t b))
  && match rb_w b with None => true | Some ws => Nat.eqb (List.length ws) (List.length (rb_t b)) end.
(* a per-column sum presented as torch does: 0-dim for 1-D inputs, vector for 2-D inputs *)
Definition present (one_d : bool) (l : list Qc) : nd := if one_d then Sc (hd 0 l) else nvec l.

Definition dec_width (v : val) : option (option nat) := as_opt as_nat v.
Definition dec_rbatch (v : val) : option rbatch :=
  match v with
  | VL [VB one; xv; tv; wv] =>
    match dec_mat xv, dec_mat tv, as_opt (as_list as_Q) wv with
    | Some x, Some t, Some w => Some {| rb_x := x; rb_t := t; rb_w := w; rb_1d := one |}
    | _, _, _ => None end
  | _ => None end.

(* results with IEEE conventions: a 0-dim or a 1-D tensor of extended rationals *)
Inductive xnd := XS (x : xq) | XV (l : list xq).
Definition xnd_val (x : xnd) : val := match x with XS a => xq_val a | XV l => vlistX l end.
Definition xneg (a : xq) : xq := match a with Fin q => Fin (- q) | NaN => NaN | PInf => NInf | NInf => PInf end.
Definition xsub (a b : xq) : xq := xadd a (xneg b).
(* IEEE division by a finite number (Xq.xdiv maps inf / finite to NaN; IEEE gives +-inf) *)
Definition xdivq (a : xq) (b : Qc) : xq :=
  match a with
  | Fin p => qdivx p b
  | NaN => NaN
  | _ => if qeq b 0 then a else xmul a (Fin (1 / b))
  end.
Definition xdivx (a b : xq) : xq := match b with Fin q => xdivq a q | _ => xdiv a b end.
Definition xmeanq (l : list xq) : xq := xdivq (xsum l) (mkq (Z.of_nat (List.length l)) 1).
Definition xelems (x : nd) : list Qc := match x with Sc q => [q] | Arr _ => nlist x end.
Definition xlike (x : nd) (l : list xq) : xnd := match x with Sc _ => XS (hd NaN l) | Arr _ => XV l end.

(* ------------------------------------------------------------------------------------------ *)
(* MeanSquaredError(multioutput) : states sum_squared_error (adopting), sum_weight (scalar) *)

Record mse_cfg := { mse_raw : bool; mse_w : option nat }.
Definition sqerr_row (x t : list Qc) : list Qc := map2 (fun a b => sq (b - a)) x t.
Definition mse_stat (c : mse_cfg) (b : rbatch) : astat :=
  let d := width_of (mse_w c) in
  let se := map2 sqerr_row (rb_x b) (rb_t b) in
  match rb_w b with
  | None => {| a_sc := [qofnat (List.length (rb_t b))]; a_vs := [present (rb_1d b) (colsums d se)] |}
  | Some ws => {| a_sc := [sumQ ws];
                  a_vs := [present (rb_1d b) (colsums d (map2 (fun w r => map (Qcmult w) r) ws se))] |}
  end.
Definition qsign (a : Qc) : Qc := if qlt 0 a then 1 else if qlt a 0 then - (1) else 0.
(* sum_weight.abs().clamp(min=eps) * sum_weight.sign() *)
Definition mse_den (sw : Qc) : Qc := qmax (qabs sw) eps64 * qsign sw.
Definition mse_compute (raw : bool) (sse : nd) (sw : Qc) : xnd :=
  let r := map (fun e => qdivx e (mse_den sw)) (xelems sse) in
  if raw then xlike sse r else XS (xmeanq r).
Definition mse_init : astat := {| a_sc := [0]; a_vs := [Sc 0] |}.
Definition mse_cmp (c : mse_cfg) (s : astat) : xnd :=
  mse_compute (mse_raw c) (nth 0 (a_vs s) (Sc 0)) (nth 0 (a_sc s) 0).
Definition mse_metric : Metric :=
  plain mse_cfg astat rbatch xnd (fun _ => mse_init) (fun c => rb_valid (mse_w c))
    (fun c s b => adopt_step 0 s (mse_stat c b))
    (fun _ s ms => fold_left (adopt_step 0) ms s)
    mse_cmp (fun _ s => s).
Definition dec_mse_cfg (v : val) : option mse_cfg :=
  match v with
  | VL [r; w] => match as_B r, dec_width w with Some r, Some w => Some {| mse_raw := r; mse_w := w |} | _, _ => None end
  | _ => None end.
Definition mse_codec : Codec mse_metric :=
  Build_Codec mse_metric dec_mse_cfg (fun _ => dec_rbatch)
    (fun _ s => VL [nd_val (nth 0 (a_vs s) (Sc 0)); vq (nth 0 (a_sc s) 0)])   (* sum_squared_error, sum_weight *)
    (fun _ => xnd_val).
(* @model reg_mse run_mse *)
Definition run_mse := run_pool mse_metric mse_codec.
(* @model reg_mse_fn run_mse_fn *)
Definition run_mse_fn (v : val) : val :=
  match v with
  | VL [cv; bv] =>
    match dec_mse_cfg cv, dec_rbatch bv with
    | Some c, Some b => if rb_valid (mse_w c) b
                        then let s := mse_stat c b in xnd_val (mse_cmp c s)
                        else verr "ValueError"
    | _, _ => vbad end
  | _ => vbad end.

(* ------------------------------------------------------------------------------------------ *)
(* R2Score(multioutput, num_regressors): states num_obs | sum_obs, sum_squared_obs, sum_squared_residual *)

Record r2_cfg := { r2_mode : nat;          (* 0 raw_values, 1 uniform_average, 2 variance_weighted *)
                   r2_p : Z;               (* num_regressors *)
                   r2_w : option nat }.
Definition r2_stat (c : r2_cfg) (b : rbatch) : astat :=
  let d := width_of (r2_w c) in
  {| a_sc := [qofnat (List.length (rb_t b))];
     a_vs := [present (rb_1d b) (colsums d (rb_t b));
              present (rb_1d b) (colsums d (map (map sq) (rb_t b)));
              present (rb_1d b) (colsums d (map2 sqerr_row (rb_x b) (rb_t b)))] |}.
Definition r2_init : astat := {| a_sc := [0]; a_vs := [Sc 0; Sc 0; Sc 0] |}.

Definition r2_tss (n so sso : Qc) : Qc := sso - sq so / n.
(* _compute on per-column statistics (n >= 2 guaranteed by the guards) *)
Definition r2_core (mode : nat) (p : Z) (n : Qc) (shape : nd) (so sso rss : list Qc) : xnd :=
  let tss := map2 (r2_tss n) so sso in
  let r := map2 (fun rs ts => xsub (Fin 1) (qdivx rs ts)) rss tss in
  let adj (x : xq) : xq :=
    if Z.eqb p 0 then x
    else xsub (Fin 1) (xdivq (xmul (xsub (Fin 1) x) (Fin (n - 1))) (n - mkq p 1 - 1)) in
  match mode with
  | O => xlike shape (map adj r)
  | S O => XS (adj (xmeanq r))
  | _ => XS (adj (xsum (map2 (fun ri ts => xdivq (xmul ri (Fin ts)) (sumQ tss)) r tss)))
  end.
Inductive r2_out := R2Err (k : string) | R2Val (x : xnd).
Definition r2_cmp (c : r2_cfg) (s : astat) : r2_out :=
  let n := nth 0 (a_sc s) 0 in
  if qlt n (mkq 2 1) then R2Err "ValueError"
  else if qle (n - 1) (mkq (r2_p c) 1) then R2Err "ValueError"
  else let so := nth 0 (a_vs s) (Sc 0) in
       R2Val (r2_core (r2_mode c) (r2_p c) n (nth 1 (a_vs s) (Sc 0))
                (xelems so) (xelems (nth 1 (a_vs s) (Sc 0))) (xelems (nth 2 (a_vs s) (Sc 0)))).
Definition r2_metric : Metric :=
  plain r2_cfg astat rbatch r2_out (fun _ => r2_init) (fun c => rb_valid (r2_w c))
    (fun c s b => adopt_step 1 s (r2_stat c b))
    (fun _ s ms => fold_left (adopt_step 1) ms s)
    r2_cmp (fun _ s => s).
Definition dec_r2_cfg (v : val) : option r2_cfg :=
  match v with
  | VL [VZ m; VZ p; w] => match dec_width w with Some w => Some {| r2_mode := Z.to_nat m; r2_p := p; r2_w := w |} | None => None end
  | _ => None end.
Definition r2_out_val (o : r2_out) : val := match o with R2Err k => verr k | R2Val x => xnd_val x end.
Definition r2_codec : Codec r2_metric :=
  Build_Codec r2_metric dec_r2_cfg (fun _ => dec_rbatch)
    (fun _ s => VL [vq (nth 0 (a_sc s) 0); nd_val (nth 0 (a_vs s) (Sc 0)); nd_val (nth 1 (a_vs s) (Sc 0));
                    nd_val (nth 2 (a_vs s) (Sc 0))])
    (fun _ => r2_out_val).
(* @model reg_r2 run_r2 *)
Definition run_r2 := run_pool r2_metric r2_codec.
(* @model reg_r2_fn run_r2_fn *)
Definition run_r2_fn (v : val) : val :=
  match v with
  | VL [cv; bv] =>
    match dec_r2_cfg cv, dec_rbatch bv with
    | Some c, Some b => if rb_valid (r2_w c) b then r2_out_val (r2_cmp c (r2_stat c b)) else verr "ValueError"
    | _, _ => vbad end
  | _ => vbad end.

(* ------------------------------------------------------------------------------------------ *)
(* Covariance: states n (int), ss_sum, sum (0-dim until the first non-empty update / merge) *)

Definition vecq := list Qc.
Definition matq := list (list Qc).
Definition vadd (a b : vecq) : vecq := map2 Qcplus a b.
Definition vsub (a b : vecq) : vecq := map2 Qcminus a b.
Definition vscale (k : Qc) (a : vecq) : vecq := map (Qcmult k) a.
Definition vdivn (a : vecq) (n : Qc) : vecq := map (fun x => x / n) a.
Definition madd (a b : matq) : matq := map2 vadd a b.
Definition outer (u v : vecq) : matq := map (fun ui => map (fun vj => ui * vj) v) u.
Definition mmap (f : Qc -> Qc) (a : matq) : matq := map (map f) a.
Definition msum (d : nat) (ms : list matq) : matq := fold_left madd ms (repeat (repeat 0 d) d).

Record cov_st := { cv_n : Z; cv_ss : nd; cv_sum : nd }.
Definition cov_init : cov_st := {| cv_n := 0; cv_ss := Sc 0; cv_sum := Sc 0 |}.
Definition qz (z : Z) : Qc := mkq z 1.
(* Covariance._update(sum, ss_sum, n) *)
Definition cov_step (s t : cov_st) : cov_st :=
  if Z.eqb (cv_n t) 0 then s
  else if Z.eqb (cv_n s) 0 then t
  else
    let sn := qz (cv_n s) in let n := qz (cv_n t) in
    let delta := vsub (vdivn (nlist (cv_sum s)) sn) (vdivn (nlist (cv_sum t)) n) in
    let corr := mmap (fun x => x * (n * sn) / (sn + n)) (outer delta delta) in
    {| cv_n := cv_n s + cv_n t;
       cv_ss := nmat (madd (nrows (cv_ss s)) (madd (nrows (cv_ss t)) corr));
       cv_sum := nvec (vadd (nlist (cv_sum s)) (nlist (cv_sum t))) |}.
(* the statistic update() computes for a batch of N rows of width d *)
Definition cov_stat (d : nat) (rows : matq) : cov_st :=
  let n := qofnat (List.length rows) in
  let mean := vdivn (colsums d rows) n in
  let dem := map (fun r => vsub r mean) rows in
  {| cv_n := Z.of_nat (List.length rows);
     cv_ss := nmat (msum d (map (fun r => outer r r) dem));       (* einsum('ni,nj->ij') *)
     cv_sum := nvec (colsums d rows) |}.
Inductive cov_out := CovErr (k : string) | CovVal (mean : vecq) (cov : matq).
Definition cov_cmp (s : cov_st) : cov_out :=
  if Z.ltb (cv_n s) 2 then CovErr "ValueError"
  else CovVal (vdivn (nlist (cv_sum s)) (qz (cv_n s))) (mmap (fun x => x / (qz (cv_n s) - 1)) (nrows (cv_ss s))).
Definition cov_metric : Metric :=
  plain nat cov_st matq cov_out (fun _ => cov_init) (fun d b => rows_ok d b)
    (fun d s b => cov_step s (cov_stat d b))
    (fun _ s ms => fold_left cov_step ms s)
    (fun _ => cov_cmp) (fun _ s => s).
Definition cov_out_val (o : cov_out) : val :=
  match o with CovErr k => verr k | CovVal m c => VL [vlistQ m; vmat c] end.
Definition cov_codec : Codec cov_metric :=
  Build_Codec cov_metric as_nat (fun _ => dec_mat)
    (fun _ s => VL [VZ (cv_n s); nd_val (cv_ss s); nd_val (cv_sum s)])     (* n, ss_sum, sum *)
    (fun _ => cov_out_val).
(* @model reg_cov run_cov *)
Definition run_cov := run_pool cov_metric cov_codec.
