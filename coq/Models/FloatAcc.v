(* C19: integer-valued accumulators with explicit round-to-nearest-even to p significand bits,
   and torch's promotion rule for "float_state += integer count".  *)
From Coq Require Import ZArith Bool List String.
From TE Require Import Base.Val.
Import ListNotations.
Open Scope Z_scope.

(* round a non-negative integer to p significant bits, ties to even *)
Definition rne (p z : Z) : Z :=
  let e := Z.max 0 (Z.log2 z + 1 - p) in
  let q := z / 2 ^ e in
  let r := z mod 2 ^ e in
  let half := 2 ^ (e - 1) in
  if e =? 0 then z
  else if (half <? r) || ((r =? half) && Z.odd q) then (q + 1) * 2 ^ e else q * 2 ^ e.

(* accumulator kinds: what a registered count/sum state is stored as *)
Inductive kind := F16 | BF16 | F32 | F64 | I8 | U8 | I16 | I32 | I64 | PyInt | PyFloat.

Definition wrap (bits a : Z) : Z := (a + 2 ^ (bits - 1)) mod 2 ^ bits - 2 ^ (bits - 1).

Definition acc_add (k : kind) (a d : Z) : Z :=
  match k with
  | F16 => rne 11 (a + rne 11 d)
  | BF16 => rne 8 (a + rne 8 d)
  | F32 => rne 24 (a + rne 24 d)          (* the integer addend is converted to float32 first *)
  | F64 | PyFloat => rne 53 (a + rne 53 d)
  | I8 => wrap 8 (a + d)
  | U8 => (a + d) mod 2 ^ 8
  | I16 => wrap 16 (a + d)
  | I32 => wrap 32 (a + d)
  | I64 => wrap 64 (a + d)
  | PyInt => a + d
  end.

Definition wide (k : kind) : bool :=
  match k with F64 | PyFloat | I64 | PyInt => true | _ => false end.

Definition kind_of_string (s : string) : option kind :=
  if String.eqb s "float16" then Some F16 else if String.eqb s "bfloat16" then Some BF16 else
  if String.eqb s "float32" then Some F32 else if String.eqb s "float64" then Some F64 else
  if String.eqb s "int8" then Some I8 else if String.eqb s "uint8" then Some U8 else
  if String.eqb s "int16" then Some I16 else if String.eqb s "int32" then Some I32 else
  if String.eqb s "int64" then Some I64 else if String.eqb s "pyint" then Some PyInt else
  if String.eqb s "pyfloat" then Some PyFloat else None.

(* a history of additions *)
Definition acc_run (k : kind) (a : Z) (ds : list Z) : Z := fold_left (acc_add k) ds a.

(* harness entry:  [kind] a (d1 d2 ...)  ->  final accumulator *)
(* @model acc run_acc *)
Definition run_acc (v : val) : val :=
  match v with
  | VL [VT ks []; VZ a; VL ds] =>
    match kind_of_string ks, omap as_Z ds with
    | Some k, Some ds => VZ (acc_run k a ds)
    | _, _ => vbad
    end
  | _ => vbad
  end.
