(* V_fixed variants of the retrieval classes: models of torcheval with fixes/retrieval-precision.patch
   and fixes/retrieval-recall.patch applied (the as-is models stay in Models/Ranking.v; the harness
   detects which variant the tree under test implements).
   - RetrievalPrecision: update_single_query additionally retains the best relevant item whenever
     every relevant item fell out of the top-k (so "1 in target" means "a relevant item was seen").
   - RetrievalRecall: new registered state num_relevant (per query: sum of the labels seen);
     compute() = relevant items in the top-k of the retained items / num_relevant, and
     empty_target_action applies iff num_relevant = 0. *)
From Coq Require Import ZArith List Bool QArith Qcanon String Lia.
From TE Require Import Base.Val Base.Nd Base.Xq Algebra.Metric Algebra.MergeTree Algebra.Pool Algebra.Cache Models.Ranking.
Import ListNotations.
Open Scope list_scope.

(* ---- RetrievalPrecision, fixed ---- *)
(* torch.where(target == 1, preds, -inf).argmax(): the best-scored relevant item *)
Definition best_rel (l : list item) : list item :=
  match filter (fun p => Z.eqb (snd p) 1) (sortd l) with [] => [] | x :: _ => [x] end.
Definition keep_rel (k : option nat) (all : list item) : list item :=
  let T := topk k all in if negb (has1 T) && has1 all then T ++ best_rel all else T.
Definition rupd1_fx (c : rcfg) (i : nat) (b : rbatch) (si : list item) : list item :=
  match rsel (r_nq c) i b with Some its => keep_rel (r_k c) (si ++ its) | None => si end.
Definition rupd_fx (c : rcfg) (s : rstate) (b : rbatch) : rstate := mapi (fun i si => rupd1_fx c i b si) s.
Definition rprec_fx_metric : Metric :=
  plain rcfg rstate rbatch rout (fun c => repeat [] (r_nq c)) rvalid rupd_fx rmrg (rcmp false) (fun _ s => s).
Definition rprec_fx_codec : Codec rprec_fx_metric :=
  Build_Codec rprec_fx_metric dec_rcfg dec_rbatch enc_rstate enc_rout.
(* @model rk_rprec_fixed run_rprec_fixed *)
Definition run_rprec_fixed := run_pool rprec_fx_metric rprec_fx_codec.

(* ---- RetrievalRecall, fixed ---- *)
Definition rstate_fx := (rstate * list Z)%type.       (* retained items, num_relevant *)
Definition rrec_upd_fx (c : rcfg) (s : rstate_fx) (b : rbatch) : rstate_fx :=
  (rupd c (fst s) b,
   mapi (fun i n => match rsel (r_nq c) i b with Some its => (n + sumlab its)%Z | None => n end) (snd s)).
Definition rrec_mrg_fx (c : rcfg) (s : rstate_fx) (ms : list rstate_fx) : rstate_fx :=
  (rmrg c (fst s) (map fst ms),
   mapi (fun i n => (n + rk_sumZ (map (fun m => nth i (snd m) 0%Z) ms))%Z) (snd s)).
Definition rquery_fx (c : rcfg) (l : list item) (n : Z) : option xq :=
  if is_nil l then Some NaN
  else if Z.eqb n 0 then act_val (r_act c)
  else Some (qdivx (zq (sumlab (topk (r_k c) l))) (zq n)).
Definition rrec_cmp_fx (c : rcfg) (s : rstate_fx) : rout :=
  rfinish c (map (fun p => rquery_fx c (fst p) (snd p)) (combine (fst s) (snd s))).
Definition rrec_fx_metric : Metric :=
  plain rcfg rstate_fx rbatch rout (fun c => (repeat [] (r_nq c), repeat 0%Z (r_nq c))) rvalid
    rrec_upd_fx rrec_mrg_fx rrec_cmp_fx (fun _ s => s).
(* registered states in sorted-name order: num_relevant, target, topk *)
Definition enc_rstate_fx (c : rcfg) (s : rstate_fx) : val :=
  match enc_rstate c (fst s) with
  | VL l => VL (vlistZ (snd s) :: l)
  | v => v
  end.
Definition rrec_fx_codec : Codec rrec_fx_metric :=
  Build_Codec rrec_fx_metric dec_rcfg dec_rbatch enc_rstate_fx enc_rout.
(* @model rk_rrecall_fixed run_rrecall_fixed *)
Definition run_rrecall_fixed := run_pool rrec_fx_metric rrec_fx_codec.
