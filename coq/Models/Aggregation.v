(* Mean, Sum: weighted sums (additive family). *)
From Coq Require Import ZArith List Bool QArith Qcanon String.
From TE Require Import Base.Val Base.Nd Algebra.Metric Algebra.MergeTree Algebra.Pool Algebra.Additive.
Import ListNotations.
Open Scope Qc_scope.

Definition sumQ (l : list Qc) : Qc := fold_right Qcplus 0 l.

(* a batch: flattened input values, and either a scalar weight or one weight per value *)
Inductive wspec := WScalar (w : Qc) | WEach (ws : list Qc).
Definition wbatch := (list Qc * wspec)%type.

Definition wb_valid (b : wbatch) : bool :=
  match snd b with WScalar _ => true | WEach ws => Nat.eqb (List.length ws) (List.length (fst b)) end.
Definition wsum (b : wbatch) : Qc :=
  match snd b with
  | WScalar w => w * sumQ (fst b)
  | WEach ws => sumQ (map2 Qcmult ws (fst b))
  end.
Definition wtot (b : wbatch) : Qc :=
  match snd b with
  | WScalar w => w * mkq (Z.of_nat (List.length (fst b))) 1
  | WEach ws => sumQ ws
  end.

Definition dec_wbatch (v : val) : option wbatch :=
  match v with
  | VL [xs; VL ws] => match as_list as_Q xs, omap as_Q ws with Some xs, Some ws => Some (xs, WEach ws) | _, _ => None end
  | VL [xs; w] => match as_list as_Q xs, as_Q w with Some xs, Some w => Some (xs, WScalar w) | _, _ => None end
  | _ => None
  end.
Definition dec_unit (v : val) : option unit := Some tt.

(* ---- Mean: states weighted_sum, weights ---- *)
Definition mean_beta (_ : unit) (b : wbatch) : nd := nvec [wsum b; wtot b].
Definition mean_gamma (_ : unit) (s : nd) : Qc :=
  match nlist s with
  | [ws; w] => if Qc_eq_dec w 0 then 0 else ws / w
  | _ => 0
  end.
Definition mean_spec : AddSpec.
Proof.
  refine (Build_AddSpec unit wbatch Qc (fun _ => nzeros 2) (fun _ => wb_valid) mean_beta mean_gamma _ _).
  - intros c. apply is_zero_nzeros.
  - intros c b Hb. reflexivity.
Defined.
Definition mean_metric := add_metric mean_spec.
Definition mean_codec : Codec mean_metric :=
  add_codec mean_spec dec_unit (fun _ => dec_wbatch) (fun _ => vq).
(* @model mean run_mean *)
Definition run_mean := run_pool mean_metric mean_codec.
(* functional form on one (concatenated) batch: 0/0 is undefined *)
Definition mean_fn (b : wbatch) : option Qc :=
  if Qc_eq_dec (wtot b) 0 then None else Some (wsum b / wtot b).
(* @model mean_fn run_mean_fn *)
Definition run_mean_fn (v : val) : val :=
  match v with
  | VL [_; bv] => match dec_wbatch bv with Some b => if wb_valid b then vopt vq (mean_fn b) else verr "invalid" | None => vbad end
  | _ => vbad end.

(* ---- Sum: state weighted_sum ---- *)
Definition sum_beta (_ : unit) (b : wbatch) : nd := nvec [wsum b].
Definition sum_spec : AddSpec.
Proof.
  refine (Build_AddSpec unit wbatch Qc (fun _ => nzeros 1) (fun _ => wb_valid) sum_beta (fun _ s => nsc (nget 0 s)) _ _).
  - intros c. apply is_zero_nzeros.
  - intros c b Hb. reflexivity.
Defined.
Definition sum_metric := add_metric sum_spec.
Definition sum_codec : Codec sum_metric :=
  add_codec sum_spec dec_unit (fun _ => dec_wbatch) (fun _ => vq).
(* @model sum run_sum *)
Definition run_sum := run_pool sum_metric sum_codec.
(* @model sum_fn run_sum_fn *)
Definition run_sum_fn (v : val) : val :=
  match v with
  | VL [_; bv] => match dec_wbatch bv with Some b => if wb_valid b then vq (wsum b) else verr "invalid" | None => vbad end
  | _ => vbad end.
