(* torcheval/metrics/synclib.py as per-rank programs over the collectives of torch.distributed
   (L-proto).  Faithful to the code as it is (including D9/D11/D12 and the group-rank / global-rank
   conventions).  Tensors are rank-polymorphic: dtype code, shape (zero extents allowed) and nested
   data whose scalars are opaque [val]s.  Definitions only. *)
From Coq Require Import ZArith List Bool String Arith.
From TE Require Import Base.Val Models.Proto Models.SyncSchema.
Import ListNotations.
Open Scope string_scope.

(* ------------------------------------------------------------------ tensors *)
Inductive td := TSc (v : val) | TArr (l : list td).
Record tensor := mkT { dt : Z; shp : list nat; dat : td }.
Definition meta := (Z * list nat)%type.               (* (dtype, shape) *)
Definition meta_of (t : tensor) : meta := (dt t, shp t).
Definition ndim (t : tensor) : nat := List.length (shp t).
Definition I64 : Z := 3%Z.                              (* dtype codes: 0 f32, 1 f64, 2 i32, 3 i64, 4 bool, 5 u8 *)

Fixpoint zeros (s : list nat) : td :=
  match s with [] => TSc (VZ 0) | k :: s' => TArr (repeat (zeros s') k) end.
(* F.pad(t, [0, m_last - s_last, ..., 0, m_0 - s_0]): constant zero padding at the end of every dim *)
Fixpoint pad (m : list nat) (x : td) : td :=
  match m, x with
  | k :: m', TArr l => TArr (map (pad m') l ++ repeat (zeros m') (k - List.length l))
  | _, _ => x
  end.
(* t[[slice(s_0), ..., slice(s_k)]] *)
Fixpoint slice (s : list nat) (x : td) : td :=
  match s, x with
  | k :: s', TArr l => TArr (map (slice s') (firstn k l))
  | _, _ => x
  end.
Definition tpad (m : list nat) (t : tensor) : tensor := mkT (dt t) m (pad m (dat t)).
Definition tslice (s : list nat) (t : tensor) : tensor := mkT (dt t) s (slice s (dat t)).
Definition dummy (m : meta) : tensor := mkT (fst m) (snd m) (zeros (snd m)).   (* torch.empty(shape, dtype): content never read *)

(* t.reshape((1,)*k + t.shape) and u.reshape(u.shape[k:]) (u has k leading 1-extents) *)
Fixpoint wrap (k : nat) (x : td) : td := match k with O => x | S k' => TArr [wrap k' x] end.
Fixpoint unwrap (k : nat) (x : td) : td :=
  match k with O => x | S k' => match x with TArr [y] => unwrap k' y | _ => x end end.
Definition lift (k : nat) (t : tensor) : tensor := mkT (dt t) (repeat 1 k ++ shp t) (wrap k (dat t)).
Definition unlift (k : nat) (t : tensor) : tensor := mkT (dt t) (skipn k (shp t)) (unwrap k (dat t)).

(* torch.tensor(t.shape) and back *)
Definition of_shape (s : list nat) : tensor :=
  mkT I64 [List.length s] (TArr (map (fun k => TSc (VZ (Z.of_nat k))) s)).
Definition to_shape (t : tensor) : list nat :=
  match dat t with
  | TArr l => map (fun x => match x with TSc (VZ z) => Z.to_nat z | _ => 0 end) l
  | _ => []
  end.

Fixpoint map2 {X Y Z} (f : X -> Y -> Z) (a : list X) (b : list Y) : list Z :=
  match a, b with x :: a', y :: b' => f x y :: map2 f a' b' | _, _ => [] end.
Fixpoint list_eqb {X} (e : X -> X -> bool) (a b : list X) : bool :=
  match a, b with [], [] => true | x :: a', y :: b' => e x y && list_eqb e a' b' | _, _ => false end.
Definition shp_eqb := list_eqb Nat.eqb.
(* stacked_sizes.max(dim=0).values *)
Fixpoint maxshape (ss : list (list nat)) : list nat :=
  match ss with
  | [] => []
  | s :: r => match r with [] => s | _ => map2 Nat.max s (maxshape r) end
  end.
(* torch.equal(max_size, min_size): all rows equal *)
Fixpoint all_eq (ss : list (list nat)) : bool :=
  match ss with [] => true | s :: r => forallb (shp_eqb s) r && all_eq r end.
(* ---- dtype negotiation (fx_dt) ----
   t.to(dtype): scalars are opaque exact values, so the model's cast only relabels the dtype; this mirrors the code
   whenever every value is representable in the target (the transport dtype is chosen so that it is: see [transport];
   int64 beyond 2^53 in a float64 transport is outside the model) *)
Definition cast (d : Z) (t : tensor) : tensor := mkT d (shp t) (dat t).
Definition is_intcode (d : Z) : bool := Z.eqb d 2 || Z.eqb d 3 || Z.eqb d 5.        (* int32, int64, uint8 *)
(* _transport_dtype: the promoted dtype, float64 where float32 would have to hold integers *)
Definition transport (ds : list Z) : Z :=
  let p := match ds with [] => 0%Z | d :: r => fold_left promote r d end in
  if Z.eqb p 0 && existsb is_intcode ds then 1%Z else p.
Definition all_same (ds : list Z) : bool := match ds with [] => true | d :: r => forallb (Z.eqb d) r end.
(* torch.tensor([t.ndim, code]) and its two components *)
Definition of_ndim_dt (t : tensor) : tensor :=
  mkT 3%Z [2] (TArr [TSc (VZ (Z.of_nat (List.length (shp t)))); TSc (VZ (dt t))]).
Definition meta_nd (x : tensor) : nat := match dat x with TArr (TSc (VZ z) :: _) => Z.to_nat z | _ => 0 end.
Definition meta_dt (x : tensor) : Z := match dat x with TArr [_; TSc (VZ z)] => z | _ => (-1)%Z end.

Definition same_meta (t u : tensor) : bool := Z.eqb (dt t) (dt u) && shp_eqb (shp t) (shp u).

(* ------------------------------------------------------------------ collectives *)
(* roots (dst / src) are GLOBAL ranks, as in torch.distributed; [has_list]: this rank passed a
   gather list *)
Inductive call :=
| AllGather (t : tensor)
| Gather (dst : nat) (has_list : bool) (t : tensor)
| AllGatherObj (v : val)
| GatherObj (dst : nat) (has_list : bool) (v : val)
| BcastObj (src : nat) (v : option meta).
Inductive resp :=
| RTens (l : list tensor) | RObjs (l : list val) | RMeta (m : option meta) | RNone | RErr (e : string).

Fixpoint all_ag (cs : list call) : option (list tensor) :=
  match cs with
  | [] => Some []
  | AllGather t :: r => option_map (cons t) (all_ag r)
  | _ => None end.
Fixpoint all_g (d : nat) (cs : list call) : option (list (bool * tensor)) :=
  match cs with
  | [] => Some []
  | Gather d' h t :: r => if Nat.eqb d' d then option_map (cons (h, t)) (all_g d r) else None
  | _ => None end.
Fixpoint all_ago (cs : list call) : option (list val) :=
  match cs with
  | [] => Some []
  | AllGatherObj v :: r => option_map (cons v) (all_ago r)
  | _ => None end.
Fixpoint all_go (d : nat) (cs : list call) : option (list (bool * val)) :=
  match cs with
  | [] => Some []
  | GatherObj d' h v :: r => if Nat.eqb d' d then option_map (cons (h, v)) (all_go d r) else None
  | _ => None end.
Fixpoint all_bco (s : nat) (cs : list call) : option (list (option meta)) :=
  match cs with
  | [] => Some []
  | BcastObj s' v :: r => if Nat.eqb s' s then option_map (cons v) (all_bco s r) else None
  | _ => None end.

Definition in_group (g : list nat) (r : nat) : bool := existsb (Nat.eqb r) g.
Fixpoint index_of (r : nat) (g : list nat) : nat :=
  match g with [] => 0 | x :: g' => if Nat.eqb x r then 0 else S (index_of r g') end.

(* torch's rank-local validation of the output list of gather / gather_object
   (_canonicalize_group_rank, _validate_output_list_for_rank): true = this rank raises ValueError *)
Definition lerr (g : list nat) (d : nat) (gj : nat) (has : bool) : bool :=
  if in_group g d then (if Nat.eqb gj d then negb has else has) else true.

(* responses of a rooted gather: all ranks raise locally -> everyone gets the error;
   only some raise -> the others wait for ever (None); nobody raises -> data to the root *)
Definition rooted {X} (g : list nat) (d : nat) (hs : list bool) (data : resp) (cs : list X) : option (list resp) :=
  let errs := map2 (lerr g d) g hs in
  if forallb (fun b => b) errs then Some (map (fun _ => RErr "ValueError") cs)
  else if existsb (fun b => b) errs then None
  else Some (map (fun gj => if Nat.eqb gj d then data else RNone) g).

(* the transport: one response per member of the group g (in group order) *)
Definition respond (g : list nat) (cs : list call) : option (list resp) :=
  if negb (Nat.eqb (List.length g) (List.length cs)) then None else
  match cs with
  | [] => Some []
  | AllGather t :: _ =>
      match all_ag cs with
      | Some ts => if forallb (same_meta t) ts then Some (map (fun _ => RTens ts) cs) else None
      | None => None end
  | Gather d _ t :: _ =>
      match all_g d cs with
      | Some hts => if forallb (same_meta t) (map snd hts)
                    then rooted g d (map fst hts) (RTens (map snd hts)) cs else None
      | None => None end
  | AllGatherObj _ :: _ =>
      match all_ago cs with Some vs => Some (map (fun _ => RObjs vs) cs) | None => None end
  | GatherObj d _ _ :: _ =>
      match all_go d cs with
      | Some hvs => rooted g d (map fst hvs) (RObjs (map snd hvs)) cs
      | None => None end
  | BcastObj s _ :: _ =>
      match all_bco s cs with
      | Some vs => if in_group g s then Some (map (fun _ => RMeta (nth (index_of s g) vs None)) cs)
                   else Some (map (fun _ => RErr "ValueError") cs)
      | None => None end
  end.

(* ------------------------------------------------------------------ programs *)
Inductive res (A : Type) := Ok (a : A) | Exc (e : string).
Arguments Ok {A}. Arguments Exc {A}.
Definition P (A : Type) := prog call resp (res A).
Definition bindr {A B} (p : P A) (f : A -> P B) : P B :=
  bind p (fun r => match r with Ok a => f a | Exc e => Ret (Exc e) end).
Definition bad {A} : P A := Ret (Exc "internal").

(* ---- variants (DESIGN 2.3): the code as it is (V_code) and the three repairs, each switchable.
   fx_d12: an all-empty list state is delivered as [] (not the ``{}`` placeholder);
   fx_d9 : _sync_dtype_and_shape translates the group rank to a global rank for broadcast src;
   fx_dst: the named ``rank`` is translated to a global rank for gather / gather_object dst;
   fx_d10: send_tensors first negotiates the number of dimensions (all_gather of [ndim]); tensors of
           lower rank travel with leading 1-extents and get their own shape back on receipt.
   fx_dt : (on top of fx_d10; fixes/sync-dtype.patch) the same exchange carries a dtype code: all_gather of
           [ndim, code]; when the codes differ every tensor is cast to a common transport dtype before the
           pad / gather and every gathered item is cast back to its SENDER's dtype; when they are all equal
           the collectives after the exchange are exactly those of fx_d10.
   The correspondence decides which variant the tree implements. ---- *)
Record fixes := mkFx { fx_d12 : bool; fx_d9 : bool; fx_dst : bool; fx_d10 : bool; fx_dt : bool }.
Definition V_code : fixes := mkFx false false false false false.
Definition V_fixed : fixes := mkFx true true true true true.
(* dist.get_global_rank(group, r) *)
Definition global_rank (g : list nat) (r : nat) : nat := nth r g r.

(* [dst]: the ``rank`` argument of synclib (None = all ranks receive); [i]: dist.get_rank(group) *)
Definition receives (dst : option nat) (i : nat) : bool :=
  match dst with None => true | Some d => Nat.eqb i d end.

(* gathered_states and friends do not depend on the variant *)
Inductive gs :=
| GEmpty                                   (* the ``{}`` placeholder of _get_empty_metric_state_collection *)
| GT (t : tensor) | GL (l : list tensor) | GD (l : list (string * tensor)) | GO (v : val).
Definition untouched (Wg : nat) : list gs := repeat GEmpty Wg.
Definition pad_slots (Wg : nat) (l : list gs) : list gs := l ++ repeat GEmpty (Wg - List.length l).
Definition maxZ (l : list Z) : Z := fold_right Z.max (-1)%Z l.
Definition maxl (l : list nat) : nat := fold_right Nat.max 0 l.
Definition vZ (v : val) : Z := match v with VZ z => z | _ => (-1)%Z end.
Definition glen (a : gs) : nat := match a with GL l => List.length l | GD l => List.length l | _ => 0 end.
Definition gapp (a : gs) (t : tensor) : gs := match a with GL l => GL (l ++ [t]) | _ => a end.
(* the body of ``for _rank, state_tensor in enumerate(gathered_state_data)`` in round k *)
Fixpoint collect (k : nat) (acc : list gs) (ts : list tensor) (lens : list nat) : list gs :=
  match acc, ts, lens with
  | a :: acc', t :: ts', len :: lens' =>
      (let a' := if Nat.eqb (glen a) 0 then GL [] else a in
       if Nat.ltb k len then gapp a' t else a') :: collect k acc' ts' lens'
  | _, _, _ => acc
  end.
(* sorted(my_state_data.keys()) : insertion sort on ASCII strings *)
Fixpoint ins_key {X} (kx : string * X) (l : list (string * X)) : list (string * X) :=
  match l with
  | [] => [kx]
  | ky :: r => if String.leb (fst kx) (fst ky) then kx :: l else ky :: ins_key kx r
  end.
Definition sort_keys {X} (l : list (string * X)) : list (string * X) := fold_right ins_key [] l.
Definition glist (a : gs) : list tensor := match a with GL l => l | _ => [] end.
Inductive state := STensor (t : tensor) | SList (l : list tensor) | SDict (l : list (string * tensor)) | SObj (v : val).
Definition sdict := list (string * state).             (* a metric's state_dict *)
Definition mdict := list (string * sdict).             (* metric name -> state_dict *)
Definition key := (string * string)%type.
Definition key_eqb (a b : key) : bool := String.eqb (fst a) (fst b) && String.eqb (snd a) (snd b).
(* metrics_traversal_order *)
Definition traversal (md : mdict) : list key :=
  flat_map (fun m => map (fun s => (fst m, fst s)) (sort_keys (snd m))) (sort_keys md).
Fixpoint assoc {X} (k : string) (l : list (string * X)) : option X :=
  match l with [] => None | (k', x) :: r => if String.eqb k k' then Some x else assoc k r end.
Definition lookup2 (md : mdict) (k : key) : option state :=
  match assoc (fst k) md with Some sd => assoc (snd k) sd | None => None end.
Definition gdict := list (key * gs).                   (* one slot of gathered_states, traversal order *)
Fixpoint set_key (k : key) (v : gs) (d : gdict) : gdict :=
  match d with
  | [] => []
  | (k', x) :: r => if key_eqb k k' then (k', v) :: r else (k', x) :: set_key k v r
  end.
Fixpoint get_key (k : key) (d : gdict) : option gs :=
  match d with [] => None | (k', x) :: r => if key_eqb k k' then Some x else get_key k r end.
Definition put (k : key) (vals : list gs) (gath : list gdict) : list gdict := map2 (set_key k) vals gath.
Definition template (order : list key) : gdict := map (fun k => (k, GEmpty)) order.

Section Variant.
Variable fx : fixes.
Variable g : list nat.        (* global ranks of the members of the process group, in group order *)

(* the root handed to dist.gather / gather_object for the named ``rank`` d *)
Definition dst_root (d : nat) : nat := if fx_dst fx then global_rank g d else d.
(* the src handed to broadcast_object_list for the group rank rk *)
Definition src_root (rk : nat) : nat := if fx_d9 fx then global_rank g rk else rk.

(* _simple_send_tensors: the gather list is built iff rank is None or local_rank == rank;
   V_code: ``dst=rank`` is handed to dist.gather, which reads it as a global rank *)
Definition simple_send (dst : option nat) (i : nat) (t : tensor) : P (option (list tensor)) :=
  match dst with
  | None => Op (AllGather t) (fun r =>
      match r with RTens l => Ret (Ok (Some l)) | RErr e => Ret (Exc e) | _ => bad end)
  | Some d => Op (Gather (dst_root d) (Nat.eqb i d) t) (fun r =>
      match r with RTens l => Ret (Ok (Some l)) | RNone => Ret (Ok None) | RErr e => Ret (Exc e) | _ => bad end)
  end.

(* _send_uneven_tensors *)
Definition send_uneven (dst : option nat) (i : nat) (t : tensor) : P (option (list tensor)) :=
  Op (AllGather (of_shape (shp t))) (fun r =>
    match r with
    | RTens szs =>
        let sizes := map to_shape szs in
        if all_eq sizes then simple_send dst i t
        else bindr (simple_send dst i (tpad (maxshape sizes) t))
                   (fun o => Ret (Ok (option_map (map2 tslice sizes) o)))
    | RErr e => Ret (Exc e)
    | _ => bad
    end).

(* send_tensors (torch.distributed initialised).
   V_code: ``if result.ndim == 0`` scalar fast path, else _send_uneven_tensors (D10: ranks whose tensors
   differ in ndim issue different collectives).
   fx_d10: ndims = all_gather([result.ndim]); all zero -> scalar fast path; otherwise every tensor is
   reshaped to (1,)*(max_ndim - ndim) + shape, sent, and entry idx is reshaped back to shape[max_ndim - ndims[idx]:] *)
(* the part of send_tensors after the negotiation, for the negotiated ndims [ns] *)
Definition send_nd (dst : option nat) (i : nat) (ns : list nat) (t : tensor) : P (option (list tensor)) :=
  let mx := maxl ns in
  if Nat.eqb mx 0 then simple_send dst i t
  else bindr (send_uneven dst i (lift (mx - ndim t) t))
             (fun o => Ret (Ok (option_map (map2 (fun n u => unlift (mx - n) u) ns) o))).
(* fx_dt: metas = all_gather([ndim, code]); codes all equal -> as fx_d10; otherwise cast to the transport dtype,
   send, and cast entry idx back to dtypes[idx] *)
Definition send_tensors_dt (dst : option nat) (i : nat) (t : tensor) : P (option (list tensor)) :=
  Op (AllGather (of_ndim_dt t)) (fun r =>
    match r with
    | RTens ms =>
        let ns := map meta_nd ms in
        let ds := map meta_dt ms in
        if all_same ds then send_nd dst i ns t
        else bindr (send_nd dst i ns (cast (transport ds) t))
                   (fun o => Ret (Ok (option_map (map2 cast ds) o)))
    | RErr e => Ret (Exc e)
    | _ => bad
    end).

Definition send_tensors (dst : option nat) (i : nat) (t : tensor) : P (option (list tensor)) :=
  if fx_d10 fx && fx_dt fx then send_tensors_dt dst i t else
  if fx_d10 fx then
    Op (AllGather (of_shape [ndim t])) (fun r =>
      match r with
      | RTens nds =>
          let ns := map (fun x => hd 0 (to_shape x)) nds in
          let mx := maxl ns in
          if Nat.eqb mx 0 then simple_send dst i t
          else bindr (send_uneven dst i (lift (mx - ndim t) t))
                     (fun o => Ret (Ok (option_map (map2 (fun n u => unlift (mx - n) u) ns) o)))
      | RErr e => Ret (Exc e)
      | _ => bad
      end)
  else match shp t with [] => simple_send dst i t | _ => send_uneven dst i t end.

(* _sync_tensor_states *)
Definition sync_tensor (dst : option nat) (i Wg : nat) (t : tensor) : P (list gs) :=
  bindr (send_tensors dst i t) (fun o =>
    Ret (Ok (match o with None => untouched Wg | Some l => pad_slots Wg (map GT l) end))).

(* _sync_dtype_and_shape: NOTE in V_code ``src=rank_with_dtype`` is a GROUP rank used as a GLOBAL rank *)
Definition sync_dtype_shape (i : nat) (t : option tensor) : P (option meta) :=
  Op (AllGatherObj (VZ (match t with Some _ => Z.of_nat i | None => (-1)%Z end))) (fun r =>
    match r with
    | RObjs l =>
        let rk := maxZ (map vZ l) in
        if Z.eqb rk (-1) then Ret (Ok None)
        else Op (BcastObj (src_root (Z.to_nat rk)) (if Z.eqb (Z.of_nat i) rk then option_map meta_of t else None)) (fun r =>
               match r with
               | RMeta (Some m) => Ret (Ok (Some m))
               | RMeta None => Ret (Exc "TypeError")       (* dtype, shape = None *)
               | RErr e => Ret (Exc e)
               | _ => bad
               end)
    | RErr e => Ret (Exc e)
    | _ => bad
    end).

Fixpoint list_loop (dst : option nat) (i : nat) (m : meta) (lens : list nat) (xs : list tensor)
         (k fuel : nat) (acc : list gs) : P (list gs) :=
  match fuel with
  | O => Ret (Ok acc)
  | S f => bindr (send_tensors dst i (nth k xs (dummy m))) (fun o =>
             list_loop dst i m lens xs (S k) f
                       (match o with Some ts => collect k acc ts lens | None => acc end))
  end.

(* _sync_list_tensor_states *)
Definition sync_list (dst : option nat) (i Wg : nat) (xs : list tensor) : P (list gs) :=
  Op (AllGatherObj (VZ (Z.of_nat (List.length xs)))) (fun r =>
    match r with
    | RObjs l =>
        let lens := map (fun v => Z.to_nat (vZ v)) l in
        let go (m : meta) := list_loop dst i m lens xs 0 (maxl lens) (untouched Wg) in
        if existsb (Nat.eqb 0) lens then
          bindr (sync_dtype_shape i (hd_error xs)) (fun o =>
            match o with
            | None =>        (* every rank's list is empty.  V_code: nothing is written (the ``{}`` placeholder stays) *)
                Ret (Ok (if fx_d12 fx && receives dst i then pad_slots Wg (map (fun _ => GL []) lens)
                         else untouched Wg))
            | Some m => go m
            end)
        else match xs with x0 :: _ => go (meta_of x0) | [] => bad end
    | RErr e => Ret (Exc e)
    | _ => bad
    end).

(* _sync_dict_tensor_states: zip(sorted LOCAL keys, gathered tensors), for every world slot *)
Definition sync_dict (dst : option nat) (i Wg : nat) (kv : list (string * tensor)) : P (list gs) :=
  let skv := sort_keys kv in
  bindr (sync_list dst i Wg (map snd skv)) (fun acc =>
    Ret (Ok (if receives dst i then map (fun a => GD (combine (map fst skv) (glist a))) acc else acc))).

(* _sync_obj_states *)
Definition sync_obj (dst : option nat) (i Wg : nat) (v : val) : P (list gs) :=
  match dst with
  | None => Op (AllGatherObj v) (fun r =>
      match r with RObjs l => Ret (Ok (pad_slots Wg (map GO l))) | RErr e => Ret (Exc e) | _ => bad end)
  | Some d => Op (GatherObj (dst_root d) (Nat.eqb i d) v) (fun r =>
      match r with
      | RObjs l => Ret (Ok (pad_slots Wg (map GO l)))
      | RNone => Ret (Ok (untouched Wg))
      | RErr e => Ret (Exc e)
      | _ => bad end)
  end.

Definition state_sync (dst : option nat) (i Wg : nat) (s : state) : P (list gs) :=
  match s with
  | STensor t => sync_tensor dst i Wg t
  | SList l => sync_list dst i Wg l
  | SDict kv => sync_dict dst i Wg kv
  | SObj v => sync_obj dst i Wg v
  end.

(* ---- sync_states ---- *)
Fixpoint sync_loop (dst : option nat) (i Wg : nat) (md : mdict) (order : list key) (gath : list gdict)
  : P (list gdict) :=
  match order with
  | [] => Ret (Ok gath)
  | k :: r =>
      match lookup2 md k with
      | Some s => bindr (state_sync dst i Wg s) (fun vals => sync_loop dst i Wg md r (put k vals gath))
      | None => Ret (Exc "KeyError")
      end
  end.
Definition sync_states (dst : option nat) (i Wg : nat) (md : mdict) (order : list key)
  : P (option (list gdict)) :=
  bindr (sync_loop dst i Wg md order (repeat (template order) Wg)) (fun gath =>
    Ret (Ok (if receives dst i then Some gath else None))).

End Variant.

(* ------------------------------------------------------------------ val codecs (harness) *)
Fixpoint td_of_val (v : val) : td :=
  match v with VL l => TArr (map td_of_val l) | _ => TSc v end.
Fixpoint val_of_td (x : td) : val :=
  match x with TSc v => v | TArr l => VL (map val_of_td l) end.
Definition nat_of (v : val) : nat := match v with VZ z => Z.to_nat z | _ => 0 end.
Definition vnat (n : nat) : val := VZ (Z.of_nat n).
Definition tensor_of_val (v : val) : option tensor :=
  match v with
  | VT "t" [VZ d; VL s; x] => Some (mkT d (map nat_of s) (td_of_val x))
  | _ => None end.
Definition val_of_tensor (t : tensor) : val :=
  VT "t" [VZ (dt t); VL (map vnat (shp t)); val_of_td (dat t)].
Definition name_of (v : val) : option string := match v with VT s [] => Some s | _ => None end.
Definition kv_of_val (v : val) : option (string * tensor) :=
  match v with
  | VL [k; t] => match name_of k, tensor_of_val t with Some k, Some t => Some (k, t) | _, _ => None end
  | _ => None end.
Definition state_of_val (v : val) : option state :=
  match v with
  | VT "t" _ => option_map STensor (tensor_of_val v)
  | VL l => option_map SList (omap tensor_of_val l)
  | VT "dict" l => option_map SDict (omap kv_of_val l)
  | VT "o" [x] => Some (SObj x)
  | _ => None end.
Definition named {X} (f : val -> option X) (v : val) : option (string * X) :=
  match v with
  | VL [k; x] => match name_of k, f x with Some k, Some x => Some (k, x) | _, _ => None end
  | _ => None end.
Definition sdict_of_val (v : val) : option sdict := as_list (named state_of_val) v.
Definition mdict_of_val (v : val) : option mdict := as_list (named sdict_of_val) v.

Definition val_of_kv (kt : string * tensor) : val := VL [VT (fst kt) []; val_of_tensor (snd kt)].
Definition val_of_gs (a : gs) : val :=
  match a with
  | GEmpty => VT "dict" []                                (* Python ``{}`` *)
  | GT t => val_of_tensor t
  | GL l => VL (map val_of_tensor l)
  | GD l => VT "dict" (map val_of_kv l)
  | GO v => VT "o" [v]
  end.
Definition val_of_gdict (d : gdict) : val :=
  VL (map (fun kx => VL [VT (fst (fst kx)) []; VT (snd (fst kx)) []; val_of_gs (snd kx)]) d).

Definition val_of_call (c : call) : val :=
  match c with
  | AllGather t => VT "all_gather" [VL (map vnat (shp t)); VZ (dt t)]
  | Gather d _ t => VT "gather" [vnat d; VL (map vnat (shp t)); VZ (dt t)]
  | AllGatherObj _ => VT "all_gather_object" []
  | GatherObj d _ _ => VT "gather_object" [vnat d]
  | BcastObj s _ => VT "broadcast_object_list" [vnat s; VZ 1]
  end.
Definition val_of_res {A} (f : A -> val) (r : res A) : val :=
  match r with Ok a => VT "ok" [f a] | Exc e => VT "exc" [VT e []] end.
Definition val_of_run {A} (f : A -> val) (tr : list (list (option call)) * option (list (res A))) : val :=
  VL [VL (map (fun round => VL (map (vopt val_of_call) round)) (fst tr));
      match snd tr with Some l => VL (map (val_of_res f) l) | None => VT "mismatch" [] end].

Definition fixes_of_val (v : val) : fixes :=
  match v with
  | VL [a; b; c; d; e] => mkFx (match as_B a with Some true => true | _ => false end)
                               (match as_B b with Some true => true | _ => false end)
                               (match as_B c with Some true => true | _ => false end)
                               (match as_B d with Some true => true | _ => false end)
                               (match as_B e with Some true => true | _ => false end)
  | _ => V_code end.
Definition dst_of_val (v : val) : option nat := match v with VZ z => Some (Z.to_nat z) | _ => None end.
Fixpoint mapi {X Y} (f : nat -> X -> Y) (i : nat) (l : list X) : list Y :=
  match l with [] => [] | x :: r => f i x :: mapi f (S i) r end.

(* scenario: (Wg (g ...) dst (fix_d12 fix_d9 fix_dst fix_d10 fix_dt) (t_0 ...) | (md_0 ...)) with one entry per member of g *)
(* @model sync_send run_sync_send *)
Definition run_sync_send (v : val) : val :=
  match v with
  | VL [VZ _; VL g; d; fxv; VL ts] =>
      match omap tensor_of_val ts with
      | Some ts =>
          let g := map nat_of g in let dst := dst_of_val d in
          val_of_run (vopt (fun l => VL (map val_of_tensor l)))
                     (run_all_tr (respond g) (mapi (fun i t => send_tensors (fixes_of_val fxv) g dst i t) 0 ts))
      | None => vbad end
  | _ => vbad end.

(* @model sync_states run_sync_states *)
Definition run_sync_states (v : val) : val :=
  match v with
  | VL [VZ wg; VL g; d; fxv; VL mds] =>
      match omap mdict_of_val mds with
      | Some mds =>
          let g := map nat_of g in let dst := dst_of_val d in
          val_of_run (vopt (fun l => VL (map val_of_gdict l)))
                     (run_all_tr (respond g)
                        (mapi (fun i md => sync_states (fixes_of_val fxv) g dst i (Z.to_nat wg) md (traversal md)) 0 mds))
      | None => vbad end
  | _ => vbad end.
