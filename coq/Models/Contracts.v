(* HAND-WRITTEN shape contracts (C18), one per check function of torcheval, written from the
   DOCSTRINGS of the metrics that call it -- not from the check's code:
     - which arguments share the sample dimension,
     - which ranks are documented ((n_sample,), (n_sample, n_class), (n_tasks, n_sample), ...),
     - how num_tasks / num_classes / num_labels constrain extents,
     - which option strings / integer ranges are documented,
     - value conditions only through the NAMED atoms of the generated check (source text).
   A contract is a decidable predicate `contractb_f : env -> bool` in pattern style (the documented
   shapes are the patterns; everything else is rejected); `contract_f e := contractb_f e = true`.
   Props/C18.v proves `accepts chk_f e = true <-> contract_f e` against Generated/ShapeChecks.v.

   Also the two entry points of the correspondence harness (T-co):
     shape_check    : (function, argument kinds/shapes, atom values) -> verdict of the GENERATED check
     shape_contract : same input -> accept / reject of the hand-written contract. *)
From Coq Require Import ZArith List Bool String.
From TE Require Import Base.Val Models.ShapeLang Generated.ShapeChecks.
Import ListNotations.
Open Scope string_scope.

(* ---------------- helpers (all unfolded by the proof tactic: Hint Unfold ... : shapes) ------------- *)
Definition int_is (v : aval) (n : nat) : bool :=
  match v with AInt z => Z.eqb z (Z.of_nat n) | _ => false end.
Definition opt_int_is (v : aval) (n : nat) : bool :=
  match v with ANone => true | AInt z => Z.eqb z (Z.of_nat n) | _ => false end.
Definition pos_int (v : aval) : bool := match v with AInt z => Z.ltb 0 z | _ => false end.
Definition int_ge (v : aval) (k : Z) : bool := match v with AInt z => Z.leb k z | _ => false end.
Definition atom_false (e : env) (n : string) : bool := match atom e n with Some false => true | _ => false end.
Definition atom_true (e : env) (n : string) : bool := match atom e n with Some true => true | _ => false end.
Definition atom_def (e : env) (n : string) : bool := match atom e n with Some _ => true | None => false end.
Definition str_in (v : aval) (opts : list (option string)) : bool :=
  match v with AStr t => opt_mem (Some t) opts | ANone => opt_mem None opts | _ => false end.

(* input and target are both (n_sample,) *)
Definition c_same_1d (e : env) : bool :=
  match arg e "input", arg e "target" with
  | ATensor [n], ATensor [m] => Nat.eqb n m
  | _, _ => false end.
(* input (n_sample,) labels or (n_sample, n_class) scores [n_class = num_classes when given]; target (n_sample,) *)
Definition c_multiclass_opt (e : env) : bool :=
  match arg e "input", arg e "target" with
  | ATensor [n], ATensor [m] => Nat.eqb n m
  | ATensor [n; c], ATensor [m] => Nat.eqb n m && opt_int_is (arg e "num_classes") c
  | _, _ => false end.
(* input (n_sample, num_classes) scores; target (n_sample,) *)
Definition c_multiclass_scores (e : env) : bool :=
  match arg e "input", arg e "target" with
  | ATensor [n; c], ATensor [m] => Nat.eqb n m && int_is (arg e "num_classes") c
  | _, _ => false end.
(* input, target (n_sample, num_labels) *)
Definition c_multilabel (e : env) : bool :=
  match arg e "input", arg e "target" with
  | ATensor [n; l], ATensor [m; l'] => Nat.eqb n m && Nat.eqb l l' && int_is (arg e "num_labels") l
  | _, _ => false end.
(* the multi-task layout: (n_sample,) when num_tasks = 1, else (num_tasks, n_sample) *)
Definition task_layout (nt : aval) (s : list nat) : bool :=
  match nt, s with
  | AInt t, [_] => Z.eqb t 1
  | AInt t, [r; _] => negb (Z.eqb t 1) && Z.eqb (Z.of_nat r) t
  | _, _ => false end.
(* the variant that additionally documents (1, n_sample) for num_tasks = 1 (AUPRC family) *)
Definition task_layout_row (nt : aval) (s : list nat) : bool :=
  match nt, s with
  | AInt t, [_] => Z.eqb t 1
  | AInt t, [r; _] => Z.eqb (Z.of_nat r) t
  | _, _ => false end.
Definition same_as (v : aval) (s : list nat) : bool :=
  match v with ATensor s' => shape_eqb s' s | _ => false end.
Definition opt_same_as (v : aval) (s : list nat) : bool :=
  match v with ANone => true | ATensor s' => shape_eqb s' s | _ => false end.
(* average option + num_classes: `micro` needs no num_classes, every other documented value needs a positive one *)
Definition average_ok (e : env) (opts : list (option string)) : bool :=
  match arg e "average" with
  | AStr t => opt_mem (Some t) opts && (String.eqb t "micro" || pos_int (arg e "num_classes"))
  | ANone => opt_mem None opts && pos_int (arg e "num_classes")
  | _ => false end.
Definition threshold_atoms (e : env) : bool :=
  atom_false e "(torch.diff(threshold) < 0.0).any()" && atom_false e "(threshold < 0.0).any()"
  && atom_false e "(threshold > 1.0).any()".
Definition threshold_1d (e : env) : bool := match arg e "threshold" with ATensor [_] => true | _ => false end.
Definition threshold_ends (e : env) : bool :=
  atom_false e "threshold[0] != 0" && atom_false e "threshold[-1] != 1".
Definition min_precision_ok (e : env) : bool :=
  match arg e "min_precision" with AFloat => atom_true e "0 <= min_precision" && atom_true e "min_precision <= 1" | _ => false end.

(* ---------------- classification: parameters ---------------- *)
Definition contractb_accuracy_param_check (e : env) : bool :=
  average_ok e [Some "micro"; Some "macro"; Some "none"; None] && int_ge (arg e "k") 1.
Definition contractb_precision_param_check (e : env) : bool :=
  average_ok e [Some "micro"; Some "macro"; Some "weighted"; Some "None"; None].
Definition contractb_recall_param_check (e : env) : bool :=
  average_ok e [Some "micro"; Some "macro"; Some "weighted"; None].
Definition contractb_f1_score_param_check (e : env) : bool :=
  average_ok e [Some "micro"; Some "macro"; Some "weighted"; None].
Definition contractb_confusion_matrix_param_check (e : env) : bool :=
  int_ge (arg e "num_classes") 2 && str_in (arg e "normalize") [Some "all"; Some "pred"; Some "true"; Some "none"; None].
Definition contractb_multilabel_accuracy_param_check (e : env) : bool :=
  str_in (arg e "criteria") [Some "exact_match"; Some "hamming"; Some "overlap"; Some "contain"; Some "belong"].
(* docstring: "K should be an integer greater than or equal to 1" *)
Definition contractb_topk_multilabel_accuracy_param_check (e : env) : bool :=
  contractb_multilabel_accuracy_param_check e && int_ge (arg e "k") 1.
Definition avg_classes (e : env) (p : string) : bool :=
  str_in (arg e "average") [Some "macro"; Some "none"; None] && int_ge (arg e p) 2.
Definition contractb_multiclass_auroc_param_check (e : env) : bool := avg_classes e "num_classes".
Definition contractb_multiclass_auprc_param_check (e : env) : bool := avg_classes e "num_classes".
Definition contractb_multilabel_auprc_param_check (e : env) : bool := avg_classes e "num_labels".
Definition contractb_multiclass_binned_auroc_param_check (e : env) : bool :=
  avg_classes e "num_classes" && threshold_1d e && threshold_atoms e.
Definition contractb_multiclass_binned_auprc_param_check (e : env) : bool :=
  avg_classes e "num_classes" && threshold_1d e && threshold_atoms e && threshold_ends e.
Definition contractb_multilabel_binned_auprc_param_check (e : env) : bool :=
  avg_classes e "num_labels" && threshold_1d e && threshold_atoms e && threshold_ends e.
Definition contractb_binary_binned_auroc_param_check (e : env) : bool :=
  int_ge (arg e "num_tasks") 1 && threshold_1d e && threshold_atoms e.
Definition contractb_binary_binned_auprc_param_check (e : env) : bool :=
  int_ge (arg e "num_tasks") 1 && threshold_1d e && threshold_atoms e && threshold_ends e.
Definition contractb_binned_precision_recall_curve_param_check (e : env) : bool :=
  threshold_1d e && threshold_atoms e.
Definition contractb_optimization_param_check (e : env) : bool :=
  str_in (arg e "optimization") [Some "vectorized"; Some "memory"].

(* ---------------- classification: inputs ---------------- *)
Definition contractb_binary_accuracy_update_input_check := c_same_1d.
Definition contractb_binary_precision_update_input_check := c_same_1d.
Definition contractb_binary_recall_update_input_check := c_same_1d.
Definition contractb_binary_f1_score_update_input_check := c_same_1d.
Definition contractb_binary_confusion_matrix_update_input_check := c_same_1d.
Definition contractb_binary_precision_recall_curve_update_input_check := c_same_1d.
Definition contractb_binary_recall_at_fixed_precision_update_input_check (e : env) : bool :=
  c_same_1d e && min_precision_ok e.

(* top-k (k > 1) needs scores *)
Definition contractb_accuracy_update_input_check (e : env) : bool :=
  match arg e "input", arg e "target", arg e "k" with
  | ATensor [n], ATensor [m], AInt k => Nat.eqb n m && Z.leb k 1
  | ATensor [n; c], ATensor [m], AInt k => Nat.eqb n m && opt_int_is (arg e "num_classes") c
  | _, _, _ => false end.
Definition contractb_precision_update_input_check := c_multiclass_opt.
Definition contractb_recall_update_input_check := c_multiclass_opt.
Definition contractb_f1_score_update_input_check := c_multiclass_opt.
Definition contractb_multiclass_precision_recall_curve_update_input_check (e : env) : bool :=
  match arg e "input", arg e "target" with
  | ATensor [n; c], ATensor [m] => Nat.eqb n m && opt_int_is (arg e "num_classes") c
  | _, _ => false end.
(* labels must lie in [0, num_classes) (value atoms); predicted labels (n,) or scores (n, num_classes) *)
Definition contractb_confusion_matrix_update_input_check (e : env) : bool :=
  match arg e "input", arg e "target" with
  | ATensor [n], ATensor [m] =>
      Nat.eqb n m && atom_false e "torch.max(input) >= num_classes" && atom_false e "torch.min(input) < 0"
      && atom_false e "torch.min(target) < 0" && atom_false e "torch.max(target) >= num_classes"
  | ATensor [n; c], ATensor [m] =>
      Nat.eqb n m && int_is (arg e "num_classes") c
      && atom_false e "torch.min(target) < 0" && atom_false e "torch.max(target) >= num_classes"
  | _, _ => false end.
Definition contractb_multiclass_auroc_update_input_check := c_multiclass_scores.
Definition contractb_multiclass_auprc_update_input_check := c_multiclass_scores.
Definition contractb_multiclass_binned_auroc_update_input_check := c_multiclass_scores.
Definition contractb_multiclass_binned_auprc_update_input_check := c_multiclass_scores.
Definition contractb_multilabel_auprc_update_input_check := c_multilabel.
Definition contractb_multilabel_binned_auprc_update_input_check := c_multilabel.
Definition contractb_multilabel_precision_recall_curve_update_input_check := c_multilabel.
Definition contractb_multilabel_recall_at_fixed_precision_update_input_check (e : env) : bool :=
  c_multilabel e && min_precision_ok e.
(* (n_sample, n_class) both *)
Definition c_same_2d (e : env) : bool :=
  match arg e "input", arg e "target" with
  | ATensor [n; l], ATensor [m; l'] => Nat.eqb n m && Nat.eqb l l'
  | _, _ => false end.
Definition contractb_multilabel_accuracy_update_input_check := c_same_2d.
Definition contractb_topk_multilabel_accuracy_update_input_check := c_same_2d.

(* multi-task binary metrics: input/target[/weight] share one shape in the task layout *)
Definition c_tasks (e : env) : bool :=
  match arg e "input" with
  | ATensor s => same_as (arg e "target") s && task_layout (arg e "num_tasks") s
  | _ => false end.
Definition c_tasks_w (e : env) : bool :=
  match arg e "input" with
  | ATensor s => same_as (arg e "target") s && opt_same_as (arg e "weight") s && task_layout (arg e "num_tasks") s
  | _ => false end.
Definition c_tasks_row (e : env) : bool :=
  match arg e "input" with
  | ATensor s => same_as (arg e "target") s && task_layout_row (arg e "num_tasks") s
  | _ => false end.
Definition contractb_binary_auroc_update_input_check := c_tasks_w.
Definition contractb_binary_auprc_update_input_check := c_tasks_row.
Definition contractb_binary_binned_auroc_update_input_check := c_tasks.
Definition contractb_binary_binned_auprc_update_input_check := c_tasks_row.
(* "If weight is a Tensor, its size should match the input tensor size": only a Python scalar weight broadcasts *)
Definition contractb_weighted_calibration_input_check (e : env) : bool :=
  c_tasks e && match arg e "weight", arg e "input" with
               | ATensor w, ATensor s => shape_eqb w s
               | ATensor _, _ => false
               | _, _ => true end.
Definition contractb_retrieval_precision_update_input_check := c_tasks.
Definition contractb_retrieval_recall_update_input_check := c_tasks.
Definition contractb_ne_input_check (e : env) : bool :=
  c_tasks_w e && atom_def e "input_max = input.max()" && atom_def e "input_min = input.min()"
  && match arg e "from_logits" with
     | ABool true => true
     | ABool false => atom_false e "input_max > 1.0" && atom_false e "input_min < 0.0"
     | _ => false end.
Definition contractb_click_through_rate_input_check (e : env) : bool :=
  match arg e "input" with
  | ATensor s => task_layout (arg e "num_tasks") s
                 && match arg e "weights" with ATensor s' => shape_eqb s' s | _ => true end
  | _ => false end.
(* windowed MSE: (n_sample,) for one task, (n_sample, num_tasks) otherwise -- only `input` is inspected here *)
Definition contractb_window_mean_squared_error_update_input_check (e : env) : bool :=
  match arg e "input", arg e "num_tasks" with
  | ATensor [_], AInt t => Z.eqb t 1
  | ATensor [_; c], AInt t => negb (Z.eqb t 1) && Z.eqb (Z.of_nat c) t
  | _, _ => false end.

(* ---------------- retrieval / ranking parameters ---------------- *)
Definition k_limit_ok (e : env) : bool :=
  match arg e "k" with
  | ANone => match arg e "limit_k_to_size" with ABool b => negb b | _ => false end
  | AInt k => Z.ltb 0 k
  | _ => false end.
Definition contractb_retrieval_precision_param_check := k_limit_ok.
Definition contractb_retrieval_recall_param_check := k_limit_ok.
Definition c_rank (e : env) : bool :=
  match arg e "input", arg e "target" with
  | ATensor [n; _], ATensor [m] => Nat.eqb n m
  | _, _ => false end.
Definition contractb_hit_rate_input_check (e : env) : bool :=
  c_rank e && match arg e "k" with ANone => true | AInt k => Z.ltb 0 k | _ => false end.
Definition contractb_reciprocal_rank_input_check := c_rank.
Definition contractb_frequency_input_check (e : env) : bool :=
  match arg e "input" with ATensor [_] => atom_false e "k < 0" | _ => false end.
Definition contractb_num_collisions_input_check (e : env) : bool :=
  match arg e "input" with
  | ATensor [_] => atom_false e "input.dtype not in (torch.int, torch.int8, torch.int16, torch.int32, torch.int64)"
  | _ => false end.

(* ---------------- regression / aggregation / statistical / image / text ---------------- *)
Definition contractb_mean_squared_error_param_check (e : env) : bool :=
  str_in (arg e "multioutput") [Some "raw_values"; Some "uniform_average"].
Definition contractb_r2_score_param_check (e : env) : bool :=
  str_in (arg e "multioutput") [Some "raw_values"; Some "uniform_average"; Some "variance_weighted"]
  && match arg e "num_regressors" with AInt z => Z.leb 0 z | ABool _ => true | _ => false end.
(* (n_sample,) or (n_sample, n_output), same for input and target *)
Definition c_regression (e : env) : bool :=
  match arg e "input", arg e "target" with
  | ATensor [n], ATensor [m] => Nat.eqb n m
  | ATensor [n; o], ATensor [m; o'] => Nat.eqb n m && Nat.eqb o o'
  | _, _ => false end.
Definition contractb_r2_score_update_input_check := c_regression.
(* sample_weight: (n_sample,) *)
Definition contractb_mean_squared_error_update_input_check (e : env) : bool :=
  c_regression e
  && match arg e "sample_weight", arg e "target" with
     | ATensor [w], ATensor (n :: _) => Nat.eqb w n
     | ATensor _, _ => false
     | _, _ => true end.
(* x, y: (n_samples,) or (n_tasks, n_samples), non-empty, n_tasks rows *)
Definition row_form (s : list nat) : list nat := match s with [n] => [1%nat; n] | _ => s end.
Definition contractb_auc_update_input_check (e : env) : bool :=
  match arg e "x", arg e "y", arg e "n_tasks" with
  | ATensor sx, ATensor sy, AInt t =>
      match row_form sx, row_form sy with
      | [r; n], [r'; n'] => Nat.eqb r r' && Nat.eqb n n' && Z.eqb (Z.of_nat r) t
                            && negb (Z.eqb (Z.of_nat (numel [r; n])) 0)
      | _, _ => false end
  | _, _, _ => false end.
Definition w_ok (e : env) (w : string) (n : nat) (a1 a2 a3 a4 : string) : bool :=
  match arg e w with
  | ANone => true
  | ATensor [m] => Nat.eqb m n && atom_true e a1 && atom_true e a2 && atom_true e a3 && atom_true e a4
  | _ => false end.
Definition contractb_wasserstein_update_input_check (e : env) : bool :=
  match arg e "x", arg e "y" with
  | ATensor [n], ATensor [m] =>
      negb (Nat.eqb n 0) && negb (Nat.eqb m 0) && atom_true e "x.device == y.device"
      && w_ok e "x_weights" n "torch.all(x_weights > 0)" "0 < torch.sum(x_weights)" "torch.sum(x_weights) < torch.inf"
              "x_weights.device == x.device"
      && w_ok e "y_weights" m "torch.all(y_weights > 0)" "0 < torch.sum(y_weights)" "torch.sum(y_weights) < torch.inf"
              "y_weights.device == y.device"
  | _, _ => false end.
Definition contractb_psnr_input_check (e : env) : bool :=
  match arg e "input" with ATensor s => same_as (arg e "target") s | _ => false end.
Definition contractb_psnr_param_check (e : env) : bool :=
  match arg e "data_range" with ANone => true | AFloat => atom_false e "data_range <= 0" | _ => false end.
Definition perplexity_pre : string :=
  "if ignore_index:
    _target = deepcopy(target)
    mask = _target.ne(ignore_index)
    _target = _target[mask]
else:
    _target = target".
(* input (n_sample, seq_len, vocab), target (n_sample, seq_len), non-ignored labels in [0, vocab) *)
Definition contractb_perplexity_input_check (e : env) : bool :=
  match arg e "input", arg e "target" with
  | ATensor [n; l; _], ATensor [m; l'] =>
      Nat.eqb n m && Nat.eqb l l' && atom_def e perplexity_pre
      && match atom e "_target.numel() > 0" with            (* no token left after ignore_index: nothing to bound *)
         | Some false => true
         | Some true => atom_false e "torch.min(_target) < 0"            (* /repo fix: negative labels are rejected *)
                        && atom_false e "input.size(2) <= torch.max(_target)"
         | None => false end
  | _, _ => false end.
Definition c_text (e : env) : bool :=
  match arg e "input", arg e "target" with
  | AStr _, AStr _ => true
  | AList n, AList m => Nat.eqb n m
  | _, _ => false end.
Definition contractb_word_error_rate_input_check := c_text.
Definition contractb_word_information_preserved_input_check := c_text.

Global Hint Unfold int_is opt_int_is pos_int int_ge atom_false atom_true atom_def str_in c_same_1d c_multiclass_opt
  c_multiclass_scores c_multilabel task_layout task_layout_row same_as opt_same_as average_ok threshold_atoms
  threshold_1d threshold_ends min_precision_ok avg_classes c_same_2d c_tasks c_tasks_w c_tasks_row k_limit_ok c_rank
  c_regression row_form w_ok c_text perplexity_pre : shapes.

(* ---------------- the contracts as propositions ---------------- *)
Definition contract_accuracy_param_check (e : env) : Prop := contractb_accuracy_param_check e = true.
Definition contract_accuracy_update_input_check (e : env) : Prop := contractb_accuracy_update_input_check e = true.
Definition contract_auc_update_input_check (e : env) : Prop := contractb_auc_update_input_check e = true.
Definition contract_binary_accuracy_update_input_check (e : env) : Prop := contractb_binary_accuracy_update_input_check e = true.
Definition contract_binary_auprc_update_input_check (e : env) : Prop := contractb_binary_auprc_update_input_check e = true.
Definition contract_binary_auroc_update_input_check (e : env) : Prop := contractb_binary_auroc_update_input_check e = true.
Definition contract_binary_binned_auprc_param_check (e : env) : Prop := contractb_binary_binned_auprc_param_check e = true.
Definition contract_binary_binned_auprc_update_input_check (e : env) : Prop := contractb_binary_binned_auprc_update_input_check e = true.
Definition contract_binary_binned_auroc_param_check (e : env) : Prop := contractb_binary_binned_auroc_param_check e = true.
Definition contract_binary_binned_auroc_update_input_check (e : env) : Prop := contractb_binary_binned_auroc_update_input_check e = true.
Definition contract_binary_confusion_matrix_update_input_check (e : env) : Prop := contractb_binary_confusion_matrix_update_input_check e = true.
Definition contract_binary_f1_score_update_input_check (e : env) : Prop := contractb_binary_f1_score_update_input_check e = true.
Definition contract_binary_precision_recall_curve_update_input_check (e : env) : Prop := contractb_binary_precision_recall_curve_update_input_check e = true.
Definition contract_binary_precision_update_input_check (e : env) : Prop := contractb_binary_precision_update_input_check e = true.
Definition contract_binary_recall_at_fixed_precision_update_input_check (e : env) : Prop := contractb_binary_recall_at_fixed_precision_update_input_check e = true.
Definition contract_binary_recall_update_input_check (e : env) : Prop := contractb_binary_recall_update_input_check e = true.
Definition contract_binned_precision_recall_curve_param_check (e : env) : Prop := contractb_binned_precision_recall_curve_param_check e = true.
Definition contract_click_through_rate_input_check (e : env) : Prop := contractb_click_through_rate_input_check e = true.
Definition contract_confusion_matrix_param_check (e : env) : Prop := contractb_confusion_matrix_param_check e = true.
Definition contract_confusion_matrix_update_input_check (e : env) : Prop := contractb_confusion_matrix_update_input_check e = true.
Definition contract_f1_score_param_check (e : env) : Prop := contractb_f1_score_param_check e = true.
Definition contract_f1_score_update_input_check (e : env) : Prop := contractb_f1_score_update_input_check e = true.
Definition contract_frequency_input_check (e : env) : Prop := contractb_frequency_input_check e = true.
Definition contract_hit_rate_input_check (e : env) : Prop := contractb_hit_rate_input_check e = true.
Definition contract_mean_squared_error_param_check (e : env) : Prop := contractb_mean_squared_error_param_check e = true.
Definition contract_mean_squared_error_update_input_check (e : env) : Prop := contractb_mean_squared_error_update_input_check e = true.
Definition contract_multiclass_auprc_param_check (e : env) : Prop := contractb_multiclass_auprc_param_check e = true.
Definition contract_multiclass_auprc_update_input_check (e : env) : Prop := contractb_multiclass_auprc_update_input_check e = true.
Definition contract_multiclass_auroc_param_check (e : env) : Prop := contractb_multiclass_auroc_param_check e = true.
Definition contract_multiclass_auroc_update_input_check (e : env) : Prop := contractb_multiclass_auroc_update_input_check e = true.
Definition contract_multiclass_binned_auprc_param_check (e : env) : Prop := contractb_multiclass_binned_auprc_param_check e = true.
Definition contract_multiclass_binned_auprc_update_input_check (e : env) : Prop := contractb_multiclass_binned_auprc_update_input_check e = true.
Definition contract_multiclass_binned_auroc_param_check (e : env) : Prop := contractb_multiclass_binned_auroc_param_check e = true.
Definition contract_multiclass_binned_auroc_update_input_check (e : env) : Prop := contractb_multiclass_binned_auroc_update_input_check e = true.
Definition contract_multiclass_precision_recall_curve_update_input_check (e : env) : Prop := contractb_multiclass_precision_recall_curve_update_input_check e = true.
Definition contract_multilabel_accuracy_param_check (e : env) : Prop := contractb_multilabel_accuracy_param_check e = true.
Definition contract_multilabel_accuracy_update_input_check (e : env) : Prop := contractb_multilabel_accuracy_update_input_check e = true.
Definition contract_multilabel_auprc_param_check (e : env) : Prop := contractb_multilabel_auprc_param_check e = true.
Definition contract_multilabel_auprc_update_input_check (e : env) : Prop := contractb_multilabel_auprc_update_input_check e = true.
Definition contract_multilabel_binned_auprc_param_check (e : env) : Prop := contractb_multilabel_binned_auprc_param_check e = true.
Definition contract_multilabel_binned_auprc_update_input_check (e : env) : Prop := contractb_multilabel_binned_auprc_update_input_check e = true.
Definition contract_multilabel_precision_recall_curve_update_input_check (e : env) : Prop := contractb_multilabel_precision_recall_curve_update_input_check e = true.
Definition contract_multilabel_recall_at_fixed_precision_update_input_check (e : env) : Prop := contractb_multilabel_recall_at_fixed_precision_update_input_check e = true.
Definition contract_ne_input_check (e : env) : Prop := contractb_ne_input_check e = true.
Definition contract_num_collisions_input_check (e : env) : Prop := contractb_num_collisions_input_check e = true.
Definition contract_optimization_param_check (e : env) : Prop := contractb_optimization_param_check e = true.
Definition contract_perplexity_input_check (e : env) : Prop := contractb_perplexity_input_check e = true.
Definition contract_precision_param_check (e : env) : Prop := contractb_precision_param_check e = true.
Definition contract_precision_update_input_check (e : env) : Prop := contractb_precision_update_input_check e = true.
Definition contract_psnr_input_check (e : env) : Prop := contractb_psnr_input_check e = true.
Definition contract_psnr_param_check (e : env) : Prop := contractb_psnr_param_check e = true.
Definition contract_r2_score_param_check (e : env) : Prop := contractb_r2_score_param_check e = true.
Definition contract_r2_score_update_input_check (e : env) : Prop := contractb_r2_score_update_input_check e = true.
Definition contract_recall_param_check (e : env) : Prop := contractb_recall_param_check e = true.
Definition contract_recall_update_input_check (e : env) : Prop := contractb_recall_update_input_check e = true.
Definition contract_reciprocal_rank_input_check (e : env) : Prop := contractb_reciprocal_rank_input_check e = true.
Definition contract_retrieval_precision_param_check (e : env) : Prop := contractb_retrieval_precision_param_check e = true.
Definition contract_retrieval_precision_update_input_check (e : env) : Prop := contractb_retrieval_precision_update_input_check e = true.
Definition contract_retrieval_recall_param_check (e : env) : Prop := contractb_retrieval_recall_param_check e = true.
Definition contract_retrieval_recall_update_input_check (e : env) : Prop := contractb_retrieval_recall_update_input_check e = true.
Definition contract_topk_multilabel_accuracy_param_check (e : env) : Prop := contractb_topk_multilabel_accuracy_param_check e = true.
Definition contract_topk_multilabel_accuracy_update_input_check (e : env) : Prop := contractb_topk_multilabel_accuracy_update_input_check e = true.
Definition contract_wasserstein_update_input_check (e : env) : Prop := contractb_wasserstein_update_input_check e = true.
Definition contract_weighted_calibration_input_check (e : env) : Prop := contractb_weighted_calibration_input_check e = true.
Definition contract_window_mean_squared_error_update_input_check (e : env) : Prop := contractb_window_mean_squared_error_update_input_check e = true.
Definition contract_word_error_rate_input_check (e : env) : Prop := contractb_word_error_rate_input_check e = true.
Definition contract_word_information_preserved_input_check (e : env) : Prop := contractb_word_information_preserved_input_check e = true.

(* ---------------- table: python check-function name -> contract ---------------- *)
Definition all_contracts : list (string * (env -> bool)) := [
  ("_accuracy_param_check", contractb_accuracy_param_check);
  ("_accuracy_update_input_check", contractb_accuracy_update_input_check);
  ("_auc_update_input_check", contractb_auc_update_input_check);
  ("_binary_accuracy_update_input_check", contractb_binary_accuracy_update_input_check);
  ("_binary_auprc_update_input_check", contractb_binary_auprc_update_input_check);
  ("_binary_auroc_update_input_check", contractb_binary_auroc_update_input_check);
  ("_binary_binned_auprc_param_check", contractb_binary_binned_auprc_param_check);
  ("_binary_binned_auprc_update_input_check", contractb_binary_binned_auprc_update_input_check);
  ("_binary_binned_auroc_param_check", contractb_binary_binned_auroc_param_check);
  ("_binary_binned_auroc_update_input_check", contractb_binary_binned_auroc_update_input_check);
  ("_binary_confusion_matrix_update_input_check", contractb_binary_confusion_matrix_update_input_check);
  ("_binary_f1_score_update_input_check", contractb_binary_f1_score_update_input_check);
  ("_binary_precision_recall_curve_update_input_check", contractb_binary_precision_recall_curve_update_input_check);
  ("_binary_precision_update_input_check", contractb_binary_precision_update_input_check);
  ("_binary_recall_at_fixed_precision_update_input_check", contractb_binary_recall_at_fixed_precision_update_input_check);
  ("_binary_recall_update_input_check", contractb_binary_recall_update_input_check);
  ("_binned_precision_recall_curve_param_check", contractb_binned_precision_recall_curve_param_check);
  ("_click_through_rate_input_check", contractb_click_through_rate_input_check);
  ("_confusion_matrix_param_check", contractb_confusion_matrix_param_check);
  ("_confusion_matrix_update_input_check", contractb_confusion_matrix_update_input_check);
  ("_f1_score_param_check", contractb_f1_score_param_check);
  ("_f1_score_update_input_check", contractb_f1_score_update_input_check);
  ("_frequency_input_check", contractb_frequency_input_check);
  ("_hit_rate_input_check", contractb_hit_rate_input_check);
  ("_mean_squared_error_param_check", contractb_mean_squared_error_param_check);
  ("_mean_squared_error_update_input_check", contractb_mean_squared_error_update_input_check);
  ("_multiclass_auprc_param_check", contractb_multiclass_auprc_param_check);
  ("_multiclass_auprc_update_input_check", contractb_multiclass_auprc_update_input_check);
  ("_multiclass_auroc_param_check", contractb_multiclass_auroc_param_check);
  ("_multiclass_auroc_update_input_check", contractb_multiclass_auroc_update_input_check);
  ("_multiclass_binned_auprc_param_check", contractb_multiclass_binned_auprc_param_check);
  ("_multiclass_binned_auprc_update_input_check", contractb_multiclass_binned_auprc_update_input_check);
  ("_multiclass_binned_auroc_param_check", contractb_multiclass_binned_auroc_param_check);
  ("_multiclass_binned_auroc_update_input_check", contractb_multiclass_binned_auroc_update_input_check);
  ("_multiclass_precision_recall_curve_update_input_check", contractb_multiclass_precision_recall_curve_update_input_check);
  ("_multilabel_accuracy_param_check", contractb_multilabel_accuracy_param_check);
  ("_multilabel_accuracy_update_input_check", contractb_multilabel_accuracy_update_input_check);
  ("_multilabel_auprc_param_check", contractb_multilabel_auprc_param_check);
  ("_multilabel_auprc_update_input_check", contractb_multilabel_auprc_update_input_check);
  ("_multilabel_binned_auprc_param_check", contractb_multilabel_binned_auprc_param_check);
  ("_multilabel_binned_auprc_update_input_check", contractb_multilabel_binned_auprc_update_input_check);
  ("_multilabel_precision_recall_curve_update_input_check", contractb_multilabel_precision_recall_curve_update_input_check);
  ("_multilabel_recall_at_fixed_precision_update_input_check", contractb_multilabel_recall_at_fixed_precision_update_input_check);
  ("_ne_input_check", contractb_ne_input_check);
  ("_num_collisions_input_check", contractb_num_collisions_input_check);
  ("_optimization_param_check", contractb_optimization_param_check);
  ("_perplexity_input_check", contractb_perplexity_input_check);
  ("_precision_param_check", contractb_precision_param_check);
  ("_precision_update_input_check", contractb_precision_update_input_check);
  ("_psnr_input_check", contractb_psnr_input_check);
  ("_psnr_param_check", contractb_psnr_param_check);
  ("_r2_score_param_check", contractb_r2_score_param_check);
  ("_r2_score_update_input_check", contractb_r2_score_update_input_check);
  ("_recall_param_check", contractb_recall_param_check);
  ("_recall_update_input_check", contractb_recall_update_input_check);
  ("_reciprocal_rank_input_check", contractb_reciprocal_rank_input_check);
  ("_retrieval_precision_param_check", contractb_retrieval_precision_param_check);
  ("_retrieval_precision_update_input_check", contractb_retrieval_precision_update_input_check);
  ("_retrieval_recall_param_check", contractb_retrieval_recall_param_check);
  ("_retrieval_recall_update_input_check", contractb_retrieval_recall_update_input_check);
  ("_topk_multilabel_accuracy_param_check", contractb_topk_multilabel_accuracy_param_check);
  ("_topk_multilabel_accuracy_update_input_check", contractb_topk_multilabel_accuracy_update_input_check);
  ("_wasserstein_update_input_check", contractb_wasserstein_update_input_check);
  ("_weighted_calibration_input_check", contractb_weighted_calibration_input_check);
  ("_window_mean_squared_error_update_input_check", contractb_window_mean_squared_error_update_input_check);
  ("_word_error_rate_input_check", contractb_word_error_rate_input_check);
  ("_word_information_preserved_input_check", contractb_word_information_preserved_input_check)
].

(* ---------------- harness entry points ----------------
   input:  VL [ VT fname [] ; VL [aval per parameter, in sig order] ; VL [atom value per atom, in atoms order] ]
     aval: [t (d0 d1 ..)] | [none] | int | #t/#f | [s [text]] | [f] | [l n] | [o]
     atom: #t | #f | [exc]
   output: shape_check -> 0 accept | 1 the check raises | 2 Python itself raises ; shape_contract -> #t / #f *)
Definition dec_aval (v : val) : aval :=
  match v with
  | VZ z => AInt z
  | VB b => ABool b
  | VT t l =>
      if String.eqb t "t" then match l with
                               | [VL ds] => match omap as_nat ds with Some s => ATensor s | None => AOther end
                               | _ => AOther end
      else if String.eqb t "none" then ANone
      else if String.eqb t "s" then match l with [VT s []] => AStr s | _ => AStr "" end
      else if String.eqb t "f" then AFloat
      else if String.eqb t "l" then match l with [VZ n] => AList (Z.to_nat n) | _ => AOther end
      else AOther
  | _ => AOther
  end.
Definition dec_atom (v : val) : option bool := match v with VB b => Some b | _ => None end.

Fixpoint assoc_default {A} (d : A) (ks : list string) (vs : list A) (k : string) : A :=
  match ks, vs with
  | k' :: ks', v :: vs' => if String.eqb k k' then v else assoc_default d ks' vs' k
  | _, _ => d
  end.
Definition mk_env (sg : list (string * kind)) (ats : list string) (avs : list val) (atvs : list val) : env :=
  {| arg := assoc_default AOther (map fst sg) (map dec_aval avs);
     atom := assoc_default None ats (map dec_atom atvs) |}.

Fixpoint find_check (n : string) (t : list (string * (list (string * kind) * list string * stmt)))
  : option (list (string * kind) * list string * stmt) :=
  match t with
  | [] => None
  | (k, c) :: r => if String.eqb n k then Some c else find_check n r
  end.
Fixpoint find_contract (n : string) (t : list (string * (env -> bool))) : option (env -> bool) :=
  match t with
  | [] => None
  | (k, c) :: r => if String.eqb n k then Some c else find_contract n r
  end.

(* @model shape_check run_shape_check *)
Definition run_shape_check (v : val) : val :=
  match v with
  | VL [VT f []; VL avs; VL atvs] =>
      match find_check f all_checks with
      | Some (sg, ats, chk) => VZ (verdict chk (mk_env sg ats avs atvs))
      | None => VT "no-check" []
      end
  | _ => vbad
  end.

(* @model shape_contract run_shape_contract *)
Definition run_shape_contract (v : val) : val :=
  match v with
  | VL [VT f []; VL avs; VL atvs] =>
      match find_check f all_checks, find_contract f all_contracts with
      | Some (sg, ats, _), Some c => VB (c (mk_env sg ats avs atvs))
      | _, _ => VT "no-contract" []
      end
  | _ => vbad
  end.
