(* C19 -- audit of the NARROWING cast sites of torcheval/metrics (definitions only).

   Generated/CastSites.v lists, from the Python AST of the tree under test, every expression that narrows a dtype
   (x.float(), x.type(torch.float), dtype=torch.float32, x.type(other.dtype), x.to(other_tensor), ...) as
   (module, enclosing function, cast operation without its receiver, occurrences).  This file is the REVIEWED list: each site with the reason why it
   cannot make a total inexact -- or the known finding that says it does.  A site that appears in the tree and is not
   reviewed here is an unproved obligation of C19 (Props/C19_casts.v): e.g. an `input.float()` inserted in `_sum_update`,
   a count created with `.to(target)`, a `cumsum(dtype=torch.int32)`. *)
From Coq Require Import List String Bool Arith.
Import ListNotations.
Open Scope string_scope.

Inductive cast_class :=
  | Mask                     (* a boolean mask becomes 0.0 / 1.0: exact in every float kind *)
  | FinalResult              (* conversion of the RESULT of compute() / of a functional after the exact computation *)
  | StateKind                (* declares the storage kind of a registered state / buffer: Generated/AccKinds.v + all_accumulators_wide_or_known *)
  | UnitWeights              (* default weights of value 1 created when the caller gives none *)
  | CountsKind               (* counts take the dtype of an int64 quantity computed from the labels (target.long(), target.sum()) *)
  | TransportRoundTrip        (* sync: cast to the negotiated transport dtype, cast back to the sender's dtype on receipt:
                                lossless by send_tensors_lossless_any_dtype (Props/C15.v) *)
  | KnownNarrow (finding : string).   (* narrows a caller-supplied value on its way to an accumulator: recorded finding *)

Definition site := (string * string * string * nat)%type.
Definition reviewed_casts : list (site * cast_class) := [
  (("functional/classification/accuracy.py", "_multiclass_accuracy_update", ".float()", 1), Mask);               (* (rank < k).float() *)
  (("functional/classification/binned_precision_recall_curve.py", "_multiclass_binned_precision_recall_curve_update_memory",
    ".type(<tensor>.dtype)", 2), CountsKind);                                                                      (* .type(target.dtype) after target = target.long() *)
  (("functional/classification/binned_precision_recall_curve.py", "_multilabel_binned_precision_recall_curve_update_memory",
    ".type(<tensor>.dtype)", 1), CountsKind);                                                                      (* .type(class_counts.dtype) *)
  (("functional/classification/binned_precision_recall_curve.py", "_update", ".type(<tensor>.dtype)", 1), CountsKind);   (* .type(target_sum.dtype) *)
  (("functional/classification/confusion_matrix.py", "_binary_confusion_matrix_compute", ".to(torch.float)", 3), FinalResult);
  (("functional/classification/confusion_matrix.py", "_confusion_matrix_compute", ".to(torch.float)", 3), FinalResult);
  (("functional/ranking/click_through_rate.py", "_click_through_rate_update", ".type(torch.float)", 2),
   KnownNarrow "C19-ctr-float32-batch-sums");
  (("functional/ranking/frequency.py", "frequency_at_k", ".float()", 1), Mask);                                    (* (input < k).float() *)
  (("functional/ranking/hit_rate.py", "hit_rate", ".float()", 1), Mask);                                           (* (rank < k).float() *)
  (("ranking/retrieval_recall.py", "RetrievalRecall.compute", ".float()", 1), FinalResult);                        (* (retrieved / num_relevant).float() *)
  (("statistical/wasserstein.py", "Wasserstein1D.update", "torch.ones_like(dtype=torch.float)", 2), UnitWeights);
  (("synclib.py", "send_tensors", ".to(<call>)", 1), TransportRoundTrip);                                          (* result.to(_transport_dtype(dtypes)) *)
  (("text/word_error_rate.py", "WordErrorRate.__init__", "torch.tensor(dtype=torch.float)", 2), StateKind);
  (("window/mean_squared_error.py", "WindowedMeanSquaredError.merge_state", "torch.zeros(dtype=torch.float32)", 2), StateKind)
].

Definition site_eqb (a b : site) : bool :=
  match a, b with
  | (m1, f1, s1, n1), (m2, f2, s2, n2) => String.eqb m1 m2 && String.eqb f1 f2 && String.eqb s1 s2 && Nat.eqb n1 n2
  end.
Definition reviewed (s : site) : bool := existsb (fun r => site_eqb s (fst r)) reviewed_casts.
Definition unreviewed (sites : list site) : list site := filter (fun s => negb (reviewed s)) sites.
