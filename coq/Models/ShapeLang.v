(* ShapeLang (DESIGN 2.1 / Appendix B): the language into which tools/tr_shapes.py translates every
   `_*_input_check` / `_*_param_check` function of torcheval, with a THREE-VALUED evaluation:
     Ok      the check function returns (accept),
     Raised  the check function executes one of its own `raise` statements,
     PyErr   Python itself raises while evaluating a condition (AttributeError on `None.shape`,
             IndexError on `size(0)` of a 0-dim tensor, TypeError on `None <= 0`, RuntimeError of
             `torch.max` on an empty tensor, ...).
   Definitions only (ported from design-probes/ShapeContract.v; named arguments instead of indices,
   Z-valued terms, argument kinds, opaque value atoms). *)
From Coq Require Import ZArith List Bool String.
Import ListNotations.
Open Scope string_scope.

(* what the check function can observe of one actual argument *)
Inductive aval :=
| ATensor (s : list nat)      (* a torch.Tensor of that shape *)
| ANone
| AInt (z : Z)
| ABool (b : bool)
| AStr (s : string)
| AFloat                      (* value only visible through opaque atoms *)
| AList (n : nat)             (* a Python list of that length *)
| AOther.

(* environment: named arguments; value atoms (None = evaluating the expression raises) *)
Record env := { arg : string -> aval; atom : string -> option bool }.

Inductive term :=
| Ndim (a : string) | Dim (a : string) (i : nat) | NumEl (a : string) | Len (a : string)
| Par (p : string) | Lit (z : Z).

Inductive cond :=
| Eq (x y : term) | Lt (x y : term) | Le (x y : term)
| ShapeEq (a b : string)
| IsNone (p : string) | IsTensor (p : string)
| IsInstInt (p : string)          (* isinstance(p, int): bool is an int *)
| TypeIsInt (p : string)          (* type(p) == int *)
| IsFloat (p : string) | IsList (p : string) | TypeEq (a b : string)
| StrEq (p : string) (s : string)
| OptIn (p : string) (opts : list (option string))
| BoolP (p : string)              (* Python truthiness of a bool / int / None parameter *)
| Atom (name : string)
| And (c d : cond) | Or (c d : cond) | Not (c : cond).

Definition Ne x y := Not (Eq x y).
Definition Gt x y := Lt y x.
Definition Ge x y := Le y x.

Inductive stmt :=
| SSkip | SRaise
| SIf (c : cond) (t f : stmt)
| SSeq (a b : stmt)
| SUnsq0 (a : string)             (* a = a.unsqueeze(0) *)
| SEval (name : string)           (* opaque local computation (e.g. input_max = input.max()); may raise *)
| SUntranslated.                  (* emitted when the translator had to abort: never accepts *)

Fixpoint numel (s : list nat) : nat := match s with [] => 1%nat | d :: r => (d * numel r)%nat end.

(* list equality on shapes; the tail comparison beyond rank 4 is kept opaque for proofs *)
Fixpoint tail_eqb (a b : list nat) : bool :=
  match a, b with
  | [], [] => true
  | x :: r, y :: r' => Nat.eqb x y && tail_eqb r r'
  | _, _ => false
  end.
Definition shape_eqb (a b : list nat) : bool :=
  match a, b with
  | [], [] => true
  | [x], [y] => Nat.eqb x y
  | [x; x1], [y; y1] => Nat.eqb x y && Nat.eqb x1 y1
  | [x; x1; x2], [y; y1; y2] => Nat.eqb x y && (Nat.eqb x1 y1 && Nat.eqb x2 y2)
  | x :: x1 :: x2 :: x3 :: r, y :: y1 :: y2 :: y3 :: r' =>
      Nat.eqb x y && (Nat.eqb x1 y1 && (Nat.eqb x2 y2 && (Nat.eqb x3 y3 && tail_eqb r r')))
  | _, _ => false
  end.

Definition tval (e : env) (t : term) : option Z :=
  match t with
  | Ndim a => match arg e a with ATensor s => Some (Z.of_nat (List.length s)) | _ => None end
  | Dim a i => match arg e a with
               | ATensor s => match nth_error s i with Some d => Some (Z.of_nat d) | None => None end
               | _ => None end
  | NumEl a => match arg e a with ATensor s => Some (Z.of_nat (numel s)) | _ => None end
  | Len a => match arg e a with
             | AList n => Some (Z.of_nat n)
             | ATensor (d :: _) => Some (Z.of_nat d)
             | _ => None end
  | Par p => match arg e p with
             | AInt z => Some z
             | ABool b => Some (if b then 1%Z else 0%Z)
             | _ => None end
  | Lit z => Some z
  end.

Definition cmp2 (f : Z -> Z -> bool) (x y : option Z) : option bool :=
  match x, y with Some a, Some b => Some (f a b) | _, _ => None end.

Definition kind_tag (v : aval) : nat :=
  match v with ATensor _ => 0 | ANone => 1 | AInt _ => 2 | ABool _ => 3 | AStr _ => 4 | AFloat => 5
             | AList _ => 6 | AOther => 7 end%nat.

Fixpoint opt_mem (o : option string) (l : list (option string)) : bool :=
  match l with
  | [] => false
  | None :: r => match o with None => true | Some _ => opt_mem o r end
  | Some s :: r => match o with Some t => String.eqb t s || opt_mem o r | None => opt_mem o r end
  end.

Fixpoint cval (e : env) (c : cond) : option bool :=
  match c with
  | Eq x y => cmp2 Z.eqb (tval e x) (tval e y)
  | Lt x y => cmp2 Z.ltb (tval e x) (tval e y)
  | Le x y => cmp2 Z.leb (tval e x) (tval e y)
  | ShapeEq a b => match arg e a, arg e b with
                   | ATensor s, ATensor s' => Some (shape_eqb s s')
                   | _, _ => None end
  | IsNone p => Some (match arg e p with ANone => true | _ => false end)
  | IsTensor p => Some (match arg e p with ATensor _ => true | _ => false end)
  | IsInstInt p => Some (match arg e p with AInt _ | ABool _ => true | _ => false end)
  | TypeIsInt p => Some (match arg e p with AInt _ => true | _ => false end)
  | IsFloat p => Some (match arg e p with AFloat => true | _ => false end)
  | IsList p => Some (match arg e p with AList _ => true | _ => false end)
  | TypeEq a b => Some (Nat.eqb (kind_tag (arg e a)) (kind_tag (arg e b)))
  | StrEq p s => Some (match arg e p with AStr t => String.eqb t s | _ => false end)
  | OptIn p opts => Some (match arg e p with
                          | AStr t => opt_mem (Some t) opts
                          | ANone => opt_mem None opts
                          | _ => false end)
  | BoolP p => Some (match arg e p with
                     | ABool b => b
                     | AInt z => negb (Z.eqb z 0)
                     | ANone => false
                     | _ => true end)
  | Atom n => atom e n
  | And c d => match cval e c with Some true => cval e d | r => r end          (* short-circuit *)
  | Or c d => match cval e c with Some false => cval e d | r => r end
  | Not c => match cval e c with Some b => Some (negb b) | None => None end
  end.

Inductive outcome := Ok (e : env) | Raised | PyErr.

Definition set_arg (e : env) (a : string) (v : aval) : env :=
  {| arg := fun k => if String.eqb k a then v else arg e k; atom := atom e |}.

Fixpoint exec (e : env) (s : stmt) : outcome :=
  match s with
  | SSkip => Ok e
  | SRaise => Raised
  | SIf c t f => match cval e c with
                 | Some true => exec e t
                 | Some false => exec e f
                 | None => PyErr end
  | SSeq a b => match exec e a with Ok e' => exec e' b | r => r end
  | SUnsq0 a => match arg e a with ATensor s => Ok (set_arg e a (ATensor (1%nat :: s))) | _ => PyErr end
  | SEval n => match atom e n with Some _ => Ok e | None => PyErr end
  | SUntranslated => PyErr
  end.

Definition accepts (chk : stmt) (e : env) : bool :=
  match exec e chk with Ok _ => true | _ => false end.

(* three-valued verdict as a number, for the correspondence harness: 0 accept, 1 raise, 2 PyErr *)
Definition verdict (chk : stmt) (e : env) : Z :=
  match exec e chk with Ok _ => 0%Z | Raised => 1%Z | PyErr => 2%Z end.

(* ---- typing of arguments (from the Python annotations; generated per function) ---- *)
Inductive kind :=
| KTensor | KOptTensor | KInt | KOptInt | KBool | KFloat | KOptFloat | KStr | KOptStr
| KStrOrList | KNumOrTensor | KAny.

Definition has_kind (k : kind) (v : aval) : bool :=
  match k, v with
  | KTensor, ATensor _ => true
  | KOptTensor, (ATensor _ | ANone) => true
  | KInt, AInt _ => true
  | KOptInt, (AInt _ | ANone) => true
  | KBool, ABool _ => true
  | KFloat, AFloat => true
  | KOptFloat, (AFloat | ANone) => true
  | KStr, AStr _ => true
  | KOptStr, (AStr _ | ANone) => true
  | KStrOrList, (AStr _ | AList _) => true
  | KNumOrTensor, (AInt _ | AFloat | ATensor _) => true
  | KAny, _ => true
  | _, _ => false
  end.

Definition wf (sg : list (string * kind)) (e : env) : Prop :=
  forallb (fun pk => has_kind (snd pk) (arg e (fst pk))) sg = true.
