(* State SCHEMAS of the metric classes driven by the C02 check (DESIGN 4/C02 item 4): which kind each
   registered state has (tensor with ndim and dtype | list | dict | int | float) after a history of
   updates, as a function of the class and of the SHAPES of the update inputs only.
   A class is shape-deterministic when its schema never changes: then all ranks schema-agree whatever
   their histories.  MeanSquaredError / R2Score / Covariance are not: the first update fixes the ndim.
   (List elements / dict values carry the ndim and dtype of the update inputs: an input contract.)
   Tie: the harness compares [run_sync_schema] with the schema of the real objects after every
   generated history.  Definitions only. *)
From Coq Require Import ZArith List Bool String Arith.
From TE Require Import Base.Val.
Import ListNotations.
Open Scope string_scope.

Inductive skind := KT (nd : nat) (dt : Z) | KList | KDict | KInt | KFloat.
Definition schema := list (string * skind).            (* sorted by state name *)
(* a class: initial schema, effect of one update() whose first tensor argument has the given shape *)
Record sclass := { s_init : schema; s_upd : schema -> list nat -> schema }.
Definition s_run (c : sclass) (h : list (list nat)) : schema := fold_left (s_upd c) h (s_init c).
Definition const_class (s : schema) : sclass := {| s_init := s; s_upd := fun s _ => s |}.

Definition nd_of (n : string) (s : schema) : nat :=
  match find (fun kx => String.eqb (fst kx) n) s with Some (_, KT nd _) => nd | _ => 0 end.
Definition set_nd (n : string) (nd : nat) (s : schema) : schema :=
  map (fun kx => if String.eqb (fst kx) n then (fst kx, match snd kx with KT _ d => KT nd d | k => k end) else kx) s.

(* MeanSquaredError.update: ``if self.sum_squared_error.ndim == 0 and sum_squared_error.ndim == 1`` --
   the batch statistic is 1-D iff the input is (n_sample, n_output) *)
Definition mse_class : sclass :=
  {| s_init := [("sum_squared_error", KT 0 0); ("sum_weight", KT 0 0)];
     s_upd := fun s x => if Nat.eqb (List.length x) 2 && Nat.eqb (nd_of "sum_squared_error" s) 0
                         then set_nd "sum_squared_error" 1 s else s |}.
(* R2Score.update: the same test on sum_squared_obs; three states switch together *)
Definition r2_class : sclass :=
  {| s_init := [("num_obs", KT 0 0); ("sum_obs", KT 0 0); ("sum_squared_obs", KT 0 0); ("sum_squared_residual", KT 0 0)];
     s_upd := fun s x => if Nat.eqb (List.length x) 2 && Nat.eqb (nd_of "sum_squared_obs" s) 0
                         then set_nd "sum_obs" 1 (set_nd "sum_squared_obs" 1 (set_nd "sum_squared_residual" 1 s)) else s |}.
(* Covariance._update: the first non-empty batch replaces the scalar placeholders by (d,) and (d,d) *)
Definition cov_class : sclass :=
  {| s_init := [("n", KInt); ("ss_sum", KT 0 0); ("sum", KT 0 0)];
     s_upd := fun s x => match x with
                         | k :: _ => if negb (Nat.eqb k 0) && Nat.eqb (nd_of "sum" s) 0
                                     then set_nd "sum" 1 (set_nd "ss_sum" 2 s) else s
                         | [] => s end |}.

Definition class_table : list (string * sclass) := [
  ("Mean", const_class [("weighted_sum", KT 0 1); ("weights", KT 0 1)]);
  ("Sum", const_class [("weighted_sum", KT 0 1)]);
  ("Max", const_class [("max", KT 0 0)]);
  ("Min", const_class [("min", KT 0 0)]);
  ("Cat", const_class [("dim", KInt); ("inputs", KList)]);
  ("Cat2d", const_class [("dim", KInt); ("inputs", KList)]);
  ("Throughput", const_class [("elapsed_time_sec", KFloat); ("num_total", KFloat)]);
  ("MulticlassAccuracy", const_class [("num_correct", KT 0 0); ("num_total", KT 0 0)]);
  ("MulticlassAccuracyMacro", const_class [("num_correct", KT 1 0); ("num_total", KT 1 0)]);
  ("BinaryAUROC", const_class [("inputs", KList); ("targets", KList); ("weights", KList)]);
  ("MeanSquaredError", mse_class);
  ("MeanSquaredErrorRaw", mse_class);
  ("R2ScoreRaw", r2_class);
  ("Covariance", cov_class);
  ("DummySumMetric", const_class [("sum", KT 0 0)]);
  ("DummySumListStateMetric", const_class [("x", KList)]);
  ("DictSumMetric", const_class [("x", KDict)]);
  ("MixedMetric", const_class [("by_key", KDict); ("count", KInt); ("items", KList); ("total", KT 1 1); ("weight", KFloat)])
].
Fixpoint class_of (k : string) (t : list (string * sclass)) : option sclass :=
  match t with [] => None | (k', c) :: r => if String.eqb k k' then Some c else class_of k r end.

(* the classes whose schema cannot change *)
Definition deterministic_keys : list string :=
  ["Mean"; "Sum"; "Max"; "Min"; "Cat"; "Cat2d"; "Throughput"; "MulticlassAccuracy"; "MulticlassAccuracyMacro";
   "BinaryAUROC"; "DummySumMetric"; "DummySumListStateMetric"; "DictSumMetric"; "MixedMetric"].
Definition shape_deterministic (c : sclass) : Prop := forall s x, s_upd c s x = s.

Definition val_of_skind (k : skind) : val :=
  match k with
  | KT nd d => VT "t" [VZ (Z.of_nat nd); VZ d]
  | KList => VT "l" [] | KDict => VT "d" [] | KInt => VT "i" [] | KFloat => VT "f" [] end.
(* (class-key (shape ...)) -> ((state kind) ...) *)
(* @model sync_schema run_sync_schema *)
Definition run_sync_schema (v : val) : val :=
  match v with
  | VL [VT k []; VL h] =>
      match class_of k class_table with
      | Some c => VL (map (fun kx => VL [VT (fst kx) []; val_of_skind (snd kx)])
                          (s_run c (map (fun x => match x with VL l => map (fun z => match z with VZ z => Z.to_nat z | _ => 0 end) l | _ => [] end) h)))
      | None => VT "unknown-class" [] end
  | _ => vbad end.
