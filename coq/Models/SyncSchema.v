(* State SCHEMAS of the metric classes driven by the C02 check (DESIGN 4/C02 item 4): which kind each
   registered state has (tensor with ndim and dtype | list | dict | int | float) after a history of
   updates, as a function of the class and of the SHAPE AND DTYPE of the update inputs.
   (Up to round 3 the schema was a function of the shapes only and the tie only ever fed float32 data:
   that model could not express known finding C02-state-dtype-follows-data.  An update now carries the
   dtype code of its first tensor argument as well -- codes as vlib/syncutil.py DTYPES:
   0 float32, 1 float64, 2 int32, 3 int64, 4 bool, 5 uint8.)
   A class is input-deterministic when its schema never changes: then all ranks schema-agree whatever
   their histories.  MeanSquaredError / R2Score / Covariance are not: the first (2-D / non-empty) update
   fixes the ndim AND the dtype (the state is re-bound to the batch statistic; later updates accumulate
   in place and keep both).  Max / Min are not: ``self.max = torch.max(self.max, torch.max(input))``
   re-binds the state to a tensor of the PROMOTED dtype on every update.
   (List elements / dict values carry the ndim and dtype of the update inputs: an input contract.)
   An update() that raises (an integer state cannot absorb a float batch in place; Covariance.update of
   integer data; bool data for MSE / R2) leaves the schema as it is.
   Tie: the harness compares [run_sync_schema] with the schema (kinds, ndim, dtype) of the real objects
   after every generated history, and [run_sync_promote] with torch.promote_types.  Definitions only. *)
From Coq Require Import ZArith List Bool String Arith.
From TE Require Import Base.Val.
Import ListNotations.
Open Scope string_scope.

Inductive skind := KT (nd : nat) (dt : Z) | KList | KDict | KInt | KFloat.
Definition schema := list (string * skind).            (* sorted by state name *)
(* one update(): shape and dtype code of its first tensor argument (all tensor arguments of the
   regression / aggregation classes are generated with one dtype) *)
Definition upd_in := (list nat * Z)%type.
Record sclass := { s_init : schema; s_upd : schema -> upd_in -> schema }.
Definition s_run (c : sclass) (h : list upd_in) : schema := fold_left (s_upd c) h (s_init c).
Definition const_class (s : schema) : sclass := {| s_init := s; s_upd := fun s _ => s |}.

Definition nd_of (n : string) (s : schema) : nat :=
  match find (fun kx => String.eqb (fst kx) n) s with Some (_, KT nd _) => nd | _ => 0 end.
Definition dt_of (n : string) (s : schema) : Z :=
  match find (fun kx => String.eqb (fst kx) n) s with Some (_, KT _ d) => d | _ => (-1)%Z end.
Definition set_nd (n : string) (nd : nat) (s : schema) : schema :=
  map (fun kx => if String.eqb (fst kx) n then (fst kx, match snd kx with KT _ d => KT nd d | k => k end) else kx) s.
Definition set_dt (n : string) (d : Z) (s : schema) : schema :=
  map (fun kx => if String.eqb (fst kx) n then (fst kx, match snd kx with KT nd _ => KT nd d | k => k end) else kx) s.

(* ---- dtypes ---- *)
Definition F32 : Z := 0%Z.
Definition F64 : Z := 1%Z.
Definition is_float (d : Z) : bool := Z.eqb d 0 || Z.eqb d 1.
(* torch.promote_types on the six codes (tied exhaustively; other codes are not meaningful) *)
Definition promote (a b : Z) : Z :=
  if Z.eqb a 1 || Z.eqb b 1 then 1%Z                           (* float64 absorbs everything *)
  else if Z.eqb a 0 || Z.eqb b 0 then 0%Z                      (* then float32 *)
  else if Z.eqb a 3 || Z.eqb b 3 then 3%Z                      (* then int64, int32 *)
  else if Z.eqb a 2 || Z.eqb b 2 then 2%Z
  else if Z.eqb a 5 || Z.eqb b 5 then 5%Z                      (* uint8 over bool *)
  else a.
Definition has_f64 (l : list Z) : bool := existsb (fun d => Z.eqb d 1) l.
(* dtype of torch.sum(x, dim=0): integer and bool inputs are accumulated in int64 *)
Definition sum_dt (d : Z) : Z := if is_float d then d else 3%Z.

(* Max.update / Min.update: the state is re-bound to torch.max(state, torch.max(input)): both 0-dim,
   the result has the promoted dtype *)
Definition ext_class (n : string) : sclass :=
  {| s_init := [(n, KT 0 0)];
     s_upd := fun s x => set_dt n (promote (dt_of n s) (snd x)) s |}.

(* MeanSquaredError.update: ``if self.sum_squared_error.ndim == 0 and sum_squared_error.ndim == 1`` --
   the batch statistic square(target - input).sum(dim=0) is 1-D iff the input is (n_sample, n_output);
   then the state is RE-BOUND to it (ndim 1, dtype of the statistic); otherwise ``+=`` in place: ndim and
   dtype of the state stay (bool data: ``-`` raises).  sum_weight is only ever added to in place. *)
Definition mse_class : sclass :=
  {| s_init := [("sum_squared_error", KT 0 0); ("sum_weight", KT 0 0)];
     s_upd := fun s x => if Nat.eqb (List.length (fst x)) 2 && Nat.eqb (nd_of "sum_squared_error" s) 0 && negb (Z.eqb (snd x) 4)
                         then set_dt "sum_squared_error" (sum_dt (snd x)) (set_nd "sum_squared_error" 1 s) else s |}.
(* R2Score.update: the same test on sum_squared_obs; three states switch together *)
Definition r2_rebind (d : Z) (n : string) (s : schema) : schema := set_dt n d (set_nd n 1 s).
Definition r2_class : sclass :=
  {| s_init := [("num_obs", KT 0 0); ("sum_obs", KT 0 0); ("sum_squared_obs", KT 0 0); ("sum_squared_residual", KT 0 0)];
     s_upd := fun s x => if Nat.eqb (List.length (fst x)) 2 && Nat.eqb (nd_of "sum_squared_obs" s) 0 && negb (Z.eqb (snd x) 4)
                         then r2_rebind (sum_dt (snd x)) "sum_obs"
                                (r2_rebind (sum_dt (snd x)) "sum_squared_obs"
                                   (r2_rebind (sum_dt (snd x)) "sum_squared_residual" s)) else s |}.
(* Covariance._update: the first non-empty batch replaces the scalar placeholders by (d,) and (d,d)
   statistics of the input's dtype; obs.mean() raises for non-floating data *)
Definition cov_class : sclass :=
  {| s_init := [("n", KInt); ("ss_sum", KT 0 0); ("sum", KT 0 0)];
     s_upd := fun s x => match fst x with
                         | k :: _ => if negb (Nat.eqb k 0) && Nat.eqb (nd_of "sum" s) 0 && is_float (snd x)
                                     then set_dt "sum" (snd x) (set_nd "sum" 1 (set_dt "ss_sum" (snd x) (set_nd "ss_sum" 2 s))) else s
                         | [] => s end |}.

Definition class_table : list (string * sclass) := [
  ("Mean", const_class [("weighted_sum", KT 0 1); ("weights", KT 0 1)]);
  ("Sum", const_class [("weighted_sum", KT 0 1)]);
  ("Max", ext_class "max");
  ("Min", ext_class "min");
  ("Cat", const_class [("dim", KInt); ("inputs", KList)]);
  ("Cat2d", const_class [("dim", KInt); ("inputs", KList)]);
  ("Throughput", const_class [("elapsed_time_sec", KFloat); ("num_total", KFloat)]);
  ("MulticlassAccuracy", const_class [("num_correct", KT 0 0); ("num_total", KT 0 0)]);
  ("MulticlassAccuracyMacro", const_class [("num_correct", KT 1 0); ("num_total", KT 1 0)]);
  ("BinaryAUROC", const_class [("inputs", KList); ("targets", KList); ("weights", KList)]);
  ("MeanSquaredError", mse_class);
  ("MeanSquaredErrorRaw", mse_class);
  ("R2ScoreRaw", r2_class);
  ("Covariance", cov_class);
  ("DummySumMetric", const_class [("sum", KT 0 0)]);
  ("DummySumListStateMetric", const_class [("x", KList)]);
  ("DictSumMetric", const_class [("x", KDict)]);
  ("MixedMetric", const_class [("by_key", KDict); ("count", KInt); ("items", KList); ("total", KT 1 1); ("weight", KFloat)])
].
Fixpoint class_of (k : string) (t : list (string * sclass)) : option sclass :=
  match t with [] => None | (k', c) :: r => if String.eqb k k' then Some c else class_of k r end.

(* the classes whose schema cannot change, whatever the shapes AND dtypes of the data
   (Max / Min were listed here while the model knew shapes only; they are NOT deterministic) *)
Definition deterministic_keys : list string :=
  ["Mean"; "Sum"; "Cat"; "Cat2d"; "Throughput"; "MulticlassAccuracy"; "MulticlassAccuracyMacro";
   "BinaryAUROC"; "DummySumMetric"; "DummySumListStateMetric"; "DictSumMetric"; "MixedMetric"].
(* the classes with a tensor state whose dtype (and, for the last four, ndim) follows the data *)
Definition dtype_following_keys : list string :=
  ["Max"; "Min"; "MeanSquaredError"; "MeanSquaredErrorRaw"; "R2ScoreRaw"; "Covariance"].
Definition input_deterministic (c : sclass) : Prop := forall s x, s_upd c s x = s.

(* shape provisos of the positive theorem: which update shapes fix the ndim at the first update *)
Definition shape_proviso (k : string) (x : list nat) : bool :=
  if String.eqb k "Max" || String.eqb k "Min" then true
  else if String.eqb k "Covariance" then Nat.eqb (List.length x) 2 && negb (Nat.eqb (hd 0 x) 0)
  else Nat.eqb (List.length x) 2.
(* a rank's history for the positive theorem: at least one update, every update of dtype d and of a
   shape meeting the proviso *)
Definition uniform_hist (k : string) (d : Z) (h : list upd_in) : Prop :=
  h <> [] /\ Forall (fun x => snd x = d /\ shape_proviso k (fst x) = true) h.

Definition val_of_skind (k : skind) : val :=
  match k with
  | KT nd d => VT "t" [VZ (Z.of_nat nd); VZ d]
  | KList => VT "l" [] | KDict => VT "d" [] | KInt => VT "i" [] | KFloat => VT "f" [] end.
Definition upd_of_val (x : val) : upd_in :=
  match x with
  | VL [VL l; VZ d] => (map (fun z => match z with VZ z => Z.to_nat z | _ => 0 end) l, d)
  | _ => ([], 0%Z) end.
(* (class-key (((extent ...) dtype-code) ...)) -> ((state kind) ...) *)
(* @model sync_schema run_sync_schema *)
Definition run_sync_schema (v : val) : val :=
  match v with
  | VL [VT k []; VL h] =>
      match class_of k class_table with
      | Some c => VL (map (fun kx => VL [VT (fst kx) []; val_of_skind (snd kx)]) (s_run c (map upd_of_val h)))
      | None => VT "unknown-class" [] end
  | _ => vbad end.
(* (a b) -> code of torch.promote_types *)
(* @model sync_promote run_sync_promote *)
Definition run_sync_promote (v : val) : val :=
  match v with VL [VZ a; VZ b] => VZ (promote a b) | _ => vbad end.
