(* Text metrics: WordErrorRate, WordInformationPreserved, WordInformationLost, BLEUScore
   (torcheval/metrics/text/*.py, functional/text/{helper,word_error_rate,word_information_*,bleu}.py).
   Tokens are integers; the harness renders them as words joined by mixed whitespace, so the
   str.split() glue is on the implementation side of the correspondence.
   Definitions only (plus the shape facts that the AddSpec records need). *)
From Coq Require Import ZArith List Bool QArith Qcanon String Arith Lia.
From TE Require Import Base.Val Base.Nd Base.Xq Algebra.Metric Algebra.MergeTree Algebra.Pool Algebra.Additive.
Import ListNotations.
Open Scope nat_scope.

(* ------------------------------------------------------------------------------------------ *)
(* 1. Edit distance                                                                            *)
(* ------------------------------------------------------------------------------------------ *)
Section ED.
Variable tok : Type.
Variable teq : tok -> tok -> bool.

(* algo: the row-by-row DP of _edit_distance.  [fill x left diag prev' b] computes dp[i][j..]
   for the token x = prediction[i-1]: left = dp[i][j-1], diag = dp[i-1][j-1], prev' = dp[i-1][j..].
   When the tokens match the code takes the diagonal WITHOUT comparing with the neighbours. *)
Fixpoint fill (x : tok) (left diag : nat) (prev' : list nat) (b : list tok) : list nat :=
  match b, prev' with
  | y :: b', up :: prev'' =>
      let v := if teq x y then diag else S (Nat.min up (Nat.min left diag)) in
      v :: fill x v up prev'' b'
  | _, _ => []
  end.
Definition next_row (x : tok) (prev : list nat) (b : list tok) : list nat :=
  match prev with
  | d0 :: prev' => S d0 :: fill x (S d0) d0 prev' b          (* dp[i][0] = i *)
  | [] => []
  end.
Definition row0 (b : list tok) : list nat := seq 0 (S (List.length b)).   (* dp[0][j] = j *)
Definition edit_distance_gen (a b : list tok) : nat :=
  last (fold_left (fun row x => next_row x row b) a (row0 b)) 0%nat.      (* dp[-1][-1] *)

(* the code's recurrence on (reversed) prefixes: equal last tokens -> diagonal *)
Fixpoint lev (ra rb : list tok) {struct ra} : nat :=
  match ra with
  | [] => List.length rb
  | x :: ra' =>
      (fix inner (rb : list tok) : nat :=
         match rb with
         | [] => List.length ra
         | y :: rb' => if teq x y then lev ra' rb'
                       else S (Nat.min (lev ra' rb) (Nat.min (inner rb') (lev ra' rb')))
         end) rb
  end.

(* spec: the textbook Levenshtein recurrence on (reversed) prefixes
   D(i,j) = min(D(i-1,j)+1, D(i,j-1)+1, D(i-1,j-1)+[x<>y]) *)
Fixpoint lev_std (ra rb : list tok) {struct ra} : nat :=
  match ra with
  | [] => List.length rb
  | x :: ra' =>
      (fix inner (rb : list tok) : nat :=
         match rb with
         | [] => List.length ra
         | y :: rb' => Nat.min (S (lev_std ra' rb))
                        (Nat.min (S (inner rb')) (lev_std ra' rb' + if teq x y then 0 else 1))
         end) rb
  end.
End ED.

Definition sent := list Z.
Definition edit_distance (a b : sent) : nat := edit_distance_gen Z Z.eqb a b.
(* the reference distance: textbook recurrence on the prefixes of a and b *)
Definition levenshtein (a b : sent) : nat := lev_std Z Z.eqb (rev a) (rev b).

(* ------------------------------------------------------------------------------------------ *)
(* 2. WER / WIP / WIL : batches of (input, target) sentence pairs                              *)
(* ------------------------------------------------------------------------------------------ *)
Definition pbatch := list (sent * sent).

Definition nsum {X} (f : X -> nat) (l : list X) : nat := fold_right (fun x a => (f x + a)%nat) 0%nat l.
Definition qn (n : nat) : Qc := mkq (Z.of_nat n) 1.

Section Stats.
Variable dist : sent -> sent -> nat.      (* edit_distance for algo, levenshtein for spec *)
Definition errors_of (b : pbatch) : nat := nsum (fun p => dist (fst p) (snd p)) b.
Definition tlen_of (b : pbatch) : nat := nsum (fun p => List.length (snd p)) b.
Definition ilen_of (b : pbatch) : nat := nsum (fun p => List.length (fst p)) b.
Definition maxlen_of (b : pbatch) : nat := nsum (fun p => Nat.max (List.length (snd p)) (List.length (fst p))) b.
End Stats.

Open Scope Qc_scope.

Definition xone_minus (a : xq) : xq :=
  match a with Fin q => Fin (1 - q) | NaN => NaN | PInf => NInf | NInf => PInf end.

(* compute(): IEEE division as torch does it on the accumulated sums *)
Definition wer_value (errors total : Qc) : xq := qdivx errors total.
Definition wip_value (correct target input : Qc) : xq := xmul (qdivx correct target) (qdivx correct input).
Definition wil_value (correct target preds : Qc) : xq := xone_minus (xmul (qdivx correct target) (qdivx correct preds)).

(* definitions on a corpus, parameterised by the distance *)
Definition wer_def (dist : sent -> sent -> nat) (b : pbatch) : xq :=
  wer_value (qn (errors_of dist b)) (qn (tlen_of b)).
Definition wip_def (dist : sent -> sent -> nat) (b : pbatch) : xq :=
  wip_value (qn (maxlen_of b) - qn (errors_of dist b)) (qn (tlen_of b)) (qn (ilen_of b)).
Definition wil_def (dist : sent -> sent -> nat) (b : pbatch) : xq :=
  wil_value (qn (errors_of dist b) - qn (maxlen_of b)) (qn (tlen_of b)) (qn (ilen_of b)).

Definition dec_sent (v : val) : option sent := as_list as_Z v.
Definition dec_pbatch (v : val) : option pbatch := as_list (as_pair dec_sent dec_sent) v.
Definition dec_unit (v : val) : option unit := Some tt.

(* ---- WordErrorRate: states errors, total ---- *)
Definition wer_beta (_ : unit) (b : pbatch) : nd :=
  nvec [qn (errors_of edit_distance b); qn (tlen_of b)].
Definition wer_gamma (_ : unit) (s : nd) : xq :=
  match nlist s with [e; t] => wer_value e t | _ => NaN end.
Definition wer_spec_add : AddSpec.
Proof.
  refine (Build_AddSpec unit pbatch xq (fun _ => nzeros 2) (fun _ _ => true) wer_beta wer_gamma _ _).
  - intros c. apply is_zero_nzeros.
  - intros c b Hb. reflexivity.
Defined.
Definition wer_metric := add_metric wer_spec_add.
Definition wer_codec : Codec wer_metric := add_codec wer_spec_add dec_unit (fun _ => dec_pbatch) (fun _ => xq_val).
(* @model text_wer run_text_wer *)
Definition run_text_wer := run_pool wer_metric wer_codec.
(* @model text_wer_fn run_text_wer_fn *)
Definition run_text_wer_fn (v : val) : val :=
  match v with
  | VL [_; bv] => match dec_pbatch bv with Some b => xq_val (wer_gamma tt (wer_beta tt b)) | None => vbad end
  | _ => vbad end.

(* ---- WordInformationPreserved: states correct_total, input_total, target_total ---- *)
Definition wip_beta (_ : unit) (b : pbatch) : nd :=
  nvec [qn (maxlen_of b) - qn (errors_of edit_distance b); qn (ilen_of b); qn (tlen_of b)].
Definition wip_gamma (_ : unit) (s : nd) : xq :=
  match nlist s with [c; i; t] => wip_value c t i | _ => NaN end.
Definition wip_spec_add : AddSpec.
Proof.
  refine (Build_AddSpec unit pbatch xq (fun _ => nzeros 3) (fun _ _ => true) wip_beta wip_gamma _ _).
  - intros c. apply is_zero_nzeros.
  - intros c b Hb. reflexivity.
Defined.
Definition wip_metric := add_metric wip_spec_add.
Definition wip_codec : Codec wip_metric := add_codec wip_spec_add dec_unit (fun _ => dec_pbatch) (fun _ => xq_val).
(* @model text_wip run_text_wip *)
Definition run_text_wip := run_pool wip_metric wip_codec.
(* @model text_wip_fn run_text_wip_fn *)
Definition run_text_wip_fn (v : val) : val :=
  match v with
  | VL [_; bv] => match dec_pbatch bv with Some b => xq_val (wip_gamma tt (wip_beta tt b)) | None => vbad end
  | _ => vbad end.

(* ---- WordInformationLost: states correct_total (= errors - max_total, as the code has it),
        preds_total, target_total ---- *)
Definition wil_beta (_ : unit) (b : pbatch) : nd :=
  nvec [qn (errors_of edit_distance b) - qn (maxlen_of b); qn (ilen_of b); qn (tlen_of b)].
Definition wil_gamma (_ : unit) (s : nd) : xq :=
  match nlist s with [c; p; t] => wil_value c t p | _ => NaN end.
Definition wil_spec_add : AddSpec.
Proof.
  refine (Build_AddSpec unit pbatch xq (fun _ => nzeros 3) (fun _ _ => true) wil_beta wil_gamma _ _).
  - intros c. apply is_zero_nzeros.
  - intros c b Hb. reflexivity.
Defined.
Definition wil_metric := add_metric wil_spec_add.
Definition wil_codec : Codec wil_metric := add_codec wil_spec_add dec_unit (fun _ => dec_pbatch) (fun _ => xq_val).
(* @model text_wil run_text_wil *)
Definition run_text_wil := run_pool wil_metric wil_codec.
(* @model text_wil_fn run_text_wil_fn *)
Definition run_text_wil_fn (v : val) : val :=
  match v with
  | VL [_; bv] => match dec_pbatch bv with Some b => xq_val (wil_gamma tt (wil_beta tt b)) | None => vbad end
  | _ => vbad end.

(* edit distance alone: algo, the code's recurrence, the textbook recurrence (harness: exhaustive stream) *)
Definition run_ed_with (f : sent -> sent -> nat) (v : val) : val :=
  match v with
  | VL [_; VL [a; b]] => match dec_sent a, dec_sent b with Some a, Some b => VZ (Z.of_nat (f a b)) | _, _ => vbad end
  | _ => vbad end.
(* @model text_ed_fn run_text_ed_fn *)
Definition run_text_ed_fn := run_ed_with edit_distance.
(* @model text_ed_lev_fn run_text_ed_lev_fn *)
Definition run_text_ed_lev_fn := run_ed_with (fun a b => lev Z Z.eqb (rev a) (rev b)).
(* @model text_ed_spec_fn run_text_ed_spec_fn *)
Definition run_text_ed_spec_fn := run_ed_with levenshtein.

Close Scope Qc_scope.
Open Scope nat_scope.

(* ------------------------------------------------------------------------------------------ *)
(* 3. BLEU                                                                                     *)
(* ------------------------------------------------------------------------------------------ *)
Definition gram := list Z.
Definition gram_dec : forall a b : gram, {a = b} + {a <> b} := list_eq_dec Z.eq_dec.

(* collections.Counter as an insertion-ordered association list *)
Definition counter := list (gram * nat).
Fixpoint cget (c : counter) (g : gram) : nat :=
  match c with [] => 0 | (k, v) :: r => if gram_dec k g then v else cget r g end.
(* counts[g] += 1 *)
Fixpoint cincr (c : counter) (g : gram) : counter :=
  match c with
  | [] => [(g, 1)]
  | (k, v) :: r => if gram_dec k g then (k, S v) :: r else (k, v) :: cincr r g
  end.
(* counts[g] = n *)
Fixpoint cset (c : counter) (g : gram) (n : nat) : counter :=
  match c with
  | [] => [(g, n)]
  | (k, v) :: r => if gram_dec k g then (k, n) :: r else (k, v) :: cset r g n
  end.

(* sentence[i : i+n] for i in range(0, len - n + 1) *)
Fixpoint windows (n : nat) (s : sent) : list gram :=
  match s with
  | [] => []
  | _ :: s' => if n <=? List.length s then firstn n s :: windows n s' else []
  end.

(* _get_ngrams: for n_val in 1..n_gram, for every window: counts[window] += 1 *)
Definition get_ngrams (n : nat) (s : sent) : counter :=
  fold_left (fun c nv => fold_left cincr (windows nv s) c) (seq 1 n) [].

(* Counter.__ior__ : for (elem, count) in other: if count > self[elem]: self[elem] = count *)
Definition cor (c o : counter) : counter :=
  fold_left (fun c kv => if cget c (fst kv) <? snd kv then cset c (fst kv) (snd kv) else c) o c.
(* Counter.__and__ : for (elem, count) in self: m = min(count, other[elem]); if m > 0: result[elem] = m *)
Fixpoint cand_ (c o : counter) : counter :=
  match c with
  | [] => []
  | (k, v) :: r =>
      let oc := cget o k in
      let m := if v <? oc then v else oc in
      if 0 <? m then (k, m) :: cand_ r o else cand_ r o
  end.

Definition ref_counter (n : nat) (refs : list sent) : counter :=
  fold_left (fun c r => cor c (get_ngrams n r)) refs [].

(* l[i] += v *)
Fixpoint add_at (i v : nat) (l : list nat) : list nat :=
  match l, i with
  | [], _ => []
  | x :: r, O => (x + v) :: r
  | x :: r, S i' => x :: add_at i' v r
  end.

(* for ngram in overlap: matches_by_order[len(ngram) - 1] += overlap[ngram] *)
Definition sent_matches (n : nat) (cand : sent) (refs : list sent) : list nat :=
  fold_left (fun ms kv => add_at (List.length (fst kv) - 1) (snd kv) ms)
            (cand_ (get_ngrams n cand) (ref_counter n refs)) (repeat 0 n).
(* for i in range(n_gram): if len - i > 0: possible[i] += len - i   (truncated subtraction) *)
Definition sent_possible (n : nat) (cand : sent) : list nat :=
  map (fun i => List.length cand - i) (seq 0 n).

(* min(lens, key = (|len - lc|, len)): Python's min returns the first minimal element *)
Definition absdiff (a b : nat) : nat := (a - b) + (b - a).
Definition key_lt (lc a b : nat) : bool :=
  (absdiff a lc <? absdiff b lc) || ((absdiff a lc =? absdiff b lc) && (a <? b)).
Definition closest_len (lc : nat) (lens : list nat) : nat :=
  match lens with
  | [] => 0
  | r :: rs => fold_left (fun best x => if key_lt lc x best then x else best) rs r
  end.
Definition sent_reflen (cand : sent) (refs : list sent) : nat :=
  closest_len (List.length cand) (map (@List.length Z) refs).

(* spec: clipped n-gram counts  sum_g min(c_cand g, max_ref c_ref g)  over an enumeration G of n-grams *)
Definition clipped (i : nat) (cand : sent) (refs : list sent) (G : list gram) : nat :=
  list_sum (map (fun g => Nat.min (count_occ gram_dec (windows i cand) g)
                                  (list_max (map (fun r => count_occ gram_dec (windows i r) g) refs))) G).
Definition sent_matches_spec (n : nat) (cand : sent) (refs : list sent) : list nat :=
  map (fun i => clipped i cand refs (nodup gram_dec (windows i cand))) (seq 1 n).

(* a corpus: candidates with their reference lists *)
Definition bbatch := list (sent * list sent).
Definition vadd (a b : list nat) : list nat := map2 Nat.add a b.
Definition vsum (n : nat) (rows : list (list nat)) : list nat := fold_right vadd (repeat 0 n) rows.

Section BleuStats.
Variable matches : nat -> sent -> list sent -> list nat.    (* sent_matches (algo) or sent_matches_spec *)
Definition bleu_ilen (b : bbatch) : nat := nsum (fun p => List.length (fst p)) b.
Definition bleu_tlen (b : bbatch) : nat := nsum (fun p => sent_reflen (fst p) (snd p)) b.
Definition bleu_matches (n : nat) (b : bbatch) : list nat := vsum n (map (fun p => matches n (fst p) (snd p)) b).
Definition bleu_possible (n : nat) (b : bbatch) : list nat := vsum n (map (fun p => sent_possible n (fst p)) b).
End BleuStats.

(* update() accepts the corpus: every reference list non-empty (min() of an empty list raises) and
   min(possible_matches_by_order) != 0 for THIS call's corpus *)
Definition bleu_ok (n : nat) (b : bbatch) : bool :=
  forallb (fun p => match snd p with [] => false | _ => true end) b
  && forallb (fun x => 0 <? x) (bleu_possible n b).

Open Scope Qc_scope.

(* results that may be 0, NaN or +inf, with symbolic finite values *)
Inductive xr := RFin (v : val) | RZero | RNaN | RPInf.
Inductive xs := SFin (v : val) | SNaN | SPInf | SNInf.   (* sum of weighted logs *)

Definition w_times_inf (w : Qc) (pos : bool) : xs :=      (* w * (+-inf) *)
  if qeq w 0 then SNaN else if Bool.eqb (qlt 0 w) pos then SPInf else SNInf.
(* weights[i] * log(matches[i] / possible[i]) *)
Definition bleu_term (w m p : Qc) : xs :=
  match qdivx m p with
  | Fin q => if qeq q 0 then w_times_inf w false          (* log 0 = -inf *)
             else if qlt q 0 then SNaN
             else SFin (rmul (vq w) (rln (vq q)))
  | NaN => SNaN
  | PInf => w_times_inf w true
  | NInf => SNaN
  end.
Definition sadd (a b : xs) : xs :=
  match a, b with
  | SFin x, SFin y => SFin (radd x y)
  | SNaN, _ | _, SNaN => SNaN
  | SPInf, SNInf | SNInf, SPInf => SNaN
  | SPInf, _ | _, SPInf => SPInf
  | SNInf, _ | _, SNInf => SNInf
  end.
Definition sexp (a : xs) : xr :=
  match a with SFin v => RFin (rexp v) | SNaN => RNaN | SPInf => RPInf | SNInf => RZero end.
Definition rmulx (a b : xr) : xr :=
  match a, b with
  | RNaN, _ | _, RNaN => RNaN
  | RZero, RPInf | RPInf, RZero => RNaN
  | RZero, _ | _, RZero => RZero
  | RPInf, _ | _, RPInf => RPInf
  | RFin x, RFin y => RFin (rmul x y)
  end.
Definition xr_val (a : xr) : val :=
  match a with RFin v => v | RZero => vq 0 | RNaN => VT "nan" [] | RPInf => VT "pinf" [] end.

Fixpoint map3 {X Y Z W} (f : X -> Y -> Z -> W) (a : list X) (b : list Y) (c : list Z) : list W :=
  match a, b, c with x :: a', y :: b', z :: c' => f x y z :: map3 f a' b' c' | _, _, _ => [] end.

(* _calc_brevity_penalty *)
Definition brevity (il tl : Qc) : xr :=
  if qlt tl il then RFin (vq 1)
  else match qdivx tl il with
       | Fin q => RFin (rexp (vq (1 - q)))
       | NaN => RNaN
       | PInf => RZero
       | NInf => RPInf
       end.
(* _bleu_score_compute *)
Definition bleu_compute (ws : list Qc) (il tl : Qc) (ms ps : list Qc) : xr :=
  let geo := sexp (fold_left sadd (map3 bleu_term ws ms ps) (SFin (vq 0))) in
  rmulx (brevity il tl) geo.

Definition sumQl (l : list Qc) : Qc := fold_right Qcplus 0 l.

Definition bcfg := (nat * option (list Qc))%type.       (* n_gram, weights *)
Definition bleu_weights (c : bcfg) : list Qc :=
  match snd c with Some ws => ws | None => repeat (1 / qn (fst c)) (fst c) end.

Definition dec_bcfg (v : val) : option bcfg :=
  match v with
  | VL [VZ n; w] =>
      let n' := Z.to_nat n in
      if (1 <=? n')%nat && (n' <=? 4)%nat then
        match as_opt (as_list as_Q) w with
        | Some None => Some (n', None)
        | Some (Some ws) => if Nat.eqb (List.length ws) n' then Some (n', Some ws) else None
        | None => None
        end
      else None
  | _ => None
  end.
Definition dec_bbatch (v : val) : option bbatch := as_list (as_pair dec_sent (as_list dec_sent)) v.

Definition bleu_zero (c : bcfg) : nd := Arr [Sc 0; nzeros (fst c); nzeros (fst c); Sc 0].
(* states in sorted-name order: input_len, matches_by_order, possible_matches_by_order, target_len *)
Definition bleu_beta_with (matches : nat -> sent -> list sent -> list nat) (c : bcfg) (b : bbatch) : nd :=
  Arr [Sc (qn (bleu_ilen b)); nvec (map qn (bleu_matches matches (fst c) b));
       nvec (map qn (bleu_possible (fst c) b)); Sc (qn (bleu_tlen b))].
Definition bleu_beta := bleu_beta_with sent_matches.
(* the functional: compute on one corpus' statistics *)
Definition bleu_of_stats (c : bcfg) (s : nd) : xr :=
  bleu_compute (bleu_weights c) (nsc (nget 0 s)) (nsc (nget 3 s)) (nlist (nget 1 s)) (nlist (nget 2 s)).
(* the class: compute() returns 0.0 when no n-gram matched at all *)
Definition bleu_gamma (c : bcfg) (s : nd) : val :=
  if qeq (sumQl (nlist (nget 1 s))) 0 then vq 0 else xr_val (bleu_of_stats c s).

Close Scope Qc_scope.
Open Scope nat_scope.

(* shape facts needed by the AddSpec record *)
Lemma add_at_length : forall l i v, List.length (add_at i v l) = List.length l.
Proof. induction l as [|x l IH]; intros [|i] v; cbn [add_at List.length]; try reflexivity. rewrite IH. reflexivity. Qed.
Lemma sent_matches_length n cand refs : List.length (sent_matches n cand refs) = n.
Proof.
  unfold sent_matches. generalize (cand_ (get_ngrams n cand) (ref_counter n refs)) as o.
  assert (H : forall (o : counter) ms, List.length (fold_left (fun ms kv => add_at (List.length (fst kv) - 1) (snd kv) ms) o ms) = List.length ms).
  { induction o as [|kv o IH]; intros ms; cbn [fold_left]; [reflexivity|]. rewrite IH, add_at_length. reflexivity. }
  intros o. rewrite H. apply repeat_length.
Qed.
Lemma sent_matches_spec_length n cand refs : List.length (sent_matches_spec n cand refs) = n.
Proof. unfold sent_matches_spec. rewrite map_length, seq_length. reflexivity. Qed.
Lemma sent_possible_length n cand : List.length (sent_possible n cand) = n.
Proof. unfold sent_possible. rewrite map_length, seq_length. reflexivity. Qed.
Lemma vadd_length : forall a b n, List.length a = n -> List.length b = n -> List.length (vadd a b) = n.
Proof.
  unfold vadd. induction a as [|x a IH]; intros [|y b] n Ha Hb; cbn [map2 List.length] in *; try congruence.
  destruct n as [|n]; [discriminate|]. f_equal. apply IH; congruence.
Qed.
Lemma vsum_length n rows : Forall (fun r => List.length r = n) rows -> List.length (vsum n rows) = n.
Proof.
  unfold vsum. induction 1 as [|r rows Hr _ IH]; cbn [fold_right]; [apply repeat_length|].
  apply vadd_length; assumption.
Qed.
Lemma bleu_matches_length matches n b :
  (forall c r, List.length (matches n c r) = n) -> List.length (bleu_matches matches n b) = n.
Proof.
  intros H. unfold bleu_matches. apply vsum_length. apply Forall_forall. intros r Hr.
  apply in_map_iff in Hr as [p [<- _]]. apply H.
Qed.
Lemma bleu_possible_length n b : List.length (bleu_possible n b) = n.
Proof.
  unfold bleu_possible. apply vsum_length. apply Forall_forall. intros r Hr.
  apply in_map_iff in Hr as [p [<- _]]. apply sent_possible_length.
Qed.
Lemma same_nzeros_nvec : forall l, same (nzeros (List.length l)) (nvec l) = true.
Proof.
  intros l. unfold nzeros, nvec. rewrite same_arr.
  induction l as [|a l IH]; cbn [List.length repeat map all2]; [reflexivity|]. rewrite IH. reflexivity.
Qed.
Lemma bleu_beta_shape matches (c : bcfg) b :
  (forall n cd r, List.length (matches n cd r) = n) -> same (bleu_zero c) (bleu_beta_with matches c b) = true.
Proof.
  intros H. unfold bleu_zero, bleu_beta_with. rewrite same_arr. cbn [all2 same].
  pose proof (same_nzeros_nvec (map qn (bleu_matches matches (fst c) b))) as H1.
  pose proof (same_nzeros_nvec (map qn (bleu_possible (fst c) b))) as H2.
  rewrite map_length, bleu_matches_length in H1 by apply H.
  rewrite map_length, bleu_possible_length in H2.
  rewrite H1, H2. reflexivity.
Qed.

Definition bleu_spec_add : AddSpec.
Proof.
  refine (Build_AddSpec bcfg bbatch val bleu_zero (fun c b => bleu_ok (fst c) b) bleu_beta bleu_gamma _ _).
  - intros c. unfold bleu_zero. cbn [is_zero forallb]. rewrite is_zero_nzeros.
    destruct (Qc_eq_dec 0 0) as [_|H]; [reflexivity|exfalso; apply H; reflexivity].
  - intros c b _. apply bleu_beta_shape. intros n cd r. apply sent_matches_length.
Defined.
Definition bleu_metric := add_metric bleu_spec_add.
Definition bleu_codec : Codec bleu_metric := add_codec bleu_spec_add dec_bcfg (fun _ => dec_bbatch) (fun _ v => v).
(* @model text_bleu run_text_bleu *)
Definition run_text_bleu := run_pool bleu_metric bleu_codec.
(* @model text_bleu_fn run_text_bleu_fn *)
Definition run_text_bleu_fn (v : val) : val :=
  match v with
  | VL [cv; bv] =>
      match dec_bcfg cv, dec_bbatch bv with
      | Some c, Some b => if bleu_ok (fst c) b then xr_val (bleu_of_stats c (bleu_beta c b)) else verr "too-short"
      | _, _ => vbad
      end
  | _ => vbad end.

(* ---- V_fixed: the repaired _bleu_score_compute (fixes/bleu-zero-weight.patch) ----
   geometric_mean = exp(sum(xlogy(weights, precisions))): xlogy(w, p) = w * log p, and 0 where w = 0
   (unless p is nan): a zero-weighted order is ignored, p^0 = 1.  Everything else -- statistics,
   validity, brevity penalty, the class's "0.0 when nothing matched" guard -- is unchanged.
   The definitions above are V_code (the code as it was: 0 * log 0 = nan). *)
Inductive bvariant := V_code | V_fixed.
Open Scope Qc_scope.
Definition bleu_term_v (v : bvariant) (w m p : Qc) : xs :=
  match v with
  | V_code => bleu_term w m p
  | V_fixed => if qeq w 0 then (match qdivx m p with NaN => SNaN | _ => SFin (vq 0) end) else bleu_term w m p
  end.
Definition bleu_compute_v (v : bvariant) (ws : list Qc) (il tl : Qc) (ms ps : list Qc) : xr :=
  let geo := sexp (fold_left sadd (map3 (bleu_term_v v) ws ms ps) (SFin (vq 0))) in
  rmulx (brevity il tl) geo.
Definition bleu_of_stats_v (v : bvariant) (c : bcfg) (s : nd) : xr :=
  bleu_compute_v v (bleu_weights c) (nsc (nget 0 s)) (nsc (nget 3 s)) (nlist (nget 1 s)) (nlist (nget 2 s)).
Definition bleu_gamma_v (v : bvariant) (c : bcfg) (s : nd) : val :=
  if qeq (sumQl (nlist (nget 1 s))) 0 then vq 0 else xr_val (bleu_of_stats_v v c s).
Close Scope Qc_scope.
Open Scope nat_scope.
Definition bleu_spec_add_v (v : bvariant) : AddSpec.
Proof.
  refine (Build_AddSpec bcfg bbatch val bleu_zero (fun c b => bleu_ok (fst c) b) bleu_beta (bleu_gamma_v v) _ _).
  - exact (azero_zero bleu_spec_add).
  - exact (abeta_shape bleu_spec_add).
Defined.
Definition bleu_metric_fixed := add_metric (bleu_spec_add_v V_fixed).
Definition bleu_codec_fixed : Codec bleu_metric_fixed :=
  add_codec (bleu_spec_add_v V_fixed) dec_bcfg (fun _ => dec_bbatch) (fun _ v => v).
(* @model text_bleu_fixed run_text_bleu_fixed *)
Definition run_text_bleu_fixed := run_pool bleu_metric_fixed bleu_codec_fixed.
Definition run_bleu_fn_v (v : bvariant) (x : val) : val :=
  match x with
  | VL [cv; bv] =>
      match dec_bcfg cv, dec_bbatch bv with
      | Some c, Some b => if bleu_ok (fst c) b then xr_val (bleu_of_stats_v v c (bleu_beta c b)) else verr "too-short"
      | _, _ => vbad
      end
  | _ => vbad end.
(* @model text_bleu_fixed_fn run_text_bleu_fixed_fn *)
Definition run_text_bleu_fixed_fn := run_bleu_fn_v V_fixed.

(* per-sentence statistics, algo and spec (harness: algo-vs-spec stream) *)
Definition run_bleu_stats_with (matches : nat -> sent -> list sent -> list nat) (v : val) : val :=
  match v with
  | VL [VZ n; VL [cv; rv]] =>
      match dec_sent cv, as_list dec_sent rv with
      | Some cd, Some refs =>
          let n := Z.to_nat n in
          VL [vlistZ (map Z.of_nat (matches n cd refs)); vlistZ (map Z.of_nat (sent_possible n cd));
              VZ (Z.of_nat (sent_reflen cd refs))]
      | _, _ => vbad
      end
  | _ => vbad end.
(* @model text_bleu_stats_fn run_text_bleu_stats_fn *)
Definition run_text_bleu_stats_fn := run_bleu_stats_with sent_matches.
(* @model text_bleu_stats_spec_fn run_text_bleu_stats_spec_fn *)
Definition run_text_bleu_stats_spec_fn := run_bleu_stats_with sent_matches_spec.
