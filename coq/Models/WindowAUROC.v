(* WindowedBinaryAUROC (torcheval/metrics/window/auroc.py): a SAMPLE-granular ring buffer.
     registered states : inputs, targets, weights (num_tasks x L), max_num_samples, total_samples
     PLAIN ATTRIBUTE   : next_inserted (rewound by the reset() override since c5ceb09; not saved / loaded)
   update(): three insertion cases (batch >= window; fits in the rest; wraps around).
   compute(): "the tail inputs[:, next_inserted:] is all zeros => the window is unfilled, read
   [:next_inserted]" heuristic and .squeeze() of the (num_tasks, k) slices -- modelled as they are.
   merge_state(): pools the windows AND enlarges max_num_samples (the only class that does).
   The AUROC kernel is the one of Models/Curves.v (_binary_auroc_compute_jit, proved equal to the
   pairwise definition in Proofs/CurvesP.v): samples are (score on an integer grid, label, weight);
   the harness feeds score/aDen to torch. *)
From Coq Require Import ZArith List Bool QArith Qcanon String Arith.
From TE Require Import Base.Val Base.Xq Algebra.Metric Algebra.Pool Models.Curves Models.Window.
Import ListNotations.
Open Scope list_scope.
Open Scope Qc_scope.

Definition smp := sample.                                     (* Curves.sample: score (grid), label, weight *)
Definition smpz : smp := (0%Z, (false, 0)).                  (* a zero-filled slot *)
Definition col := list smp.                                  (* one sample per task *)

Record acfg := { aT : nat; aN : nat; aDen : positive }.
Record ast := { a_buf : list col; a_cur : nat; a_tot : nat; a_max : nat }.

Definition azcol (c : acfg) : col := repeat smpz (aT c).
Definition ainit (c : acfg) : ast :=
  {| a_buf := repeat (azcol c) (aN c); a_cur := 0; a_tot := 0; a_max := aN c |}.

(* buf[a : a + |b|] = b *)
Definition blit {A} (a : nat) (b : list A) (l : list A) : list A :=
  firstn a l ++ b ++ skipn (a + List.length b) l.

(* a batch is a list of columns (samples), oldest first *)
Definition aupd (c : acfg) (s : ast) (b : list col) : ast :=
  let N := a_max s in
  let k := List.length b in
  if Nat.leb N k then
    {| a_buf := lastn N b; a_cur := 0; a_tot := a_tot s + k; a_max := N |}
  else if Nat.ltb N (a_cur s) then
    (* stale cursor beyond the buffer (reachable only through D5: merge-enlarged object, then
       load_state_dict() of a smaller dict; reset() rewinds the cursor since c5ceb09): the first slice assignment is empty; the second one,
       inputs[:, :k-rest] = input[:, -(k-rest):], BROADCASTS a one-sample batch over
       min(N, 1 + cursor - N) slots and raises (state untouched) for any larger batch *)
    match b with
    | [cl] => let m := (1 + (a_cur s - N))%nat in
              {| a_buf := blit 0 (repeat cl (Nat.min N m)) (a_buf s); a_cur := Nat.modulo m N;
                 a_tot := a_tot s + 1; a_max := N |}
    | _ => s
    end
  else
    let rest := (N - a_cur s)%nat in
    if Nat.leb k rest
    then {| a_buf := blit (a_cur s) b (a_buf s); a_cur := Nat.modulo (a_cur s + k) N;
            a_tot := a_tot s + k; a_max := N |}
    else {| a_buf := blit 0 (skipn rest b) (blit (a_cur s) (firstn rest b) (a_buf s));
            a_cur := Nat.modulo (k - rest) N; a_tot := a_tot s + k; a_max := N |}.

(* ---- _binary_auroc_compute_jit on one row ---- *)
Inductive aout := AErr | AScalar (x : Qc) | AVec (l : list Qc).

Definition zero_scores (cols : list col) : bool :=
  forallb (fun cl => forallb (fun s => (sc s =? 0)%Z) cl) cols.
(* the slots compute() reads *)
Definition aread (s : ast) : list col :=
  if zero_scores (skipn (a_cur s) (a_buf s)) then firstn (a_cur s) (a_buf s) else a_buf s.
Definition rows_of (c : acfg) (cols : list col) : list (list smp) :=
  map (fun t => map (fun cl => nth t cl smpz) cols) (seq 0 (aT c)).

Definition acmp (c : acfg) (s : ast) : aout :=
  let used := aread s in
  let rows := rows_of c used in
  match List.length used, aT c with
  | O, _ => AErr                                            (* empty slice: TorchScript error *)
  | S O, S O => AErr                                        (* (1,1).squeeze() is 0-dim: TorchScript error *)
  | S O, _ => AScalar (auroc_row (nth 0 used []))           (* (T,1).squeeze() = (T,): tasks read as samples; 1-D kernel *)
  | _, S O => AScalar (auroc_row (nth 0 rows []))           (* (1,k).squeeze() = (k,): 1-D kernel *)
  | _, _ => AVec (auroc_kernel rows)                        (* 2-D kernel (flattened masked_scatter_) *)
  end.

Definition afilled (m : ast) : list col := firstn (Nat.min (a_tot m) (a_max m)) (a_buf m).
Definition amrg (c : acfg) (s : ast) (ms : list ast) : ast :=
  let newlen := fold_left (fun a m => a + a_max m)%nat ms (a_max s) in
  let parts := afilled s ++ flat_map afilled ms in
  let idx := List.length parts in
  {| a_buf := parts ++ repeat (azcol c) (newlen - idx);
     a_cur := Nat.modulo idx newlen;
     a_tot := fold_left (fun a m => a + a_tot m)%nat ms (a_tot s);
     a_max := newlen |}.

Definition a_with_cur (k : nat) (s : ast) : ast :=
  {| a_buf := a_buf s; a_cur := k; a_tot := a_tot s; a_max := a_max s |}.

Definition col_ok (c : acfg) (cl : col) : bool := Nat.eqb (List.length cl) (aT c).
Definition avalid (c : acfg) (b : list col) : bool :=
  negb (Nat.eqb (List.length b) 0) && forallb (col_ok c) b.

Definition wauroc (fixed : variant) : Metric :=
  {| cfg := acfg; st := ast; batch := list col; out := aout;
     init := ainit; valid := avalid; upd := aupd; mrg := amrg; cmp := acmp;
     prep := fun _ s => s;
     save := fun _ s => if cur_saved fixed then s else a_with_cur 0 s;
     load := fun _ tgt d => if cur_saved fixed then d else a_with_cur (a_cur tgt) d;
     rst := fun c s => if cur_reset fixed then ainit c else a_with_cur (a_cur s) (ainit c) |}.

(* ---- codec ---- *)
Definition dec_acfg (v : val) : option acfg :=
  match v with
  | VL [t; n; VZ (Zpos d)] =>
      match as_nat t, as_nat n with Some t, Some n => Some {| aT := t; aN := n; aDen := d |} | _, _ => None end
  | _ => None end.
(* batch on the wire: rows of inputs / targets / weights, one row per task *)
Definition cols_of (c : acfg) (x : list (list Z)) (y : list (list bool)) (w : list (list Qc)) : list col :=
  map (fun i => map (fun t => (nth i (nth t x []) 0%Z, (nth i (nth t y []) false, nth i (row t w) 0)))
                  (seq 0 (aT c)))
      (seq 0 (List.length (nth 0 x []))).
Definition dec_ab (c : acfg) (v : val) : option (list col) :=
  match v with
  | VL [x; y; w] =>
      match as_list (as_list as_Z) x, as_list (as_list as_B) y, dec_rows w with
      | Some x, Some y, Some w => Some (cols_of c x y w)
      | _, _, _ => None end
  | _ => None end.
Definition amat (f : smp -> Qc) (c : acfg) (buf : list col) : val :=
  VL (map (fun t => vlistQ (map (fun cl => f (nth t cl smpz)) buf)) (seq 0 (aT c))).
(* inputs max_num_samples targets total_samples weights ; + next_inserted *)
Definition a_enc_st (c : acfg) (s : ast) : val :=
  VL [amat (fun x => mkq (sc x) (aDen c)) c (a_buf s); vnat (a_max s);
      amat (fun x => if lab x then 1 else 0) c (a_buf s); vnat (a_tot s); amat wt c (a_buf s);
      vnat (a_cur s)].
Definition a_enc_out (_ : acfg) (o : aout) : val :=
  match o with AErr => verr "compute" | AScalar x => vq x | AVec l => vlistQ l end.
Definition wauroc_codec (fixed : variant) : Codec (wauroc fixed) :=
  Build_Codec (wauroc fixed) dec_acfg dec_ab a_enc_st a_enc_out.
(* @model wauroc run_wauroc *)
Definition run_wauroc := run_pool (wauroc V_code) (wauroc_codec V_code).
(* @model wauroc_fixed run_wauroc_fixed *)
Definition run_wauroc_fixed := run_pool (wauroc V_fixed) (wauroc_codec V_fixed).

(* ---- reference: the AUROC DEFINITION (Curves.auroc_spec: weighted probability that a positive
   outranks a negative, ties one half) of the last N samples, per task ---- *)
(* what the window should hold *)
Definition acontents (s : ast) : list col :=
  if Nat.leb (a_max s) (a_tot s) then skipn (a_cur s) (a_buf s) ++ firstn (a_cur s) (a_buf s)
  else firstn (a_cur s) (a_buf s).
Definition auroc_ref (c : acfg) (samples : list col) : aout :=
  match samples, aT c with
  | [], _ => AErr
  | _, S O => AScalar (auroc_spec (nth 0 (rows_of c samples) []))
  | _, _ => AVec (map auroc_spec (rows_of c samples))
  end.

(* =====================================================================================
   Repaired compute() (fixes/window-auroc-compute.patch), the "compute-fixed" variant:
     if total_samples == 0: the empty window, as before (TorchScript error)
     else: _binary_auroc_compute(inputs, targets, weights) on the WHOLE (num_tasks, L) buffers --
           unfilled slots have weight 0 -- and [0] instead of .squeeze() for num_tasks = 1.
   Everything else (update, merge_state, cursor handling per [variant]) is unchanged.
   ===================================================================================== *)
Definition acmp_fix (c : acfg) (s : ast) : aout :=
  if Nat.eqb (a_tot s) 0 then AErr
  else let a := auroc_kernel (rows_of c (a_buf s)) in
       match aT c with S O => AScalar (hd 0 a) | _ => AVec a end.

Definition wauroc_cfix (fixed : variant) : Metric :=
  {| cfg := acfg; st := ast; batch := list col; out := aout;
     init := ainit; valid := avalid; upd := aupd; mrg := amrg; cmp := acmp_fix;
     prep := fun _ s => s;
     save := fun _ s => if cur_saved fixed then s else a_with_cur 0 s;
     load := fun _ tgt d => if cur_saved fixed then d else a_with_cur (a_cur tgt) d;
     rst := fun c s => if cur_reset fixed then ainit c else a_with_cur (a_cur s) (ainit c) |}.
Definition wauroc_cfix_codec (fixed : variant) : Codec (wauroc_cfix fixed) :=
  Build_Codec (wauroc_cfix fixed) dec_acfg dec_ab a_enc_st a_enc_out.
(* @model wauroc_cfix run_wauroc_cfix *)
Definition run_wauroc_cfix := run_pool (wauroc_cfix V_code) (wauroc_cfix_codec V_code).
(* @model wauroc_cfix_fixed run_wauroc_cfix_fixed *)
Definition run_wauroc_cfix_fixed := run_pool (wauroc_cfix V_fixed) (wauroc_cfix_codec V_fixed).
