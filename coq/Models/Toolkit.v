(* torcheval/metrics/toolkit.py: get_synced_metric / get_synced_metric_collection and the four
   entry points built on them, as per-rank programs (L-proto), generic over the metric objects:
   [sd m] is m.state_dict() after _prepare_for_merge_state(), [mrg m others] is
   clone_metric(m).to(device).merge_state(others) where [others] are the pseudo-metrics built from
   the gathered state dicts.  Definitions only. *)
From Coq Require Import ZArith List Bool String Arith.
From TE Require Import Base.Val Models.Proto Models.Synclib.
Import ListNotations.
Open Scope string_scope.

Definition pseudo_t := list (string * gs).            (* type("", (), rank_data[name]) *)
(* rank_data[name]: the states gathered under metric [name], in traversal order *)
Definition pseudo (name : string) (d : gdict) : pseudo_t :=
  flat_map (fun kx => if String.eqb (fst (fst kx)) name then [(snd (fst kx), snd kx)] else []) d.
(* [gathered[rank] for rank in range(world_size) if rank != local_rank] *)
Definition others {X} (i n : nat) (l : list X) (dflt : X) : list X :=
  map (fun r => nth r l dflt) (filter (fun r => negb (Nat.eqb r i)) (seq 0 n)).
Definition pmap {A B} (f : A -> B) (p : P A) : P B := bindr p (fun a => Ret (Ok (f a))).
Definition TMP : string := "tmp".

Section Toolkit.
Variables (M Out : Type).
Variable sd : M -> sdict.
Variable mrg : M -> list pseudo_t -> M.
Variable cmp : M -> Out.
Variable fx : fixes.
Variable g : list nat.

(* [n]: world size of the process group (1 when torch.distributed is not initialised), [i]: rank in
   the group, [Wg]: size of the world *)
Definition get_synced_metric (n i Wg : nat) (m : M) : P M :=
  if Nat.eqb n 1 then Ret (Ok m)
  else
    let md := [(TMP, sd m)] in
    bindr (sync_states fx g None i Wg md (traversal md)) (fun o =>
      match o with
      | None => Ret (Exc "AssertionError")                     (* none_throws *)
      | Some gath => Ret (Ok (mrg m (others i n (map (pseudo TMP) gath) [])))
      end).

Definition get_synced_metric_collection (n i Wg : nat) (mc : list (string * M)) : P (list (string * M)) :=
  if Nat.eqb n 1 then Ret (Ok mc)
  else
    let md := map (fun km => (fst km, sd (snd km))) mc in
    bindr (sync_states fx g None i Wg md (traversal md)) (fun o =>
      match o with
      | None => Ret (Exc "AssertionError")
      | Some gath =>
          Ret (Ok (map (fun km => (fst km, mrg (snd km) (others i n (map (pseudo (fst km)) gath) []))) mc))
      end).

Definition sync_and_compute n i Wg m : P Out := pmap cmp (get_synced_metric n i Wg m).
Definition sync_and_compute_collection n i Wg mc : P (list (string * Out)) :=
  pmap (map (fun km => (fst km, cmp (snd km)))) (get_synced_metric_collection n i Wg mc).
Definition get_synced_state_dict n i Wg m : P sdict := pmap sd (get_synced_metric n i Wg m).
Definition get_synced_state_dict_collection n i Wg mc : P (list (string * sdict)) :=
  pmap (map (fun km => (fst km, sd (snd km)))) (get_synced_metric_collection n i Wg mc).
End Toolkit.

(* ---- harness instance: a metric is its state dict plus the record of what was merged into it ---- *)
Record mobj := mkM { base : sdict; merged : option (list pseudo_t) }.
Definition mobj_mrg (m : mobj) (l : list pseudo_t) : mobj := mkM (base m) (Some l).
Definition val_of_pseudo (p : pseudo_t) : val := VL (map (fun kx => VL [VT (fst kx) []; val_of_gs (snd kx)]) p).
Definition val_of_mobj (m : mobj) : val :=
  match merged m with None => VT "self" [] | Some l => VT "merged" [VL (map val_of_pseudo l)] end.

(* scenario: (Wg (g ...) coll (fix_d12 fix_d9 fix_dst fix_d10 fix_dt) (md_0 ...)): md_i is the dict name -> state_dict of rank i's metric(s);
   coll = 0: a single metric (the only entry of md_i), coll = 1: get_synced_metric_collection *)
(* @model sync_toolkit run_sync_toolkit *)
Definition run_sync_toolkit (v : val) : val :=
  match v with
  | VL [VZ wg; VL g; VZ coll; fxv; VL mds] =>
      match omap mdict_of_val mds with
      | Some mds =>
          let g := map nat_of g in let n := List.length g in let Wg := Z.to_nat wg in
          if Z.eqb coll 0 then
            val_of_run val_of_mobj
              (run_all_tr (respond g)
                 (mapi (fun i md => get_synced_metric mobj base mobj_mrg (fixes_of_val fxv) g n i Wg
                                      (mkM (match md with (_, s) :: _ => s | [] => [] end) None)) 0 mds))
          else
            val_of_run (fun mc => VL (map (fun km => VL [VT (fst km) []; val_of_mobj (snd km)]) mc))
              (run_all_tr (respond g)
                 (mapi (fun i md => get_synced_metric_collection mobj base mobj_mrg (fixes_of_val fxv) g n i Wg
                                      (map (fun ks => (fst ks, mkM (snd ks) None)) md)) 0 mds))
      | None => vbad end
  | _ => vbad end.
