(* Curve metrics (cache family): Binary/Multiclass AUROC, Binary/Multiclass/Multilabel AUPRC,
   Binary/Multiclass/Multilabel PrecisionRecallCurve, Binary/Multilabel RecallAtFixedPrecision.
   [algo] models mirror the torch pipelines step by step; [spec] models are the textbook
   definitions.  Definitions only (proofs: Proofs/CurvesP.v).
   Scores are integers on a grid (the harness feeds z/den to torch), weights and results Qc,
   IEEE conventions (0/0 = NaN -> 1 in recall) through xq. *)
From Coq Require Import ZArith List Bool QArith Qcanon String Sorting.Mergesort Orders.
From TE Require Import Base.Val Base.Nd Base.Xq Algebra.Metric Algebra.MergeTree Algebra.Pool Algebra.Cache.
Import ListNotations.
Open Scope Qc_scope.
Open Scope list_scope.

(* ------------------------------------------------------------------------------------------ *)
(* samples                                                                                    *)
(* ------------------------------------------------------------------------------------------ *)
Definition sample := (Z * (bool * Qc))%type.          (* score, label, weight *)
Definition sc (x : sample) : Z := fst x.
Definition lab (x : sample) : bool := fst (snd x).
Definition wt (x : sample) : Qc := snd (snd x).
Definition pw (x : sample) : Qc := if lab x then wt x else 0.     (* weight * target *)
Definition nw (x : sample) : Qc := if lab x then 0 else wt x.     (* weight * (1 - target) *)

Definition half : Qc := Q2Qc (1 # 2).
Definition two : Qc := 1 + 1.
Definition sumq (l : list Qc) : Qc := fold_right Qcplus 0 l.
Definition qofnat (n : nat) : Qc := mkq (Z.of_nat n) 1.

(* ------------------------------------------------------------------------------------------ *)
(* torch primitives                                                                           *)
(* ------------------------------------------------------------------------------------------ *)
(* input.sort(descending=True): torch leaves the order among ties unspecified; the model uses a
   merge sort, the theorems quantify over every descending-sorted permutation. *)
Module DescOrder <: TotalLeBool.
  Definition t := sample.
  Definition leb (a b : t) := Z.leb (sc b) (sc a).
  Theorem leb_total : forall a b, leb a b = true \/ leb b a = true.
  Proof.
    intros a b; unfold leb; destruct (Z.leb_spec (sc b) (sc a)); destruct (Z.leb_spec (sc a) (sc b)); auto.
    exfalso; eapply Z.lt_irrefl, Z.lt_trans; eauto.
  Qed.
End DescOrder.
Module DS := Sort DescOrder.
Definition sort_desc (l : list sample) : list sample := DS.sort l.

Fixpoint cumsum (acc : Qc) (l : list Qc) : list Qc :=
  match l with [] => [] | x :: r => (acc + x) :: cumsum (acc + x) r end.
(* F.pad(threshold.diff() != 0, [0,1], value=1): true at the last element of every run *)
Fixpoint mask (l : list Z) : list bool :=
  match l with
  | [] => []
  | x :: r => match r with [] => [true] | y :: _ => negb (x =? y)%Z :: mask r end
  end.
(* x[mask] on a 1-D tensor *)
Fixpoint select {A} (m : list bool) (l : list A) : list A :=
  match m, l with b :: m', x :: l' => if b then x :: select m' l' else select m' l' | _, _ => [] end.
Definition count_true (m : list bool) : nat := List.length (filter (fun b => b) m).
(* x[mask] on a 2-D tensor: row-major concatenation of the per-row selections *)
Fixpoint select2 {A} (M : list (list bool)) (X : list (list A)) : list A :=
  match M, X with m :: M', x :: X' => select m x ++ select2 M' X' | _, _ => [] end.
(* one row of masked_scatter_: consume [src] left to right at the true positions; returns the
   new row and the unconsumed rest of the source *)
Fixpoint scatter_row {A} (d : list A) (m : list bool) (src : list A) : list A * list A :=
  match d, m with
  | x :: d', b :: m' =>
      if b then match src with
                | s :: src' => let (r, rest) := scatter_row d' m' src' in (s :: r, rest)
                | [] => let (r, rest) := scatter_row d' m' [] in (x :: r, rest)   (* torch would raise *)
                end
      else let (r, rest) := scatter_row d' m' src in (x :: r, rest)
  | _, _ => (d, src)
  end.
(* torch flattens row-major: rows are processed in order, threading the source *)
Fixpoint scatter2 {A} (D : list (list A)) (M : list (list bool)) (src : list A) : list (list A) :=
  match D, M with
  | d :: D', m :: M' => let (r, rest) := scatter_row d m src in r :: scatter2 D' M' rest
  | _, _ => D
  end.
(* mask.sum(-1, keepdim=True) >= torch.arange(n, 0, -1): the last k positions of n *)
Definition shifted (n k : nat) : list bool := map (fun j => Nat.leb j k) (rev (seq 1 n)).
(* tensor.split(sizes) *)
Fixpoint split_sizes {A} (sizes : list nat) (l : list A) : list (list A) :=
  match sizes with [] => [] | k :: r => firstn k l :: split_sizes r (skipn k l) end.

(* 2 * trapz over (y, x) points: sum (x[i+1]-x[i]) * (y[i]+y[i+1]) *)
Fixpoint trapz2 (pts : list (Qc * Qc)) : Qc :=
  match pts with
  | a :: ((b :: _) as r) => (snd b - snd a) * (fst a + fst b) + trapz2 r
  | _ => 0
  end.
Definition trapz (y x : list Qc) : Qc := trapz2 (combine y x) / two.

(* ------------------------------------------------------------------------------------------ *)
(* AUROC                                                                                      *)
(* ------------------------------------------------------------------------------------------ *)
(* factor = cum_tp[-1] * cum_fp[-1]; where(factor == 0, 0.5, trapz(cum_tp, cum_fp) / factor) *)
Definition auroc_finish (tp fp : list Qc) : Qc :=
  let factor := last tp 0 * last fp 0 in
  if Qc_eq_dec factor 0 then half else trapz tp fp / factor.

(* _binary_auroc_compute_jit / _multiclass_auroc_compute on rows that are already sorted:
   diff-mask, cumsum, masked select (flattened), masked_scatter_ into the right-aligned mask of
   a zero tensor (flattened, row-major), trapezoid per row *)
Definition auroc_kernel_sorted (R : list (list sample)) : list Qc :=
  let M := map (fun r => mask (map sc r)) R in
  let TPb := map (fun r => cumsum 0 (map pw r)) R in
  let FPb := map (fun r => cumsum 0 (map nw r)) R in
  let M' := map (fun m => shifted (List.length m) (count_true m)) M in
  let Z0 := map (fun r => repeat (0 : Qc) (List.length r)) R in
  let TP := scatter2 Z0 M' (select2 M TPb) in
  let FP := scatter2 Z0 M' (select2 M FPb) in
  map2 auroc_finish TP FP.
Definition auroc_kernel (R : list (list sample)) : list Qc := auroc_kernel_sorted (map sort_desc R).

(* the 1-D algorithm written row-locally: left zero padding instead of the flattened scatter *)
Definition leftpad (n : nat) (l : list Qc) : list Qc := repeat 0 (n - List.length l) ++ l.
Definition auroc_row_sorted (r : list sample) : Qc :=
  let m := mask (map sc r) in
  let n := List.length r in
  auroc_finish (leftpad n (select m (cumsum 0 (map pw r)))) (leftpad n (select m (cumsum 0 (map nw r)))).
Definition auroc_row (r : list sample) : Qc := auroc_row_sorted (sort_desc r).

(* spec: weighted probability that a positive outranks a negative, ties one half; 1/2 when a
   class is absent *)
Definition pair_kern (a b : sample) : Qc :=
  pw a * nw b * (if (sc b <? sc a)%Z then 1 else if (sc b =? sc a)%Z then half else 0).
Definition pair_sum (l : list sample) : Qc := sumq (map (fun a => sumq (map (pair_kern a) l)) l).
Definition auroc_spec (l : list sample) : Qc :=
  let Wp := sumq (map pw l) in
  let Wn := sumq (map nw l) in
  if Qc_eq_dec (Wp * Wn) 0 then half else pair_sum l / (Wp * Wn).

(* ------------------------------------------------------------------------------------------ *)
(* precision-recall curves                                                                    *)
(* ------------------------------------------------------------------------------------------ *)
Definition nan_to_one (a : xq) : xq := match a with NaN => Fin 1 | _ => a end.
Definition curve := (list xq * list xq * list Z)%type.       (* precision, recall, thresholds *)

(* _compute_for_each_class on an already sorted row (weights are 1 in these metrics) *)
Definition prc_sorted (r : list sample) : curve :=
  let m := mask (map sc r) in
  let tp := select m (cumsum 0 (map pw r)) in
  let fp := select m (cumsum 0 (map nw r)) in
  let prec := rev (map2 (fun t f => qdivx t (t + f)) tp fp) in
  let rcl := rev (map (fun t => qdivx t (last tp 0)) tp) in
  let thr := rev (select m (map sc r)) in
  let prec := prec ++ [Fin 1] in
  let rcl := rcl ++ [Fin 0] in
  let rcl := if is_nan (hd (Fin 0) rcl) then map nan_to_one rcl else rcl in
  (prec, rcl, thr).
Definition prc_row (r : list sample) : curve := prc_sorted (sort_desc r).

(* _multiclass_precision_recall_curve_compute on sorted rows: flip / pad / flattened select / split *)
Definition mc_prc_sorted (R : list (list sample)) : list (list xq) * list (list xq) * list (list Z) :=
  let M := map (fun r => rev (mask (map sc r))) R in
  let sizes := map count_true M in
  let thr := split_sizes sizes (select2 M (map (fun r => rev (map sc r)) R)) in
  let TP := map (fun r => rev (cumsum 0 (map pw r))) R in
  let FP := map (fun r => rev (cumsum 0 (map nw r))) R in
  let P := map2 (fun tp fp => map2 (fun t f => qdivx t (t + f)) tp fp ++ [Fin 1]) TP FP in
  let Rc := map (fun tp => map (fun t => nan_to_one (qdivx t (hd 0 tp))) tp ++ [Fin 0]) TP in
  let M1 := map (fun m => m ++ [true]) M in
  let sizes1 := map count_true M1 in
  (split_sizes sizes1 (select2 M1 P), split_sizes sizes1 (select2 M1 Rc), thr).
Definition mc_prc (R : list (list sample)) := mc_prc_sorted (map sort_desc R).

(* spec: one point per distinct score d (ascending): tp(d) = weight of positives scored >= d,
   fp(d) likewise; precision tp/(tp+fp); recall tp/TP (1 when TP = 0); then the point (1, 0) *)
Fixpoint ins (z : Z) (l : list Z) : list Z :=
  match l with
  | [] => [z]
  | y :: r => if (z <? y)%Z then z :: l else if (z =? y)%Z then l else y :: ins z r
  end.
Definition dset (l : list Z) : list Z := fold_right ins [] l.
Definition Pge (t : Z) (l : list sample) : Qc := sumq (map (fun b => if (t <=? sc b)%Z then pw b else 0) l).
Definition Nge (t : Z) (l : list sample) : Qc := sumq (map (fun b => if (t <=? sc b)%Z then nw b else 0) l).
Definition prec_at (l : list sample) (d : Z) : Qc := Pge d l / (Pge d l + Nge d l).
Definition rec_at (l : list sample) (d : Z) : Qc :=
  let TP := sumq (map pw l) in if Qc_eq_dec TP 0 then 1 else Pge d l / TP.
Definition qcurve := (list Qc * list Qc * list Z)%type.
Definition prc_spec (l : list sample) : qcurve :=
  let ds := dset (map sc l) in
  (map (prec_at l) ds ++ [1], map (rec_at l) ds ++ [0], ds).
Definition fin_curve (c : qcurve) : curve := (map Fin (fst (fst c)), map Fin (snd (fst c)), snd c).

(* ------------------------------------------------------------------------------------------ *)
(* AUPRC: _riemann_integral(recall, precision) = -sum((x[1:] - x[:-1]) * y[:-1])              *)
(* ------------------------------------------------------------------------------------------ *)
Definition xneg (a : xq) : xq := xmul (Fin (- (1))) a.
Definition xsub (a b : xq) : xq := xadd a (xneg b).
(* map2 truncates to the shorter list: [map2 f (tl x) x] pairs x[1:] with x[:-1] *)
Definition riemann_x (x y : list xq) : xq := xneg (xsum (map2 xmul (map2 xsub (tl x) x) y)).
Definition auprc_of (c : curve) : xq := riemann_x (snd (fst c)) (fst (fst c)).
Definition auprc_row (r : list sample) : xq := auprc_of (prc_row r).
(* spec: sum over the points of recall increment times precision *)
Fixpoint riemann_q (x y : list Qc) : Qc :=
  match x, y with
  | r0 :: ((r1 :: _) as x'), p0 :: y' => (r0 - r1) * p0 + riemann_q x' y'
  | _, _ => 0
  end.
Definition auprc_spec (l : list sample) : Qc :=
  let c := prc_spec l in riemann_q (snd (fst c)) (fst (fst c)).

(* ------------------------------------------------------------------------------------------ *)
(* recall at fixed precision                                                                  *)
(* ------------------------------------------------------------------------------------------ *)
Definition xle (a b : xq) : bool :=
  match a, b with
  | Fin a, Fin b => qle a b
  | NaN, _ | _, NaN => false
  | NInf, _ | _, PInf => true
  | _, _ => false
  end.
Definition xeqb (a b : xq) : bool :=
  match a, b with
  | Fin a, Fin b => qeq a b
  | PInf, PInf | NInf, NInf => true
  | _, _ => false
  end.
Definition xmax (a b : xq) : xq :=
  match a, b with NaN, _ | _, NaN => NaN | _, _ => if xle a b then b else a end.
Definition xmax_list (l : list xq) : xq := match l with [] => NaN | x :: r => fold_left xmax r x end.
Definition zmax_list (l : list Z) : Z := match l with [] => 0%Z | x :: r => fold_left Z.max r x end.
(* _recall_at_precision: max_recall = max(recall[precision >= min_precision]);
   thresholds ++ [-1.0]; best = max(thresholds[recall == max_recall]); (max_recall, |best|).
   The sentinel -1.0 is -den in grid units. *)
Definition rap_kernel (den : positive) (minp : Qc) (c : curve) : xq * Z :=
  let '(prec, rcl, thr) := c in
  let maxr := xmax_list (select (map (fun p => xle (Fin minp) p) prec) rcl) in
  let thr' := thr ++ [(- Zpos den)%Z] in
  let best := zmax_list (select (map (fun r => xeqb r maxr) rcl) thr') in
  (maxr, Z.abs best).
Definition rap_row (den : positive) (minp : Qc) (r : list sample) : xq * Z := rap_kernel den minp (prc_row r).
(* spec: the largest recall among curve points whose precision reaches the bound *)
Definition qmax_list (l : list Qc) : Qc := match l with [] => 0 | x :: r => fold_left qmax r x end.
Definition rap_spec (minp : Qc) (l : list sample) : Qc :=
  let c := prc_spec l in
  qmax_list (map snd (filter (fun pr => qle minp (fst pr)) (combine (fst (fst c)) (snd (fst c))))).
(* the threshold rule as it is: largest threshold (sentinel included) whose recall equals the maximum *)
Definition rap_thr_spec (den : positive) (minp : Qc) (l : list sample) : Z :=
  let c := prc_spec l in
  let m := rap_spec minp l in
  Z.abs (zmax_list (map snd (filter (fun rt => qeq (fst rt) m) (combine (snd (fst c)) (snd c ++ [(- Zpos den)%Z]))))).

(* ------------------------------------------------------------------------------------------ *)
(* multi-task / multiclass / multilabel forms                                                 *)
(* ------------------------------------------------------------------------------------------ *)
Definition dsample : sample := (0%Z, (false, 0)).
(* binary multi-task: one column (list of per-task samples) per sample *)
Definition bcol := list sample.
Definition task_rows (nt : nat) (cols : list bcol) : list (list sample) :=
  map (fun i => map (fun col => nth i col dsample) cols) (seq 0 nt).
(* multiclass: scores per class, class index *)
Definition mcsample := (list Z * Z)%type.
Definition ovr_rows (C : nat) (l : list mcsample) : list (list sample) :=
  map (fun c => map (fun s => (nth c (fst s) 0%Z, ((snd s =? Z.of_nat c)%Z, 1))) l) (seq 0 C).
(* multilabel: scores per label, 0/1 per label *)
Definition mlsample := (list Z * list bool)%type.
Definition label_rows (L : nat) (l : list mlsample) : list (list sample) :=
  map (fun j => map (fun s => (nth j (fst s) 0%Z, (nth j (snd s) false, 1))) l) (seq 0 L).

Definition qmean (l : list Qc) : Qc := sumq l / qofnat (List.length l).

Inductive res (X : Type) := Rerr | Rone (x : X) | Rmany (l : list X).
Arguments Rerr {X}. Arguments Rone {X}. Arguments Rmany {X}.
Definition res_map {X Y} (f : X -> Y) (r : res X) : res Y :=
  match r with Rerr => Rerr | Rone x => Rone (f x) | Rmany l => Rmany (map f l) end.

(* ---- algo: compute() as a function of all samples seen ---- *)
Definition bauroc_algo (nt : nat) (cols : list bcol) : res Qc :=
  match cols with [] => Rerr | _ =>
    let a := auroc_kernel (task_rows nt cols) in
    if Nat.eqb nt 1 then Rone (hd 0 a) else Rmany a end.
Definition bauroc_spec (nt : nat) (cols : list bcol) : res Qc :=
  match cols with [] => Rerr | _ =>
    let a := map auroc_spec (task_rows nt cols) in
    if Nat.eqb nt 1 then Rone (hd 0 a) else Rmany a end.

Definition averaged (macro : bool) (a : list Qc) : res Qc := if macro then Rone (qmean a) else Rmany a.
Definition mcauroc_algo (C : nat) (macro : bool) (l : list mcsample) : res Qc :=
  match l with [] => Rerr | _ => averaged macro (auroc_kernel (ovr_rows C l)) end.
Definition mcauroc_spec (C : nat) (macro : bool) (l : list mcsample) : res Qc :=
  match l with [] => Rerr | _ => averaged macro (map auroc_spec (ovr_rows C l)) end.

(* BinaryAUPRC: python loop over tasks calling the 1-D kernel *)
Definition bauprc_algo (nt : nat) (cols : list bcol) : res xq :=
  match cols with [] => Rerr | _ =>
    let a := map auprc_row (task_rows nt cols) in
    if Nat.eqb nt 1 then Rone (hd NaN a) else Rmany a end.
Definition bauprc_spec (nt : nat) (cols : list bcol) : res xq :=
  match cols with [] => Rerr | _ =>
    let a := map (fun r => Fin (auprc_spec r)) (task_rows nt cols) in
    if Nat.eqb nt 1 then Rone (hd NaN a) else Rmany a end.

Definition xaveraged (macro : bool) (a : list xq) : res xq := if macro then Rone (xmean a) else Rmany a.
Definition curves3 (cs : list curve) := (map (fun c => fst (fst c)) cs, map (fun c => snd (fst c)) cs, map (fun c => snd c) cs).
Definition zip3 (t : list (list xq) * list (list xq) * list (list Z)) : list curve :=
  map2 (fun pr th => (fst pr, snd pr, th)) (combine (fst (fst t)) (snd (fst t))) (snd t).
(* MulticlassAUPRC: vectorised multiclass curve, riemann per class, mean *)
Definition mcauprc_algo (C : nat) (macro : bool) (l : list mcsample) : res xq :=
  match l with [] => Rerr | _ => xaveraged macro (map auprc_of (zip3 (mc_prc (ovr_rows C l)))) end.
Definition mcauprc_spec (C : nat) (macro : bool) (l : list mcsample) : res xq :=
  match l with [] => Rerr | _ => xaveraged macro (map (fun r => Fin (auprc_spec r)) (ovr_rows C l)) end.
(* MultilabelAUPRC: python loop over labels *)
Definition mlauprc_algo (L : nat) (macro : bool) (l : list mlsample) : res xq :=
  match l with [] => Rerr | _ => xaveraged macro (map auprc_row (label_rows L l)) end.
Definition mlauprc_spec (L : nat) (macro : bool) (l : list mlsample) : res xq :=
  match l with [] => Rerr | _ => xaveraged macro (map (fun r => Fin (auprc_spec r)) (label_rows L l)) end.

(* PR curves *)
Definition bprc_algo (l : list sample) : option curve := match l with [] => None | _ => Some (prc_row l) end.
Definition bprc_spec (l : list sample) : option curve := match l with [] => None | _ => Some (fin_curve (prc_spec l)) end.
Definition mcprc_algo (C : nat) (l : list mcsample) := match l with [] => None | _ => Some (mc_prc (ovr_rows C l)) end.
Definition mcprc_spec (C : nat) (l : list mcsample) :=
  match l with [] => None | _ => Some (curves3 (map (fun r => fin_curve (prc_spec r)) (ovr_rows C l))) end.
Definition mlprc_algo (L : nat) (l : list mlsample) := match l with [] => None | _ => Some (curves3 (map prc_row (label_rows L l))) end.
Definition mlprc_spec (L : nat) (l : list mlsample) :=
  match l with [] => None | _ => Some (curves3 (map (fun r => fin_curve (prc_spec r)) (label_rows L l))) end.

(* recall at fixed precision *)
Definition brap_algo (den : positive) (minp : Qc) (l : list sample) : option (xq * Z) :=
  match l with [] => None | _ => Some (rap_row den minp l) end.
Definition brap_spec (den : positive) (minp : Qc) (l : list sample) : option (xq * Z) :=
  match l with [] => None | _ => Some (Fin (rap_spec minp l), rap_thr_spec den minp l) end.
Definition mlrap_algo (den : positive) (minp : Qc) (L : nat) (l : list mlsample) : option (list (xq * Z)) :=
  match l with [] => None | _ => Some (map (rap_row den minp) (label_rows L l)) end.
Definition mlrap_spec (den : positive) (minp : Qc) (L : nat) (l : list mlsample) : option (list (xq * Z)) :=
  match l with [] => None | _ => Some (map (fun r => (Fin (rap_spec minp r), rap_thr_spec den minp r)) (label_rows L l)) end.

(* ------------------------------------------------------------------------------------------ *)
(* cache-family metrics: a chunk is the list of samples of one update (sample-major); the     *)
(* codec renders it in the layout of the registered tensors                                   *)
(* ------------------------------------------------------------------------------------------ *)
Lemma concat_flat_map_id {X} (l : list (list X)) : List.concat l = flat_map (fun ch => ch) l.
Proof. induction l as [|a l IH]; cbn; [reflexivity|]. rewrite IH. reflexivity. Qed.

Definition list_cache (C S O : Type) (vld : C -> list S -> bool) (f : C -> list S -> O) : CacheSpec :=
  Build_CacheSpec C (list S) S O vld (fun _ l => List.concat l) (fun _ ch => ch) f (fun _ l => concat_flat_map_id l).

(* ---- value rendering ---- *)
Definition vscore (den : positive) (z : Z) : val := vq (mkq z den).
Definition vlab (b : bool) : val := VZ (if b then 1 else 0)%Z.
Definition vres {X} (f : X -> val) (r : res X) : val :=
  match r with Rerr => verr "empty" | Rone x => f x | Rmany l => VL (map f l) end.
Definition vcurve (den : positive) (c : curve) : val :=
  VL [vlistX (fst (fst c)); vlistX (snd (fst c)); VL (map (vscore den) (snd c))].
Definition vcurves (den : positive) (t : list (list xq) * list (list xq) * list (list Z)) : val :=
  VL [VL (map vlistX (fst (fst t))); VL (map vlistX (snd (fst t))); VL (map (fun th => VL (map (vscore den) th)) (snd t))].
Definition vrap (den : positive) (p : xq * Z) : val := VL [xq_val (fst p); vscore den (snd p)].
Definition vraps (den : positive) (l : list (xq * Z)) : val :=
  VL [VL (map (fun p => xq_val (fst p)) l); VL (map (fun p => vscore den (snd p)) l)].
Definition vo {X} (f : X -> val) (o : option X) : val := match o with Some x => f x | None => verr "empty" end.

(* ---- decoders ---- *)
Definition as_pos (v : val) : option positive :=
  match v with VZ (Zpos p) => Some p | _ => None end.
Definition dec_sample (v : val) : option sample :=
  match v with
  | VL [z; y; w] => match as_Z z, as_B y, as_Q w with Some z, Some y, Some w => Some (z, (y, w)) | _, _, _ => None end
  | VL [z; y] => match as_Z z, as_B y with Some z, Some y => Some (z, (y, 1)) | _, _ => None end
  | _ => None end.
Definition dec_mcsample (v : val) : option mcsample := as_pair (as_list as_Z) as_Z v.
Definition dec_mlsample (v : val) : option mlsample := as_pair (as_list as_Z) (as_list as_B) v.

(* generic functional-form runner: VL [cfg; batch] *)
Definition run_fn {C B O} (dc : val -> option C) (db : C -> val -> option B) (vld : C -> B -> bool)
  (f : C -> B -> O) (eo : C -> O -> val) (v : val) : val :=
  match v with
  | VL [cv; bv] =>
      match dc cv with
      | Some c => match db c bv with
                  | Some b => if vld c b then eo c (f c b) else verr "invalid"
                  | None => vbad end
      | None => VT "badcfg" [] end
  | _ => vbad end.

(* ---- binary multi-task layout: cfg = (den, num_tasks) ---- *)
Definition bcfg := (positive * nat)%type.
Definition dec_bcfg (v : val) : option bcfg := as_pair as_pos as_nat v.
Definition bvalid (c : bcfg) (cols : list bcol) : bool := forallb (fun col => Nat.eqb (List.length col) (snd c)) cols.
Definition dec_bcols (_ : bcfg) (v : val) : option (list bcol) := as_list (as_list dec_sample) v.
(* a chunk as torch holds it: 1-D when num_tasks = 1, else num_tasks rows *)
Definition venc_rows {X} (nt : nat) (f : X -> val) (cols : list (list X)) (d : X) : val :=
  if Nat.eqb nt 1 then VL (map (fun col => f (hd d col)) cols)
  else VL (map (fun i => VL (map (fun col => f (nth i col d)) cols)) (seq 0 nt)).
Definition enc_bst (with_w : bool) (c : bcfg) (s : list (list bcol)) : val :=
  VL ([VL (map (fun ch => venc_rows (snd c) (fun x => vscore (fst c) (sc x)) ch dsample) s);
       VL (map (fun ch => venc_rows (snd c) (fun x => vlab (lab x)) ch dsample) s)]
      ++ (if with_w then [VL (map (fun ch => venc_rows (snd c) (fun x => vq (wt x)) ch dsample) s)] else [])).

Definition bauroc_cache := list_cache bcfg bcol (res Qc) bvalid (fun c => bauroc_algo (snd c)).
Definition bauroc_metric := cache_metric bauroc_cache.
Definition bauroc_codec : Codec bauroc_metric :=
  Build_Codec bauroc_metric dec_bcfg dec_bcols (enc_bst true) (fun _ => vres vq).
(* @model curves_bauroc run_bauroc *)
Definition run_bauroc := run_pool bauroc_metric bauroc_codec.
(* @model curves_bauroc_fn run_bauroc_fn *)
Definition run_bauroc_fn := run_fn dec_bcfg dec_bcols bvalid (fun c => bauroc_algo (snd c)) (fun _ => vres vq).
(* @model curves_bauroc_spec run_bauroc_spec *)
Definition run_bauroc_spec := run_fn dec_bcfg dec_bcols bvalid (fun c => bauroc_spec (snd c)) (fun _ => vres vq).

Definition bauprc_cache := list_cache bcfg bcol (res xq) bvalid (fun c => bauprc_algo (snd c)).
Definition bauprc_metric := cache_metric bauprc_cache.
Definition bauprc_codec : Codec bauprc_metric :=
  Build_Codec bauprc_metric dec_bcfg dec_bcols (enc_bst false) (fun _ => vres xq_val).
(* @model curves_bauprc run_bauprc *)
Definition run_bauprc := run_pool bauprc_metric bauprc_codec.
(* @model curves_bauprc_fn run_bauprc_fn *)
Definition run_bauprc_fn := run_fn dec_bcfg dec_bcols bvalid (fun c => bauprc_algo (snd c)) (fun _ => vres xq_val).
(* @model curves_bauprc_spec run_bauprc_spec *)
Definition run_bauprc_spec := run_fn dec_bcfg dec_bcols bvalid (fun c => bauprc_spec (snd c)) (fun _ => vres xq_val).

(* ---- binary 1-D layout: cfg = (den, min_precision) ---- *)
Definition b1cfg := (positive * Qc)%type.
Definition dec_b1cfg (v : val) : option b1cfg := as_pair as_pos as_Q v.
Definition dec_b1 (_ : b1cfg) (v : val) : option (list sample) := as_list dec_sample v.
Definition enc_b1st (c : b1cfg) (s : list (list sample)) : val :=
  VL [VL (map (fun ch => VL (map (fun x => vscore (fst c) (sc x)) ch)) s);
      VL (map (fun ch => VL (map (fun x => vlab (lab x)) ch)) s)].
Definition vtrue1 (_ : b1cfg) (_ : list sample) := true.

Definition bprc_cache := list_cache b1cfg sample (option curve) vtrue1 (fun _ => bprc_algo).
Definition bprc_metric := cache_metric bprc_cache.
Definition bprc_codec : Codec bprc_metric :=
  Build_Codec bprc_metric dec_b1cfg dec_b1 enc_b1st (fun c => vo (vcurve (fst c))).
(* @model curves_bprc run_bprc *)
Definition run_bprc := run_pool bprc_metric bprc_codec.
(* @model curves_bprc_fn run_bprc_fn *)
Definition run_bprc_fn := run_fn dec_b1cfg dec_b1 vtrue1 (fun _ => bprc_algo) (fun c => vo (vcurve (fst c))).
(* @model curves_bprc_spec run_bprc_spec *)
Definition run_bprc_spec := run_fn dec_b1cfg dec_b1 vtrue1 (fun _ => bprc_spec) (fun c => vo (vcurve (fst c))).

Definition brap_cache := list_cache b1cfg sample (option (xq * Z)) vtrue1 (fun c => brap_algo (fst c) (snd c)).
Definition brap_metric := cache_metric brap_cache.
Definition brap_codec : Codec brap_metric :=
  Build_Codec brap_metric dec_b1cfg dec_b1 enc_b1st (fun c => vo (vrap (fst c))).
(* @model curves_brap run_brap *)
Definition run_brap := run_pool brap_metric brap_codec.
(* @model curves_brap_fn run_brap_fn *)
Definition run_brap_fn := run_fn dec_b1cfg dec_b1 vtrue1 (fun c => brap_algo (fst c) (snd c)) (fun c => vo (vrap (fst c))).
(* @model curves_brap_spec run_brap_spec *)
Definition run_brap_spec := run_fn dec_b1cfg dec_b1 vtrue1 (fun c => brap_spec (fst c) (snd c)) (fun c => vo (vrap (fst c))).

(* ---- multiclass / multilabel layout: cfg = (den, num_classes|num_labels, macro?, min_precision) ---- *)
Record mcfg := { mden : positive; mnum : nat; mmacro : bool; mminp : Qc }.
Definition dec_mcfg (v : val) : option mcfg :=
  match v with
  | VL [d; n; a; p] => match as_pos d, as_nat n, as_B a, as_Q p with
                       | Some d, Some n, Some a, Some p => Some (Build_mcfg d n a p) | _, _, _, _ => None end
  | _ => None end.
Definition mcvalid (c : mcfg) (l : list mcsample) : bool := forallb (fun s => Nat.eqb (List.length (fst s)) (mnum c)) l.
Definition mlvalid (c : mcfg) (l : list mlsample) : bool :=
  forallb (fun s => Nat.eqb (List.length (fst s)) (mnum c) && Nat.eqb (List.length (snd s)) (mnum c)) l.
Definition dec_mc (_ : mcfg) (v : val) : option (list mcsample) := as_list dec_mcsample v.
Definition dec_ml (_ : mcfg) (v : val) : option (list mlsample) := as_list dec_mlsample v.
Definition enc_mcst (c : mcfg) (s : list (list mcsample)) : val :=
  VL [VL (map (fun ch => VL (map (fun x => VL (map (vscore (mden c)) (fst x))) ch)) s);
      VL (map (fun ch => VL (map (fun x => VZ (snd x)) ch)) s)].
Definition enc_mlst (c : mcfg) (s : list (list mlsample)) : val :=
  VL [VL (map (fun ch => VL (map (fun x => VL (map (vscore (mden c)) (fst x))) ch)) s);
      VL (map (fun ch => VL (map (fun x => VL (map vlab (snd x))) ch)) s)].

Definition mcauroc_cache := list_cache mcfg mcsample (res Qc) mcvalid (fun c => mcauroc_algo (mnum c) (mmacro c)).
Definition mcauroc_metric := cache_metric mcauroc_cache.
Definition mcauroc_codec : Codec mcauroc_metric := Build_Codec mcauroc_metric dec_mcfg dec_mc enc_mcst (fun _ => vres vq).
(* @model curves_mcauroc run_mcauroc *)
Definition run_mcauroc := run_pool mcauroc_metric mcauroc_codec.
(* @model curves_mcauroc_fn run_mcauroc_fn *)
Definition run_mcauroc_fn := run_fn dec_mcfg dec_mc mcvalid (fun c => mcauroc_algo (mnum c) (mmacro c)) (fun _ => vres vq).
(* @model curves_mcauroc_spec run_mcauroc_spec *)
Definition run_mcauroc_spec := run_fn dec_mcfg dec_mc mcvalid (fun c => mcauroc_spec (mnum c) (mmacro c)) (fun _ => vres vq).

Definition mcauprc_cache := list_cache mcfg mcsample (res xq) mcvalid (fun c => mcauprc_algo (mnum c) (mmacro c)).
Definition mcauprc_metric := cache_metric mcauprc_cache.
Definition mcauprc_codec : Codec mcauprc_metric := Build_Codec mcauprc_metric dec_mcfg dec_mc enc_mcst (fun _ => vres xq_val).
(* @model curves_mcauprc run_mcauprc *)
Definition run_mcauprc := run_pool mcauprc_metric mcauprc_codec.
(* @model curves_mcauprc_fn run_mcauprc_fn *)
Definition run_mcauprc_fn := run_fn dec_mcfg dec_mc mcvalid (fun c => mcauprc_algo (mnum c) (mmacro c)) (fun _ => vres xq_val).
(* @model curves_mcauprc_spec run_mcauprc_spec *)
Definition run_mcauprc_spec := run_fn dec_mcfg dec_mc mcvalid (fun c => mcauprc_spec (mnum c) (mmacro c)) (fun _ => vres xq_val).

Definition mlauprc_cache := list_cache mcfg mlsample (res xq) mlvalid (fun c => mlauprc_algo (mnum c) (mmacro c)).
Definition mlauprc_metric := cache_metric mlauprc_cache.
Definition mlauprc_codec : Codec mlauprc_metric := Build_Codec mlauprc_metric dec_mcfg dec_ml enc_mlst (fun _ => vres xq_val).
(* @model curves_mlauprc run_mlauprc *)
Definition run_mlauprc := run_pool mlauprc_metric mlauprc_codec.
(* @model curves_mlauprc_fn run_mlauprc_fn *)
Definition run_mlauprc_fn := run_fn dec_mcfg dec_ml mlvalid (fun c => mlauprc_algo (mnum c) (mmacro c)) (fun _ => vres xq_val).
(* @model curves_mlauprc_spec run_mlauprc_spec *)
Definition run_mlauprc_spec := run_fn dec_mcfg dec_ml mlvalid (fun c => mlauprc_spec (mnum c) (mmacro c)) (fun _ => vres xq_val).

Definition mcprc_cache := list_cache mcfg mcsample _ mcvalid (fun c => mcprc_algo (mnum c)).
Definition mcprc_metric := cache_metric mcprc_cache.
Definition mcprc_codec : Codec mcprc_metric := Build_Codec mcprc_metric dec_mcfg dec_mc enc_mcst (fun c => vo (vcurves (mden c))).
(* @model curves_mcprc run_mcprc *)
Definition run_mcprc := run_pool mcprc_metric mcprc_codec.
(* @model curves_mcprc_fn run_mcprc_fn *)
Definition run_mcprc_fn := run_fn dec_mcfg dec_mc mcvalid (fun c => mcprc_algo (mnum c)) (fun c => vo (vcurves (mden c))).
(* @model curves_mcprc_spec run_mcprc_spec *)
Definition run_mcprc_spec := run_fn dec_mcfg dec_mc mcvalid (fun c => mcprc_spec (mnum c)) (fun c => vo (vcurves (mden c))).

Definition mlprc_cache := list_cache mcfg mlsample _ mlvalid (fun c => mlprc_algo (mnum c)).
Definition mlprc_metric := cache_metric mlprc_cache.
Definition mlprc_codec : Codec mlprc_metric := Build_Codec mlprc_metric dec_mcfg dec_ml enc_mlst (fun c => vo (vcurves (mden c))).
(* @model curves_mlprc run_mlprc *)
Definition run_mlprc := run_pool mlprc_metric mlprc_codec.
(* @model curves_mlprc_fn run_mlprc_fn *)
Definition run_mlprc_fn := run_fn dec_mcfg dec_ml mlvalid (fun c => mlprc_algo (mnum c)) (fun c => vo (vcurves (mden c))).
(* @model curves_mlprc_spec run_mlprc_spec *)
Definition run_mlprc_spec := run_fn dec_mcfg dec_ml mlvalid (fun c => mlprc_spec (mnum c)) (fun c => vo (vcurves (mden c))).

Definition mlrap_cache := list_cache mcfg mlsample _ mlvalid (fun c => mlrap_algo (mden c) (mminp c) (mnum c)).
Definition mlrap_metric := cache_metric mlrap_cache.
Definition mlrap_codec : Codec mlrap_metric := Build_Codec mlrap_metric dec_mcfg dec_ml enc_mlst (fun c => vo (vraps (mden c))).
(* @model curves_mlrap run_mlrap *)
Definition run_mlrap := run_pool mlrap_metric mlrap_codec.
(* @model curves_mlrap_fn run_mlrap_fn *)
Definition run_mlrap_fn := run_fn dec_mcfg dec_ml mlvalid (fun c => mlrap_algo (mden c) (mminp c) (mnum c)) (fun c => vo (vraps (mden c))).
(* @model curves_mlrap_spec run_mlrap_spec *)
Definition run_mlrap_spec := run_fn dec_mcfg dec_ml mlvalid (fun c => mlrap_spec (mden c) (mminp c) (mnum c)) (fun c => vo (vraps (mden c))).
