(* Nested arrays of exact rationals: the universal carrier of additive metric states.
   Pointwise addition truncates on mismatched shapes, so associativity and commutativity hold
   unconditionally; the zero array is neutral on arrays of its own shape. *)
From Coq Require Import ZArith List Bool QArith Qcanon.
From TE Require Import Base.Val.
Import ListNotations.
Open Scope Qc_scope.

Inductive nd := Sc (q : Qc) | Arr (l : list nd).

Section NdInd.
Variable P : nd -> Prop.
Hypothesis HS : forall q, P (Sc q).
Hypothesis HA : forall l, Forall P l -> P (Arr l).
Fixpoint nd_ind' (x : nd) : P x :=
  match x with
  | Sc q => HS q
  | Arr l => HA l ((fix go (l : list nd) : Forall P l :=
                      match l with [] => Forall_nil _ | y :: r => Forall_cons _ (nd_ind' y) (go r) end) l)
  end.
End NdInd.

Fixpoint map2 {X Y Z} (f : X -> Y -> Z) (a : list X) (b : list Y) : list Z :=
  match a, b with x :: a', y :: b' => f x y :: map2 f a' b' | _, _ => [] end.

Fixpoint nadd (x y : nd) {struct x} : nd :=
  match x, y with
  | Sc a, Sc b => Sc (a + b)
  | Arr l, Arr m =>
      Arr ((fix go (l m : list nd) {struct l} : list nd :=
              match l, m with a :: l', b :: m' => nadd a b :: go l' m' | _, _ => [] end) l m)
  | _, _ => Arr []
  end.

Lemma nadd_arr l m : nadd (Arr l) (Arr m) = Arr (map2 nadd l m).
Proof.
  cbn [nadd]. f_equal. revert m. induction l as [|a l IH]; intros [|b m]; cbn [map2]; try reflexivity.
  rewrite IH. reflexivity.
Qed.

(* same shape *)
Fixpoint same (x y : nd) {struct x} : bool :=
  match x, y with
  | Sc _, Sc _ => true
  | Arr l, Arr m =>
      (fix go (l m : list nd) {struct l} : bool :=
         match l, m with [] , [] => true | a :: l', b :: m' => same a b && go l' m' | _, _ => false end) l m
  | _, _ => false
  end.
Fixpoint all2 {X Y} (f : X -> Y -> bool) (a : list X) (b : list Y) : bool :=
  match a, b with [], [] => true | x :: a', y :: b' => f x y && all2 f a' b' | _, _ => false end.
Lemma same_arr l m : same (Arr l) (Arr m) = all2 same l m.
Proof.
  cbn [same]. revert m. induction l as [|a l IH]; intros [|b m]; cbn [all2]; try reflexivity.
  rewrite IH. reflexivity.
Qed.

Fixpoint nzero_like (x : nd) : nd :=
  match x with Sc _ => Sc 0 | Arr l => Arr (map nzero_like l) end.
Fixpoint is_zero (x : nd) : bool :=
  match x with Sc q => if Qc_eq_dec q 0 then true else false | Arr l => forallb is_zero l end.

Lemma nadd_comm : forall x y, nadd x y = nadd y x.
Proof.
  induction x as [a|l IH] using nd_ind'; intros [b|m]; try reflexivity.
  - cbn [nadd]. f_equal. apply Qcplus_comm.
  - rewrite !nadd_arr. f_equal. revert m. induction IH as [|a l Ha _ IHl]; intros [|b m]; cbn [map2]; try reflexivity.
    rewrite Ha, IHl. reflexivity.
Qed.

Lemma map2_nil_r {X Y Z} (f : X -> Y -> Z) l : map2 f l [] = [].
Proof. destruct l; reflexivity. Qed.
Lemma nadd_assoc : forall x y z, nadd x (nadd y z) = nadd (nadd x y) z.
Proof.
  induction x as [a|l IH] using nd_ind'; intros [b|m] [d|n]; try reflexivity.
  - cbn [nadd]. f_equal. apply Qcplus_assoc.
  - change (nadd (Sc b) (Arr n)) with (Arr []). rewrite nadd_arr, map2_nil_r. reflexivity.
  - change (nadd (Arr m) (Sc d)) with (Arr []). rewrite !nadd_arr, map2_nil_r. reflexivity.
  - rewrite !nadd_arr. f_equal. revert m n.
    induction IH as [|a l Ha _ IHl]; intros [|b m] [|d n]; cbn [map2]; try reflexivity.
    rewrite Ha, IHl. reflexivity.
Qed.

Lemma same_refl : forall x, same x x = true.
Proof.
  induction x as [a|l IH] using nd_ind'; [reflexivity|]. rewrite same_arr.
  induction IH as [|a l Ha _ IHl]; cbn [all2]; [reflexivity|]. rewrite Ha, IHl. reflexivity.
Qed.
Lemma same_sym : forall x y, same x y = same y x.
Proof.
  induction x as [a|l IH] using nd_ind'; intros [b|m]; try reflexivity. rewrite !same_arr.
  revert m. induction IH as [|a l Ha _ IHl]; intros [|b m]; cbn [all2]; try reflexivity.
  rewrite Ha, IHl. reflexivity.
Qed.
Lemma same_trans : forall x y z, same x y = true -> same y z = true -> same x z = true.
Proof.
  induction x as [a|l IH] using nd_ind'; intros [b|m] [d|n]; try discriminate; try reflexivity.
  rewrite !same_arr. revert m n.
  induction IH as [|a l Ha _ IHl]; intros [|b m] [|d n]; cbn [all2]; try discriminate; try reflexivity.
  intros H1 H2. apply andb_prop in H1 as [H1a H1b]. apply andb_prop in H2 as [H2a H2b].
  rewrite (Ha _ _ H1a H2a), (IHl _ _ H1b H2b). reflexivity.
Qed.
Lemma same_zero_like : forall x, same (nzero_like x) x = true.
Proof.
  induction x as [a|l IH] using nd_ind'; [reflexivity|]. cbn [nzero_like]. rewrite same_arr.
  induction IH as [|a l Ha _ IHl]; cbn [all2 map]; [reflexivity|]. rewrite Ha, IHl. reflexivity.
Qed.

Lemma nadd_same : forall x y, same x y = true -> same (nadd x y) x = true.
Proof.
  induction x as [a|l IH] using nd_ind'; intros [b|m]; try discriminate; [reflexivity|].
  rewrite same_arr, nadd_arr, same_arr. revert m.
  induction IH as [|a l Ha _ IHl]; intros [|b m]; cbn [all2 map2]; try discriminate; [reflexivity|].
  intros H. apply andb_prop in H as [H1 H2]. rewrite (Ha _ H1), (IHl _ H2). reflexivity.
Qed.

(* a zero array is neutral on arrays of its shape *)
Lemma nadd_zero_l : forall z x, is_zero z = true -> same z x = true -> nadd z x = x.
Proof.
  induction z as [a|l IH] using nd_ind'; intros [b|m]; try discriminate.
  - cbn [is_zero nadd]. destruct (Qc_eq_dec a 0) as [->|]; [|discriminate]. intros _ _. f_equal. apply Qcplus_0_l.
  - cbn [is_zero]. rewrite same_arr, nadd_arr. intros Hz Hs. f_equal. revert m Hz Hs.
    induction IH as [|a l Ha _ IHl]; intros [|b m]; cbn [all2 map2 forallb]; try discriminate; [reflexivity|].
    intros Hz Hs. apply andb_prop in Hz as [Hz1 Hz2]. apply andb_prop in Hs as [Hs1 Hs2].
    rewrite (Ha _ Hz1 Hs1), (IHl _ Hz2 Hs2). reflexivity.
Qed.
Lemma nadd_zero_r z x : is_zero z = true -> same z x = true -> nadd x z = x.
Proof. intros. rewrite nadd_comm. apply nadd_zero_l; assumption. Qed.

(* constructors *)
Definition nvec (l : list Qc) : nd := Arr (map Sc l).
Definition nmat (l : list (list Qc)) : nd := Arr (map nvec l).
Definition nzeros (n : nat) : nd := nvec (repeat 0 n).
Definition nzeros2 (r k : nat) : nd := Arr (repeat (nzeros k) r).
Lemma is_zero_nzeros n : is_zero (nzeros n) = true.
Proof. unfold nzeros, nvec. cbn [is_zero]. induction n; cbn; [reflexivity|]. destruct (Qc_eq_dec 0 0); [assumption|congruence]. Qed.
Lemma is_zero_nzeros2 r k : is_zero (nzeros2 r k) = true.
Proof. unfold nzeros2. cbn [is_zero]. induction r; cbn [repeat forallb]; [reflexivity|]. rewrite is_zero_nzeros, IHr. reflexivity. Qed.

(* destructors with defaults (used by gamma functions; shapes are guaranteed by [same]) *)
Definition nsc (x : nd) : Qc := match x with Sc q => q | Arr _ => 0 end.
Definition narr (x : nd) : list nd := match x with Arr l => l | Sc _ => [] end.
Definition nlist (x : nd) : list Qc := map nsc (narr x).
Definition nrows (x : nd) : list (list Qc) := map nlist (narr x).
Definition nget (i : nat) (x : nd) : nd := nth i (narr x) (Sc 0).

Fixpoint nd_val (x : nd) : val :=
  match x with Sc q => vq q | Arr l => VL (map nd_val l) end.

Lemma nlist_nvec l : nlist (nvec l) = l.
Proof. unfold nlist, nvec. cbn [narr]. rewrite map_map. cbn [nsc]. apply map_id. Qed.
