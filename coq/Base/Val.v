(* Universal value type of the correspondence harness (DESIGN 3.6): the only thing the OCaml
   driver parses and prints.  Typed decoders live here, in Coq. *)
From Coq Require Import ZArith List Bool QArith Qcanon String.
Import ListNotations.
Open Scope string_scope.

Inductive val :=
| VZ (z : Z)
| VQ (n : Z) (d : positive)
| VB (b : bool)
| VL (l : list val)
| VT (t : string) (l : list val).

Definition vnone : val := VT "none" [].
Definition verr (k : string) : val := VT "err" [VT k []].
Definition vbad : val := VT "badcase" [].

Definition vq (q : Qc) : val := VQ (Qnum (this q)) (Qden (this q)).
Definition mkq (n : Z) (d : positive) : Qc := Q2Qc (Qmake n d).

Definition as_Z (v : val) : option Z := match v with VZ z => Some z | _ => None end.
Definition as_nat (v : val) : option nat := match v with VZ z => Some (Z.to_nat z) | _ => None end.
Definition as_B (v : val) : option bool :=
  match v with VB b => Some b | VZ z => Some (negb (Z.eqb z 0)) | _ => None end.
Definition as_Q (v : val) : option Qc :=
  match v with VQ n d => Some (mkq n d) | VZ z => Some (mkq z 1) | _ => None end.
Definition as_L (v : val) : option (list val) := match v with VL l => Some l | _ => None end.

Fixpoint omap {A B} (f : A -> option B) (l : list A) : option (list B) :=
  match l with
  | [] => Some []
  | x :: r => match f x, omap f r with Some y, Some ys => Some (y :: ys) | _, _ => None end
  end.

Definition as_list {A} (f : val -> option A) (v : val) : option (list A) :=
  match v with VL l => omap f l | _ => None end.
Definition as_pair {A B} (f : val -> option A) (g : val -> option B) (v : val) : option (A * B) :=
  match v with
  | VL [a; b] => match f a, g b with Some x, Some y => Some (x, y) | _, _ => None end
  | _ => None end.
Definition as_opt {A} (f : val -> option A) (v : val) : option (option A) :=
  match v with
  | VT t [] => if String.eqb t "none" then Some None else None
  | _ => match f v with Some x => Some (Some x) | None => None end
  end.

Definition vlistZ (l : list Z) : val := VL (map VZ l).
Definition vlistQ (l : list Qc) : val := VL (map vq l).
Definition vopt {A} (f : A -> val) (o : option A) : val := match o with Some x => f x | None => vnone end.

(* structural equality (used by the in-Coq cross-check of extraction) *)
Fixpoint val_eqb (a b : val) {struct a} : bool :=
  let fix leq (l1 l2 : list val) {struct l1} : bool :=
    match l1, l2 with
    | [], [] => true
    | x :: r1, y :: r2 => val_eqb x y && leq r1 r2
    | _, _ => false
    end in
  match a, b with
  | VZ x, VZ y => Z.eqb x y
  | VQ n d, VQ n' d' => Z.eqb n n' && Pos.eqb d d'
  | VB x, VB y => Bool.eqb x y
  | VL l1, VL l2 => leq l1 l2
  | VT t1 l1, VT t2 l2 => String.eqb t1 t2 && leq l1 l2
  | _, _ => false
  end.
