(* Extended rationals: the IEEE conventions that documented behaviour depends on (0/0 = NaN,
   x/0 = +-inf, nan_to_num), made explicit so that convention theorems are not true by
   totalisation (Coq's x/0 = 0).  Also the symbolic result trees for log/exp/sqrt. *)
From Coq Require Import ZArith List Bool QArith Qcanon String.
From TE Require Import Base.Val.
Import ListNotations.
Open Scope Qc_scope.

Inductive xq := Fin (q : Qc) | NaN | PInf | NInf.

Definition qlt (a b : Qc) : bool := match a ?= b with Lt => true | _ => false end.
Definition qle (a b : Qc) : bool := match a ?= b with Gt => false | _ => true end.
Definition qeq (a b : Qc) : bool := if Qc_eq_dec a b then true else false.
Definition qmax (a b : Qc) : Qc := if qlt a b then b else a.
Definition qmin (a b : Qc) : Qc := if qlt b a then b else a.
Definition qabs (a : Qc) : Qc := if qlt a 0 then - a else a.

(* division of finite numbers with IEEE results *)
Definition qdivx (a b : Qc) : xq :=
  if qeq b 0 then (if qeq a 0 then NaN else if qlt 0 a then PInf else NInf) else Fin (a / b).

Definition xdiv (a b : xq) : xq :=
  match a, b with
  | Fin a, Fin b => qdivx a b
  | NaN, _ | _, NaN => NaN
  | Fin _, (PInf | NInf) => Fin 0
  | _, _ => NaN
  end.
Definition xadd (a b : xq) : xq :=
  match a, b with
  | Fin a, Fin b => Fin (a + b)
  | NaN, _ | _, NaN => NaN
  | PInf, NInf | NInf, PInf => NaN
  | PInf, _ | _, PInf => PInf
  | NInf, _ | _, NInf => NInf
  end.
Definition xmul (a b : xq) : xq :=
  match a, b with
  | Fin a, Fin b => Fin (a * b)
  | NaN, _ | _, NaN => NaN
  | Fin q, (PInf as i) | (PInf as i), Fin q | Fin q, (NInf as i) | (NInf as i), Fin q =>
      if qeq q 0 then NaN else if Bool.eqb (qlt 0 q) (match i with PInf => true | _ => false end) then PInf else NInf
  | PInf, PInf | NInf, NInf => PInf
  | _, _ => NInf
  end.
Definition nan_to_zero (a : xq) : xq := match a with NaN => Fin 0 | _ => a end.
Definition is_nan (a : xq) : bool := match a with NaN => true | _ => false end.

(* mean of a list (sum / n), NaN on the empty list as torch.mean does *)
Definition xsum (l : list xq) : xq := fold_left xadd l (Fin 0).
Definition xmean (l : list xq) : xq := xdiv (xsum l) (Fin (mkq (Z.of_nat (List.length l)) 1)).

Definition xq_val (a : xq) : val :=
  match a with Fin q => vq q | NaN => VT "nan" [] | PInf => VT "pinf" [] | NInf => VT "ninf" [] end.
Definition vlistX (l : list xq) : val := VL (map xq_val l).

(* symbolic transcendental results: evaluated by the harness with mpmath *)
Definition rln (x : val) : val := VT "ln" [x].
Definition rlog10 (x : val) : val := VT "log10" [x].
Definition rlog2 (x : val) : val := VT "log2" [x].
Definition rexp (x : val) : val := VT "exp" [x].
Definition rsqrt (x : val) : val := VT "sqrt" [x].
Definition radd (x y : val) : val := VT "add" [x; y].
Definition rsub (x y : val) : val := VT "sub" [x; y].
Definition rmul (x y : val) : val := VT "mul" [x; y].
Definition rdiv (x y : val) : val := VT "div" [x; y].
Definition rpow (x y : val) : val := VT "pow" [x; y].
Definition rneg (x : val) : val := VT "neg" [x].
